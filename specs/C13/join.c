/* units: pika::thread::join / detach / joinable (+ joinable_locked, detach_locked lifted as helpers)   (M + T)
 *
 * Protected state: id_ (reference to the target task; invalid_thread_id = not joinable), protected by the handle's
 * spinlock mtx_.  Other agents may use the same handle while the lock is free (detach it, move a new thread in):
 * id_ is arbitrary at every (re)acquisition.
 * Ghost:
 *   g_id0          id_ found in the first critical section of the call ("the thread being joined")
 *   g_adds         calls of threads::detail::add_thread_exit_callback; g_add_target / g_add_cb its arguments;
 *                  g_accepted its result
 *   g_suspends     calls of this_thread::suspend
 *   g_target_done  "the target's thread function has returned" (only ever learnt from the two stubs below)
 */
#include "c13.h"

struct cbind { void (*fn)(tid_t); tid_t arg; }; /* util::detail::bind_front(&resume_thread, id) */
static struct vx_mutex *g_mtx;
static tid_t *g_idp;      /* &self->id_ */
static tid_t g_id0, g_self_id, g_add_target;
static int g_acquires, g_adds, g_suspends, g_ipoints, g_suspend_state;
static bool g_accepted, g_target_done, g_suspended_unlocked;
static struct cbind g_add_cb;

#define MON_AT_RELEASE() do { } while (0) /* no invariant ties id_ to anything else */
#define MON_AT_ACQUIRE() do { *g_idp = nondet_long(); if (g_acquires == 0) g_id0 = *g_idp; if (g_acquires < 2) g_acquires++; } while (0)
#include "monitor.h"

struct pika_thread { struct vx_mutex mtx_; tid_t id_; };

/* ---- callee stubs ------------------------------------------------------------------------------------------- */
static tid_t get_self_id(void) { return g_self_id; }
static void resume_thread(tid_t id) { } /* thread.cpp resume_thread: set_thread_state(id, pending); only its address is used here */
static struct cbind cb_bind(void (*fn)(tid_t), tid_t arg) { struct cbind c; c.fn = fn; c.arg = arg; return c; }
/* this_thread::interruption_point(): may deliver a pending interruption (unit thread_data.interruption_point) */
static void this_thread_interruption_point(void)
{
  if (g_ipoints < 2) g_ipoints++;
  if (nondet_bool()) vx_throw(EXC_thread_interrupted);
}
/* threads::detail::add_thread_exit_callback(id, f): contract proved in unit exitcb.add -- refused iff the callbacks
 * already ran or the target is terminated; both imply that the target's thread function has returned
 * (run_thread_exit_callbacks is called after the body, unit thread.nullary; `terminated` is set by the scheduling
 * loop after the thread function returned). */
static bool add_thread_exit_callback(tid_t id, struct cbind f)
{
  VX_ASSERT(id != invalid_thread_id, "add_thread_exit_callback on a null thread id (null_thread_id error)");
  if (g_adds < 2) g_adds++;
  g_add_target = id;
  g_add_cb = f;
  g_accepted = nondet_bool();
  if (!g_accepted) VX_ASSUME(g_target_done); /* refused ==> ran_exit_funcs_ || terminated ==> body finished */
  return g_accepted;
}
/* this_thread::suspend(state, description).  TRUSTED: a task suspended with state `suspended` runs again only when
 * somebody sets it pending -- here only the registered exit callback (resume_thread), which
 * run_thread_exit_callbacks invokes after the body; or the wait is aborted/interrupted, which surfaces as an
 * exception.  A `pending` suspension is a mere yield and says nothing about the target. */
static void this_thread_suspend(int state, const char *desc)
{
  VX_ASSERT(!g_mtx->held, "suspends while holding the handle's spinlock mtx_");
  g_suspended_unlocked = !g_mtx->held;
  if (g_suspends < 2) g_suspends++;
  g_suspend_state = state;
  if (nondet_bool()) { if (nondet_bool()) vx_throw_pika(pika_error_yield_aborted); else vx_throw(EXC_thread_interrupted); return; }
  if (state == thread_schedule_state_suspended)
  {
    VX_ASSERT(g_accepted, "suspends without an accepted exit callback: nobody will ever resume the joiner");
    g_target_done = true;
  }
}

/* ---- lifted helpers (thread.hpp) ---------------------------------------------------------------------------- */
bool joinable_locked(struct pika_thread *self)
//@LIFT joinable_locked
void detach_locked(struct pika_thread *self)
//@LIFT detach_locked

#define JOIN_FRAME self->id_, self->mtx_.held, vx_exc, vx_err, g_throws, g_id0, g_acquires, g_adds, g_suspends, g_ipoints, g_suspend_state, \
  g_accepted, g_target_done, g_suspended_unlocked, g_add_target, g_add_cb
#define PRE (g_mtx == &self->mtx_ && g_idp == &self->id_ && !self->mtx_.held && vx_exc == EXC_none && g_throws == 0 && \
             g_acquires == 0 && g_adds == 0 && g_suspends == 0 && g_ipoints == 0)
#define THROWN_PIKA(e) (vx_exc == EXC_pika_exception && vx_err == (e))

#ifdef U_JOIN
//@FUNC
void join(struct pika_thread *self)
__CPROVER_requires(PRE)
/* not joinable ==> invalid_status, self-join ==> thread_resource_error; both without state change and without waiting */
__CPROVER_ensures(g_id0 == invalid_thread_id ==> (THROWN_PIKA(pika_error_invalid_status) && self->id_ == g_id0 && g_adds == 0 && g_suspends == 0))
__CPROVER_ensures((g_id0 != invalid_thread_id && g_id0 == g_self_id) ==> (THROWN_PIKA(pika_error_thread_resource_error) && self->id_ == g_id0 && g_adds == 0 && g_suspends == 0))
/* ... and these errors are reported only then */
__CPROVER_ensures((THROWN_PIKA(pika_error_invalid_status) || THROWN_PIKA(pika_error_thread_resource_error)) ==> (g_id0 == invalid_thread_id || g_id0 == g_self_id))
/* otherwise (and unless an interruption / abort was delivered at one of the two interruption points): one exit callback
 * resuming the caller is offered to the joined thread, the caller suspends iff it was accepted, ... */
__CPROVER_ensures(vx_exc == EXC_none ==> (g_adds == 1 && g_add_target == g_id0 && g_add_cb.fn == resume_thread && g_add_cb.arg == g_self_id))
__CPROVER_ensures(vx_exc == EXC_none ==> (g_suspends == (g_accepted ? 1 : 0) && (!g_accepted || g_suspend_state == thread_schedule_state_suspended)))
/* ... the handle ends not joinable, and the target's thread function has returned (L7) */
__CPROVER_ensures(vx_exc == EXC_none ==> (self->id_ == invalid_thread_id && g_target_done))
__CPROVER_ensures(!self->mtx_.held)
__CPROVER_assigns(JOIN_FRAME)
//@LIFT body
#endif

#ifdef U_DETACH
//@FUNC
void detach(struct pika_thread *self)
__CPROVER_requires(PRE)
__CPROVER_ensures(self->id_ == invalid_thread_id && !self->mtx_.held && vx_exc == EXC_none && g_acquires == 1)
__CPROVER_assigns(JOIN_FRAME)
//@LIFT body
#endif

#ifdef U_JOINABLE
//@FUNC
bool joinable(struct pika_thread *self)
__CPROVER_requires(PRE)
__CPROVER_ensures(__CPROVER_return_value == (g_id0 != invalid_thread_id) && self->id_ == g_id0 && !self->mtx_.held && vx_exc == EXC_none && g_acquires == 1)
__CPROVER_assigns(JOIN_FRAME)
//@LIFT body
#endif

void harness(void)
{
  struct pika_thread t;
  g_mtx = &t.mtx_;
  g_idp = &t.id_;
  t.mtx_.held = false;
  t.id_ = nondet_long();
  g_self_id = nondet_long();
  g_id0 = t.id_;
  g_target_done = nondet_bool();
  vx_exc = EXC_none;
  vx_err = 0;
  g_throws = 0; g_acquires = 0; g_adds = 0; g_suspends = 0; g_ipoints = 0;
  g_accepted = false;
  g_suspended_unlocked = false;
#ifdef U_JOIN
  bool done0 = g_target_done;
  join(&t);
  if (THROWN_PIKA(pika_error_invalid_status)) VX_REACH("not_joinable_error");
  if (THROWN_PIKA(pika_error_thread_resource_error)) VX_REACH("self_join_error");
  if (vx_exc == EXC_thread_interrupted && g_adds == 0) VX_REACH("interrupted_before_registering");
  if (vx_exc != EXC_none && g_suspends == 1) VX_REACH("wait_aborted");
  if (vx_exc == EXC_none && g_suspends == 1) VX_REACH("joined_after_suspending");
  if (vx_exc == EXC_none && g_suspends == 0) VX_REACH("joined_target_already_done");
  if (vx_exc == EXC_none && !done0) VX_REACH("joined_target_was_running");
#endif
#ifdef U_DETACH
  detach(&t);
  VX_REACH("detached");
#endif
#ifdef U_JOINABLE
  if (joinable(&t)) VX_REACH("joinable"); else VX_REACH("not_joinable");
#endif
}
