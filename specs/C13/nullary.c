/* units: pika::thread::thread_function_nullary, thread.cpp's static run_thread_exit_callbacks,
 *        thread_data::interruption_point, jthread::~jthread                                         (T + F) */
#include "c13.h"

/* ------------------------------------------------------------------------------------------------------------- */
#if defined(U_NULLARY)
typedef int ufunc_t; /* util::detail::unique_function<void()>: opaque */
struct thread_result { int state; tid_t id; };
static struct thread_result thread_result_make(int s, tid_t id) { struct thread_result r; r.state = s; r.id = id; return r; }
#define VX_RET_DEFAULT thread_result_make(thread_schedule_state_unknown, invalid_thread_id) /* value is never looked at: an exception is in flight */

static int g_body_calls, g_body_exc, g_body_err, g_runs, g_lockchecks;
static bool g_body_done;

/* func(): the user's thread body.  It returns, or leaves by thread_interrupted (delivered at an interruption point
 * inside it), by a pika::exception with any error code, or by a foreign exception (not decided). */
static void call_body(ufunc_t f)
{
  if (g_body_calls < 2) g_body_calls++;
  int k = nondet_int();
  g_body_done = true;
  g_body_exc = EXC_none;
  if (k == EXC_thread_interrupted) { g_body_exc = k; vx_throw(k); }
  else if (k == EXC_pika_exception) { g_body_exc = k; g_body_err = nondet_int(); vx_throw_pika(g_body_err); }
  else if (k == EXC_foreign) { g_body_exc = k; vx_throw(k); }
}
/* util::force_error_on_lock(): TRUSTED not to throw (it is empty unless PIKA_HAVE_VERIFY_LOCKS) */
static void force_error_on_lock(void) { if (g_lockchecks < 2) g_lockchecks++; }
/* thread.cpp's static run_thread_exit_callbacks() (unit thread.run_exit_callbacks) */
static void run_thread_exit_callbacks(void)
{
  VX_ASSERT(g_body_done, "exit callbacks run before the thread body has finished");
  VX_ASSERT(vx_exc == EXC_none, "callee entered while an exception is in flight");
  if (g_runs < 2) g_runs++;
}

//@FUNC
struct thread_result thread_function_nullary(ufunc_t func)
__CPROVER_requires(vx_exc == EXC_none && g_throws == 0 && g_body_calls == 0 && g_runs == 0 && !g_body_done && g_lockchecks == 0)
__CPROVER_ensures(g_body_calls == 1)
/* the exit callbacks are run (once, after the body -- order asserted in the stub) on the normal, the interrupted and the pika::exception path */
__CPROVER_ensures(g_body_exc != EXC_foreign ==> g_runs == 1)
/* normal return and interruption both end the thread quietly: terminated, nothing propagates */
__CPROVER_ensures((g_body_exc == EXC_none || g_body_exc == EXC_thread_interrupted) ==> (vx_exc == EXC_none && __CPROVER_return_value.state == thread_schedule_state_terminated && __CPROVER_return_value.id == invalid_thread_id))
/* a pika::exception is passed on unchanged */
__CPROVER_ensures(g_body_exc == EXC_pika_exception ==> (vx_exc == EXC_pika_exception && vx_err == g_body_err))
__CPROVER_assigns(vx_exc, vx_err, vx_caught, vx_caught_err, g_throws, g_body_calls, g_body_exc, g_body_err, g_runs, g_lockchecks, g_body_done)
//@LIFT body

void harness(void)
{
  vx_exc = EXC_none; g_throws = 0; g_body_calls = 0; g_runs = 0; g_body_done = false; g_lockchecks = 0;
  struct thread_result r = thread_function_nullary(nondet_int());
  if (g_body_exc == EXC_none) VX_REACH("body_returned");
  if (g_body_exc == EXC_thread_interrupted) VX_REACH("body_interrupted");
  if (g_body_exc == EXC_pika_exception) VX_REACH("body_threw_pika_exception");
  if (g_body_exc == EXC_foreign) VX_REACH("body_threw_foreign_exception");
}
#endif

/* ------------------------------------------------------------------------------------------------------------- */
#if defined(U_RUN_EXIT)
static tid_t g_self_id, g_run_id, g_free_id;
static int g_runs, g_frees;
static bool g_free_after_run;
static tid_t get_self_id(void) { return g_self_id; }
/* threads::detail::run_thread_exit_callbacks(id) / free_thread_exit_callbacks(id) (thread_helpers.cpp: forward to the
 * thread_data members, units exitcb.run / exitcb.free; they throw null_thread_id for a null id) */
static void td_run_thread_exit_callbacks(tid_t id)
{
  VX_ASSERT(id != invalid_thread_id, "run_thread_exit_callbacks on a null thread id");
  if (g_runs < 2) g_runs++;
  g_run_id = id;
}
static void td_free_thread_exit_callbacks(tid_t id)
{
  VX_ASSERT(id != invalid_thread_id, "free_thread_exit_callbacks on a null thread id");
  g_free_after_run = g_runs > 0; /* exitcb.free requires ran_exit_funcs_ */
  if (g_frees < 2) g_frees++;
  g_free_id = id;
}
//@FUNC
void run_thread_exit_callbacks(void)
__CPROVER_requires(vx_exc == EXC_none && g_throws == 0 && g_runs == 0 && g_frees == 0)
__CPROVER_ensures(g_self_id != invalid_thread_id ==> (vx_exc == EXC_none && g_runs == 1 && g_run_id == g_self_id && g_frees == 1 && g_free_id == g_self_id && g_free_after_run))
__CPROVER_ensures(g_self_id == invalid_thread_id ==> (vx_exc == EXC_pika_exception && vx_err == pika_error_null_thread_id && g_runs == 0 && g_frees == 0))
__CPROVER_assigns(vx_exc, vx_err, g_throws, g_runs, g_frees, g_run_id, g_free_id, g_free_after_run)
//@LIFT body

void harness(void)
{
  vx_exc = EXC_none; g_throws = 0; g_runs = 0; g_frees = 0;
  g_self_id = nondet_long();
  run_thread_exit_callbacks();
  if (vx_exc == EXC_none) VX_REACH("ran_and_freed"); else VX_REACH("null_id_error");
}
#endif

/* ------------------------------------------------------------------------------------------------------------- */
#if defined(U_IPOINT)
struct thread_data { bool enabled_interrupt_; bool requested_interrupt_; };
static int g_lockchecks;
static void force_error_on_lock(void) { if (g_lockchecks < 2) g_lockchecks++; } /* TRUSTED not to throw */
#define WANTED (__CPROVER_old(self->enabled_interrupt_) && __CPROVER_old(self->requested_interrupt_))
//@FUNC
bool interruption_point(struct thread_data *self, bool throw_on_interrupt)
__CPROVER_requires(vx_exc == EXC_none && g_throws == 0)
/* throws thread_interrupted iff interruption is enabled and requested (and the caller asked for the throwing form) ... */
__CPROVER_ensures((vx_exc == EXC_thread_interrupted) == (WANTED && throw_on_interrupt))
__CPROVER_ensures(vx_exc == EXC_thread_interrupted || vx_exc == EXC_none)
/* ... clearing the request */
__CPROVER_ensures(vx_exc == EXC_thread_interrupted ==> !self->requested_interrupt_)
/* otherwise it only reports */
__CPROVER_ensures(vx_exc == EXC_none ==> (__CPROVER_return_value == WANTED && self->requested_interrupt_ == __CPROVER_old(self->requested_interrupt_)))
__CPROVER_ensures(self->enabled_interrupt_ == __CPROVER_old(self->enabled_interrupt_))
__CPROVER_assigns(vx_exc, vx_err, g_throws, g_lockchecks, self->requested_interrupt_)
//@LIFT body

void harness(void)
{
  struct thread_data td;
  td.enabled_interrupt_ = nondet_bool();
  td.requested_interrupt_ = nondet_bool();
  vx_exc = EXC_none; g_throws = 0;
  bool en = td.enabled_interrupt_, rq = td.requested_interrupt_;
  bool r = interruption_point(&td, nondet_bool());
  if (vx_exc == EXC_thread_interrupted) VX_REACH("interrupted");
  if (vx_exc == EXC_none && r) VX_REACH("reported_only");
  if (vx_exc == EXC_none && !r && rq && !en) VX_REACH("requested_but_disabled");
  if (vx_exc == EXC_none && !r && !rq) VX_REACH("not_requested");
}
#endif

/* ------------------------------------------------------------------------------------------------------------- */
#if defined(U_JTHREAD_DTOR)
struct jthread { bool thread_joinable; }; /* thread_ is behind thread.join / thread.joinable; ssource_ behind C14 */
static int g_stops, g_joins;
static bool g_stop_requested, g_stop_before_join;
static bool jthread_joinable(struct jthread *self) { return self->thread_joinable; }
static bool jthread_request_stop(struct jthread *self)
{
  if (g_stops < 2) g_stops++;
  g_stop_requested = true;
  return true;
}
static void jthread_join(struct jthread *self)
{
  VX_ASSERT(self->thread_joinable, "join on a handle that is not joinable (invalid_status would escape a destructor)");
  if (g_joins < 2) g_joins++;
  g_stop_before_join = g_stop_requested;
  self->thread_joinable = false; /* thread.join: ends not joinable */
}
//@FUNC
void jthread_dtor(struct jthread *self)
__CPROVER_requires(g_stops == 0 && g_joins == 0 && !g_stop_requested && !g_stop_before_join)
/* joins iff joinable, having requested stop first */
__CPROVER_ensures(g_joins == (__CPROVER_old(self->thread_joinable) ? 1 : 0))
__CPROVER_ensures(__CPROVER_old(self->thread_joinable) ==> g_stop_before_join)
__CPROVER_ensures(!self->thread_joinable)
__CPROVER_assigns(g_stops, g_joins, g_stop_requested, g_stop_before_join, self->thread_joinable)
//@LIFT body

void harness(void)
{
  struct jthread j;
  j.thread_joinable = nondet_bool();
  g_stops = 0; g_joins = 0; g_stop_requested = false; g_stop_before_join = false;
  jthread_dtor(&j);
  if (g_joins == 1) VX_REACH("stop_requested_and_joined"); else VX_REACH("nothing_to_join");
}
#endif
