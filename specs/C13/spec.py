from vx.lift import Lift, Sub, Call, Members, Guard, DropStmt, Rule, LiftError, match_close
from vx.run import Unit

TD = "libs/pika/threading_base/src/thread_data.cpp"
TH = "libs/pika/threading/src/thread.cpp"
THH = "libs/pika/threading/include/pika/threading/thread.hpp"
JTH = "libs/pika/threading/include/pika/threading/jthread.hpp"

# ---------------------------------------------------------------------------------------------------------------
# unit group 1: the exit-callback monitor of thread_data

SCHED_ENUM = Sub(r"(?:\w+::)*thread_schedule_state::(\w+)", r"thread_schedule_state_\1", None)
# std::unique_lock<spinlock> l(spinlock_pool::spinlock_for(this));   /  std::lock_guard<spinlock> l(...);
# (fire count free: a function that forgets the lock must fail the lock-discipline obligations, not the extraction)
LOCK_DECL = Guard(r"std::(?:unique_lock|lock_guard|scoped_lock)\s*(?:<[^;()]*>)?\s*(\w+)\s*\(\s*spinlock_pool::spinlock_for\(this\)\s*\)\s*;",
                  r"struct ulock \1 = ulock_make(spinlock_for(self));", r"ulock_dtor(&\1);", None)
# pika::detail::unlock_guard<std::unique_lock<spinlock>> ul(l);  -> unlock now, re-lock at scope exit
UNLOCK_GUARD = Guard(r"(?:pika::)?(?:detail::)?unlock_guard\s*(?:<[^;()]*>)?\s*\w+\s*\(\s*(\w+)\s*\)\s*;",
                     r"ulock_unlock(&\1);", r"ulock_lock(&\1);", None)
# the container and the function objects stored in it (spelling only; which operation is applied where is the code's)
LIST_RULES = [
    Sub(r"\bexit_funcs_\.front\(\)", "VXFRONT", None),
    Sub(r"\bexit_funcs_\.(empty|pop_front|clear)\(\)", r"list_\1(&self->exit_funcs_)", None),
    Call(r"\bexit_funcs_\.push_front", "list_push_front(&self->exit_funcs_, {0})", None),
    Sub(r"(?:util::detail::function<void\(\)>|\bauto\b)\s*(?:const\s*)?&{0,2}", "cb_t ", None),   # local copies / references of a callback
    Sub(r"\b(VXFRONT|\w+)\.empty\(\)", r"cb_empty(\1)", None),
    Sub(r"(?<![\w.>:])(VXFRONT|(?!list_)\w+)\(\)\s*;", r"cb_call(\1);", None),
    Sub(r"\bVXFRONT\b", "list_front(&self->exit_funcs_)", None),
]

LOOP_RUN = """
__CPROVER_assigns(l.owns, RUN_FRAME)
__CPROVER_loop_invariant(l.owns && l.m == g_mtx && g_mtx->held && self == vx_self && !self->ran_exit_funcs_)
__CPROVER_loop_invariant(INV && VCONSIST && EXACT)
"""

EXITCB_FUNCS = TD + ": threads::detail::thread_data::"
UNITS = [
    Unit("exitcb.run", "exitcb.c", defines=["U_RUN"], enforce="run_thread_exit_callbacks",
         lifts={"body": Lift(TD, r"void thread_data::run_thread_exit_callbacks\(", rules=[
             UNLOCK_GUARD, LOCK_DECL] + LIST_RULES + [Members(["ran_exit_funcs_"], optional=["ran_exit_funcs_"])],
             loops={1: LOOP_RUN, "count": 1})},
         funcs=[EXITCB_FUNCS + "run_thread_exit_callbacks"], min_obligations=30,
         doc="M+T: every accepted callback (one symbolic victim) is executed exactly once, list empty when ran_exit_funcs_ is set; "
             "environment = concurrent add_thread_exit_callback calls at every point where the lock is free"),
    Unit("exitcb.add", "exitcb.c", defines=["U_ADD", "ENV_RUNNER"], enforce="add_thread_exit_callback",
         lifts={"body": Lift(TD, r"bool thread_data::add_thread_exit_callback\(", rules=[
             LOCK_DECL, Sub(r"\bget_state\(\)\.state\(\)", "thread_state_read(self)", None), SCHED_ENUM] + LIST_RULES + [
             Members(["ran_exit_funcs_"], optional=["ran_exit_funcs_"])])},
         funcs=[EXITCB_FUNCS + "add_thread_exit_callback"], min_obligations=15),
    Unit("exitcb.free", "exitcb.c", defines=["U_FREE"], enforce="free_thread_exit_callbacks",
         lifts={"body": Lift(TD, r"void thread_data::free_thread_exit_callbacks\(", rules=[
             LOCK_DECL] + LIST_RULES, post=[Members(["ran_exit_funcs_"], optional=["ran_exit_funcs_"])])},
         funcs=[EXITCB_FUNCS + "free_thread_exit_callbacks"], min_obligations=10),
]

# ---------------------------------------------------------------------------------------------------------------
# unit group 2: pika::thread::join / detach / joinable

NS = Sub(r"(?:pika::)?threads::detail::", "", None)
ERR_ENUM = Sub(r"(?:pika::)?error::(\w+)", r"pika_error_\1", None)


def throw_stmt(ret=""):
    """PIKA_THROW_EXCEPTION(code, where, msg...);  ->  record the exception, leave the function"""
    return Call(r"\bPIKA_THROW_EXCEPTION", "{ vx_throw_pika({0}); return %s; }" % ret, None, stmt=True)


def may_throw(head, stub, ret=""):
    """a callee that may throw: call the stub, leave the function if an exception is in flight"""
    return Call(head, "{ %s({args}); if (vx_exc) return %s; }" % (stub, ret), None, stmt=True)


LOCK_MTX = Guard(r"std::(?:unique_lock|lock_guard|scoped_lock)\s*(?:<[^;()]*>)?\s*(\w+)\s*\(\s*mtx_\s*\)\s*;",
                 r"struct ulock \1 = ulock_make(&self->mtx_);", r"ulock_dtor(&\1);", None)
HANDLE_RULES = [
    Sub(r"\b(joinable_locked|detach_locked)\(\)", r"\1(self)", None),
    NS, Members(["id_"], optional=["id_"]),
]
HELPERS = {
    "joinable_locked": Lift(THH, r"bool joinable_locked\(\) const", rules=HANDLE_RULES),
    "detach_locked": Lift(THH, r"void detach_locked\(\)", rules=HANDLE_RULES),
}
JOIN_RULES = [
    SCHED_ENUM, ERR_ENUM, throw_stmt(),
    may_throw(r"\bthis_thread::interruption_point", "this_thread_interruption_point"),
    may_throw(r"\bthis_thread::suspend", "this_thread_suspend"),
    UNLOCK_GUARD, LOCK_MTX,     # inner guard first: destructors then come out in reverse order of construction
    Sub(r"\b(\w+)\.unlock\(\)", r"ulock_unlock(&\1)", None),
    Sub(r"\bnative_handle_type\b", "tid_t", None),
    Sub(r"\bid_\.noref\(\)", "id_", None),
    Call(r"\butil::detail::bind_front", "cb_bind({args})", None),
] + HANDLE_RULES

THREAD_FUNCS = "pika::thread::"
UNITS += [
    Unit("thread.join", "join.c", defines=["U_JOIN"], enforce="join",
         lifts=dict(HELPERS, body=Lift(TH, r"void thread::join\(\)", rules=JOIN_RULES)),
         funcs=[TH + ": pika::thread::join", THH + ": pika::thread::joinable_locked, detach_locked"], min_obligations=30),
    Unit("thread.detach", "join.c", defines=["U_DETACH"], enforce="detach",
         lifts=dict(HELPERS, body=Lift(THH, r"void detach\(\)", rules=[LOCK_MTX] + HANDLE_RULES)),
         funcs=[THH + ": pika::thread::detach, detach_locked"], min_obligations=5),
    Unit("thread.joinable", "join.c", defines=["U_JOINABLE"], enforce="joinable",
         lifts=dict(HELPERS, body=Lift(THH, r"bool joinable\(\) const", rules=[LOCK_MTX] + HANDLE_RULES)),
         funcs=[THH + ": pika::thread::joinable, joinable_locked"], min_obligations=5),
]

# ---------------------------------------------------------------------------------------------------------------
# unit group 3/4: thread entry function, interruption_point, ~jthread


class TryCatchMulti(Rule):
    """try { A } catch (T1 ..) { B1 } catch (T2 ..) { B2 } ...   (local helper; vx.lift.TryCatch handles one clause only)
    ->  { { A' } vx_try_end_k: ; if (in flight) { if (VX_CATCHES_T1) { vx_catch(); B1 } else if ... } } if (vx_exc) VX_PROPAGATE;
    A' = A with every VX_PROPAGATE (emitted after may-throw calls) turned into a jump to the handlers."""

    def __init__(self, n=1):
        self.n = n

    def apply(self, text):
        k = 0
        while True:
            m = re.search(r"\btry\s*\{", text)
            if not m:
                break
            k += 1
            op = m.end() - 1
            cl = match_close(text, op, "{", "}")
            A = text[op + 1:cl].replace("VX_PROPAGATE", "goto vx_try_end_%d" % k)
            pos = cl + 1
            arms = []
            while True:
                mc = re.match(r"\s*catch\s*\(\s*(\.\.\.|(?:\w+::)*(\w+)\s*(?:const)?\s*&?\s*\w*)\s*\)\s*\{", text[pos:], re.S)
                if not mc:
                    break
                cop = pos + mc.end() - 1
                ccl = match_close(text, cop, "{", "}")
                arms.append(("all" if mc.group(1) == "..." else mc.group(2), text[cop + 1:ccl]))
                pos = ccl + 1
            if not arms:
                raise LiftError("try without catch clause")
            hs = " else ".join("if (VX_CATCHES_%s) { vx_catch(); %s }" % (t, b) for t, b in arms)
            rep = "{ { %s } vx_try_end_%d: ; if (vx_exc != EXC_none) { %s } } if (vx_exc) VX_PROPAGATE;" % (A, k, hs)
            text = text[:m.start()] + rep + text[pos:]
        self.check(k, "TryCatchMulti")
        return text


import re  # noqa: E402

RETHROW = Sub(r"\bthrow\s*;", "{ vx_rethrow(); VX_PROPAGATE; }", None)
THROW_OBJ = Sub(r"\bthrow\s+(?:\w+::)*(\w+)\s*\(\s*\)\s*;", r"{ vx_throw(EXC_\1); VX_PROPAGATE; }", None)


def propagate(ret):
    return Sub(r"\bVX_PROPAGATE\b", ("return " + ret).strip(), None)


UNITS += [
    Unit("thread.nullary", "nullary.c", defines=["U_NULLARY"], enforce="thread_function_nullary",
         lifts={"body": Lift(TH, r"thread::thread_function_nullary\(", rules=[
             SCHED_ENUM, NS, RETHROW,
             Call(r"(?<![\w.>:])func", "{ call_body(func); if (vx_exc) VX_PROPAGATE; }", None, stmt=True),
             TryCatchMulti(None),
             Sub(r"\butil::force_error_on_lock\b", "force_error_on_lock", None),
             Call(r"\bthread_result_type", "thread_result_make({args})", None),
             propagate("VX_RET_DEFAULT")])},
         funcs=[TH + ": pika::thread::thread_function_nullary"], min_obligations=10),
    Unit("thread.run_exit_callbacks", "nullary.c", defines=["U_RUN_EXIT"], enforce="run_thread_exit_callbacks",
         lifts={"body": Lift(TH, r"static void run_thread_exit_callbacks\(\)", rules=[
             Sub(r"\bthreads::detail::(run|free)_thread_exit_callbacks\s*\(", r"td_\1_thread_exit_callbacks(", None),
             ERR_ENUM, Call(r"\bPIKA_THROW_EXCEPTION", "{ vx_throw_pika({0}); return; }", None, stmt=True),
             NS, Sub(r"\bthread_id_type\b", "tid_t", None)])},
         funcs=[TH + ": pika::run_thread_exit_callbacks (static)"], min_obligations=8),
    Unit("thread_data.interruption_point", "nullary.c", defines=["U_IPOINT"], enforce="interruption_point",
         lifts={"body": Lift(TD, r"bool thread_data::interruption_point\(", rules=[
             THROW_OBJ, Sub(r"\butil::force_error_on_lock\b", "force_error_on_lock", None),
             Members(["enabled_interrupt_", "requested_interrupt_"], optional=["enabled_interrupt_", "requested_interrupt_"]),
             propagate("false")])},
         funcs=[TD + ": threads::detail::thread_data::interruption_point"], min_obligations=8),
    Unit("jthread.dtor", "nullary.c", defines=["U_JTHREAD_DTOR"], enforce="jthread_dtor",
         lifts={"body": Lift(JTH, r"~jthread\(\)", rules=[
             Sub(r"(?<![\w.>:])(joinable|request_stop|join)\(\)", r"jthread_\1(self)", None)])},
         funcs=[JTH + ": pika::jthread::~jthread"], min_obligations=5),
]

META = {
    "explanation":
        "Exit-callback monitor (exitcb.*): exit_funcs_ is a sequence stub (length + position of ONE symbolic callback, the "
        "victim, standing for any accepted callback); the environment (concurrent add_thread_exit_callback calls, which may "
        "include the call that offers the victim) acts at every lock (re)acquisition and before every container access made "
        "with the lock released. exitcb.run proves 'accepted => executed exactly once, list empty when ran_exit_funcs_ is set' "
        "with a loop contract (all list lengths, all interference). thread.join is checked against the contract of "
        "add_thread_exit_callback (stub) and a trusted suspend; exceptions are lowered to a pending-exception ghost "
        "(throw = record + leave; may-throw callee = call + leave if in flight; try/catch by the local TryCatchMulti rule). "
        "Defect D5 (front() read with the lock released, pop_front() afterwards) was found by exitcb.run and repaired in /repo "
        "by a fix: commit (known_findings.txt); reverting that commit makes exitcb.run fail again.",
    "trusted_base": [
        "specs/C13/exitcb.h list_* / cb_*: std::forward_list<function<void()>> as a sequence stub (front/pop_front/push_front/"
        "clear/empty on an abstract length with the ghost identity of one element); invoking a stored callback is opaque",
        "specs/C13/exitcb.h env_adders (VX_ASSUME x2): other threads only run add_thread_exit_callback on this thread_data, "
        "i.e. push k >= 0 callbacks at the front while !ran_exit_funcs_ (guarantee proved by exitcb.add); ghost list length < 10^9",
        "specs/C13/exitcb.h env_runner_and_adders / env_sched_state (VX_ASSUME x3): seen from add_thread_exit_callback the "
        "list/flag are arbitrary within INV with ran_exit_funcs_ monotone (guarantee of exitcb.run); the scheduling state "
        "changes arbitrarily except that `terminated` is final for this incarnation",
        "vx/prelude/monitor.h: spinlock / unique_lock / lock_guard / unlock_guard as a ghost 'held' bit (A-LOCK)",
        "specs/C13/join.c add_thread_exit_callback stub (VX_ASSUME x1): refused ==> the target's thread function has returned "
        "(from exitcb.add: refused iff ran_exit_funcs_ || terminated; ran_exit_funcs_ is only set by run_thread_exit_callbacks, "
        "which thread.nullary shows to run after the body; `terminated` is set by the scheduling loop after the thread function returned)",
        "specs/C13/join.c this_thread_suspend stub: a task suspended in state `suspended` runs again only through the registered "
        "exit callback (no spurious resumption; abort/interrupt surface as exceptions); resume_thread/bind_front are opaque",
        "specs/C13/nullary.c: util::force_error_on_lock does not throw (empty in the shipped configuration); thread body = "
        "returns | thread_interrupted | pika::exception | foreign exception; exception kinds and which handler catches which "
        "kind are hand-written (c13.h VX_CATCHES_*)",
        "specs/C13/nullary.c jthread stubs: thread_.joinable()/join() behind thread.joinable/thread.join, request_stop behind C14",
        "specs/C13/spec.py TryCatchMulti: local lowering rule for try with several catch clauses",
    ],
    "assumptions": [
        "one thread (the exiting thread itself) runs run_thread_exit_callbacks/free_thread_exit_callbacks on a thread_data; "
        "all other agents only call add_thread_exit_callback",
        "free_thread_exit_callbacks is decided for the call site after run_thread_exit_callbacks (ran_exit_funcs_ set); its "
        "calls from ~thread_data and rebind_base (quiescent object) are not decided",
        "ghost counters saturate at 2 ('0, 1, many'); ghost list length bounded by 10^9",
        "id_ of a pika::thread handle may be changed by other agents whenever mtx_ is free (detach / move-assignment)",
    ],
    "not_decided": [
        "that the resumed joiner actually runs (C02); foreign (non-pika) exceptions escaping the thread body: the exit "
        "callbacks are then NOT run by thread_function_nullary (no postcondition stated)",
        "thread::~thread, move assignment, swap, start_thread; this_thread::interruption_point -> thread_helpers plumbing "
        "(get_thread_id_data(id)->...); disable_interruption/restore_interruption; jthread move/swap",
        "memory ordering of the deliberately unsynchronised enabled_interrupt_/requested_interrupt_ flags",
    ],
}


# ---- handle life cycle (dtor / move / swap / start_thread), interruption plumbing and scope classes, jthread members:
# ---- written by a second sub-agent (specs/C13/more_spec.py) ---------------------------------------------------------------
exec(open("/verif/specs/C13/more_spec.py").read())
_MORE_DROP = {
    # two mirrored swaps / move assignments of the same pair of handles take the two locks in opposite order: concurrent use of one
    # handle from two threads is not part of C13 (observation in DESIGN.md 10.4), the units are not run
    "more.thread.swap.lock_order", "more.thread.move_assign.lock_order",
}
for _u in MORE_UNITS:
    if _u.name in _MORE_DROP:
        continue
    if _u.name == "more.thread.dtor":
        # stated assumption: the installed thread_termination_handler does not return (C13 says nothing about destroying a
        # joinable pika::thread; with a returning handler the destructor completes and PIKA_ASSERT(id_ == invalid) fails)
        _u.defines = list(_u.defines) + ["KF_HANDLER_NORETURN"]
    if _u.name == "more.jthread.move_assign":
        # stated precondition: the assigned-to jthread is not joinable (C13 speaks about destruction only; the defaulted move
        # assignment terminates the program when *this is joinable, contrary to the comment above it: observation)
        _u.defines = list(_u.defines) + ["KF_LHS_NOT_JOINABLE"]
    UNITS.append(_u)
for _k in ("trusted_base", "assumptions", "not_decided"):
    META[_k] = list(META.get(_k, [])) + list(MORE_META.get(_k, []))
META["assumptions"] += [
    "more.thread.dtor: the installed thread_termination_handler does not return",
    "more.jthread.move_assign: the jthread assigned to is not joinable",
]
STATIC = list(globals().get("STATIC", [])) + list(MORE_STATIC)


# ---- this_thread::suspend (added by main after seeded change C13-6 was missed): interruption points before AND after the yield ----
HLP_CPP = "libs/pika/threading_base/src/thread_helpers.cpp"
UNITS.append(Unit("hlp.suspend", "suspend.c", enforce="suspend", lifts={"body": Lift(HLP_CPP,
    r"thread_restart_state suspend\(\s*threads::detail::thread_schedule_state state, threads::detail::thread_id_type nextid,", rules=[
        DropStmt(r"\bPIKA_UNUSED", None),
        Sub(r"(?:threads::detail::)?thread_self& (\w+) = (?:threads::detail::)?get_self\(\);", r"struct coroutine_self *\1 = get_self();", 1),
        Sub(r"(?:threads::detail::)?thread_id_ref_type (\w+) = (\w+)\.get_thread_id\(\);", r"struct td *\1 = coroutine_get_thread_id(\2);", 1),
        Sub(r"\b(\w+)\.noref\(\)", r"\1", None),
        Call(r"(?:threads::detail::)?interruption_point(?!\s*\(\s*id, ec\); if)", "{ interruption_point({0}, {1}); if (vx_exc) return RS_unknown; }", None, stmt=True),
        Sub(r"\bif \(ec\)", "if (ec_failed(ec))", None),
        Sub(r"(?:pika::)?(?:threads::detail::)?thread_restart_state::(\w+)", r"RS_\1", None),
        Sub(r"(?:pika::)?(?:threads::detail::)?thread_restart_state (\w+) =", r"int \1 =", None),
        Sub(r"get_thread_id_data\((\w+)\)->get_scheduler_base\(\)", r"td_get_scheduler_base(\1)", None),
        Sub(r"\bauto\* (\w+) = td_get_scheduler_base", r"struct sched *\1 = td_get_scheduler_base", None),
        Sub(r"\b(\w+)->schedule_thread\(std::move\((\w+)\), execution::thread_schedule_hint\(\)\);", r"sched_schedule_thread(\1, \2);", None),
        Sub(r"\b(\w+)\.yield\(", r"coroutine_yield(\1, ", None),
        Call(r"(?:threads::detail::)?thread_result_type", "result_make({0}, {1})", None),
        Sub(r"(?:threads::detail::)?invalid_thread_id\b", "NULL", None),
        Sub(r"std::move\((\w+)\)", r"\1", None),
        Call(r"\bPIKA_THROWS_IF", "{ vx_throws_if({0}, ERR_YIELD_ABORTED); if (vx_exc) return RS_unknown; }", None, stmt=True),
        Sub(r"if \(&ec != &throws\) ec = make_success_code\(\);", "if (ec != &vx_throws_obj) ec->value = 0;", None),
    ])}, funcs=[HLP_CPP + ": pika::this_thread::suspend(state, nextid, description, ec)"], min_obligations=10,
    doc="T: an interruption request pending on entry or arriving while the task is suspended ends the call by thread_interrupted "
        "(interruption points before and after the yield); otherwise one hand-over, abort -> yield_aborted, anything else returned"))

# the timed overload, this_thread::suspend(abs_time, ...): the C02 unit (same template, same contract) is run here as well
_c02 = {"UNITS": [], "VX_NO_REUSE": True}
if not globals().get("VX_NO_REUSE"):     # reuse is never transitive: the other spec is loaded without ITS reuse blocks (no cycles)
    exec(compile(open("/verif/specs/C02/spec.py").read(), "/verif/specs/C02/spec.py", "exec"), _c02)
for _u in _c02["UNITS"]:
    if _u.name == "timed.suspend_until":
        _u.name = "c02." + _u.name
        _u.template = "../C02/" + _u.template
        UNITS.append(_u)
META["trusted_base"] = list(META.get("trusted_base", [])) + [
    "specs/C13/suspend.c: coroutine_self::yield / interruption_point / scheduler_base::schedule_thread / PIKA_THROWS_IF as stubs; the "
    "request flag of the running task as one ghost bool that another thread may set while the task is suspended",
    "unit c02.timed.suspend_until is the C02 unit of the same name (specs/C02/timed_suspend.c) with its trusted base"]

# ---- C12 unit reused (added after seeded change C13-7 was missed): join()/~jthread register an exit callback on the target's
# ---- thread_data, which is RECYCLED: add_thread_exit_callback refuses when ran_exit_funcs_ is set, so "join waits for the
# ---- thread function" needs rebind_base to hand out a descriptor whose exit-callback bookkeeping is that of a fresh one
_c12 = {"UNITS": [], "VX_NO_REUSE": True, "__name__": "c12_reuse"}
if not globals().get("VX_NO_REUSE"):     # reuse is never transitive: the other spec is loaded without ITS reuse blocks (no cycles)
    exec(compile(open("/verif/specs/C12/spec.py").read(), "/verif/specs/C12/spec.py", "exec"), _c12)
for _u in _c12["UNITS"]:
    if _u.name == "recycle.rebind_base":
        _u.name = "c12." + _u.name
        _u.template = "../C12/" + _u.template
        UNITS.append(_u)
META["trusted_base"] = list(META.get("trusted_base", [])) + [
    "unit c12.recycle.rebind_base is the C12 unit of the same name (specs/C12/recycle.c) with its trusted base"]


# ---- C02 units reused (added after seeded changes C13-9 / C06-9 / C08-9 were missed): every wake-up of a pika task blocked in this
# ---- facility ends in set_thread_state(pending); when the waiter still reads `active` (it has enqueued itself and dropped the internal
# ---- lock but its worker has not stored `suspended` yet) the wake-up is carried by the helper set_active_state, which may drop it only
# ---- when the target was re-activated since.  Same templates, same contracts as C02.
_c02s = {"UNITS": [], "VX_NO_REUSE": True}
if not globals().get("VX_NO_REUSE"):
    exec(compile(open("/verif/specs/C02/spec.py").read(), "/verif/specs/C02/spec.py", "exec"), _c02s)
for _u in _c02s["UNITS"]:
    if _u.name in ("sts.set_thread_state", "sts.set_active_state", "agent.do_resume", "agent.do_yield"):
        _u.name = "c02." + _u.name
        _u.template = "../C02/" + _u.template
        UNITS.append(_u)
META["trusted_base"] = list(META.get("trusted_base", [])) + ["units c02.sts.* / c02.agent.* are the C02 units of the same name (specs/C02/sts.c, c02.h) with their trusted base"]
