/* C15 units: affinity_data::init, the branch taken for --pika:bind=<compact|scatter|balanced|numa-balanced|explicit>:
 * masks are cleared before the decoders run (discharges the "called with cleared masks" hypothesis of the decode.* units)
 * and a configuration is ACCEPTED only if every worker got a non-empty mask (count_initialized == num_threads_, else
 * bad_parameter is thrown).  Together with the decode.* contracts ("a mask, once written, is the single-PU mask of an
 * in-mask pair") this gives "each worker is bound to exactly one PU" for every accepted configuration, unbounded.
 *
 * affinity_masks_ is abstracted to the victim worker g_k (c15.h): masks[g_k] == g_k_mask, others arbitrary. */
#include "c15.h"

struct affinity_data {
  size_t num_threads_;
  size_t affinity_masks_size;
  bool use_process_mask_;
};
static bool g_thrown;
static long g_parse_calls;
static size_t g_parse_nthreads;

/* ---- std::vector<mask_type> operations used by init / count_initialized ---- */
static void masks_clear(struct affinity_data *self) { self->affinity_masks_size = 0; }
static void masks_resize(struct affinity_data *self, size_t n, struct mask fill)
{
  if (g_k >= self->affinity_masks_size && g_k < n) g_k_mask = fill; /* new elements are copies of `fill` */
  self->affinity_masks_size = n;
}
static struct mask masks_at(struct affinity_data *self, size_t i)
{
  VX_ASSERT(i < self->affinity_masks_size, "affinity_masks_[i]: index within the vector");
  return i == g_k ? g_k_mask : vx_other_mask();
}
/* threads::detail::resize(mask, n): widens the bit set, an empty mask stays empty (cpu_mask.hpp) */
static void mask_resize_at(struct affinity_data *self, size_t i, size_t n)
{
  VX_ASSERT(i < self->affinity_masks_size, "affinity_masks_[i]: index within the vector");
  (void) n;
}
static struct mask mask_default(void) { struct mask m; m.kind = MK_EMPTY; m.core = 0; m.pu = 0; return m; }

#if defined(U_COUNT_INITIALIZED)
struct maskvec_ro { size_t size; };
static struct mask ro_at(struct maskvec_ro const *v, size_t i)
{
  VX_ASSERT(i < v->size, "range-for element within the vector");
  return i == g_k ? g_k_mask : vx_other_mask();
}
//@FUNC
size_t count_initialized(struct maskvec_ro const *masks)
__CPROVER_requires(K_SHAPE)
/* the count never exceeds the number of workers and reaches it only if every worker's mask is non-empty */
__CPROVER_ensures(__CPROVER_return_value <= masks->size)
__CPROVER_ensures((g_k < masks->size && g_k_mask.kind == MK_EMPTY) ==> __CPROVER_return_value < masks->size)
__CPROVER_assigns(g_o_mask)
//@LIFT count_initialized
#endif

#if defined(U_BIND_BRANCH)
/* parse_affinity_options -> decode_* (contracts proved by the decode.* units; here: their precondition is an obligation,
 * their effect on the masks is arbitrary within the shape they guarantee) */
static void parse_affinity_options(int spec, struct affinity_data *self, size_t used_cores, size_t max_cores, size_t num_threads,
                                   bool use_process_mask)
{
  (void) spec; (void) used_cores; (void) max_cores; (void) use_process_mask;
  VX_ASSERT(self->affinity_masks_size == num_threads, "decoders get one mask per worker");
  VX_ASSERT(!(g_k < self->affinity_masks_size) || g_k_mask.kind == MK_EMPTY, "decoders are called with cleared masks");
  if (g_parse_calls < 2) g_parse_calls++;
  g_parse_nthreads = num_threads;
  if (nondet_bool()) { g_thrown = true; return; } /* check_num_threads / a decoder / the parser threw */
  g_k_mask.kind = nondet_bool() ? MK_EMPTY : MK_PU;
  g_k_mask.core = nondet_size(); g_k_mask.pu = nondet_size();
}
/* count_initialized: contract proved by init.count_initialized */
static size_t count_initialized_c(struct affinity_data *self)
{
  size_t r = nondet_size();
  VX_ASSUME(r <= self->affinity_masks_size);
  VX_ASSUME(!(g_k < self->affinity_masks_size && g_k_mask.kind == MK_EMPTY) || r < self->affinity_masks_size);
  return r;
}
//@FUNC
void init_bind_branch(struct affinity_data *self, int affinity_description, size_t used_cores, size_t max_cores, size_t num_system_pus)
__CPROVER_requires(!g_thrown && g_parse_calls == 0 && K_SHAPE)
/* accepted (no exception) ==> one mask per worker and worker k's mask is non-empty */
__CPROVER_ensures(!g_thrown ==> (self->affinity_masks_size == self->num_threads_ && (g_k < self->num_threads_ ==> g_k_mask.kind != MK_EMPTY)))
__CPROVER_ensures(g_parse_calls == 1 && g_parse_nthreads == self->num_threads_)
__CPROVER_assigns(self->affinity_masks_size, g_k_mask, g_o_mask, g_thrown, g_parse_calls, g_parse_nthreads)
//@LIFT bind_branch
#endif

void harness(void)
{
  g_k = nondet_size();
  g_k_mask.kind = nondet_bool() ? MK_EMPTY : MK_PU; g_k_mask.core = nondet_size(); g_k_mask.pu = nondet_size();
  g_o_mask.kind = MK_EMPTY; g_o_mask.core = 0; g_o_mask.pu = 0;
#ifdef U_COUNT_INITIALIZED
  struct maskvec_ro v;
  v.size = nondet_size();
  size_t r = count_initialized(&v);
  if (r == v.size && v.size > 0) VX_REACH("all_initialized");
  if (r < v.size) VX_REACH("some_uninitialized");
  if (v.size == 0) VX_REACH("no_workers");
#endif
#ifdef U_BIND_BRANCH
  struct affinity_data ad;
  ad.num_threads_ = nondet_size();
  ad.affinity_masks_size = nondet_size();
  ad.use_process_mask_ = nondet_bool();
  g_thrown = false; g_parse_calls = 0; g_parse_nthreads = 0;
  init_bind_branch(&ad, 1, nondet_size(), nondet_size(), nondet_size());
  if (!g_thrown) VX_REACH("accepted");
  if (g_thrown) VX_REACH("rejected");
  if (!g_thrown && ad.num_threads_ == 0) VX_REACH("accepted_zero_workers");
#endif
}
