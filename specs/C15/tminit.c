/* C15 -- thread_manager::init (thread_manager/src/thread_manager.cpp): every pool is (re-)initialised with its number of workers and
 * its THREAD OFFSET = the number of workers of all pools before it.  A worker's global number is thread_offset_ + local number
 * (c19.more.pool_run_startup) and that number selects its mask (pool.thread_func.bind): with a wrong offset two pools bind to the same
 * PUs and the PUs of the later pool stay empty.  The sizes come from the resource partitioner (the pools have no workers yet).
 * (written by main after seeded change C15-5 was missed; I contract, symbolic number of pools and sizes) */
#include "vx.h"
struct pool { size_t index; };
struct rp { int unused; };
struct tm { size_t npools; };
static struct rp g_rp; static struct pool g_cur_pool;
static size_t g_visited;             /* pools are visited in order */
static size_t g_sum;                 /* workers of all pools initialised so far (what the partitioner assigned them) */
static size_t g_cur_n; static bool g_cur_n_valid, g_cur_inited;
static long g_os_count_reads;
static struct rp *get_partitioner(void) { return &g_rp; }
/* range-for over pools_: element i, looked at once */
static struct pool *pools_at(struct tm *self, size_t i)
{
  VX_ASSERT(i < self->npools && i == g_visited, "pools are initialised in order, each once");
  VX_ASSERT(g_visited == 0 || g_cur_inited, "the previous pool was initialised");
  g_visited = i + 1; g_cur_pool.index = i; g_cur_n_valid = false; g_cur_inited = false;
  return &g_cur_pool;
}
static size_t pool_get_pool_index(struct pool *p) { return p->index; }
/* partitioner::get_num_threads(pool index): how many PUs/workers the partitioner assigned to that pool */
static size_t rp_get_num_threads(struct rp *rp, size_t pool_index)
{
  VX_ASSERT(rp == &g_rp && pool_index == g_cur_pool.index, "the size is asked for THIS pool");
  g_cur_n = nondet_size(); VX_ASSUME(g_cur_n <= 0x10000 && g_sum <= 0xffffffffu); g_cur_n_valid = true;
  return g_cur_n;
}
/* thread_pool_base::get_os_thread_count(): number of STARTED workers -- 0 for every pool at this point (init runs before run) */
static size_t pool_get_os_thread_count(struct pool *p) { if (g_os_count_reads < 2) g_os_count_reads++; return 0; }
static void pool_init(struct pool *p, size_t num_threads, size_t threads_offset)
{
  VX_ASSERT(p == &g_cur_pool && !g_cur_inited, "each pool is initialised once");
  VX_ASSERT(g_cur_n_valid && num_threads == g_cur_n, "a pool is initialised with the number of workers the partitioner assigned to it");
  VX_ASSERT(threads_offset == g_sum, "a pool's thread offset is the number of workers of all pools before it");
  g_cur_inited = true; g_sum += g_cur_n;
}

//@FUNC
void thread_manager_init(struct tm *self)
__CPROVER_requires(g_visited == 0 && g_sum == 0 && !g_cur_inited && self->npools <= 0x1000)
__CPROVER_ensures(g_visited == self->npools && (self->npools == 0 || g_cur_inited))
__CPROVER_assigns(g_cur_pool, g_visited, g_sum, g_cur_n, g_cur_n_valid, g_cur_inited, g_os_count_reads)
//@LIFT body

void harness(void)
{
  struct tm t; t.npools = nondet_size();
  g_visited = 0; g_sum = 0; g_cur_n = 0; g_cur_n_valid = false; g_cur_inited = false; g_os_count_reads = 0; g_cur_pool.index = 0;
  thread_manager_init(&t);
  if (t.npools >= 2) VX_REACH("several_pools");
  if (t.npools == 0) VX_REACH("no_pools");
}
