/* C15 unit: decode_distribution (the dispatcher) -- T contract: exactly the decoder selected by d is called, once, with
 * the caller's arguments, after affinities has been resized to num_threads. */
#include "c15.h"

/* enum distribution_type, lifted from parse_affinity_options.hpp */
//@LIFT dist_enum

/* callee stubs: count the call and record the arguments (the decoders themselves are the other units) */
static long g_calls[4];
static struct topo *g_rec_t;
static struct maskvec *g_rec_aff;
static struct szvec *g_rec_npu;
static struct error_code *g_rec_ec;
static size_t g_rec_used, g_rec_max, g_rec_aff_size;
static bool g_rec_upm;
static void vx_record(int which, struct topo *t, struct maskvec *affinities, size_t used_cores, size_t max_cores,
                      struct szvec *num_pus, bool use_process_mask, struct error_code *ec)
{
  if (g_calls[which] < 2) g_calls[which]++;
  g_rec_t = t; g_rec_aff = affinities; g_rec_npu = num_pus; g_rec_ec = ec;
  g_rec_used = used_cores; g_rec_max = max_cores; g_rec_upm = use_process_mask;
  g_rec_aff_size = affinities->size;
}
#define DECODER(name, which) \
  static void name(struct topo *t, struct maskvec *affinities, size_t used_cores, size_t max_cores, \
                   struct szvec *num_pus, bool use_process_mask, struct error_code *ec) \
  { vx_record(which, t, affinities, used_cores, max_cores, num_pus, use_process_mask, ec); }
DECODER(decode_compact_distribution, 0)
DECODER(decode_scatter_distribution, 1)
DECODER(decode_balanced_distribution, 2)
DECODER(decode_numabalanced_distribution, 3)
#define WHICH(d) ((d) == compact ? 0 : (d) == scatter ? 1 : (d) == balanced ? 2 : 3)
#define CALLS_EXACTLY(w) (g_calls[0] == ((w) == 0) && g_calls[1] == ((w) == 1) && g_calls[2] == ((w) == 2) && g_calls[3] == ((w) == 3))
#define REC_FRAME g_calls[0], g_calls[1], g_calls[2], g_calls[3], g_rec_t, g_rec_aff, g_rec_npu, g_rec_ec, g_rec_used, g_rec_max, g_rec_upm, g_rec_aff_size

//@FUNC
void decode_distribution(enum distribution_type d, struct topo *t, struct maskvec *affinities, size_t used_cores, size_t max_cores,
                         size_t num_threads, struct szvec *num_pus, bool use_process_mask, struct error_code *ec)
/* parse_mappings produces only these four values (or reports an error, and parse_affinity_options returns) */
__CPROVER_requires(d == compact || d == scatter || d == balanced || d == numa_balanced)
__CPROVER_requires(g_calls[0] == 0 && g_calls[1] == 0 && g_calls[2] == 0 && g_calls[3] == 0)
/* the decoder for the requested binding mode runs exactly once, no other decoder runs */
__CPROVER_ensures(CALLS_EXACTLY(WHICH(d)))
/* it sees one (cleared or kept) mask per requested worker and the caller's arguments */
__CPROVER_ensures(affinities->size == num_threads && g_rec_aff_size == num_threads)
__CPROVER_ensures(g_rec_t == t && g_rec_aff == affinities && g_rec_npu == num_pus && g_rec_ec == ec)
__CPROVER_ensures(g_rec_used == used_cores && g_rec_max == max_cores && g_rec_upm == use_process_mask)
__CPROVER_assigns(REC_FRAME, affinities->size, g_k_mask)
//@LIFT body

void harness(void)
{
  struct topo topo;
  struct error_code ec_obj;
  struct maskvec aff;
  struct szvec npu;
  ec_obj.value = pika_error_success;
  g_calls[0] = 0; g_calls[1] = 0; g_calls[2] = 0; g_calls[3] = 0;
  g_k = nondet_size();
  g_k_mask.kind = MK_EMPTY; g_k_mask.core = 0; g_k_mask.pu = 0;
  aff.size = nondet_size();
  npu.size = nondet_size();
  int dv = nondet_int();
  VX_ASSUME(dv == compact || dv == scatter || dv == balanced || dv == numa_balanced);
  enum distribution_type d = (enum distribution_type) dv;
  size_t n = nondet_size();
  decode_distribution(d, &topo, &aff, nondet_size(), nondet_size(), n, &npu, nondet_bool(), &ec_obj);
  if (g_calls[0]) VX_REACH("compact");
  if (g_calls[1]) VX_REACH("scatter");
  if (g_calls[2]) VX_REACH("balanced");
  if (g_calls[3]) VX_REACH("numa_balanced");
}
