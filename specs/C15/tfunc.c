/* C15 -- scheduled_thread_pool<Scheduler>::thread_func, binding prologue (thread_pools/scheduled_thread_pool_impl.hpp): the OS thread
 * that becomes worker `thread_num` of a pool binds ITSELF, with the mask the affinity data holds for its GLOBAL worker number
 * (affinity_data is indexed by global worker number: units init.*, none.get_pu_mask; a pool's local numbers start at 0 in every pool).
 * An empty mask means "no binding": the machine mask is set instead.
 * (written by main after seeded change C15-4 was missed; F contract on the prologue fragment, loop free, full domain) */
#include "vx.h"
struct pmask { size_t of_worker; bool any; bool is_machine; };
struct topology { int unused; };
struct affinity_data { int unused; };
struct error_code { int value; };
struct pool { struct affinity_data affinity_data_; };
static struct topology g_topo;
static long g_lookups, g_binds; static struct pmask g_bound; static bool g_bind_fails;
#define throwmode_lightweight 1

static struct topology const *get_topology(void) { return &g_topo; }
/* affinity_data::get_pu_mask(topo, n): the mask configured for GLOBAL worker n (empty: no binding) -- unit none.get_pu_mask */
static struct pmask get_pu_mask(struct affinity_data const *a, struct topology const *t, size_t n)
{
  VX_ASSERT(t == &g_topo, "the process's topology");
  struct pmask m; m.of_worker = n; m.any = nondet_bool(); m.is_machine = false; if (g_lookups < 2) g_lookups++;
  return m;
}
static bool mask_any(struct pmask const *m) { return m->any; }
static struct pmask topo_get_machine_affinity_mask(struct topology const *t) { struct pmask m; m.of_worker = (size_t)-1; m.any = true; m.is_machine = true; return m; }
static void topo_write_to_log(struct topology const *t) { }
static void topo_set_thread_affinity_mask(struct topology const *t, struct pmask const *m, struct error_code *ec)
{
  VX_ASSERT(t == &g_topo, "the process's topology");
  if (g_binds < 2) g_binds++;
  g_bound = *m;
  ec->value = g_bind_fails ? 1 : 0;
}
static struct error_code error_code_make(int mode) { struct error_code e; e.value = 0; return e; }

//@FUNC
void thread_func_bind(struct pool *self, size_t thread_num, size_t global_thread_num)
__CPROVER_requires(g_binds == 0 && g_lookups == 0)
/* exactly one binding call, made by the worker's own OS thread (this one) */
__CPROVER_ensures(g_binds == 1)
/* with the mask of THIS worker's global number if that is not empty, with the machine mask otherwise */
__CPROVER_ensures(g_bound.is_machine || (g_bound.any && g_bound.of_worker == global_thread_num))
__CPROVER_ensures(g_lookups == 1)
__CPROVER_assigns(g_lookups, g_binds, g_bound)
//@LIFT body

void harness(void)
{
  struct pool p; size_t t = nondet_size(), g = nondet_size();
  g_lookups = 0; g_binds = 0; g_bound.of_worker = 0; g_bound.any = false; g_bound.is_machine = false; g_bind_fails = nondet_bool();
  thread_func_bind(&p, t, g);
  if (!g_bound.is_machine && t != g) VX_REACH("bound_to_own_mask_local_number_differs");
  if (g_bound.is_machine) VX_REACH("no_binding_configured_machine_mask_set");
  if (g_bind_fails) VX_REACH("binding_failed_is_only_logged");
}
