/* C15 -- topology::set_thread_affinity_mask (topology.cpp): the one place where a worker's pika mask (bits = hwloc LOGICAL PU indices)
 * becomes the OS cpuset handed to hwloc_set_cpubind (bits = OS indices).  "Each worker is bound to exactly the PUs of its mask":
 * OS PU x is in the bound cpuset iff the logical PU whose os_index is x is in the mask.
 * (written by main after seeded change C15-3 was missed; T contract over hwloc stubs, one symbolic victim PU) */
#include "vx.h"
struct hobj { unsigned logical_index; unsigned os_index; };
struct cpuset { bool v_bit; long sets; bool freed; };           /* bit g_vos of the set; number of bits set so far */
struct pmask { size_t size; bool v_bit; };                      /* pika mask: bit g_vl */
typedef struct hobj *hwloc_obj_t;
typedef struct cpuset *hwloc_cpuset_t;
struct topology { int topo; struct { bool held; } topo_mtx; };
struct error_code { int value; };
static struct error_code vx_throws_obj;
static bool vx_exc; static long g_errors;
enum { HWLOC_OBJ_PU = 1, HWLOC_CPUBIND_STRICT = 4, HWLOC_CPUBIND_THREAD = 2 };
static size_t g_vl;            /* victim logical PU index */
static unsigned g_vos;         /* its OS index */
static struct cpuset g_set; static struct hobj g_obj;
static long g_allocs, g_binds, g_frees; static bool g_bound_v, g_bound_ok, g_bind_locked; static int g_depth;

static hwloc_cpuset_t hwloc_bitmap_alloc(void) { if (g_allocs < 2) g_allocs++; g_set.v_bit = false; g_set.sets = 0; g_set.freed = false; return &g_set; }
static void hwloc_bitmap_free(hwloc_cpuset_t s) { VX_ASSERT(!s->freed, "cpuset freed twice"); s->freed = true; if (g_frees < 2) g_frees++; }
static int hwloc_get_type_or_below_depth(int topo, int type) { VX_ASSERT(type == HWLOC_OBJ_PU, "depth of the PU level"); g_depth = nondet_int(); return g_depth; }
/* hwloc: the i-th object of a level has logical_index i; os_index is injective over the PUs (the victim's is g_vos) */
static hwloc_obj_t hwloc_get_obj_by_depth(int topo, int depth, unsigned i)
{
  VX_ASSERT(depth == g_depth, "objects are looked up at the PU level");
  g_obj.logical_index = i;
  if (i == g_vl) g_obj.os_index = g_vos;
  else { unsigned o = nondet_uint(); VX_ASSUME(o != g_vos); g_obj.os_index = o; }
  return &g_obj;
}
static void hwloc_bitmap_set(hwloc_cpuset_t s, unsigned idx) { VX_ASSERT(!s->freed, "cpuset used after free"); if (idx == g_vos) s->v_bit = true; if (s->sets < 2) s->sets++; }
static int hwloc_set_cpubind(int topo, hwloc_cpuset_t s, int flags)
{
  VX_ASSERT(!s->freed, "cpuset used after free");
  VX_ASSERT((flags & HWLOC_CPUBIND_THREAD) != 0, "binds the calling thread");
  if (g_binds < 3) g_binds++;
  g_bound_v = s->v_bit;
  int r = nondet_int();
  g_bound_ok = (r == 0);
  return r;
}
static size_t mask_size(struct pmask const *m) { return m->size; }
static bool mask_test(struct pmask const *m, size_t i) { VX_ASSERT(i < m->size, "test(mask, i): i < mask_size"); return i == g_vl ? m->v_bit : nondet_bool(); }
static void vx_sleep0(void) { }
static void vx_throws_if(struct error_code *ec, int code) { if (g_errors < 2) g_errors++; if (ec == &vx_throws_obj) vx_exc = true; else ec->value = code; }

/* detail::get_index (lifted) */
size_t get_index(hwloc_obj_t obj)
//@LIFT get_index

//@FUNC
void set_thread_affinity_mask(struct topology *self, struct pmask const *mask, struct error_code *ec)
__CPROVER_requires(g_allocs == 0 && g_binds == 0 && g_frees == 0 && !vx_exc && g_errors == 0 && mask->size < 0x7fffffff && g_vl < 0x7fffffff)
/* whenever a binding is made (strict or weak), OS PU g_vos is in it iff logical PU g_vl is in the mask */
__CPROVER_ensures(g_binds >= 1 && g_bound_v == (g_vl < mask->size && mask->v_bit))
/* the cpuset is released exactly once; an error is reported iff no binding succeeded */
__CPROVER_ensures(g_allocs == 1 && g_frees == 1 && (g_errors != 0) == !g_bound_ok)
__CPROVER_assigns(g_set, g_obj, g_allocs, g_binds, g_frees, g_bound_v, g_bound_ok, g_depth, vx_exc, g_errors, ec->value, self->topo_mtx.held)
//@LIFT body

void harness(void)
{
  struct topology t; struct pmask m; struct error_code e;
  t.topo = 1; t.topo_mtx.held = false;
  m.size = nondet_size(); m.v_bit = nondet_bool();
  g_vl = nondet_size(); g_vos = nondet_uint();
  g_allocs = g_binds = g_frees = 0; g_bound_v = g_bound_ok = false; g_depth = 0; vx_exc = false; g_errors = 0; e.value = nondet_int();
  struct error_code *ec = nondet_bool() ? &vx_throws_obj : &e;
  set_thread_affinity_mask(&t, &m, ec);
  if (g_bound_ok && g_bound_v) VX_REACH("victim_pu_bound");
  if (g_bound_ok && !g_bound_v) VX_REACH("victim_pu_not_bound");
  if (g_binds == 2 && g_bound_ok) VX_REACH("weak_binding_after_strict_failed");
  if (g_errors) VX_REACH("binding_failed");
  if (g_vl != g_vos && g_bound_v) VX_REACH("os_index_differs_from_logical_index");
}
