/* C15 units: pu_in_process_mask, check_num_threads, the four decoders, decode_distribution */
#include "c15.h"

/* ---- helpers, lifted; the decoders call the lifted text directly (loop free) ---- */
/* (each //@FUNC block is self-contained inside one #if branch: the native replay wraps contracts textually) */
#ifdef U_PIM
//@FUNC
bool pu_in_process_mask(bool use_process_mask, struct topo *t, size_t num_core, size_t num_pu)
/* true for every PU when the process mask is ignored, else exactly "PU (num_core, num_pu) intersects the process mask" */
__CPROVER_ensures(!use_process_mask ==> __CPROVER_return_value)
__CPROVER_ensures((use_process_mask && num_core == g_vc && num_pu == g_vp) ==> __CPROVER_return_value == g_v_inmask)
__CPROVER_assigns(g_invalid_pair)
//@LIFT pim
#else
bool pu_in_process_mask(bool use_process_mask, struct topo *t, size_t num_core, size_t num_pu)
//@LIFT pim
#endif

#ifdef U_CNT
//@FUNC
void check_num_threads(bool use_process_mask, struct topo *t, size_t num_threads, struct error_code *ec)
__CPROVER_requires(!vx_exc && g_errors == 0 && ec->value == pika_error_success)
/* "a request that cannot be satisfied (more threads than PUs in the mask) is rejected with an error": error iff
 * num_threads exceeds the PUs of the effective mask (process mask on) / the hardware concurrency (off) */
__CPROVER_ensures(ERROR_VISIBLE(ec) == (num_threads > (use_process_mask ? g_proc_count : g_hw_conc)))
__CPROVER_ensures((g_errors != 0) == ERROR_VISIBLE(ec))
__CPROVER_assigns(ERR_FRAME)
//@LIFT cnt
#else
void check_num_threads(bool use_process_mask, struct topo *t, size_t num_threads, struct error_code *ec)
//@LIFT cnt
#endif

#ifdef U_COMPACT
//@FUNC
void decode_compact_distribution(struct topo *t, struct maskvec *affinities, size_t used_cores, size_t max_cores,
                                 struct szvec *num_pus, bool use_process_mask, struct error_code *ec)
__CPROVER_requires(!vx_exc && g_errors == 0 && ec->value == pika_error_success && !g_invalid_pair)
/* the caller (affinity_data::init) passes freshly cleared masks */
__CPROVER_requires(g_k_mask.kind == MK_EMPTY)
/* no pu_indexes vector here: every worker counts for the in-mask claim */
__CPROVER_requires(g_pi_last_victim)
/* num_pus has one entry per worker */
__CPROVER_ensures(vx_exc || num_pus->size == affinities->size)
/* the reported PU number of worker k belongs to the (core, pu) pair its mask was built from */
__CPROVER_ensures(K_SHAPE && SAME_PAIR)
/* with the process mask on, worker k is bound to a PU inside it */
__CPROVER_ensures(IN_MASK(use_process_mask))
/* oversubscription is rejected with an error */
__CPROVER_ensures((affinities->size > (use_process_mask ? g_proc_count : g_hw_conc)) ==> ERROR_VISIBLE(ec))
__CPROVER_ensures((g_errors != 0) == ERROR_VISIBLE(ec))
__CPROVER_assigns(OUT_FRAME, ERR_FRAME, num_pus->size)
//@LIFT body
#define DECODE decode_compact_distribution
#endif

#ifdef U_SCATTER
//@FUNC
void decode_scatter_distribution(struct topo *t, struct maskvec *affinities, size_t used_cores, size_t max_cores,
                                 struct szvec *num_pus, bool use_process_mask, struct error_code *ec)
__CPROVER_requires(!vx_exc && g_errors == 0 && ec->value == pika_error_success && !g_invalid_pair)
/* the caller (affinity_data::init) passes freshly cleared masks */
__CPROVER_requires(g_k_mask.kind == MK_EMPTY)
/* no pu_indexes vector here: every worker counts for the in-mask claim */
__CPROVER_requires(g_pi_last_victim)
/* num_pus has one entry per worker */
__CPROVER_ensures(vx_exc || num_pus->size == affinities->size)
/* the reported PU number of worker k belongs to the (core, pu) pair its mask was built from */
__CPROVER_ensures(K_SHAPE && SAME_PAIR)
/* with the process mask on, worker k is bound to a PU inside it */
__CPROVER_ensures(IN_MASK(use_process_mask))
/* oversubscription is rejected with an error */
__CPROVER_ensures((affinities->size > (use_process_mask ? g_proc_count : g_hw_conc)) ==> ERROR_VISIBLE(ec))
__CPROVER_ensures((g_errors != 0) == ERROR_VISIBLE(ec))
__CPROVER_assigns(OUT_FRAME, ERR_FRAME, num_pus->size)
//@LIFT body
#define DECODE decode_scatter_distribution
#endif

#ifdef U_BALANCED
//@FUNC
void decode_balanced_distribution(struct topo *t, struct maskvec *affinities, size_t used_cores, size_t max_cores,
                                 struct szvec *num_pus, bool use_process_mask, struct error_code *ec)
__CPROVER_requires(!vx_exc && g_errors == 0 && ec->value == pika_error_success && !g_invalid_pair)
/* the caller (affinity_data::init) passes freshly cleared masks */
__CPROVER_requires(g_k_mask.kind == MK_EMPTY)
/* num_pus has one entry per worker */
__CPROVER_ensures(vx_exc || num_pus->size == affinities->size)
/* the reported PU number of worker k belongs to the (core, pu) pair its mask was built from */
__CPROVER_ensures(K_SHAPE && SAME_PAIR)
/* with the process mask on, worker k is bound to a PU inside it */
__CPROVER_ensures(IN_MASK(use_process_mask))
/* oversubscription is rejected with an error */
__CPROVER_ensures((affinities->size > (use_process_mask ? g_proc_count : g_hw_conc)) ==> ERROR_VISIBLE(ec))
__CPROVER_ensures((g_errors != 0) == ERROR_VISIBLE(ec))
__CPROVER_assigns(OUT_FRAME, PI_FRAME, ERR_FRAME, num_pus->size)
//@LIFT body
#define DECODE decode_balanced_distribution
#endif

#ifdef U_NUMA_PAIR
//@FUNC
void decode_numabalanced_distribution(struct topo *t, struct maskvec *affinities, size_t used_cores, size_t max_cores,
                                      struct szvec *num_pus, bool use_process_mask, struct error_code *ec)
__CPROVER_requires(!vx_exc && g_errors == 0 && ec->value == pika_error_success && !g_invalid_pair)
/* the caller (affinity_data::init) passes freshly cleared masks */
__CPROVER_requires(g_k_mask.kind == MK_EMPTY)
__CPROVER_requires(affinities->size <= VX_BIG)
/* the reported PU number of worker k belongs to the (core, pu) pair its mask was built from */
__CPROVER_ensures(K_SHAPE && SAME_PAIR)
/* with the process mask on, worker k is bound to a PU inside it */
__CPROVER_ensures(IN_MASK(use_process_mask))
__CPROVER_assigns(OUT_FRAME, PI_FRAME, ERR_FRAME, num_pus->size)
//@LIFT body
#define DECODE decode_numabalanced_distribution
#endif

#ifdef U_NUMA_BOUNDS
//@FUNC
void decode_numabalanced_distribution(struct topo *t, struct maskvec *affinities, size_t used_cores, size_t max_cores,
                                      struct szvec *num_pus, bool use_process_mask, struct error_code *ec)
__CPROVER_requires(!vx_exc && g_errors == 0 && ec->value == pika_error_success && !g_invalid_pair)
/* thread counts are bounded so that the per-socket shares cannot wrap around */
__CPROVER_requires(affinities->size <= VX_BIG)
/* (every vector access in bounds: obligations inside the vector stubs) */
/* num_pus has one entry per worker */
__CPROVER_ensures(vx_exc || num_pus->size == affinities->size)
/* oversubscription is rejected with an error */
__CPROVER_ensures((affinities->size > (use_process_mask ? g_proc_count : g_hw_conc)) ==> ERROR_VISIBLE(ec))
__CPROVER_ensures((g_errors != 0) == ERROR_VISIBLE(ec))
__CPROVER_assigns(OUT_FRAME, PI_FRAME, ERR_FRAME, num_pus->size)
//@LIFT body
#define DECODE decode_numabalanced_distribution
#endif

#ifdef U_NUMA_WORKERS
//@FUNC
void decode_numabalanced_distribution(struct topo *t, struct maskvec *affinities, size_t used_cores, size_t max_cores,
                                      struct szvec *num_pus, bool use_process_mask, struct error_code *ec)
__CPROVER_requires(!vx_exc && g_errors == 0 && ec->value == pika_error_success && !g_invalid_pair)
/* thread counts are bounded so that the per-socket shares cannot wrap around */
__CPROVER_requires(affinities->size <= VX_BIG)
/* (affinities[num_thread] / num_pus[num_thread] in bounds: obligations inside the vector stubs) */
/* num_pus has one entry per worker */
__CPROVER_ensures(vx_exc || num_pus->size == affinities->size)
__CPROVER_assigns(OUT_FRAME, PI_FRAME, ERR_FRAME, num_pus->size)
//@LIFT body
#define DECODE decode_numabalanced_distribution
#endif

void harness(void)
{
  struct topo topo;
  struct error_code ec_obj;
  struct error_code *ec = nondet_bool() ? &vx_throws : &ec_obj;
  ec_obj.value = pika_error_success;
  vx_throws.value = pika_error_success;
  vx_exc = false;
  g_errors = 0;
  g_invalid_pair = false;
  g_vc = nondet_size(); g_vp = nondet_size(); g_v_pun = nondet_size(); g_v_inmask = nondet_bool(); g_v_ncp = nondet_size();
  g_ncores = nondet_size(); g_nsockets = nondet_size(); g_proc_count = nondet_size(); g_hw_conc = nondet_size();
  g_k = nondet_size();
  g_k_mask.kind = MK_EMPTY; g_k_mask.core = 0; g_k_mask.pu = 0;
  g_k_pun = nondet_size();
  g_o_mask.kind = MK_EMPTY; g_o_mask.core = 0; g_o_mask.pu = 0;
  g_cv = nondet_size(); g_jv = nondet_size();
  g_pi_last_victim = true; g_k_cell = false;
  bool upm = nondet_bool();
#ifdef U_PIM
  size_t c = nondet_size(), p = nondet_size();
  bool r = pu_in_process_mask(upm, &topo, c, p);
  if (r) VX_REACH("in_mask"); else VX_REACH("not_in_mask");
  if (!upm) VX_REACH("mask_ignored");
  if (upm && c == g_vc && p == g_vp) VX_REACH("victim_pair");
#endif
#ifdef U_CNT
  size_t n = nondet_size();
  check_num_threads(upm, &topo, n, ec);
  if (vx_exc) VX_REACH("thrown");
  if (!vx_exc && ec->value != pika_error_success) VX_REACH("error_code_set");
  if (!ERROR_VISIBLE(ec)) VX_REACH("accepted");
  if (!ERROR_VISIBLE(ec) && upm) VX_REACH("accepted_process_mask");
#endif
#ifdef DECODE
  struct maskvec aff;
  struct szvec npu;
  aff.size = nondet_size();
  npu.size = nondet_size();
#if defined(U_NUMA_PAIR) || defined(U_NUMA_BOUNDS) || defined(U_NUMA_WORKERS)
  VX_ASSUME(aff.size <= VX_BIG);
#endif
  size_t used_cores = nondet_size(), max_cores = nondet_size();
  DECODE(&topo, &aff, used_cores, max_cores, &npu, upm, ec);
#ifndef VX_FEW_REACH
  if (vx_exc) VX_REACH("thrown");
  if (!vx_exc && ec->value != pika_error_success) VX_REACH("error_code_set");
  if (!ERROR_VISIBLE(ec)) VX_REACH("accepted");
  if (MASK_IS(g_k_mask, g_vc, g_vp) && upm && g_k_cell) VX_REACH("k_on_victim_pair_with_mask");
  if (MASK_IS(g_k_mask, g_vc, g_vp) && !upm && used_cores != 0) VX_REACH("k_on_victim_pair_used_cores");
#endif
  /* (units run with a non-incremental SAT solver keep a single marker: every marker costs one more solver run) */
  if (g_k_mask.kind == MK_PU && !ERROR_VISIBLE(ec)) VX_REACH("k_assigned");
#endif
}
