"""C15 -- workers are pinned to distinct PUs inside the process mask (affinity decoders).

Units (see META for the trusted base):
  decode.compact / .scatter / .balanced          proof: indices, same (core, pu) pair for mask and reported PU number, only PUs inside
                                                 the process mask, oversubscription reported (loop contracts, symbolic victim worker)
  decode.numa_balanced.pair / .local / .workers  the same obligations for decode_numabalanced_distribution, split over three units of the
                                                 same lifted text (.workers needs CaDiCaL and ~5 min: thorough tier).  .pair FAILS on the
                                                 pinned tree: defect D4 (missing `+ core_offset` in get_pu_number)
  check_num_threads, pu_in_process_mask          function contracts
  decode_distribution                            call-trace contract of the dispatcher
  none.*                                         bind=none leaves workers unbound (init's `none` branch, get_pu_mask, lemma)
  bounded.<decoder>.S<s>C<c0><c1>P<pattern>      BOUNDED stand-ins (distinctness / completeness) on concrete small machines
Development: C15_DEV=1 skips native replays; specs/C15/muts.sh is the mutation log.
"""
import os
import re
from vx.lift import Lift, Sub, Call, Members, Guard, DropStmt, Rule, LiftError, match_close, split_args
from vx.run import Unit

PAO = "libs/pika/affinity/src/parse_affinity_options.cpp"
AD = "libs/pika/affinity/src/affinity_data.cpp"
PAO_HPP = "libs/pika/affinity/include/pika/affinity/parse_affinity_options.hpp"
DEV = bool(os.environ.get("C15_DEV"))  # development: skip the (slow) native replay of failed obligations


class Index(Rule):
    """`name[E]` (or `name[E1][E2]` when the template uses {1}) -> template with {0}, {1}; balanced brackets.
    A suffix regex restricts the rule to occurrences followed by it (e.g. `.push_back(`); {s1}.. are its groups and,
    if the suffix ends in '(', {a0}.. are the balanced call arguments."""

    def __init__(self, name, template, n="+", suffix=None):
        self.name, self.template, self.n, self.suffix = name, template, n, suffix

    def apply(self, text):
        out, pos, k = [], 0, 0
        rx = re.compile(r"(?<![\w.>])%s\s*\[" % re.escape(self.name))
        scan = 0
        while True:
            m = rx.search(text, scan)
            if not m:
                break
            op = m.end() - 1
            cl = match_close(text, op, "[", "]")
            args = [text[op + 1 : cl].strip()]
            end = cl + 1
            if "{1}" in self.template:
                m2 = re.match(r"\s*\[", text[end:])
                if not m2:
                    scan = m.end()
                    continue
                op2 = end + m2.end() - 1
                cl2 = match_close(text, op2, "[", "]")
                args.append(text[op2 + 1 : cl2].strip())
                end = cl2 + 1
            env = {}
            if self.suffix:
                ms = re.match(self.suffix, text[end:], re.S)
                if not ms:
                    scan = m.end()
                    continue
                for i, g in enumerate(ms.groups()):
                    env["s%d" % (i + 1)] = g or ""
                end += ms.end()
                if ms.group(0).endswith("("):
                    cl3 = match_close(text, end - 1)
                    for i, a in enumerate(split_args(text[end:cl3])):
                        env["a%d" % i] = a
                    end = cl3 + 1
            rep = re.sub(r"\{(\d+|s\d+|a\d+)\}", lambda mm: args[int(mm.group(1))] if mm.group(1).isdigit() else env[mm.group(1)],
                         self.template)
            out.append(text[pos : m.start()])
            out.append(rep)
            pos = scan = end
            k += 1
        out.append(text[pos:])
        self.check(k, "Index(%s)" % self.name)
        return "".join(out)


class ObjCall(Rule):
    """member call on a named object: `obj.f(args)` -> `prefix_f(obj[, args])` (any member function name)"""

    def __init__(self, obj, prefix, n="+"):
        self.obj, self.prefix, self.n = obj, prefix, n

    def apply(self, text):
        out, pos, k = [], 0, 0
        rx = re.compile(r"(?<![\w.>])%s\.(\w+)\s*\(" % re.escape(self.obj))
        scan = 0
        while True:
            m = rx.search(text, scan)
            if not m:
                break
            op = m.end() - 1
            cl = match_close(text, op)
            inner = text[op + 1 : cl].strip()
            out.append(text[pos : m.start()])
            out.append("%s%s(%s%s%s" % (self.prefix, m.group(1), self.obj, ", " if inner else "", text[op + 1 : cl]))
            pos = scan = cl  # keep ')' and rescan the arguments (nested calls on the same object)
            k += 1
        out.append(text[pos:])
        self.check(k, "ObjCall(%s)" % self.obj)
        return "".join(out)


# ---- spelling rules shared by all units (C++ spelling -> C spelling, callee -> stub) ----
THROWS_IF = Call(r"\bPIKA_THROWS_IF", "{ vx_throws_if({0}, {1}); if (vx_exc) return; }", "+", stmt=True)
SPELL = [
    # a process mask cached in a function-local static: only the first call reads the current one (specs/C15/c15.h)
    Sub(r"\bstatic\s+((?:const\s+)?(?:pika::)?(?:threads::detail::)?mask_type(?:\s+const)?)\s+(\w+)\s*=\s*(\w+)\.get_cpubind_mask_main_thread\(\);",
        r"\1 \2 = topo_get_cpubind_mask_cached_in_static(\3);", None),
    Sub(r"pika::error::(\w+)", r"pika_error_\1", None),
    Sub(r"threads::detail::mask_type\b", "struct mask", None),
    Sub(r"threads::detail::(bit_and|count|any|mask_size)\(", r"mask_\1(", None),
    Sub(r"threads::detail::hardware_concurrency\(\)", "vx_hardware_concurrency()", None),
    Sub(r"\(std::(min|max)\)", lambda m: "VX_" + m.group(1).upper(), None),
    Sub(r"\bstd::size_t\((\w+)\)", r"((size_t)(\1))", None),
]
TOPO = ObjCall("t", "topo_")
# the exceptional edge of a callee: `f(..., ec);` -> `{ f(..., ec); if (vx_exc) return; }`
CNT_CALL = Call(r"\bcheck_num_threads", "{ check_num_threads({args}); if (vx_exc) return; }", None, stmt=True)
OUT_VECS = [
    Sub(r"\baffinities\.size\(\)", "affinities->size", 1),
    Call(r"\bnum_pus\.resize", "szvec_resize(num_pus, {0})", None),
    Index("affinities", "vx_aff_set(affinities, {0}, {s1});", suffix=r"\s*=(?!=)\s*([^;]+);"),
    Index("affinities", "vx_aff_get(affinities, {0})"),
    Index("num_pus", "vx_npu_set(num_pus, {0}, {s1});", suffix=r"\s*=(?!=)\s*([^;]+);"),
]
# local vectors: declaration, element write / increment / read -> struct vxvec operations (c15.h)
LOCAL_DECLS = [
    Sub(r"std::vector<std::size_t>\s+(\w+)\(([^;]+?),\s*([^;,]+)\);", r"struct vxvec \1 = VXVEC_MAKE(\2, \3);", "+"),
    Sub(r"std::vector<std::vector<std::size_t>>\s+(\w+)\(([^;]+)\);", r"struct vxvec2 \1 = VXVEC2_MAKE(\2);", None),
]


def locvec(name, writes="+", incs=None, pre_incs=None):
    return [
        Index(name, "VXVEC_SET(%s, {0}, {s1});" % name, suffix=r"\s*=(?!=)\s*([^;]+);", n=writes),
        Index(name, "VXVEC_INC(%s, {0})" % name, suffix=r"\s*\+\+", n=incs),
        Sub(r"\+\+\s*%s\[([^\[\]]+)\]" % name, r"VXVEC_INC(%s, \1)" % name, pre_incs),
        Index(name, "VXVEC_GET(%s, {0})" % name),
    ]


PU_INDEXES = [
    Index("pu_indexes", "VXVEC2_PUSH(pu_indexes, {0}, {a0})", suffix=r"\.push_back\s*\("),
    Index("pu_indexes", "VXVEC2_GET(pu_indexes, {0}, {1})"),
]

HELPERS = {
    "pim": Lift(PAO, r"bool pu_in_process_mask\(", rules=SPELL + [TOPO]),
    "cnt": Lift(PAO, r"void check_num_threads\(", rules=[THROWS_IF] + SPELL + [TOPO]),
}

# ---- loop contracts ----
# K_INV: worker k is untouched while num_thread <= k; what has been stored for it satisfies the property predicates
K_INV = "K_SHAPE && SAME_PAIR && IN_MASK(use_process_mask) && (g_k < num_thread || g_k_mask.kind == MK_EMPTY)"
E_INV = "!vx_exc && g_errors >= 0 && (g_errors != 0) == ERROR_VISIBLE(ec) && ((num_threads > (use_process_mask ? g_proc_count : g_hw_conc)) ==> ERROR_VISIBLE(ec))"
C_INV = "num_pus->size == num_threads && affinities->size == num_threads && (!use_process_mask || used_cores == 0)"
COMPACT_LOOPS = {
    1: "__CPROVER_assigns(num_thread, OUT_FRAME, ERR_FRAME)\n"
       "__CPROVER_loop_invariant(num_thread <= num_threads && %s && %s && %s)" % (K_INV, E_INV, C_INV),
    2: "__CPROVER_assigns(num_core, num_thread, OUT_FRAME, ERR_FRAME)\n"
       "__CPROVER_loop_invariant(num_core <= num_cores && num_thread < num_threads && %s && %s && %s)" % (K_INV, E_INV, C_INV),
    3: "__CPROVER_assigns(num_pu, num_thread, OUT_FRAME, ERR_FRAME)\n"
       "__CPROVER_loop_invariant(num_pu <= num_core_pus && num_thread < num_threads && %s && %s && %s)" % (K_INV, E_INV, C_INV),
    "count": 3,
}

def use_pu_loop(core):
    """the inner search `while (pu_index < num_core_pus) { use_pu = pu_in_process_mask(.., CORE, pu_index); ++pu_index; if (use_pu) break; }`.
    The invariant does not say HOW the loop stops on a hit (break, or `!use_pu &&` in the condition): it says what a hit means -- the PU
    just tested, (CORE, pu_index - 1), passed pu_in_process_mask -- stated for the victim pair."""
    return ("__CPROVER_assigns(pu_index, use_pu, g_invalid_pair)\n"
            "__CPROVER_loop_invariant(!use_pu || (pu_index >= 1 && (!(use_process_mask && (%s) == g_vc && pu_index - 1 == g_vp) || g_v_inmask)))" % core)

# ---- scatter: next_pu_index ----
NPI_INV = "next_pu_index.size == num_cores && VV_WF(next_pu_index)"
SCATTER_LOOPS = {
    1: "__CPROVER_assigns(num_thread, next_pu_index, OUT_FRAME, ERR_FRAME)\n"
       "__CPROVER_loop_invariant(num_thread <= num_threads && %s && %s && %s && %s)" % (K_INV, E_INV, C_INV, NPI_INV),
    2: "__CPROVER_assigns(num_core, num_thread, next_pu_index, OUT_FRAME, ERR_FRAME)\n"
       "__CPROVER_loop_invariant(num_core <= num_cores && num_thread < num_threads && %s && %s && %s && %s)" % (K_INV, E_INV, C_INV, NPI_INV),
    3: use_pu_loop("num_core"),
    "count": 3,
}
# ---- balanced: next_pu_index, num_pus_cores, pu_indexes ----
# the victim core's inner vector has as many entries as its counter says, and its victim entry is a PU in the mask
def pi_inv(off):
    return ("pu_indexes.size == NCORES && num_pus_cores.size == NCORES && next_pu_index.size == NCORES && VV_WF(next_pu_index) && VV_WF(num_pus_cores)"
            " && (g_cv >= NCORES || pu_indexes.v_size == num_pus_cores.v_val)"
            " && (!(use_process_mask && g_jv < pu_indexes.v_size && g_cv + (%s) == g_vc && pu_indexes.v_val == g_vp) || g_v_inmask)" % off)
BAL_P1 = "num_pus_cores.sum_known && num_pus_cores.total == num_thread && !num_pus_cores.scan_valid"
# second phase: in-order scan of num_pus_cores; num_thread is the number of entries of the cores already done
SCAN_AT = lambda v, i: "(%s.scan_valid && %s.c_valid && %s.c_idx == (%s) && %s.scan_pos == (%s))" % (v, v, v, i, v, i)
BAL_P2_OUTER = ("num_pus_cores.sum_known && num_pus_cores.total <= num_threads && "
                "(num_core == 0 ? (num_thread == 0 && !num_pus_cores.scan_valid) : (%s && num_thread == num_pus_cores.scan_prefix + num_pus_cores.c_val))" % SCAN_AT("num_pus_cores", "num_core - 1"))
BAL_P2_INNER = ("num_pus_cores.sum_known && num_pus_cores.total <= num_threads && num_core < NCORES && "
                "((num_pu == 0 && (num_core == 0 ? (num_thread == 0 && !num_pus_cores.scan_valid) : (%s && num_thread == num_pus_cores.scan_prefix + num_pus_cores.c_val))) || "
                "(%s && num_pu <= num_pus_cores.c_val && num_thread == num_pus_cores.scan_prefix + num_pu))"
                % (SCAN_AT("num_pus_cores", "num_core - 1"), SCAN_AT("num_pus_cores", "num_core")))
BAL_VECS = "next_pu_index, num_pus_cores, pu_indexes"
BALANCED_LOOPS = {
    1: "__CPROVER_assigns(num_thread, %s, g_invalid_pair)\n"
       "__CPROVER_loop_invariant(num_thread <= num_threads && %s && %s)" % (BAL_VECS, BAL_P1, pi_inv("0")),
    2: "__CPROVER_assigns(num_core, num_thread, %s, g_invalid_pair)\n"
       "__CPROVER_loop_invariant(num_core <= num_cores && num_thread < num_threads && %s && %s)" % (BAL_VECS, BAL_P1, pi_inv("0")),
    3: use_pu_loop("num_core"),
    4: "__CPROVER_assigns(num_core, num_thread, num_pus_cores, pu_indexes, OUT_FRAME, PI_FRAME, ERR_FRAME)\n"
       "__CPROVER_loop_invariant(num_core <= num_cores && %s && %s && %s && %s && %s)" % (BAL_P2_OUTER, pi_inv("0"), K_INV, E_INV, C_INV),
    5: "__CPROVER_assigns(num_pu, num_thread, num_pus_cores, pu_indexes, OUT_FRAME, PI_FRAME, ERR_FRAME)\n"
       "__CPROVER_loop_invariant(%s && %s && %s && %s && %s)" % (BAL_P2_INNER, pi_inv("0"), K_INV, E_INV, C_INV),
    "count": 5,
}
# ---- numa-balanced ----
# Two units over the same lifted text: P_BOUNDS (indices, sums, error reporting) and P_PAIR (same pair / in mask).
NCS, NPS, NTS = "num_cores_socket", "num_pus_socket", "num_threads_socket"
SZ3 = "num_cores_socket.size == num_sockets && num_pus_socket.size == num_sockets && num_threads_socket.size == num_sockets"
NCS_AT = "num_cores_socket.c_valid && num_cores_socket.c_idx == n"
NTS_TOT = "num_threads_socket.sum_known && num_threads_socket.total <= num_threads && VV_WF(num_threads_socket)"
HEAD6 = "(n == 0 ? (num_thread == 0 && !num_threads_socket.scan_valid) : (%s && num_thread <= num_threads_socket.scan_prefix + num_threads_socket.c_val))" % SCAN_AT(NTS, "n - 1")
NPC1 = "num_pus_cores.sum_known && num_pus_cores.total == num_thread_socket && !num_pus_cores.scan_valid"
# sizes of the per-socket vectors; the victim core's inner vector has as many entries as its counter says
PIB = ("pu_indexes.size == NCORES && num_pus_cores.size == NCORES && next_pu_index.size == NCORES && VV_WF(num_pus_cores)"
       " && (g_cv >= NCORES || pu_indexes.v_size == num_pus_cores.v_val)")
# -- P_BOUNDS is decided by two units: "local" (indices of the function's own vectors, error reporting) ...
NUMA_LOOPS_LOCAL = {
    1: "__CPROVER_assigns(n, num_cores_socket)\n__CPROVER_loop_invariant(n <= num_sockets && %s)" % SZ3,
    2: "__CPROVER_assigns(n, core_offset, pus_t, num_pus_socket, num_cores_socket, g_invalid_pair)\n__CPROVER_loop_invariant(n <= num_sockets && %s)" % SZ3,
    3: "__CPROVER_assigns(num_core, num_pus_socket, num_cores_socket, g_invalid_pair)\n__CPROVER_loop_invariant(n < num_sockets && %s)" % SZ3,
    4: "__CPROVER_assigns(num_pu, num_pus_socket, g_invalid_pair)\n__CPROVER_loop_invariant(n < num_sockets && %s)" % SZ3,
    5: "__CPROVER_assigns(n, pus_t2, num_threads_socket, num_pus_socket)\n__CPROVER_loop_invariant(n <= num_sockets && %s)" % SZ3,
    6: "__CPROVER_assigns(n, num_thread, core_offset, num_threads_socket, num_cores_socket, OUT_FRAME, PI_FRAME, ERR_FRAME)\n"
       "__CPROVER_loop_invariant(n <= num_sockets && %s && %s && %s)" % (SZ3, E_INV, C_INV),
    7: "__CPROVER_assigns(num_thread_socket, num_threads_socket, num_cores_socket, next_pu_index, num_pus_cores, pu_indexes, g_invalid_pair)\n"
       "__CPROVER_loop_invariant(n < num_sockets && %s && %s && %s)" % (SZ3, NCS_AT, PIB),
    8: "__CPROVER_assigns(num_core, num_thread_socket, num_threads_socket, num_cores_socket, next_pu_index, num_pus_cores, pu_indexes, g_invalid_pair)\n"
       "__CPROVER_loop_invariant(n < num_sockets && num_core <= NCORES && %s && %s && %s)" % (SZ3, NCS_AT, PIB),
    9: use_pu_loop("num_core + core_offset"),
    10: "__CPROVER_assigns(num_core, num_thread, num_cores_socket, num_pus_cores, pu_indexes, OUT_FRAME, PI_FRAME, ERR_FRAME)\n"
        "__CPROVER_loop_invariant(n < num_sockets && num_core <= NCORES && %s && %s && %s && %s && %s)" % (SZ3, NCS_AT, PIB, E_INV, C_INV),
    11: "__CPROVER_assigns(num_pu, num_thread, num_pus_cores, pu_indexes, OUT_FRAME, PI_FRAME, ERR_FRAME)\n"
        "__CPROVER_loop_invariant(n < num_sockets && num_core < NCORES && %s && %s && %s && %s && %s)" % (SZ3, NCS_AT, PIB, E_INV, C_INV),
    "count": 11,
}
# ... and "workers" (the worker index num_thread stays below num_threads: sums of the per-socket / per-core counters)
WSZ = "num_pus->size == num_threads && affinities->size == num_threads"
# redundant range facts (all derivable from the sums): they spare the SAT solver the no-wrap-around reasoning
RANGES = "num_threads <= VX_BIG && num_thread <= VX_BIG && num_threads_socket.scan_prefix <= VX_BIG && num_threads_socket.c_val <= VX_BIG && num_pus_cores.total <= VX_BIG"
RANGES_NPC = "num_pus_cores.scan_prefix <= VX_BIG && num_pus_cores.c_val <= VX_BIG"
F12 = ("num_threads_socket.scan_prefix + num_threads_socket.c_val <= num_threads && "
       "num_threads_socket.scan_prefix + num_pus_cores.total <= num_threads")
F3 = RANGES_NPC + " && num_threads_socket.scan_prefix + num_pus_cores.scan_prefix + num_pus_cores.c_val <= num_threads"
NUMA_W_COMMON = RANGES + " && " + F12 + " && %s && %s && num_pus_cores.sum_known && num_pus_cores.total <= num_threads_socket.c_val && VV_WF(num_pus_cores) && !vx_exc && %s" % (
    SCAN_AT(NTS, "n"), NTS_TOT, WSZ)
NUMA_W_OUTER = ("(num_core == 0 ? (!num_pus_cores.scan_valid && num_thread <= num_threads_socket.scan_prefix) : "
                "(%s && %s && num_thread <= num_threads_socket.scan_prefix + num_pus_cores.scan_prefix + num_pus_cores.c_val))" % (SCAN_AT("num_pus_cores", "num_core - 1"), F3))
NUMA_W_INNER = ("((num_pu == 0 && %s) || (%s && %s && num_pu <= num_pus_cores.c_val && num_thread <= num_threads_socket.scan_prefix + num_pus_cores.scan_prefix + num_pu))"
                % (NUMA_W_OUTER, SCAN_AT("num_pus_cores", "num_core"), F3))
NUMA_LOOPS_WORKERS = {
    1: "__CPROVER_assigns(n, num_cores_socket)\n__CPROVER_loop_invariant(n <= num_sockets)",
    2: "__CPROVER_assigns(n, core_offset, pus_t, num_pus_socket, num_cores_socket, g_invalid_pair)\n__CPROVER_loop_invariant(n <= num_sockets)",
    3: "__CPROVER_assigns(num_core, num_pus_socket, num_cores_socket, g_invalid_pair)\n__CPROVER_loop_invariant(n < num_sockets)",
    4: "__CPROVER_assigns(num_pu, num_pus_socket, g_invalid_pair)\n__CPROVER_loop_invariant(num_pu <= num_pus)",
    5: "__CPROVER_assigns(n, pus_t2, num_threads_socket, num_pus_socket)\n"
       "__CPROVER_loop_invariant(n <= num_sockets && num_threads_socket.sum_known && num_threads_socket.total == pus_t2 && num_threads_socket.zero_from == n"
       " && pus_t2 <= num_threads && !num_threads_socket.scan_valid && VV_WF(num_threads_socket))",
    6: "__CPROVER_assigns(n, num_thread, core_offset, num_threads_socket, num_cores_socket, OUT_FRAME, PI_FRAME, ERR_FRAME)\n"
       "__CPROVER_loop_invariant(n <= num_sockets && %s && %s && !vx_exc && %s)" % (NTS_TOT, HEAD6, WSZ),
    7: "__CPROVER_assigns(num_thread_socket, num_threads_socket, num_cores_socket, next_pu_index, num_pus_cores, pu_indexes, g_invalid_pair)\n"
       "__CPROVER_loop_invariant(%s && %s && VV_WF(num_pus_cores) && ((num_thread_socket == 0 && %s) || "
       "(%s && num_thread_socket <= num_threads_socket.c_val && num_thread <= num_threads_socket.scan_prefix)))" % (
           NTS_TOT, NPC1, HEAD6, SCAN_AT(NTS, "n")),
    8: "__CPROVER_assigns(num_core, num_thread_socket, num_threads_socket, num_cores_socket, next_pu_index, num_pus_cores, pu_indexes, g_invalid_pair)\n"
       "__CPROVER_loop_invariant(%s && %s && VV_WF(num_pus_cores) && "
       "%s && num_thread_socket < num_threads_socket.c_val && num_thread <= num_threads_socket.scan_prefix)" % (
           NTS_TOT, NPC1, SCAN_AT(NTS, "n")),
    9: use_pu_loop("num_core + core_offset"),
    10: "__CPROVER_assigns(num_core, num_thread, num_cores_socket, num_pus_cores, pu_indexes, OUT_FRAME, PI_FRAME, ERR_FRAME)\n"
        "__CPROVER_loop_invariant(%s && %s)" % (NUMA_W_COMMON, NUMA_W_OUTER),
    11: "__CPROVER_assigns(num_pu, num_thread, num_pus_cores, pu_indexes, OUT_FRAME, PI_FRAME, ERR_FRAME)\n"
        "__CPROVER_loop_invariant(%s && %s)" % (NUMA_W_COMMON, NUMA_W_INNER),
    "count": 11,
}
# P_PAIR: what is stored for worker k satisfies the property predicates; the victim cell of pu_indexes holds a PU of
# core g_cv + core_offset that passed pu_in_process_mask
KP = "K_SHAPE && SAME_PAIR && IN_MASK(use_process_mask)"
PIC = "(!(use_process_mask && g_jv < pu_indexes.v_size && g_cv + core_offset == g_vc && pu_indexes.v_val == g_vp) || g_v_inmask)"
NUMA_LOOPS_PAIR = {
    1: "__CPROVER_assigns(n, num_cores_socket)\n__CPROVER_loop_invariant(n <= num_sockets)",
    2: "__CPROVER_assigns(n, core_offset, pus_t, num_pus_socket, num_cores_socket, g_invalid_pair)\n__CPROVER_loop_invariant(n <= num_sockets)",
    3: "__CPROVER_assigns(num_core, num_pus_socket, num_cores_socket, g_invalid_pair)\n__CPROVER_loop_invariant(n < num_sockets)",
    4: "__CPROVER_assigns(num_pu, num_pus_socket, g_invalid_pair)\n__CPROVER_loop_invariant(num_pu <= num_pus)",
    5: "__CPROVER_assigns(n, pus_t2, num_threads_socket, num_pus_socket)\n__CPROVER_loop_invariant(n <= num_sockets)",
    6: "__CPROVER_assigns(n, num_thread, core_offset, num_threads_socket, num_cores_socket, OUT_FRAME, PI_FRAME, ERR_FRAME)\n"
       "__CPROVER_loop_invariant(n <= num_sockets && !vx_exc && %s)" % KP,
    7: "__CPROVER_assigns(num_thread_socket, num_threads_socket, num_cores_socket, next_pu_index, num_pus_cores, pu_indexes, g_invalid_pair)\n"
       "__CPROVER_loop_invariant(%s)" % PIC,
    8: "__CPROVER_assigns(num_core, num_thread_socket, num_threads_socket, num_cores_socket, next_pu_index, num_pus_cores, pu_indexes, g_invalid_pair)\n"
       "__CPROVER_loop_invariant(%s)" % PIC,
    9: use_pu_loop("num_core + core_offset"),
    10: "__CPROVER_assigns(num_core, num_thread, num_cores_socket, num_pus_cores, pu_indexes, OUT_FRAME, PI_FRAME, ERR_FRAME)\n"
        "__CPROVER_loop_invariant(!vx_exc && %s && %s)" % (KP, PIC),
    11: "__CPROVER_assigns(num_pu, num_thread, num_pus_cores, pu_indexes, OUT_FRAME, PI_FRAME, ERR_FRAME)\n"
        "__CPROVER_loop_invariant(!vx_exc && %s && %s)" % (KP, PIC),
    "count": 11,
}
ROUND = Sub(r"static_cast<std::size_t>\(std::round\(\s*static_cast<double>\(([^;]+?)\)\s*/\s*static_cast<double>\(([^;]+?)\)\)\)",
            r"vx_round_ratio(\1, \2)", 1)
DEC_RULES = [THROWS_IF, CNT_CALL] + SPELL + [TOPO] + OUT_VECS

# ---- binding "none" (affinity_data.cpp) ----
AD_HPP = "libs/pika/affinity/include/pika/affinity/affinity_data.hpp"
NONE_SPELL = [
    Sub(r"threads::detail::mask_type\(\)", "mask_default()", None),
    Sub(r"threads::detail::mask_type\b", "struct mask", None),
    Sub(r"threads::detail::hardware_concurrency\(\)", "vx_hardware_concurrency()", None),
    Call(r"threads::detail::resize\(\s*no_affinity_\s*,", "bitmask_resize(&self->no_affinity_, {0})", None),
]
GET_PU_NUM = Lift(AD_HPP, r"std::size_t get_pu_num\(std::size_t num_thread\) const", rules=[
    Sub(r"\bpu_nums_\.size\(\)", "self->pu_nums_size", 1),
    Index("pu_nums_", "vx_pu_nums_at(self, {0})", 1)])
LOOP_NONE = ("__CPROVER_assigns(i, self->no_affinity_.v_bit)\n"
             "__CPROVER_loop_invariant(i <= self->num_threads_ && ((g_k < i && g_k_punum == g_b) ==> self->no_affinity_.v_bit))")
NONE_LIFTS = {
    "get_pu_num": GET_PU_NUM,
    "none_branch": Lift(AD, r'if \(affinity_description == "none"\)', rules=[
        Sub(r"threads::detail::resize\(no_affinity_,\s*([^;]+)\);", r"bitmask_resize(&self->no_affinity_, \1);", 1),
        Sub(r"threads::detail::set\(no_affinity_,\s*([^;]+)\);", r"bitmask_set(&self->no_affinity_, \1);", 1),
        Sub(r"\bget_pu_num\(", "get_pu_num(self, ", 1),
        Members(["num_threads_"])], loops={1: LOOP_NONE, "count": 1}),
}
GPM_LIFTS = {
    "get_pu_num": GET_PU_NUM,
    "get_pu_mask": Lift(AD, r"threads::detail::mask_cref_type affinity_data::get_pu_mask\(", rules=[
        Sub(r"threads::detail::test\(no_affinity_,\s*([^()]+)\)", r"bitmask_test(&self->no_affinity_, \1)", 1),
        Sub(r"static threads::detail::mask_type (\w+) = threads::detail::mask_type\(\);", r"struct mask \1 = mask_default();", 1),
        Sub(r"threads::detail::resize\((\w+),\s*threads::detail::hardware_concurrency\(\)\);", r"mask_resize(&\1, vx_hardware_concurrency());", 1),
        Sub(r"\baffinity_masks_\.empty\(\)", "(self->affinity_masks_size == 0)", 1),
        Index("affinity_masks_", "vx_affinity_masks_at(self, {0})", 1),
        Sub(r"\bget_pu_num\(", "get_pu_num(self, ", 1),
        Sub(r'0 == std::string\("(\w+)"\)\.find\(affinity_domain_\)', r"vx_domain_has_prefix(self, DOM_\1)", 4),
        ObjCall("topo", "topo_"),
    ]),
}
# ---- affinity_data::init, the bind branch: cleared masks in, "accepted => every worker bound" out ----
LOOP_CI = ("__CPROVER_assigns(vx_it, count, g_o_mask)\n"
           "__CPROVER_loop_invariant(vx_it <= masks->size && count <= vx_it && ((g_k < vx_it && g_k_mask.kind == MK_EMPTY) ==> count < vx_it))")
LOOP_BB = "__CPROVER_assigns(i)\n__CPROVER_loop_invariant(i <= self->num_threads_)"
INIT_UNITS = [
    Unit("init.count_initialized", "initbind.c", defines=["U_COUNT_INITIALIZED"], enforce="count_initialized",
         lifts={"count_initialized": Lift(AD, r"inline std::size_t count_initialized\(", rules=[
             Sub(r"for \(threads::detail::mask_cref_type (\w+) : (\w+)\)\s*\{",
                 r"for (size_t vx_it = 0; vx_it != \2->size; ++vx_it) { struct mask \1 = ro_at(\2, vx_it);", 1),
             Sub(r"threads::detail::any\(", "mask_any(", None)], loops={1: LOOP_CI, "count": 1})},
         funcs=[AD + ": count_initialized"], min_obligations=8, solver=["--sat-solver", "cadical"]),
    Unit("init.bind_branch", "initbind.c", defines=["U_BIND_BRANCH"], enforce="init_bind_branch",
         lifts={"bind_branch": Lift(AD, r"else if \(!affinity_description\.empty\(\)\)", rules=[
             Sub(r"\baffinity_masks_\.clear\(\);", "masks_clear(self);", None),
             Call(r"\baffinity_masks_\.resize", "masks_resize(self, {0}, {1})", None),
             Sub(r"threads::detail::mask_type\s*\{\s*\}", "mask_default()", None),
             Sub(r"threads::detail::resize\(affinity_masks_\[([^\]]+)\],\s*([^;]+)\);", r"mask_resize_at(self, \1, \2);", None),
             Call(r"(?<![\w.>])parse_affinity_options(?!\s*\(\s*[^,]*,\s*self\b)", "parse_affinity_options({0}, self, {2}, {3}, {4}, {6}); if (g_thrown) return", 1),
             Sub(r"count_initialized\(affinity_masks_\)", "count_initialized_c(self)", None),
             Call(r"PIKA_THROW_EXCEPTION", "{{ g_thrown = true; return; }}", None),
             Members(["num_threads_", "use_process_mask_"])], loops={1: LOOP_BB, "count": 1})},
         funcs=[AD + ": affinity_data::init (the branch for a non-empty, non-`none` bind description)"], min_obligations=10, solver=["--sat-solver", "cadical"]),
]

# ---- topology::set_thread_affinity_mask: logical PU mask -> OS cpuset (added by main after seeded change C15-3 was missed) ----
TOPO_CPP = "libs/pika/topology/src/topology.cpp"
LOOP_STAM = ("__CPROVER_assigns(i, g_set, g_obj)\n"
             "__CPROVER_loop_invariant(i <= mask->size && !g_set.freed && g_set.sets >= 0 && g_set.sets <= 2 && g_set.v_bit == (g_vl < i && mask->v_bit))")
TOPO_UNITS = [
    Unit("topo.set_thread_affinity_mask", "topo.c", enforce="set_thread_affinity_mask", lifts={
        "get_index": Lift(TOPO_CPP, r"std::size_t get_index\(hwloc_obj_t obj\)", rules=[]),
        "body": Lift(TOPO_CPP, r"void topology::set_thread_affinity_mask\(mask_cref_type mask, error_code& ec\) const", rules=[
            Sub(r"\bunsigned\((\w+)\)", r"((unsigned)(\1))", None),
            Sub(r"\bdetail::get_index\(", "get_index(", None),
            Sub(r"\btest\(mask,", "mask_test(mask,", None),
            Guard(r"std::unique_lock<mutex_type> (\w+)\(topo_mtx\);", "VX_ASSERT(!self->topo_mtx.held, \"topo_mtx locked twice\"); self->topo_mtx.held = true;",
                  "self->topo_mtx.held = false;", None),
            Sub(r"std::unique_ptr<char\[\]> \w+\(new char\[\d+\]\);", "", None),
            DropStmt(r"\bhwloc_bitmap_snprintf", None),
            Call(r"\bPIKA_THROWS_IF", "vx_throws_if({0}, 1)", None),
            Sub(r"\bsleep\(0\);", "vx_sleep0();", None),
            Sub(r"if \(&ec != &throws\) ec = make_success_code\(\);", "if (ec != &vx_throws_obj) ec->value = 0;", None),
            Sub(r"(?<![\w.>])topo(?=\s*[,)])", "self->topo", None),
        ], loops={1: LOOP_STAM, "count": 1})},
        funcs=[TOPO_CPP + ": topology::set_thread_affinity_mask, detail::get_index"], min_obligations=10, solver=["--sat-solver", "cadical"],
        doc="T: the cpuset handed to hwloc_set_cpubind contains OS PU x iff the logical PU with os_index x is in the pika mask"),
]

# ---- scheduled_thread_pool::thread_func binding prologue (added by main after seeded change C15-4 was missed) ----
STP_IMPL = "libs/pika/thread_pools/include/pika/thread_pools/scheduled_thread_pool_impl.hpp"
TFUNC_UNITS = [
    Unit("pool.thread_func.bind", "tfunc.c", enforce="thread_func_bind", lifts={
        "body": Lift(STP_IMPL, r"void\s+pika::threads::detail::scheduled_thread_pool<Scheduler>::thread_func\(",
                     fragment_end=r"if \(get_scheduler\(\)->has_scheduler_mode\(", rules=[
            Sub(r"\A.*?std::shared_ptr<pika::concurrency::detail::barrier> startup\)\s*\{", "{", 1),
            Sub(r"if \(get_scheduler\(\)->has_scheduler_mode\(\Z", "}", 1),
            Sub(r"\btopology const& (\w+) = get_topology\(\);", r"struct topology const *\1 = get_topology();", 1),
            Sub(r"(?:threads::detail::)?mask_type (\w+) = affinity_data_\.get_pu_mask\(", r"struct pmask \1 = get_pu_mask(&self->affinity_data_, ", 1),
            Sub(r"\bany\((\w+)\)", r"mask_any(&\1)", None),
            Sub(r"\btopo\.(get_machine_affinity_mask|write_to_log)\(\)", r"topo_\1(topo)", None),
            Sub(r"\bif \(PIKA_LOG_ENABLED\(debug\)\)", "if (nondet_bool())", None),
            Sub(r"\berror_code (\w+)\(throwmode::lightweight\);", r"struct error_code \1 = error_code_make(throwmode_lightweight);", 1),
            Sub(r"\btopo\.set_thread_affinity_mask\((\w+), (\w+)\);", r"topo_set_thread_affinity_mask(topo, &\1, &\2);", None),
            Sub(r"\bif \(ec\)", "if (ec.value)", None),
        ])},
        funcs=[STP_IMPL + ": scheduled_thread_pool<Scheduler>::thread_func (binding prologue, up to the thread-priority step)"], min_obligations=5,
        doc="F: the worker's OS thread binds itself once, with the mask of its GLOBAL worker number (machine mask if that is empty)"),
]

# ---- thread_manager::init (added by main after seeded change C15-5 was missed): the thread offsets the global worker numbers are built from ----
TM_CPP = "libs/pika/thread_manager/src/thread_manager.cpp"
LOOP_TMINIT = ("__CPROVER_assigns(vx_it, threads_offset, g_cur_pool, g_visited, g_sum, g_cur_n, g_cur_n_valid, g_cur_inited, g_os_count_reads)\n"
               "__CPROVER_loop_invariant(vx_it <= self->npools && g_visited == vx_it && threads_offset == g_sum && g_sum <= 0x10000 * vx_it && (vx_it == 0 || g_cur_inited))")
TFUNC_UNITS.append(Unit("tm.init", "tminit.c", enforce="thread_manager_init", lifts={"body": Lift(TM_CPP, r"void thread_manager::init\(\)", rules=[
    Sub(r"\bauto& (\w+) = pika::resource::get_partitioner\(\);", r"struct rp *\1 = get_partitioner();", None),
    Sub(r"for \(auto&& (\w+) : pools_\)\s*\{", r"for (size_t vx_it = 0; vx_it != self->npools; ++vx_it) { struct pool *\1 = pools_at(self, vx_it);", 1),
    Sub(r"\b(\w+)\.get_num_threads\(", r"rp_get_num_threads(\1, ", None),
    Sub(r"\b(\w+)->(get_pool_index|get_os_thread_count)\(\)", r"pool_\2(\1)", None),
    Sub(r"\b(\w+)->init\(", r"pool_init(\1, ", None),
], loops={1: LOOP_TMINIT, "count": 1})}, funcs=[TM_CPP + ": thread_manager::init"], min_obligations=8,
    doc="I: every pool, in order, is initialised with the partitioner's worker count for it and with thread offset = workers of all "
        "pools before it (symbolic number of pools)"))

NONE_UNITS = [
    Unit("none.init_branch", "none.c", defines=["U_NONE_BRANCH"], enforce="init_none_branch", lifts=NONE_LIFTS,
         funcs=[AD + ": affinity_data::init (the `none` branch)", AD_HPP + ": affinity_data::get_pu_num(num_thread)"], min_obligations=10),
    Unit("none.get_pu_mask", "none.c", defines=["U_GET_PU_MASK"], enforce="get_pu_mask", lifts=GPM_LIFTS,
         funcs=[AD + ": affinity_data::get_pu_mask", AD_HPP + ": affinity_data::get_pu_num(num_thread)"], min_obligations=10),
    Unit("none.get_pu_num_default", "none.c", defines=["U_GET_PU_NUM_HC"], enforce="get_pu_num_hc",
         lifts={"get_pu_num": GET_PU_NUM, "get_pu_num_hc": Lift(AD, r"std::size_t affinity_data::get_pu_num\(\s*std::size_t num_thread, std::size_t hardware_concurrency\) const",
                                                              rules=[Members(["pu_offset_", "pu_step_"])])},
         funcs=[AD + ": affinity_data::get_pu_num(num_thread, hardware_concurrency) [pu_offset_ == 0, pu_step_ == 1]"], min_obligations=5, timeout=300,
         extra_flags=["--unsigned-overflow-check"]),
    Unit("none.lemma", "none.c", defines=["U_NONE_LEMMA"], kind="lemma", replace=["init_none_branch", "get_pu_mask"],
         lifts={"get_pu_num": GET_PU_NUM}, funcs=["lemma over the contracts of affinity_data::init (none branch) and affinity_data::get_pu_mask"],
         doc="bind=none: every worker gets the empty affinity mask"),
]

def numa_lifts(loops):
    return dict(HELPERS, body=Lift(PAO, r"void decode_numabalanced_distribution\(", rules=[ROUND] + DEC_RULES + LOCAL_DECLS +
                                   locvec(NCS) + locvec(NPS, writes=None) + locvec(NTS) + locvec("next_pu_index") +
                                   locvec("num_pus_cores", writes=None) + PU_INDEXES, loops=loops))


UNITS = [
    Unit("decode.numa_balanced.workers", "decoders.c", defines=["U_NUMA_WORKERS", "VX_NO_LOCAL_IDX_ASSERT", "VX_FEW_REACH"],
         enforce="decode_numabalanced_distribution", lifts=numa_lifts(NUMA_LOOPS_WORKERS),
         funcs=[PAO + ": decode_numabalanced_distribution, check_num_threads, pu_in_process_mask"], min_obligations=40, timeout=900, no_replay=True, object_bits=12,
         tier="thorough",  # ~270-350 s: too slow for the quick tier (bounded.numa_balanced.* stand in for it there)
         solver=["--sat-solver", "cadical"],  # MiniSat does not finish the sum inequalities; CaDiCaL does
         doc="affinities[num_thread] / num_pus[num_thread]: the worker index stays below num_threads"),
    Unit("decode.numa_balanced.local", "decoders.c", defines=["U_NUMA_BOUNDS", "VX_NO_OUT_IDX_ASSERT", "VX_NO_SUM", "NCORES=num_cores_socket.c_val"],
         enforce="decode_numabalanced_distribution", lifts=numa_lifts(NUMA_LOOPS_LOCAL),
         funcs=[PAO + ": decode_numabalanced_distribution, check_num_threads, pu_in_process_mask"], min_obligations=40, timeout=300, no_replay=True, object_bits=12,  # replay: the bounded re-run of 11 nested loops does not fit; bounded.numa_balanced.* reproduce natively
        
         doc="every access to the function's local vectors in bounds, num_pus sized, oversubscription reported"),
    Unit("decode.numa_balanced.pair", "decoders.c", defines=["U_NUMA_PAIR", "VX_NO_IDX_ASSERT", "VX_NO_SUM"],
         enforce="decode_numabalanced_distribution", lifts=numa_lifts(NUMA_LOOPS_PAIR),
         funcs=[PAO + ": decode_numabalanced_distribution, check_num_threads, pu_in_process_mask"], min_obligations=40, timeout=300, no_replay=True, object_bits=12,  # replay: the bounded re-run of 11 nested loops does not fit; bounded.numa_balanced.* reproduce natively
        
         doc="reported PU number and mask come from the same (core, pu) pair; only PUs inside the process mask are used"),
    Unit("decode.balanced", "decoders.c", defines=["U_BALANCED", "NCORES=num_cores"], enforce="decode_balanced_distribution",
         lifts=dict(HELPERS, body=Lift(PAO, r"void decode_balanced_distribution\(", rules=DEC_RULES + LOCAL_DECLS + locvec("next_pu_index") +
                                       locvec("num_pus_cores", writes=None) + PU_INDEXES, loops=BALANCED_LOOPS)),
         funcs=[PAO + ": decode_balanced_distribution, check_num_threads, pu_in_process_mask"], min_obligations=40, timeout=300, no_replay=DEV),
    Unit("decode.scatter", "decoders.c", defines=["U_SCATTER"], enforce="decode_scatter_distribution",
         lifts=dict(HELPERS, body=Lift(PAO, r"void decode_scatter_distribution\(", rules=DEC_RULES + LOCAL_DECLS + locvec("next_pu_index"),
                                       loops=SCATTER_LOOPS)),
         funcs=[PAO + ": decode_scatter_distribution, check_num_threads, pu_in_process_mask"], min_obligations=40, timeout=300, no_replay=DEV),

    Unit("decode.compact", "decoders.c", defines=["U_COMPACT"], enforce="decode_compact_distribution",
         lifts=dict(HELPERS, body=Lift(PAO, r"void decode_compact_distribution\(", rules=DEC_RULES,
                                       loops=COMPACT_LOOPS)),
         funcs=[PAO + ": decode_compact_distribution, check_num_threads, pu_in_process_mask"], min_obligations=40, timeout=300, no_replay=DEV),
    Unit("decode_distribution", "dispatch.c", enforce="decode_distribution",
         lifts={"dist_enum": Lift(PAO_HPP, r"enum distribution_type", fragment_end=r"\};", rules=[]),
                "body": Lift(PAO, r"void decode_distribution\(", rules=[Call(r"\baffinities\.resize", "maskvec_resize(affinities, {0})", None)])},
         funcs=[PAO + ": decode_distribution"], min_obligations=10),
] + NONE_UNITS + INIT_UNITS + TOPO_UNITS + TFUNC_UNITS + [
    Unit("pu_in_process_mask", "decoders.c", defines=["U_PIM"], enforce="pu_in_process_mask", lifts=dict(HELPERS),
         funcs=[PAO + ": pu_in_process_mask"], min_obligations=3),
    Unit("check_num_threads", "decoders.c", defines=["U_CNT"], enforce="check_num_threads", lifts=dict(HELPERS),
         funcs=[PAO + ": check_num_threads"], min_obligations=3),
]

# ---- bounded stand-ins (distinctness, completeness): concrete small machines, real loops unwound ----
def nocontract(lift_loops_count, locator, extra):
    return Lift(PAO, locator, rules=([ROUND] if "numa" in locator else []) + DEC_RULES + extra, loops={"count": lift_loops_count})
B_HELP = {"pim": Lift(PAO, r"bool pu_in_process_mask\(", rules=SPELL + [TOPO]),
          "cnt": Lift(PAO, r"void check_num_threads\(", rules=[THROWS_IF] + SPELL + [TOPO])}
BOUNDED = [
    ("compact", "decode_compact_distribution", 3, [], 7),
    ("scatter", "decode_scatter_distribution", 3, LOCAL_DECLS + locvec("next_pu_index"), 7),
    ("balanced", "decode_balanced_distribution", 5, LOCAL_DECLS + locvec("next_pu_index") + locvec("num_pus_cores", writes=None) + PU_INDEXES, 7),
    ("numa_balanced", "decode_numabalanced_distribution", 11, LOCAL_DECLS + locvec(NCS) + locvec(NPS, writes=None) + locvec(NTS) +
     locvec("next_pu_index") + locvec("num_pus_cores", writes=None) + PU_INDEXES, 7),
]
def shapes():
    """(sockets, cores socket 0, cores socket 1, PU pattern): bit c of the pattern set <=> core c has 2 hardware threads"""
    out = []
    for c0 in (1, 2, 3):
        for pat in range(1 << c0):
            out.append((1, c0, 0, pat))
    for c0 in (1, 2, 3):
        for c1 in (1, 2, 3):
            for pat in range(1 << (c0 + c1)):
                out.append((2, c0, c1, pat))
    return out


def quick_shape(s, c0, c1, pat):
    """the quick tier runs the largest and the most asymmetric machines; the thorough tier all 210"""
    n = c0 + c1
    full = (1 << n) - 1
    s0 = (1 << c0) - 1                      # only socket 0 has SMT
    alt = 0b010101 & full
    if (s, c0, c1) not in ((1, 3, 0), (2, 3, 3), (2, 1, 3), (2, 3, 1)):
        return False
    return pat in (alt, full & ~alt, s0, full & ~s0)


for (bn, fn, nl, extra, unw) in BOUNDED:
    for (s, c0, c1, pat) in shapes():
        UNITS.append(Unit("bounded.%s.S%dC%d%dP%02d" % (bn, s, c0, c1, pat), "bounded.c",
                          defines=["DECODE=" + fn, "B_S=%d" % s, "B_C0=%d" % c0, "B_C1=%d" % c1, "B_P=%d" % pat],
                          kind="bounded", unwind=unw, timeout=300, tier="quick" if quick_shape(s, c0, c1, pat) else "thorough",
                          lifts=dict(B_HELP, body=nocontract(nl, r"void %s\(" % fn, extra)), loop_contracts=False,
                          funcs=[PAO + ": " + fn + ", check_num_threads, pu_in_process_mask"],
                          doc="BOUNDED: machine with %d socket(s), %d+%d cores, PUs per core pattern %s; every process mask, threads 1..#PUs+1, "
                              "ec == throws, used_cores == 0, max_cores == #cores: all workers assigned to exactly one PU inside the mask, "
                              "pairwise distinct, reported PU == bound PU" % (s, c0, c1, bin(pat))))

META = {
    "trusted_base": [
        "specs/C15/c15.h topology stubs (topo_*): hwloc / threads::detail::topology is an UNINTERPRETED BUT FUNCTIONAL environment: every query "
        "returns an arbitrary value, fixed for the symbolic victim pair (g_vc, g_vp) (get_pu_number, 'PU in process mask', get_number_of_core_pus); "
        "a mask built by init_thread_affinity_mask(core, pu) is represented by the pair it was built from and is non-empty; bit_and / count are only "
        "used on (process mask, single-PU mask) / the process mask (asserted)",
        "specs/C15/c15.h struct vxvec / vxvec2 (local std::vector abstractions): size + victim element + most-recently-touched element + exact sum + "
        "in-order scan; VX_ASSUME (3x): an element is <= the sum of all elements, prefix sum + next element <= the sum (arithmetic of non-negative "
        "numbers), a vector holds fewer than SIZE_MAX elements.  Reads of other elements are arbitrary",
        "specs/C15/c15.h affinities / num_pus: ONE symbolic victim worker g_k; other workers' elements are arbitrary at every read",
        "specs/C15/c15.h vx_round_ratio: static_cast<size_t>(std::round(double(a) / double(b))) is NOT modelled (no floating point): the operands are "
        "evaluated, the result is an arbitrary value <= 10^9 (VX_ASSUME); decode_numabalanced_distribution is verified for num_threads <= 10^9",
        "specs/C15/c15.h vx_throws_if: PIKA_THROWS_IF throws iff &ec == &pika::throws (exception edge lowered to `if (vx_exc) return;`), else stores "
        "the code in ec and continues",
        "specs/C15/none.c bitmask_* / vx_pu_nums_at: no_affinity_ as ONE symbolic victim bit; pu_nums_[i] < hardware concurrency (VX_ASSUME: "
        "get_pu_num(i, hc) ends in `% hc`)",
        "specs/C15/c15b.h (bounded units only): concrete machine model mirroring topology.cpp's modulo wrap-around of out-of-range indices",
        "CaDiCaL instead of MiniSat for decode.numa_balanced.workers (same CBMC, --sat-solver cadical)",
    ],
    "assumptions": [
        "none.lemma: with --pika:bind the command line forbids --pika:pu-offset / --pika:pu-step (command_line_handling.cpp:378-385), so "
        "pu_offset_ == 0, pu_step_ == 1; with num_threads <= hardware concurrency the cached PU number of worker k is then k (proved for "
        "get_pu_num(i, hc) by none.get_pu_num_default; that init_cached_pu_nums stores exactly these values is read off the code, not lifted).  Without that, init's `none` branch sets bit get_pu_num(i) while get_pu_mask tests bit global_thread_num",
        "bounded units: ec == pika::throws (what affinity_data::init passes), used_cores == 0 (what init_runtime.cpp passes), max_cores == #cores",
        "decode_distribution: d is one of the four enumerators (parse_mappings produces nothing else)",
    ],
    "not_decided": [
        "distinctness ('two workers never share a PU') and completeness INSIDE the decoders ('all workers assigned'; for ACCEPTED configurations it follows unboundedly from init.bind_branch: init throws unless every worker's mask is non-empty) for unbounded machines: they need 'no second sweep "
        "over the cores', i.e. sum over all (core, pu) of pu_in_process_mask >= num_threads -- a sum over an uninterpreted function that the victim "
        "ghosts cannot express; decided only by the bounded.* stand-ins (<= 2 sockets x <= 3 cores x <= 2 PUs)",
        "termination of the decoders (an empty effective mask with num_threads >= 1 and ec != throws loops forever; bounded units use ec == throws)",
        "!use_process_mask with max_cores below the machine's core count (deliberate restriction): the sweep wraps around and PUs are shared",
        "numa-balanced on >= 3 sockets: the per-socket shares round(T * p_n / P) can sum to less than T (e.g. 3 equal sockets, T == 1 or 4), leaving "
        "workers unassigned -- outside the bounded family (<= 2 sockets), not decided by any unit",
        "std::round / double arithmetic, hwloc, the real topology object, sched_setaffinity, resource-partitioner pool exclusivity, "
        "--pika:process-mask parsing, affinity_data::init outside its `none` branch, get_pu_num(i, hc) for pu_offset/pu_step other than 0/1",
    ],
}

# ---- C19 units reused (added by main with pool.thread_func.bind): which GLOBAL worker number a pool's OS thread is started with.
# ---- run() calls add_processing_unit_internal(core, thread_offset_ + core, ...) for every core; the std::thread runs
# ---- thread_func(core, that global number).  Same templates and contracts as in specs/C19, run here as part of C15 as well.
_c19 = {"UNITS": [], "VX_NO_REUSE": True}
if not globals().get("VX_NO_REUSE"):     # reuse is never transitive: the other spec is loaded without ITS reuse blocks (no cycles)
    exec(compile(open("/verif/specs/C19/spec.py").read(), "/verif/specs/C19/spec.py", "exec"), _c19)
for _u in _c19["UNITS"]:
    if _u.name in ("more.add_pu_internal", "more.pool_run_startup"):
        _u.name = "c19." + _u.name
        _u.template = "../C19/" + _u.template
        UNITS.append(_u)
META["trusted_base"] = list(META.get("trusted_base", [])) + [
    "units c19.* are the C19 units of the same name (specs/C19/more.c, more_state.h) with their trusted base",
    "specs/C15/tfunc.c: affinity_data::get_pu_mask / topology::get_machine_affinity_mask / set_thread_affinity_mask as recording stubs "
    "(their own contracts: none.get_pu_mask, topo.set_thread_affinity_mask); error_code as an int; PIKA_LOG_ENABLED arbitrary"]


# ---- C11 units reused: the per-OS-thread worker identity (thread_num_tss.cpp) -- which worker / pool a thread IS (C10: placement and
# ---- "runs on a worker of that pool" are stated in these numbers; C15: the global number indexes the affinity masks)
_c11 = {"UNITS": [], "VX_NO_REUSE": True}
if not globals().get("VX_NO_REUSE"):
    exec(compile(open("/verif/specs/C11/spec.py").read(), "/verif/specs/C11/spec.py", "exec"), _c11)
for _u in _c11["UNITS"]:
    if _u.name.startswith("tss."):
        _u.name = "c11." + _u.name
        _u.template = "../C11/" + _u.template
        UNITS.append(_u)
META["trusted_base"] = list(META.get("trusted_base", [])) + ["units c11.tss.* are the C11 units of the same name (specs/C11/tss.c)"]


# ---- C16 unit reused: the process mask the decoders test PUs against is parsed from the resolved "0x..." string (cpu_mask.hpp)
_c16 = {"UNITS": [], "VX_NO_REUSE": True}
if not globals().get("VX_NO_REUSE"):
    exec(compile(open("/verif/specs/C16/spec.py").read(), "/verif/specs/C16/spec.py", "exec"), _c16)
for _u in _c16["UNITS"]:
    if _u.name == "mask.from_string.to_mask":
        _u.name = "c16." + _u.name
        _u.template = "../C16/" + _u.template
        UNITS.append(_u)
META["trusted_base"] = list(META.get("trusted_base", [])) + ["unit c16.mask.from_string.to_mask is the C16 unit of the same name (specs/C16/hexmask.c)"]
