#!/bin/bash
# Mutation log for C15 (development aid; every line: unit regex, expected exit, regex, replacement).  Run: specs/C15/muts.sh [filter]
F=libs/pika/affinity/src/parse_affinity_options.cpp
A=libs/pika/affinity/src/affinity_data.cpp
cd /verif
m() { # file unit expected regex replacement
  [[ -n "$FILTER" && ! "$2" =~ $FILTER ]] && return
  out=$(C15_DEV=1 VX_JOBS=${VX_JOBS:-3} tools/mut.sh C15 "$1" "$4" "$5" --only "$2" ${VERIF_TIER:+--tier $VERIF_TIER} 2>&1)
  ex=$(echo "$out" | grep -o 'exit=[0-9]*' | tail -1)
  ob=$(echo "$out" | grep -E "FAILED|undecided:" | head -2 | sed 's/^ *//' | cut -c1-150 | tr '\n' '|')
  echo "[$2] expect exit=$3 got $ex :: $4 -> $5 :: $ob"
}
FILTER=$1
# ---- check_num_threads
m $F '^check_num_threads$' 1 'if \(num_threads > num_pus_proc_mask\)' 'if (num_threads >= num_pus_proc_mask)'
m $F '^check_num_threads$' 1 'if \(num_threads > num_threads_available\)' 'if (num_threads < num_threads_available)'
m $F '^check_num_threads$' 1 'std::size_t num_threads_available = threads::detail::hardware_concurrency\(\);' 'std::size_t num_threads_available = threads::detail::hardware_concurrency() + 1;'
m $F '^check_num_threads$' 0 'std::size_t num_pus_proc_mask = threads::detail::count\(proc_mask\);' 'std::size_t const num_pus_proc_mask = threads::detail::count(proc_mask);'
# ---- pu_in_process_mask
m $F '^pu_in_process_mask$' 1 'if \(!use_process_mask\) \{ return true; \}' 'if (!use_process_mask) { return false; }'
m $F '^pu_in_process_mask$' 1 'threads::detail::mask_type pu_mask = t\.init_thread_affinity_mask\(num_core, num_pu\);' 'threads::detail::mask_type pu_mask = t.init_thread_affinity_mask(num_pu, num_core);'
m $F '^pu_in_process_mask$' 1 'return threads::detail::bit_and\(proc_mask, pu_mask\);' 'return !threads::detail::bit_and(proc_mask, pu_mask);'
# ---- compact
m $F 'decode.compact' 1 'num_pus\[num_thread\] = t\.get_pu_number\(num_core \+ used_cores, num_pu\);' 'num_pus[num_thread] = t.get_pu_number(num_core, num_pu);'
m $F 'decode.compact' 1 'if \(!pu_in_process_mask\(use_process_mask, t, num_core, num_pu\)\) \{ continue; \}' ';'
m $F 'decode.compact' 1 'if \(\+\+num_thread == num_threads\) return;(\s+\}\s+\}\s+\}\s+\}\s+// NOLINTBEGIN\(bugprone-easily-swappable-parameters\)\s+void decode_scatter)' 'if (++num_thread > num_threads) return;\1'
m $F 'decode.compact' 1 'check_num_threads\(use_process_mask, t, num_threads, ec\);(\s+if \(use_process_mask\)\s+\{\s+used_cores = 0;\s+max_cores = t.get_number_of_cores\(\);\s+\}\s+std::size_t num_cores = \(std::min\)\(max_cores, t.get_number_of_cores\(\)\);\s+num_pus.resize)' '\1'
m $F 'decode.compact' 1 '(max_cores = t.get_number_of_cores\(\);\s+\}\s+std::size_t num_cores = \(std::min\)\(max_cores, t.get_number_of_cores\(\)\);\s+)num_pus.resize\(num_threads\);(\s+for \(std::size_t num_thread = 0; num_thread < num_threads; /\*\*/\)\s+\{\s+for \(std::size_t num_core = 0; num_core < num_cores; \+\+num_core\)\s+\{\s+std::size_t num_core_pus = t.get_number_of_core_pus\(num_core \+ used_cores\))' '\1\2'
m $F 'decode.compact' 0 'std::size_t num_core_pus = t\.get_number_of_core_pus\(num_core \+ used_cores\);' 'std::size_t const num_core_pus = t.get_number_of_core_pus(used_cores + num_core);'
# ---- scatter
m $F 'decode.scatter' 1 't\.get_pu_number\(num_core \+ used_cores, next_pu_index\[num_core\] - 1\);' 't.get_pu_number(num_core + used_cores, next_pu_index[num_core]);'
m $F 'decode.scatter' 1 '(next_pu_index\[num_core\] = pu_index;\s+)if \(!use_pu\) \{ continue; \}(\s+num_pus\[num_thread\] =\s+t.get_pu_number\(num_core \+ used_cores, next_pu_index)' '\1\2'
m $F 'decode.scatter' 1 'std::vector<std::size_t> next_pu_index\(num_cores, 0\);(\s+num_pus.resize\(num_threads\);\s+for)' 'std::vector<std::size_t> next_pu_index(num_cores - 1, 0);\1'
m $F 'decode.scatter' 1 'if \(\+\+num_thread == num_threads\) return;(\s+\}\s+\}\s+\}\s+/+\s+// NOLINTBEGIN\(bugprone-easily-swappable-parameters\)\s+void decode_balanced)' '++num_thread;\1'
m $F 'decode.scatter' 0 '(std::size_t num_core_pus = t.get_number_of_core_pus\(num_core\);\s+)std::size_t pu_index = next_pu_index\[num_core\];\s+bool use_pu = false;(\s+// Find the next PU on this core which is in the process mask\s+while \(pu_index < num_core_pus\)\s+\{\s+use_pu = pu_in_process_mask\(use_process_mask, t, num_core, pu_index\);\s+\+\+pu_index;\s+if \(use_pu\) \{ break; \}\s+\}\s+next_pu_index\[num_core\] = pu_index;\s+if \(!use_pu\) \{ continue; \}\s+num_pus)' '\1bool use_pu = false; std::size_t pu_index = next_pu_index[num_core];\2'
# ---- balanced
m $F 'decode.balanced' 1 't\.get_pu_number\(num_core \+ used_cores, pu_indexes\[num_core\]\[num_pu\]\);(\s+affinities\[num_thread\] = t.init_thread_affinity_mask\(\s+num_core \+ used_cores, pu_indexes)' 't.get_pu_number(num_core + used_cores, num_pu);\1'
m $F 'decode.balanced' 1 'num_pus_cores\[num_core\]\+\+;\s+if \(\+\+num_thread == num_threads\) break;' 'num_pus_cores[num_core]++; ++num_thread;'
m $F 'decode.balanced' 1 'for \(std::size_t num_pu = 0; num_pu < num_pus_cores\[num_core\]; \+\+num_pu\)(\s+\{\s+if \(threads::detail::any\(affinities\[num_thread\]\)\)\s+\{\s+PIKA_THROWS_IF\(ec, pika::error::bad_parameter, "decode_balanced)' 'for (std::size_t num_pu = 0; num_pu <= num_pus_cores[num_core]; ++num_pu)\1'
m $F 'decode.balanced' 1 '(if \(!use_pu\) \{ continue; \}\s+)pu_indexes\[num_core\]\.push_back\(next_pu_index\[num_core\] - 1\);(\s+num_pus_cores\[num_core\]\+\+;\s+if \(\+\+num_thread == num_threads\) break;)' '\1pu_indexes[num_core].push_back(next_pu_index[num_core]);\2'
# ---- dispatcher
m $F '^decode_distribution$' 1 'case scatter:\s+decode_scatter_distribution\(' 'case scatter: decode_compact_distribution('
m $F '^decode_distribution$' 1 '(decode_balanced_distribution\(\s+t, affinities, used_cores, max_cores, num_pus, use_process_mask, ec\);\s+)break;' '\1'
m $F '^decode_distribution$' 1 'affinities\.resize\(num_threads\);' ';'
m $F '^decode_distribution$' 1 '(case compact:\s+decode_compact_distribution\(\s+t, affinities, )used_cores, max_cores' '\1max_cores, used_cores'
# ---- bind none
m $A 'none' 1 'threads::detail::set\(no_affinity_, get_pu_num\(i\)\);' 'threads::detail::set(no_affinity_, get_pu_num(i) + 1);'
m $A 'none' 1 'for \(std::size_t i = 0; i != num_threads_; \+\+i\)\s+threads::detail::set\(no_affinity_' 'for (std::size_t i = 1; i != num_threads_; ++i) threads::detail::set(no_affinity_'
m $A 'none' 1 'if \(threads::detail::test\(no_affinity_, global_thread_num\)\)\s+\{\s+static' 'if (!threads::detail::test(no_affinity_, global_thread_num)) { static'
m $A 'none' 1 '(threads::detail::resize\(m, threads::detail::hardware_concurrency\(\)\);\s+)return m;' '\1return topo.get_machine_affinity_mask();'
m $A 'none' 0 'threads::detail::resize\(no_affinity_, num_system_pus\);\s+for \(std::size_t i = 0; i != num_threads_; \+\+i\)' 'threads::detail::resize(no_affinity_, num_system_pus); for (std::size_t i = 0; i < num_threads_; ++i)'
# ---- numa-balanced (slow: ~2 min per mutant).  decode.numa_balanced.pair FAILS on the unchanged tree (defect D4), so its mutants are
#      combined with the candidate repair (+ core_offset in get_pu_number) in one replacement: REPAIR alone must give exit=0.
REP_FROM='t\.get_pu_number\(num_core \+ used_cores, pu_indexes\[num_core\]\[num_pu\]\);(\s+affinities\[num_thread\] = t\.init_thread_affinity_mask\(\s+num_core \+ used_cores \+ core_offset)'
REP_TO='t.get_pu_number(num_core + used_cores + core_offset, pu_indexes[num_core][num_pu]);\1'
m $F 'numa_balanced.pair' 0 "$REP_FROM" "$REP_TO"
m $F 'numa_balanced.pair' 1 "use_process_mask, t, num_core \+ core_offset, pu_index\);(.*?)$REP_FROM" "use_process_mask, t, num_core, pu_index);\1${REP_TO/\\1/\\2}"
m $F 'numa_balanced.pair' 1 "(if \(\+\+num_thread == num_threads\) break;.*?)pu_indexes\[num_core\]\.push_back\(next_pu_index\[num_core\] - 1\);(.*?)$REP_FROM" "\1pu_indexes[num_core].push_back(next_pu_index[num_core]);\2${REP_TO/\\1/\\3}"
m $F 'numa_balanced.pair' 1 "$REP_FROM" "t.get_pu_number(num_core + used_cores + core_offset, num_pu);\1"
m $F 'numa_balanced.local' 1 'std::vector<std::size_t> next_pu_index\(num_cores_socket\[n\], 0\);' 'std::vector<std::size_t> next_pu_index(num_cores_socket[n] - 1, 0);'
m $F 'numa_balanced.local' 1 'for \(std::size_t n = 0; n < num_sockets; \+\+n\)(\s+\{\s+num_cores_socket\[n\] = )' 'for (std::size_t n = 0; n <= num_sockets; ++n)\1'
m $F 'numa_balanced.local' 1 'for \(std::size_t num_pu = 0; num_pu < num_pus_cores\[num_core\]; \+\+num_pu\)(\s+\{\s+if \(threads::detail::any\(affinities\[num_thread\]\)\)\s+\{\s+PIKA_THROWS_IF\(ec, pika::error::bad_parameter,\s+"decode_numa)' 'for (std::size_t num_pu = 0; num_pu <= num_pus_cores[num_core]; ++num_pu)\1'
m $F 'numa_balanced.local' 0 'std::size_t core_offset = 0;\s+std::size_t pus_t = 0;' 'std::size_t pus_t = 0; std::size_t core_offset = 0;'
# thorough tier (CaDiCaL, ~5 min): VERIF_TIER=thorough specs/C15/muts.sh workers
m $F 'numa_balanced.workers' 1 'if \(\(pus_t2 \+ temp\) > num_threads\) temp = num_threads - pus_t2;' ';'
# ---- bounded stand-ins (distinctness / completeness)
m $F 'bounded.scatter.S2C33' 1 '(use_pu = pu_in_process_mask\(use_process_mask, t, num_core, pu_index\);\s+\+\+pu_index;\s+if \(use_pu\) \{ break; \}\s+\}\s+)next_pu_index\[num_core\] = pu_index;(\s+if \(!use_pu\) \{ continue; \}\s+num_pus\[num_thread\] =)' '\1next_pu_index[num_core] = pu_index - (use_pu ? 1 : 0);\2'
m $F 'bounded.compact.S2C33' 1 'for \(std::size_t num_pu = 0; num_pu < num_core_pus; \+\+num_pu\)(\s+\{\s+if \(!pu_in_process_mask)' 'for (std::size_t num_pu = 1; num_pu < num_core_pus; ++num_pu)\1'
m $F 'bounded.balanced.S2C33' 1 'num_pus_cores\[num_core\]\+\+;(\s+if \(\+\+num_thread == num_threads\) break;\s+\}\s+\}\s+// Iterate over the cores and assigned pus per core)' '\1'
m $F 'bounded.(compact|scatter|balanced).S2C31' 0 'std::size_t num_threads = affinities\.size\(\);(\s+check_num_threads\(use_process_mask, t, num_threads, ec\);\s+if \(use_process_mask\)\s+\{\s+used_cores = 0;\s+max_cores = t.get_number_of_cores\(\);\s+\}\s+std::size_t num_cores = \(std::min\)\(max_cores, t.get_number_of_cores\(\)\);\s+num_pus.resize)' 'std::size_t const num_threads = affinities.size();\1'
# ---- get_pu_num(i, hc) in the bind=none configuration
m $A 'none.get_pu_num_default' 1 'return \(num_pu \+ offset\) % hardware_concurrency;' 'return (num_pu + offset + 1) % hardware_concurrency;'
m $A 'none.get_pu_num_default' 1 'std::size_t num_pu = pu_offset_ \+ pu_step_ \* num_thread;' 'std::size_t num_pu = pu_offset_ + pu_step_ + num_thread;'
m $A 'none.get_pu_num_default' 1 'std::size_t offset = \(num_pu / hardware_concurrency\) % pu_step_;' 'std::size_t offset = (num_pu / hardware_concurrency) + pu_step_;'
m $A 'none.get_pu_num_default' 0 'std::size_t offset = \(num_pu / hardware_concurrency\) % pu_step_;' 'std::size_t const offset = (num_pu / hardware_concurrency) % pu_step_;'
m $F 'numa_balanced.workers' 1 'if \(\+\+num_thread_socket == num_threads_socket\[n\]\) break;' '++num_thread_socket;'
m $F 'numa_balanced.workers' 1 'for \(std::size_t num_pu = 0; num_pu < num_pus_cores\[num_core\]; \+\+num_pu\)(\s+\{\s+if \(threads::detail::any\(affinities\[num_thread\]\)\)\s+\{\s+PIKA_THROWS_IF\(ec, pika::error::bad_parameter,\s+"decode_numa)' 'for (std::size_t num_pu = 0; num_pu <= num_pus_cores[num_core]; ++num_pu)\1'
m $F 'numa_balanced.workers' 0 'std::size_t core_offset = 0;\s+std::size_t pus_t = 0;' 'std::size_t pus_t = 0; std::size_t core_offset = 0;'
