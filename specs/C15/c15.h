/* C15 -- affinity decoders: types, the uninterpreted-but-functional topology, vector abstractions, ghost state.
 *
 * TOPOLOGY (environment, trusted): every query returns an arbitrary but CONSISTENT value.  Consistency is expressed
 * without quantifiers / uninterpreted function symbols (CBMC forbids calls in loop invariants) by the usual ghost
 * victim: the harness chooses ONE symbolic pair (g_vc, g_vp) and fixes the answers for it
 *     get_pu_number(g_vc, g_vp)           == g_v_pun
 *     "PU (g_vc, g_vp) is in the process mask" == g_v_inmask
 *     get_number_of_core_pus(g_vc)        == g_v_ncp
 * every other argument gets a fresh arbitrary answer at every call.  Because (g_vc, g_vp) is arbitrary, a statement
 * "X == get_pu_number(c, p)" is decided as "(c, p) == (g_vc, g_vp) ==> X == g_v_pun".
 * A mask built by init_thread_affinity_mask(core, pu) is represented by the pair it was built from.
 *
 * VECTORS: std::vector outputs are abstracted to ONE symbolic victim worker g_k (affinities[g_k], num_pus[g_k]);
 * every access asserts the index against the ghost size; elements of other workers are arbitrary at every read.
 */
#ifndef C15_H
#define C15_H
#include "vx.h"

/* Units that decide only the "same pair" / "in mask" claims (P_PAIR) leave the index obligations and the sum
 * bookkeeping to their sibling unit (P_BOUNDS) over the same lifted text: both switches only REMOVE obligations /
 * knowledge, they never add an assumption. */
#if defined(VX_NO_IDX_ASSERT) || defined(VX_NO_LOCAL_IDX_ASSERT)
#define VX_IDX_ASSERT(c, msg) ((void) 0)          /* indices of the function's local vectors */
#else
#define VX_IDX_ASSERT(c, msg) VX_ASSERT(c, msg)
#endif
#if defined(VX_NO_IDX_ASSERT) || defined(VX_NO_OUT_IDX_ASSERT)
#define VX_OIDX_ASSERT(c, msg) ((void) 0)         /* indices of affinities / num_pus (the worker index) */
#else
#define VX_OIDX_ASSERT(c, msg) VX_ASSERT(c, msg)
#endif
#ifdef VX_NO_SUM
#define VX_SUM_KNOWN_AT_MAKE(init) false
#else
#define VX_SUM_KNOWN_AT_MAKE(init) ((init) == 0)
#endif
#define VX_MIN(a, b) ((a) < (b) ? (a) : (b))
#define VX_MAX(a, b) ((a) > (b) ? (a) : (b))

/* ---- pika::error_code / PIKA_THROWS_IF ---- */
enum { pika_error_success = 0, pika_error_bad_parameter = 3 };
struct error_code { int value; };
static struct error_code vx_throws;   /* pika::throws */
static bool vx_exc;                   /* an exception is propagating */
static long g_errors;                 /* errors reported by this call (saturating at 2) */
/* pika::detail::throws_if: throws iff &ec == &throws, else stores the error in ec and RETURNS to the caller */
static void vx_throws_if(struct error_code *ec, int code)
{
  if (g_errors < 2) g_errors++;
  if (ec == &vx_throws) vx_exc = true;
  else ec->value = code;
}
/* the caller can see that the request was rejected */
#define ERROR_VISIBLE(ec) ((ec) == &vx_throws ? vx_exc : (ec)->value != pika_error_success)

/* ---- masks ---- */
enum { MK_EMPTY = 0, MK_PU = 1, MK_PROC = 2, MK_PROC_STALE = 3 };
struct mask { int kind; size_t core, pu; };
#define MASK_IS(m, c, p) ((m).kind == MK_PU && (m).core == (c) && (m).pu == (p))

/* ---- topology ---- */
struct topo { int unused; };
static size_t g_vc, g_vp;        /* the victim (core, pu) pair */
static size_t g_v_pun;           /* get_pu_number(g_vc, g_vp) */
static bool g_v_inmask;          /* bit_and(process mask, mask(g_vc, g_vp)) */
static size_t g_v_ncp;           /* get_number_of_core_pus(g_vc) */
static size_t g_ncores;          /* get_number_of_cores() */
static size_t g_nsockets;        /* get_number_of_sockets() */
static size_t g_proc_count;      /* count(get_cpubind_mask_main_thread()) */
static size_t g_hw_conc;         /* hardware_concurrency() */
static bool g_invalid_pair;      /* a mask for (g_vc, pu >= g_v_ncp) was requested (only distinctness units look at it) */

static size_t topo_get_number_of_cores(struct topo *t) { return g_ncores; }
static size_t topo_get_number_of_sockets(struct topo *t) { return g_nsockets; }
static size_t topo_get_number_of_socket_cores(struct topo *t, size_t socket) { return nondet_size(); }
static size_t topo_get_number_of_core_pus(struct topo *t, size_t core) { return core == g_vc ? g_v_ncp : nondet_size(); }
static size_t topo_get_pu_number(struct topo *t, size_t core, size_t pu)
{
  return (core == g_vc && pu == g_vp) ? g_v_pun : nondet_size();
}
static struct mask topo_init_thread_affinity_mask(struct topo *t, size_t core, size_t pu)
{
  struct mask m;
  m.kind = MK_PU; m.core = core; m.pu = pu;
  if (core == g_vc && pu >= g_v_ncp) g_invalid_pair = true;
  return m;
}
static struct mask topo_get_cpubind_mask_main_thread(struct topo *t)
{
  struct mask m;
  /* the process mask is NOT an immutable fact: topology::set_cpubind_mask_main_thread (command-line handling of
   * --pika:process-mask, every runtime start) replaces it.  A read made "earlier" (a value cached in a function-local
   * static by a previous call, see below) is therefore a stale mask */
  m.kind = MK_PROC; m.core = 0; m.pu = 0;
  return m;
}
/* `static mask_type [const] x = t.get_cpubind_mask_main_thread();` -- the initialiser of a function-local static is evaluated by
 * the FIRST call that reaches it: the mask in x is the current one only if this is that call */
static struct mask topo_get_cpubind_mask_cached_in_static(struct topo *t)
{
  struct mask m;
  bool vx_nd_first_call = nondet_bool();
  m.kind = vx_nd_first_call ? MK_PROC : MK_PROC_STALE; m.core = 0; m.pu = 0;
  return m;
}
static bool topo_pu_in_mask(size_t core, size_t pu) { return (core == g_vc && pu == g_vp) ? g_v_inmask : nondet_bool(); }
/* threads::detail::bit_and(a, b): "a & b is non-empty".  The decoders only intersect the process mask with a PU mask. */
static bool mask_bit_and(struct mask a, struct mask b)
{
  VX_ASSERT(a.kind != MK_PROC_STALE, "the process mask a PU is tested against is the CURRENT one (read in this call), not a value cached by an earlier call: set_cpubind_mask_main_thread may have replaced it since");
  VX_ASSERT(a.kind == MK_PROC && b.kind == MK_PU, "environment model: bit_and is used as (process mask & single-PU mask)");
  return topo_pu_in_mask(b.core, b.pu);
}
static bool mask_any(struct mask m) { return m.kind != MK_EMPTY; }
static size_t mask_count(struct mask m)
{
  VX_ASSERT(m.kind != MK_PROC_STALE, "the process mask that is counted is the CURRENT one, not a value cached by an earlier call");
  VX_ASSERT(m.kind == MK_PROC, "environment model: count is used on the process mask");
  return g_proc_count;
}
/* threads::detail::mask_size(m): the CAPACITY of the mask (number of PUs of the machine, or 64 for the uint64_t mask type), never
 * less than the number of bits set -- not used by the pinned decoders; modelled so that a count()/mask_size() mix-up is decided */
static size_t mask_mask_size(struct mask m)
{
  size_t cap = nondet_size();
  VX_ASSUME(cap >= g_proc_count); /* capacity >= population count */
  return cap;
}
static size_t vx_hardware_concurrency(void) { return g_hw_conc; }

/* ---- std::vector<mask_type>& affinities, std::vector<std::size_t>& num_pus : victim worker g_k ---- */
struct maskvec { size_t size; };
struct szvec { size_t size; };
static size_t g_k;               /* the victim worker */
static struct mask g_k_mask;     /* affinities[g_k] */
static size_t g_k_pun;           /* num_pus[g_k] */
static struct mask g_o_mask;     /* stands for affinities[i], i != g_k: arbitrary at every access */
static bool g_pi_last_victim;    /* the most recent pu_indexes[c][j] read was the victim cell (true where there is no pu_indexes) */
static bool g_k_cell;            /* affinities[g_k] was written right after such a read */
static struct mask vx_other_mask(void)
{
  g_o_mask.kind = nondet_bool() ? MK_EMPTY : MK_PU;
  g_o_mask.core = nondet_size();
  g_o_mask.pu = nondet_size();
  return g_o_mask;
}
static struct mask vx_aff_get(struct maskvec *v, size_t i)
{
  VX_OIDX_ASSERT(i < v->size, "affinities[i]: index within the vector");
  return i == g_k ? g_k_mask : vx_other_mask();
}
static void vx_aff_set(struct maskvec *v, size_t i, struct mask m)
{
  VX_OIDX_ASSERT(i < v->size, "affinities[i]: index within the vector");
  if (i == g_k) { g_k_mask = m; g_k_cell = g_pi_last_victim; }
}
static void vx_npu_set(struct szvec *v, size_t i, size_t x)
{
  VX_OIDX_ASSERT(i < v->size, "num_pus[i]: index within the vector");
  if (i == g_k) g_k_pun = x;
}
/* vector::resize(n): new elements are value-initialised */
static void szvec_resize(struct szvec *v, size_t n)
{
  if (g_k >= v->size && g_k < n) g_k_pun = 0;
  v->size = n;
}
static void maskvec_resize(struct maskvec *v, size_t n)
{
  if (g_k >= v->size && g_k < n) { g_k_mask.kind = MK_EMPTY; g_k_mask.core = 0; g_k_mask.pu = 0; }
  v->size = n;
}


/* ---- local std::vector<std::size_t> (next_pu_index, num_pus_cores, num_*_socket): struct vxvec ----
 * Sound abstraction of a vector of unbounded length that remembers
 *   - its size (every access asserts the index),
 *   - the element at the symbolic victim index g_cv exactly (v_val),
 *   - the most recently touched element (c_idx, c_val): reading the same index twice without a write in between
 *     gives the same value,
 *   - the exact sum of all elements (total) as long as every write could be accounted for (sum_known): the vector is
 *     created all-zero, `x[i]++` adds one, `x[i] = v` on a still-zero element adds v,
 *   - an in-order scan 0, 1, 2, ...: scan_prefix is the sum of the elements [0, scan_pos) as they were returned.
 * Every other element read is arbitrary.  The only assumptions (VX_ASSUME, trusted, arithmetic facts about sums of
 * non-negative numbers): an element is <= the sum of all elements; a prefix sum plus the next element is <= the sum. */
struct vxvec {
  size_t size;
  size_t v_val;
  bool c_valid; size_t c_idx, c_val;
  bool sum_known; size_t total; size_t zero_from;
  bool scan_valid; size_t scan_pos, scan_prefix;
};
static size_t g_cv;              /* victim index of the local vectors (a core) */
static size_t g_jv;              /* victim position inside pu_indexes[g_cv] */
/* representation invariant carried by loop invariants */
#define VV_WF(x) ((!(x).c_valid || (x).c_idx != g_cv || (x).c_val == (x).v_val) && \
                  (!((x).sum_known && (x).c_valid) || (x).c_val <= (x).total) && \
                  (!((x).sum_known && g_cv < (x).size) || (x).v_val <= (x).total) && \
                  (!((x).sum_known && (x).scan_valid) || ((x).c_valid && (x).c_idx == (x).scan_pos && (x).scan_prefix <= (x).total - (x).c_val)))
/* The operations are GNU statement-expression macros on the local struct itself: no address of a local vector is ever
 * taken, which keeps the dfcc write-set instrumentation cheap. */
#define VXVEC_MAKE(N, INIT) ({ struct vxvec vx_v; size_t vx_init = (INIT); \
  vx_v.size = (N); vx_v.v_val = vx_init; \
  vx_v.c_valid = false; vx_v.c_idx = 0; vx_v.c_val = 0; \
  vx_v.sum_known = VX_SUM_KNOWN_AT_MAKE(vx_init); vx_v.total = 0; vx_v.zero_from = 0; \
  vx_v.scan_valid = false; vx_v.scan_pos = 0; vx_v.scan_prefix = 0; \
  vx_v; })
#define VXVEC_GET(V, I) ({ size_t vx_i = (I); size_t vx_r; \
  VX_IDX_ASSERT(vx_i < (V).size, "local vector: index within the vector"); \
  if ((V).c_valid && (V).c_idx == vx_i) \
  { \
    /* a scan may start at a cached element 0 */ \
    if (vx_i == 0 && (V).sum_known && !(V).scan_valid && (V).c_val <= (V).total) { (V).scan_valid = true; (V).scan_pos = 0; (V).scan_prefix = 0; } \
    vx_r = (V).c_val; \
  } \
  else \
  { \
    vx_r = (vx_i == g_cv) ? (V).v_val : nondet_size(); \
    if ((V).sum_known) \
    { \
      if ((V).scan_valid && (V).c_valid && (V).c_idx == (V).scan_pos && vx_i == (V).scan_pos + 1) \
      { \
        (V).scan_prefix += (V).c_val; \
        (V).scan_pos = vx_i; \
      } \
      else if (vx_i == 0) { (V).scan_valid = true; (V).scan_pos = 0; (V).scan_prefix = 0; } \
      else (V).scan_valid = false; \
      /* sums of non-negative elements: element <= total, prefix + element <= total */ \
      VX_ASSUME(vx_r <= (V).total && (!(V).scan_valid || (V).scan_prefix <= (V).total - vx_r)); \
    } \
    (V).c_valid = true; (V).c_idx = vx_i; (V).c_val = vx_r; \
  } \
  vx_r; })
#define VXVEC_SET(V, I, X) ({ size_t vx_i = (I); size_t vx_x = (X); \
  VX_IDX_ASSERT(vx_i < (V).size, "local vector: index within the vector"); \
  if ((V).sum_known) \
  { \
    if (vx_i == (V).zero_from && vx_x <= SIZE_MAX - (V).total) { (V).zero_from++; (V).total += vx_x; } \
    else (V).sum_known = false; \
  } \
  (V).scan_valid = false; \
  if (vx_i == g_cv) (V).v_val = vx_x; \
  (V).c_valid = true; (V).c_idx = vx_i; (V).c_val = vx_x; (void) 0; })
#define VXVEC_INC(V, I) ({ size_t vx_i = (I); \
  VX_IDX_ASSERT(vx_i < (V).size, "local vector: index within the vector"); \
  if ((V).sum_known) \
  { \
    if ((V).total == SIZE_MAX) (V).sum_known = false; else (V).total++; \
    if (vx_i >= (V).zero_from) (V).zero_from = (V).size; \
  } \
  (V).scan_valid = false; \
  if (vx_i == g_cv) (V).v_val++; \
  if ((V).c_valid && (V).c_idx == vx_i) (V).c_val++; \
  (void) 0; })

/* ---- local std::vector<std::vector<std::size_t>> pu_indexes: struct vxvec2 ----
 * outer size; for the victim core g_cv the inner size (v_size) and the element at position g_jv (v_val); the most
 * recently read cell (same cell read twice => same value).  Inner bounds are asserted for the victim core (which is
 * arbitrary). */
struct vxvec2 { size_t size; size_t v_size; size_t v_val; bool c_valid; size_t c_i, c_j, c_val; };
#define VXVEC2_MAKE(N) ({ struct vxvec2 vx_v; \
  vx_v.size = (N); vx_v.v_size = 0; vx_v.v_val = 0; vx_v.c_valid = false; vx_v.c_i = 0; vx_v.c_j = 0; vx_v.c_val = 0; \
  vx_v; })
#define VXVEC2_PUSH(V, I, X) ({ size_t vx_i = (I); size_t vx_x = (X); \
  VX_IDX_ASSERT(vx_i < (V).size, "pu_indexes[i]: index within the vector"); \
  if (vx_i == g_cv) \
  { \
    if ((V).v_size == g_jv) (V).v_val = vx_x; \
    VX_ASSUME((V).v_size < SIZE_MAX); /* a vector never holds SIZE_MAX elements */ \
    (V).v_size++; \
  } (void) 0; })
#define VXVEC2_GET(V, I, J) ({ size_t vx_i = (I); size_t vx_j = (J); size_t vx_r; \
  VX_IDX_ASSERT(vx_i < (V).size, "pu_indexes[i]: index within the vector"); \
  VX_IDX_ASSERT(vx_i != g_cv || vx_j < (V).v_size, "pu_indexes[i][j]: position within the inner vector"); \
  /* a read beyond the inner vector's end (excluded by the index obligation above) yields an arbitrary value */ \
  g_pi_last_victim = (vx_i == g_cv && vx_j == g_jv && vx_j < (V).v_size); \
  if (g_pi_last_victim) vx_r = (V).v_val; \
  else if ((V).c_valid && (V).c_i == vx_i && (V).c_j == vx_j) vx_r = (V).c_val; \
  else { (V).c_valid = true; (V).c_i = vx_i; (V).c_j = vx_j; (V).c_val = nondet_size(); vx_r = (V).c_val; } \
  vx_r; })

/* static_cast<std::size_t>(std::round(static_cast<double>(a) / static_cast<double>(b))): floating point is not modelled.
 * The operands are evaluated (their obligations count), the result is an arbitrary thread count (trusted bound). */
#define VX_BIG ((size_t) 1000000000)
static size_t vx_round_ratio(size_t a, size_t b)
{
  size_t r = nondet_size();
  VX_ASSUME(r <= VX_BIG); /* a rounded share of num_threads <= 10^9 threads */
  return r;
}

/* ---- what the property says about the victim worker, as predicates over the ghost state ---- */
/* "the processing-unit number pika reports for a worker is the one it is bound to" */
#define SAME_PAIR (!MASK_IS(g_k_mask, g_vc, g_vp) || g_k_pun == g_v_pun)
/* "bound to a processing unit that lies inside the effective process mask" */
#define IN_MASK(upm) (!((upm) && MASK_IS(g_k_mask, g_vc, g_vp) && g_k_cell) || g_v_inmask)
#define K_SHAPE (g_k_mask.kind == MK_EMPTY || g_k_mask.kind == MK_PU)
#define OUT_FRAME g_k_mask, g_k_pun, g_k_cell, g_o_mask, g_invalid_pair
#define PI_FRAME g_pi_last_victim
#define ERR_FRAME g_errors, vx_exc, ec->value
#endif
