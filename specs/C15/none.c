/* C15 units: binding "none" -- affinity_data::init's `none` branch, affinity_data::get_pu_num(i), affinity_data::get_pu_mask.
 *
 * no_affinity_ (a bit mask) is abstracted to ONE symbolic victim bit g_b (every other bit is arbitrary at every test);
 * pu_nums_ / affinity_masks_ to the victim worker g_k. */
#include "c15.h"

struct bitmask { size_t size; bool v_bit; };   /* v_bit: bit g_b (meaningful iff g_b < size) */
static size_t g_b;
enum { DOM_pu = 0, DOM_core = 1, DOM_socket = 2, DOM_machine = 3 };
struct affinity_data {
  size_t num_threads_;
  struct bitmask no_affinity_;
  size_t pu_nums_size;        /* pu_nums_.size(); pu_nums_[g_k] == g_k_punum */
  size_t affinity_masks_size; /* affinity_masks_.size(); affinity_masks_[g_k] == g_k_mask */
  int affinity_domain_;       /* "pu" / "core" / "socket" / "machine" (only its prefix tests are used) */
};
static size_t g_k_punum;
static size_t g_pu_bound;        /* hardware concurrency used by init_cached_pu_nums */

/* threads::detail::resize / set / test on a mask_type (cpu_mask.hpp): index checked as the real ones do (PIKA_ASSERT for
 * the 64-bit mask, bitset::set/test throw, dynamic_bitset asserts) */
static void bitmask_resize(struct bitmask *m, size_t n)
{
  if (g_b >= m->size) m->v_bit = false; /* bits that come into existence are zero */
  m->size = n;
}
static void bitmask_set(struct bitmask *m, size_t idx)
{
  VX_ASSERT(idx < m->size, "threads::detail::set: bit index within the mask");
  if (idx == g_b) m->v_bit = true;
}
static bool bitmask_test(struct bitmask *m, size_t idx)
{
  VX_ASSERT(idx < m->size, "threads::detail::test: bit index within the mask");
  return idx == g_b ? m->v_bit : nondet_bool();
}
/* a default constructed mask_type is empty; resizing an empty mask leaves it empty */
static struct mask mask_default(void) { struct mask m; m.kind = MK_EMPTY; m.core = 0; m.pu = 0; return m; }
static void mask_resize(struct mask *m, size_t n) { }
/* topology masks of a PU / core / socket / machine: never empty (environment) */
static struct mask topo_some_mask(void) { struct mask m; m.kind = MK_PU; m.core = nondet_size(); m.pu = nondet_size(); return m; }
static struct mask topo_get_thread_affinity_mask(struct topo *t, size_t pu) { return topo_some_mask(); }
static struct mask topo_get_core_affinity_mask(struct topo *t, size_t pu) { return topo_some_mask(); }
static struct mask topo_get_socket_affinity_mask(struct topo *t, size_t pu) { return topo_some_mask(); }
static struct mask topo_get_machine_affinity_mask(struct topo *t) { return topo_some_mask(); }
static bool vx_domain_has_prefix(struct affinity_data *self, int dom) { return self->affinity_domain_ == dom; }
static size_t vx_pu_nums_at(struct affinity_data *self, size_t i)
{
  VX_ASSERT(i < self->pu_nums_size, "pu_nums_[i]: index within the vector");
  if (i == g_k) return g_k_punum;
  size_t x = nondet_size();
  VX_ASSUME(x < g_pu_bound); /* init_cached_pu_nums stores get_pu_num(i, hc), which ends in `% hc` */
  return x;
}
static struct mask vx_affinity_masks_at(struct affinity_data *self, size_t i)
{
  VX_ASSERT(i < self->affinity_masks_size, "affinity_masks_[i]: index within the vector");
  return i == g_k ? g_k_mask : vx_other_mask();
}

/* affinity_data::get_pu_num(num_thread) (affinity_data.hpp) -- lifted, called by the other two */
size_t get_pu_num(struct affinity_data *self, size_t num_thread)
//@LIFT get_pu_num

#if defined(U_NONE_BRANCH) || defined(U_NONE_LEMMA)
#ifdef U_NONE_BRANCH
//@FUNC
#endif
/* the block guarded by `if (affinity_description == "none")` in affinity_data::init */
void init_none_branch(struct affinity_data *self, size_t num_system_pus)
/* init_cached_pu_nums has filled pu_nums_; every cached PU number is below the hardware concurrency (get_pu_num(i, hc)
 * ends in `% hardware_concurrency`) */
__CPROVER_requires(self->pu_nums_size == self->num_threads_ && g_k_punum < g_pu_bound && g_pu_bound == num_system_pus)
/* after the `none` branch the bit of worker k's PU number is set in no_affinity_ */
__CPROVER_ensures((g_k < self->num_threads_ && g_k_punum == g_b) ==> (g_b < self->no_affinity_.size && self->no_affinity_.v_bit))
__CPROVER_ensures(self->no_affinity_.size == num_system_pus)
__CPROVER_assigns(self->no_affinity_)
#ifdef U_NONE_BRANCH
//@LIFT none_branch
#else
;
#endif
#endif

#if defined(U_GET_PU_MASK) || defined(U_NONE_LEMMA)
#ifdef U_GET_PU_MASK
//@FUNC
#endif
struct mask get_pu_mask(struct affinity_data *self, struct topo *topo, size_t global_thread_num)
/* callers pass worker numbers below the mask width (num_threads <= hardware concurrency) */
__CPROVER_requires(global_thread_num < self->no_affinity_.size)
__CPROVER_requires(self->affinity_masks_size == 0 || global_thread_num < self->affinity_masks_size)
__CPROVER_requires(global_thread_num < self->pu_nums_size)
__CPROVER_requires(self->affinity_domain_ >= DOM_pu && self->affinity_domain_ <= DOM_machine)
/* "binding 'none' leaves workers unbound": a worker whose bit is set in no_affinity_ gets the empty mask */
__CPROVER_ensures((global_thread_num == g_b && self->no_affinity_.v_bit) ==> __CPROVER_return_value.kind == MK_EMPTY)
/* predefined masks (bind = compact/scatter/balanced/numa-balanced) are returned unchanged */
__CPROVER_ensures((global_thread_num == g_b && !self->no_affinity_.v_bit && self->affinity_masks_size != 0 && global_thread_num == g_k) ==> (__CPROVER_return_value.kind == g_k_mask.kind && __CPROVER_return_value.core == g_k_mask.core && __CPROVER_return_value.pu == g_k_mask.pu))
__CPROVER_assigns(g_o_mask)
#ifdef U_GET_PU_MASK
//@LIFT get_pu_mask
#else
;
#endif
#endif

#ifdef U_GET_PU_NUM_HC
/* affinity_data::get_pu_num(num_thread, hardware_concurrency) for the only configuration --pika:bind admits
 * (pu_offset_ == 0, pu_step_ == 1): worker i < hardware_concurrency gets PU number i.  Discharges the hypothesis
 * "the cached PU number of worker k is k" of none.lemma (init_cached_pu_nums stores exactly these values). */
struct affinity_data_ps { size_t pu_offset_, pu_step_; };
//@FUNC
size_t get_pu_num_hc(struct affinity_data_ps *self, size_t num_thread, size_t hardware_concurrency)
__CPROVER_requires(self->pu_offset_ == 0 && self->pu_step_ == 1 && num_thread < hardware_concurrency)
__CPROVER_ensures(__CPROVER_return_value == num_thread)
__CPROVER_assigns()
//@LIFT get_pu_num_hc
#endif

void harness(void)
{
  struct affinity_data ad;
  struct topo topo;
  g_b = nondet_size(); g_k = nondet_size(); g_k_punum = nondet_size(); g_pu_bound = nondet_size();
  g_k_mask.kind = nondet_bool() ? MK_EMPTY : MK_PU; g_k_mask.core = nondet_size(); g_k_mask.pu = nondet_size();
  g_o_mask.kind = MK_EMPTY; g_o_mask.core = 0; g_o_mask.pu = 0;
  ad.num_threads_ = nondet_size();
  ad.no_affinity_.size = nondet_size(); ad.no_affinity_.v_bit = nondet_bool();
  ad.pu_nums_size = nondet_size();
  ad.affinity_masks_size = nondet_size();
  ad.affinity_domain_ = nondet_int();
#ifdef U_GET_PU_NUM_HC
  struct affinity_data_ps ps;
  ps.pu_offset_ = 0; ps.pu_step_ = 1;
  size_t r = get_pu_num_hc(&ps, nondet_size(), nondet_size());
  VX_REACH("returned");
  if (r > 0) VX_REACH("nonzero_worker");
#endif
#ifdef U_NONE_BRANCH
  init_none_branch(&ad, g_pu_bound);
  if (g_k < ad.num_threads_ && g_k_punum == g_b) VX_REACH("victim_bit_set");
  if (ad.num_threads_ == 0) VX_REACH("no_workers");
#endif
#ifdef U_GET_PU_MASK
  struct mask r = get_pu_mask(&ad, &topo, nondet_size());
  if (r.kind == MK_EMPTY) VX_REACH("empty_mask");
  if (r.kind == MK_PU) VX_REACH("bound");
#endif
#ifdef U_NONE_LEMMA
  /* bind = none: --pika:bind may not be combined with --pika:pu-offset / --pika:pu-step (command_line_handling.cpp), so
   * pu_offset_ == 0, pu_step_ == 1 and get_pu_num(i, hc) == i for i < hc: the cached PU number of worker k is k */
  size_t hc = g_pu_bound;
  VX_ASSUME(ad.pu_nums_size == ad.num_threads_ && ad.num_threads_ <= hc && g_k_punum == g_k && g_b == g_k);
  VX_ASSUME(g_k < ad.num_threads_ && ad.affinity_domain_ >= DOM_pu && ad.affinity_domain_ <= DOM_machine);
  VX_ASSUME(ad.affinity_masks_size == 0 || ad.affinity_masks_size == ad.num_threads_);
  init_none_branch(&ad, hc);
  struct mask r = get_pu_mask(&ad, &topo, g_k);
  VX_ASSERT(r.kind == MK_EMPTY, "bind=none: every worker's affinity mask is empty (the worker is left unbound)");
  VX_REACH("worker_unbound");
#endif
}
