/* C15 BOUNDED stand-in model (kind="bounded", never counted as proof): a concrete small machine.
 *   <= B_MAXS sockets x <= B_MAXC cores per socket x <= B_MAXP PUs per core, asymmetric core sizes, arbitrary process mask.
 * The topology functions mirror libs/pika/topology/src/topology.cpp including its silent wrap-around of out-of-range
 * indices (num_core %= num_cores, num_pu %= arity; get_number_of_core_pus of a missing core is 1; get_number_of_socket_cores
 * of a missing socket is get_number_of_cores()).  Masks are real bit sets over the PUs, vectors are real arrays.
 * The same lifting rules as for the proof units are used; only the meaning of the stub names differs. */
#ifndef C15B_H
#define C15B_H
#include "vx.h"

#define B_MAXS 2
#define B_MAXC 3
#define B_MAXP 2
#define B_CORES (B_MAXS * B_MAXC)
#define B_PUS (B_CORES * B_MAXP)
#define B_THREADS (B_PUS + 1)
#define VX_MIN(a, b) ((a) < (b) ? (a) : (b))
#define VX_MAX(a, b) ((a) > (b) ? (a) : (b))
#define VX_MODEL(c, msg) VX_ASSERT(c, "bounded model capacity: " msg)

enum { pika_error_success = 0, pika_error_bad_parameter = 3 };
struct error_code { int value; };
static struct error_code vx_throws;
static bool vx_exc;
static long g_errors;
static void vx_throws_if(struct error_code *ec, int code)
{
  if (g_errors < 2) g_errors++;
  if (ec == &vx_throws) vx_exc = true;
  else ec->value = code;
}

struct mask { uint16_t bits; };
struct topo {
  size_t nsockets, ncores, npus;
  size_t socket_cores[B_MAXS];
  size_t core_pus[B_CORES];
  size_t pu_base[B_CORES];   /* logical index of the first PU of a core */
  uint16_t proc_mask;
};
/* x % n on small numbers (8-bit divider) */
static size_t vx_small_mod(size_t x, size_t n)
{
  VX_MODEL(x < 256 && n >= 1 && n < 256, "small modulus");
  return (size_t) ((uint8_t) x % (uint8_t) n);
}
static size_t topo_get_number_of_cores(struct topo *t) { return t->ncores; }
static size_t topo_get_number_of_sockets(struct topo *t) { return t->nsockets; }
static size_t topo_get_number_of_socket_cores(struct topo *t, size_t s) { return s < t->nsockets ? t->socket_cores[s] : t->ncores; }
static size_t topo_get_number_of_core_pus(struct topo *t, size_t core) { return core < t->ncores ? t->core_pus[core] : 1; }
static size_t topo_get_pu_number(struct topo *t, size_t core, size_t pu)
{
  size_t c = vx_small_mod(core, t->ncores);
  return t->pu_base[c] + vx_small_mod(pu, t->core_pus[c]);
}
static struct mask topo_init_thread_affinity_mask(struct topo *t, size_t core, size_t pu)
{
  struct mask m;
  size_t c = vx_small_mod(core, t->ncores);
  m.bits = (uint16_t) (1u << (t->pu_base[c] + vx_small_mod(pu, t->core_pus[c])));
  return m;
}
static struct mask topo_get_cpubind_mask_main_thread(struct topo *t)
{
  struct mask m;
  m.bits = t->proc_mask;
  return m;
}
/* a read cached in a function-local static by an earlier call: the mask may have been replaced since */
static struct mask topo_get_cpubind_mask_cached_in_static(struct topo *t)
{
  struct mask m;
  m.bits = nondet_bool() ? t->proc_mask : nondet_u16();
  return m;
}
static bool mask_bit_and(struct mask a, struct mask b) { return (a.bits & b.bits) != 0; }
static bool mask_any(struct mask m) { return m.bits != 0; }
static size_t vx_popcount16(uint16_t x)
{
  x = (uint16_t) ((x & 0x5555u) + ((x >> 1) & 0x5555u));
  x = (uint16_t) ((x & 0x3333u) + ((x >> 2) & 0x3333u));
  x = (uint16_t) ((x & 0x0f0fu) + ((x >> 4) & 0x0f0fu));
  return (size_t) ((x & 0xffu) + (x >> 8));
}
static size_t mask_count(struct mask m) { return vx_popcount16(m.bits); }
static size_t mask_mask_size(struct mask m) { return 16; }   /* capacity of the 16-bit mask of the bounded machines */
static struct topo *g_topo;
static size_t vx_hardware_concurrency(void) { return g_topo->npus; }

struct maskvec { size_t size; struct mask a[B_THREADS]; };
struct szvec { size_t size; size_t a[B_THREADS]; };
static struct mask vx_aff_get(struct maskvec *v, size_t i)
{
  VX_ASSERT(i < v->size, "affinities[i]: index within the vector");
  return v->a[i];
}
static void vx_aff_set(struct maskvec *v, size_t i, struct mask m)
{
  VX_ASSERT(i < v->size, "affinities[i]: index within the vector");
  v->a[i] = m;
}
static void vx_npu_set(struct szvec *v, size_t i, size_t x)
{
  VX_ASSERT(i < v->size, "num_pus[i]: index within the vector");
  v->a[i] = x;
}
static void szvec_resize(struct szvec *v, size_t n) { VX_MODEL(n <= B_THREADS, "num_pus"); v->size = n; }

struct vxvec { size_t size; size_t a[B_CORES]; };
#define VXVEC_MAKE(N, INIT) ({ struct vxvec vx_v; size_t vx_init = (INIT); vx_v.size = (N); \
  VX_MODEL(vx_v.size <= B_CORES, "local vector"); \
  vx_v.a[0] = vx_init; vx_v.a[1] = vx_init; vx_v.a[2] = vx_init; vx_v.a[3] = vx_init; vx_v.a[4] = vx_init; vx_v.a[5] = vx_init; \
  vx_v; })
#define VXVEC_GET(V, I) ({ size_t vx_i = (I); VX_ASSERT(vx_i < (V).size, "local vector: index within the vector"); (V).a[vx_i]; })
#define VXVEC_SET(V, I, X) ({ size_t vx_i = (I); size_t vx_x = (X); VX_ASSERT(vx_i < (V).size, "local vector: index within the vector"); (V).a[vx_i] = vx_x; (void) 0; })
#define VXVEC_INC(V, I) ({ size_t vx_i = (I); VX_ASSERT(vx_i < (V).size, "local vector: index within the vector"); (V).a[vx_i]++; (void) 0; })
#define B_INNER (B_MAXP + 1)
struct vxvec2 { size_t size; size_t n[B_CORES]; size_t a[B_CORES][B_INNER]; };
#define VXVEC2_MAKE(N) ({ struct vxvec2 vx_v; vx_v.size = (N); VX_MODEL(vx_v.size <= B_CORES, "pu_indexes"); \
  vx_v.n[0] = 0; vx_v.n[1] = 0; vx_v.n[2] = 0; vx_v.n[3] = 0; vx_v.n[4] = 0; vx_v.n[5] = 0; vx_v; })
#define VXVEC2_PUSH(V, I, X) ({ size_t vx_i = (I); size_t vx_x = (X); VX_ASSERT(vx_i < (V).size, "pu_indexes[i]: index within the vector"); \
  VX_MODEL((V).n[vx_i] < B_INNER, "pu_indexes[i] inner vector"); (V).a[vx_i][(V).n[vx_i]] = vx_x; (V).n[vx_i]++; (void) 0; })
#define VXVEC2_GET(V, I, J) ({ size_t vx_i = (I); size_t vx_j = (J); VX_ASSERT(vx_i < (V).size, "pu_indexes[i]: index within the vector"); \
  VX_ASSERT(vx_j < (V).n[vx_i], "pu_indexes[i][j]: position within the inner vector"); (V).a[vx_i][vx_j]; })
/* static_cast<size_t>(std::round(double(a) / double(b))): exact on the small numbers of this model (round half away from 0) */
static size_t vx_round_ratio(size_t a, size_t b)
{
  VX_ASSERT(b != 0, "std::round(x / 0.0): the quotient is NaN/inf and its conversion to size_t is undefined");
  VX_MODEL(a < 4096 && b < 4096, "rounded quotient");
  return (size_t) ((uint16_t) (2 * a + b) / (uint16_t) (2 * b));
}
#endif
