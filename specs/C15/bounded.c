/* C15 bounded stand-ins (kind="bounded"): the four decoders on every machine with <= 2 sockets x <= 3 cores x <= 2 PUs
 * (asymmetric core sizes, arbitrary process mask), every thread count 1 .. #PUs + 1, by unwinding the real loops.
 * Decides, for this finite family only: all workers assigned, to exactly one PU, inside the mask, pairwise distinct,
 * reported PU number == bound PU, oversubscription rejected.  Callers use ec == pika::throws (affinity_data::init). */
#include "c15b.h"

bool pu_in_process_mask(bool use_process_mask, struct topo *t, size_t num_core, size_t num_pu)
//@LIFT pim
void check_num_threads(bool use_process_mask, struct topo *t, size_t num_threads, struct error_code *ec)
//@LIFT cnt

void DECODE(struct topo *t, struct maskvec *affinities, size_t used_cores, size_t max_cores,
            struct szvec *num_pus, bool use_process_mask, struct error_code *ec)
//@LIFT body

static size_t nd_range(size_t lo, size_t hi) { size_t x = nondet_size(); VX_ASSUME(x >= lo && x <= hi); return x; }

void harness(void)
{
  struct topo T;
  g_topo = &T;
  vx_exc = false; g_errors = 0; vx_throws.value = pika_error_success;
  /* ---- the machine ---- */
  /* the shape (sockets, cores per socket) is a compile-time parameter of the unit: the loops over sockets and cores
   * then have constant bounds; PUs per core, process mask, thread count and process-mask switch stay symbolic */
  T.nsockets = B_S;
  T.socket_cores[0] = B_C0;
  T.socket_cores[1] = B_C1;
  T.ncores = T.socket_cores[0] + T.socket_cores[1];
  /* PUs per core: bit c of B_P set => core c has 2 hardware threads, else 1 (compile-time parameter as well) */
  T.core_pus[0] = 1 + ((B_P >> 0) & 1); T.core_pus[1] = 1 + ((B_P >> 1) & 1); T.core_pus[2] = 1 + ((B_P >> 2) & 1);
  T.core_pus[3] = 1 + ((B_P >> 3) & 1); T.core_pus[4] = 1 + ((B_P >> 4) & 1); T.core_pus[5] = 1 + ((B_P >> 5) & 1);
  T.pu_base[0] = 0;
  T.pu_base[1] = T.pu_base[0] + T.core_pus[0]; T.pu_base[2] = T.pu_base[1] + T.core_pus[1]; T.pu_base[3] = T.pu_base[2] + T.core_pus[2];
  T.pu_base[4] = T.pu_base[3] + T.core_pus[3]; T.pu_base[5] = T.pu_base[4] + T.core_pus[4];
  T.npus = T.pu_base[T.ncores - 1] + T.core_pus[T.ncores - 1];
  uint16_t all = (uint16_t) ((1u << T.npus) - 1);
  T.proc_mask = (uint16_t) (nondet_u16() & all);
  /* ---- the request ---- */
  bool upm = nondet_bool();
  size_t limit = upm ? vx_popcount16(T.proc_mask) : T.npus;
  struct maskvec aff = { 0 };
  struct szvec npu = { 0 };
  aff.size = nd_range(1, T.npus + 1);
  size_t num_threads = aff.size;
  size_t used_cores = 0;                 /* init_runtime.cpp always passes 0 */
  size_t max_cores = T.ncores;          /* pika.cores below the machine size (deliberate restriction to fewer cores) is not decided here */
  DECODE(&T, &aff, used_cores, max_cores, &npu, upm, &vx_throws);
  if (vx_exc)
  {
    VX_REACH("rejected");
    VX_ASSERT(num_threads > limit, "bounded: a request that fits into the effective mask is not rejected");
    return;
  }
  VX_REACH("accepted");
  VX_ASSERT(num_threads <= limit, "bounded: more threads than PUs in the effective mask is rejected with an error");
  VX_ASSERT(npu.size == num_threads, "bounded: num_pus has one entry per worker");
  size_t k1 = nd_range(0, num_threads - 1), k2 = nd_range(0, num_threads - 1);
  uint16_t m1 = aff.a[k1].bits, m2 = aff.a[k2].bits;
  VX_ASSERT(m1 != 0, "bounded: every worker is assigned (non-empty mask)");
  VX_ASSERT((m1 & (uint16_t) (m1 - 1)) == 0, "bounded: a worker is bound to exactly one PU");
  VX_ASSERT(!upm || (m1 & T.proc_mask) != 0, "bounded: the PU lies inside the process mask");
  VX_ASSERT(npu.a[k1] < 16 && (uint16_t) (1u << npu.a[k1]) == m1, "bounded: the reported PU number is the PU the worker is bound to");
  VX_ASSERT(k1 == k2 || m1 != m2, "bounded: two workers never share a PU");
#if (B_C0 + B_C1 > 1) || (B_P != 0)   /* (a machine with a single PU has no accepted request under a partial mask) */
  if (upm && T.proc_mask != all) VX_REACH("partial_mask");
#endif
  if (num_threads == limit) VX_REACH("all_pus_used");
}
