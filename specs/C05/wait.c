/* C05 -- thread_manager::wait: returns only on a predicate evaluation that saw
 *        global activity count <= (called from a pika task ? 1 : 0)          (yield_while contract, loop contract) */
#include "c05.h"
#define BIG 1000000000ul
struct thread_self { int id; };
static struct thread_self *g_self;          /* threads::detail::get_self_ptr(): non-null iff the caller is a pika task */
static size_t g_count;                      /* the global activity count (environment-owned while we wait) */
static long g_reads, g_yields, g_self_reads;
static size_t g_last_count;                 /* the value returned by the most recent get_global_activity_count() */
/* get_global_activity_count (unit count.get): the counter's value at one instant; other threads change it at will */
static size_t get_global_activity_count(void)
{
  size_t v = nondet_size();
  g_count = v; g_last_count = v; if (g_reads < 3) g_reads++;
  return v;
}
static struct thread_self *get_self_ptr(void) { if (g_self_reads < 3) g_self_reads++; return g_self; }
/* pika::get_worker_thread_num(): the calling OS thread's registered number -- NOT "the caller is a pika task": the thread that
 * started the runtime is registered (number N) although it never runs a task; (size_t) -1 for unregistered threads */
static size_t g_worker_num;
static size_t get_worker_thread_num(void) { return g_worker_num; }
/* util::yield_while's yield_k: gives up the processor; everything may happen in between (the count is re-read afterwards) */
static void vx_yield(void) { if (g_yields < 3) g_yields++; }

#ifdef U_TM_SUSPEND
/* thread_manager::suspend: drains (wait) BEFORE the first pool is suspended; every pool is suspended exactly once */
struct tm { size_t npools; };
static size_t g_vp;                         /* ONE symbolic victim pool */
static long g_waits, g_susp_total, g_susp_victim;
static void thread_manager_wait_stub(struct tm *self) { VX_ASSERT(g_susp_total == 0, "wait() precedes every suspend_direct()"); g_waits++; }
static void pool_suspend_direct(struct tm *self, size_t i)
{
  VX_ASSERT(g_waits == 1, "no pool is suspended before the runtime was drained (wait)");
  VX_ASSERT(i < self->npools, "an existing pool");
  if (g_susp_total < 3) g_susp_total++; if (i == g_vp && g_susp_victim < 3) g_susp_victim++;
}
static long g_resumes;
static void pool_resume_direct(struct tm *self, size_t i) { if (g_resumes < 3) g_resumes++; }
//@FUNC
void thread_manager_suspend(struct tm *self)
__CPROVER_requires(g_waits == 0 && g_susp_total == 0 && g_susp_victim == 0 && g_resumes == 0 && g_vp < self->npools && g_self == NULL)
__CPROVER_ensures(g_waits == 1 && g_susp_victim == 1 && g_resumes == 0)
__CPROVER_assigns(g_waits, g_susp_total, g_susp_victim, g_self_reads, g_resumes)
//@LIFT suspend
#else
//@FUNC
void thread_manager_wait(void)
__CPROVER_requires(g_reads == 0 && g_yields == 0 && g_self_reads == 0)
/* it returns only after reading a count that leaves no task but (possibly) the caller itself */
__CPROVER_ensures(g_reads >= 1 && g_last_count <= (g_self != NULL ? 1u : 0u))
__CPROVER_assigns(g_count, g_last_count, g_reads, g_yields, g_self_reads)
//@LIFT body
#endif

void harness(void)
{
#ifdef U_TM_SUSPEND
  static struct tm tm;
  vx_exc = 0; g_self = NULL; g_self_reads = 0; g_waits = g_susp_total = g_susp_victim = 0; g_resumes = 0; g_worker_num = nondet_size();
  tm.npools = nondet_size(); g_vp = nondet_size();
  thread_manager_suspend(&tm);
  if (tm.npools == 1) VX_REACH("one_pool"); if (tm.npools > 1 && g_vp > 0) VX_REACH("several_pools");
  return;
#else
  static struct thread_self me;
  vx_exc = 0; g_reads = g_yields = g_self_reads = 0; g_count = nondet_size(); g_last_count = nondet_size();
  g_self = nondet_bool() ? &me : NULL; g_worker_num = nondet_size();
  thread_manager_wait();
  if (g_self && g_yields == 0) VX_REACH("task_caller_idle_at_once");
  if (!g_self && g_yields == 0) VX_REACH("external_caller_idle_at_once");
  if (g_yields > 0) VX_REACH("returned_after_yielding");
#endif
}
