/* C05 -- the entry points pika::finalize / stop / wait / suspend / resume (init_runtime.cpp)
 * T contracts: a refusal is an exception with NO side effect; otherwise the runtime object is driven in the stated order */
#include "c05.h"

struct runtime { int id; };
struct thread_self { int id; };
static struct thread_self *g_self;          /* threads::detail::get_self_ptr(): non-null iff called from a pika task */
static struct runtime *g_rt;                /* pika::detail::get_runtime_ptr(): the global runtime pointer (may be null) */
static bool g_is_running;                   /* pika::detail::is_running() */
static struct thread_self *get_self_ptr(void) { return g_self; }
static struct runtime *get_runtime_ptr(void) { return g_rt; }
static bool is_running(void) { return g_is_running; }

/* ---- ghost trace of what was done to the runtime object ---- */
static long g_finalize, g_wait, g_stop, g_rethrow, g_tm_wait, g_suspend, g_resume, g_owned, g_deleted;
static int g_wait_result; static bool g_rethrow_threw;
#define SIDE_EFFECTS (g_finalize + g_wait + g_stop + g_rethrow + g_tm_wait + g_suspend + g_resume + g_owned + g_deleted)
#define CALLEE_PRE(r) do { VX_ASSERT(vx_exc == 0, "no call while an exception is propagating"); VX_ASSERT((r) != NULL && (r) == g_rt, "call on the live runtime object"); VX_ASSERT(g_deleted == 0, "runtime used after it was destroyed"); } while (0)
static void rt_finalize(struct runtime *r) { CALLEE_PRE(r); g_finalize++; }
static int rt_wait(struct runtime *r) { CALLEE_PRE(r); VX_ASSERT(g_stop == 0 && g_rethrow == 0, "wait first"); g_wait++; return g_wait_result; }
static void rt_stop(struct runtime *r) { CALLEE_PRE(r); VX_ASSERT(g_wait == 1 && g_rethrow == 0, "stop after wait, before rethrow"); g_stop++; }
static void rt_rethrow_exception(struct runtime *r)
{ CALLEE_PRE(r); VX_ASSERT(g_wait == 1 && g_stop == 1, "rethrow after wait and stop"); g_rethrow++; if (nondet_bool()) { g_rethrow_threw = true; vx_exc = EXC_FOREIGN; } }
static void tm_wait(struct runtime *r) { CALLEE_PRE(r); g_tm_wait++; }
static void rt_suspend(struct runtime *r) { CALLEE_PRE(r); g_suspend++; }
static void rt_resume(struct runtime *r) { CALLEE_PRE(r); g_resume++; }
/* std::unique_ptr<runtime>: construction from a raw pointer = taking ownership; destruction deletes a non-null pointee */
struct uptr { struct runtime *p; };
static struct uptr uptr_take(struct runtime *p) { struct uptr u; u.p = p; if (p) g_owned++; return u; }
static struct runtime *uptr_get(struct uptr *u) { return u->p; }
static struct runtime *uptr_release(struct uptr *u) { struct runtime *p = u->p; u->p = NULL; return p; }
static void uptr_dtor(struct uptr *u) { if (u->p) { VX_ASSERT(g_deleted == 0, "runtime destroyed at most once"); g_deleted++; } }

#define ENTRY_PRE (vx_exc == 0 && SIDE_EFFECTS == 0 && g_finalize == 0 && g_wait == 0 && g_stop == 0 && g_rethrow == 0 && g_tm_wait == 0 && g_suspend == 0 && g_resume == 0 && g_owned == 0 && g_deleted == 0 && !g_rethrow_threw)
#define REFUSED (vx_exc == pika_error_invalid_status && SIDE_EFFECTS == 0)
#define ENTRY_ASSIGNS vx_exc, g_finalize, g_wait, g_stop, g_rethrow, g_tm_wait, g_suspend, g_resume, g_owned, g_deleted, g_rethrow_threw

#ifdef U_STOP
//@FUNC
int stop(void)
__CPROVER_requires(ENTRY_PRE)
/* from a pika task, or without a runtime: refused, nothing touched (in particular the runtime is not taken / destroyed) */
__CPROVER_ensures((g_self != NULL || g_rt == NULL) ==> REFUSED)
/* otherwise: ownership taken exactly once, wait -> stop -> rethrow_exception exactly once each in that order (order: stubs),
 * the runtime destroyed exactly once, after all three */
__CPROVER_ensures((g_self == NULL && g_rt != NULL) ==> (g_owned == 1 && g_wait == 1 && g_stop == 1 && g_rethrow == 1 && g_deleted == 1 && g_finalize + g_tm_wait + g_suspend + g_resume == 0))
/* and the value returned is rt->wait()'s, unless the runtime's stored exception is rethrown */
__CPROVER_ensures((g_self == NULL && g_rt != NULL) ==> (g_rethrow_threw ? vx_exc == EXC_FOREIGN : (vx_exc == 0 && __CPROVER_return_value == g_wait_result)))
__CPROVER_assigns(ENTRY_ASSIGNS)
//@LIFT body
#endif

#ifdef U_FINALIZE
//@FUNC
void finalize(void)
__CPROVER_requires(ENTRY_PRE)
__CPROVER_ensures((!g_is_running || g_rt == NULL) ==> REFUSED)
__CPROVER_ensures((g_is_running && g_rt != NULL) ==> (vx_exc == 0 && g_finalize == 1 && SIDE_EFFECTS == 1))
__CPROVER_assigns(ENTRY_ASSIGNS)
//@LIFT body
#endif

#ifdef U_WAIT
//@FUNC
void wait(void)
__CPROVER_requires(ENTRY_PRE)
__CPROVER_ensures(g_rt == NULL ==> REFUSED)
/* allowed from inside and outside the runtime: exactly one thread_manager::wait (unit tm.wait) */
__CPROVER_ensures(g_rt != NULL ==> (vx_exc == 0 && g_tm_wait == 1 && SIDE_EFFECTS == 1))
__CPROVER_assigns(ENTRY_ASSIGNS)
//@LIFT body
#endif

#ifdef U_SUSPEND
//@FUNC
void suspend(void)
__CPROVER_requires(ENTRY_PRE)
__CPROVER_ensures((g_self != NULL || g_rt == NULL) ==> REFUSED)
__CPROVER_ensures((g_self == NULL && g_rt != NULL) ==> (vx_exc == 0 && g_suspend == 1 && SIDE_EFFECTS == 1))
__CPROVER_assigns(ENTRY_ASSIGNS)
//@LIFT body
#endif

#ifdef U_RESUME
//@FUNC
void resume(void)
__CPROVER_requires(ENTRY_PRE)
__CPROVER_ensures((g_self != NULL || g_rt == NULL) ==> REFUSED)
__CPROVER_ensures((g_self == NULL && g_rt != NULL) ==> (vx_exc == 0 && g_resume == 1 && SIDE_EFFECTS == 1))
__CPROVER_assigns(ENTRY_ASSIGNS)
//@LIFT body
#endif

void harness(void)
{
  static struct runtime the_rt; static struct thread_self me;
  vx_exc = 0;
  g_finalize = g_wait = g_stop = g_rethrow = g_tm_wait = g_suspend = g_resume = g_owned = g_deleted = 0; g_rethrow_threw = false;
  g_self = nondet_bool() ? &me : NULL;
  g_rt = nondet_bool() ? &the_rt : NULL;
  g_is_running = nondet_bool();
  g_wait_result = nondet_int();
#ifdef U_STOP
  int r = stop();
  if (vx_exc == pika_error_invalid_status && g_self) VX_REACH("refused_from_pika_task");
  if (vx_exc == pika_error_invalid_status && !g_self) VX_REACH("refused_no_runtime");
  if (vx_exc == 0) VX_REACH("stopped_returns_wait_result");
  if (g_rethrow_threw) VX_REACH("stored_exception_rethrown_runtime_still_destroyed");
#endif
#ifdef U_FINALIZE
  finalize();
  if (vx_exc && !g_is_running) VX_REACH("refused_not_running");
  if (vx_exc && g_is_running) VX_REACH("refused_no_runtime");
  if (!vx_exc && g_self) VX_REACH("finalized_from_task");
  if (!vx_exc && !g_self) VX_REACH("finalized_from_outside");
#endif
#ifdef U_WAIT
  wait();
  if (vx_exc) VX_REACH("refused_no_runtime");
  if (!vx_exc && g_self) VX_REACH("waits_from_task");
  if (!vx_exc && !g_self) VX_REACH("waits_from_outside");
#endif
#ifdef U_SUSPEND
  suspend();
  if (vx_exc && g_self) VX_REACH("refused_from_pika_task");
  if (vx_exc && !g_self) VX_REACH("refused_no_runtime");
  if (!vx_exc) VX_REACH("suspended");
#endif
#ifdef U_RESUME
  resume();
  if (vx_exc && g_self) VX_REACH("refused_from_pika_task");
  if (vx_exc && !g_self) VX_REACH("refused_no_runtime");
  if (!vx_exc) VX_REACH("resumed");
#endif
}
