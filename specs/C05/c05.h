/* C05 -- runtime life cycle (slice): common prelude.  Enumerator values come from /repo via spec.py (-D). */
#ifndef C05_H
#define C05_H
#include "vx.h"

/* exception model: vx_exc != 0 <=> a pika::exception with that error code is propagating out of the current call */
static int vx_exc;
#define EXC_FOREIGN 1000000                 /* some exception that is not a pika::exception with a code of interest */
static void vx_throw_pika(int code) { VX_ASSERT(vx_exc == 0, "no throw while an exception is propagating"); vx_exc = code; }

struct hint { int16_t hint; int8_t mode; };
#endif
