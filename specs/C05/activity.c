/* C05 -- activity-count balance.
 *  (a) the counter itself: increment / decrement / get  (S contracts: one atomic step each, under interference)
 *  (b) create_thread / destroy_thread of the three schedulers (T contracts + ledger):
 *      own ledger (g_dc, g_dl) = (what this call has added to the count, what it has made visible as live tasks).
 *      Obligation at EVERY step: g_dc >= g_dl.  Summed over all threads this is  count >= live  in every reachable state,
 *      i.e. "count == 0 ==> no live task" is stable (the summation is the history-induction paper step). */
#include "c05.h"
#define BIG 1000000000ul

#if defined(U_INCREMENT) || defined(U_DECREMENT) || defined(U_GET)
static size_t global_activity_count;        /* static std::atomic<std::size_t> global_activity_count{0}; */
static size_t g_held;                        /* contributions to the count the CALLER holds right now (its own live tasks) */
static bool lin; static size_t lin_old, lin_new; static long g_reads; static size_t g_last_read;
/* other threads create / destroy tasks at any time; nobody takes away a contribution that the caller holds */
static void interfere(size_t *p)
{ if (nondet_bool()) { size_t v = nondet_size(); VX_ASSUME(v >= g_held && v <= BIG); /* rely: ledger of the other threads; ghost bound */ *p = v; } }
static size_t atomic_fetch_add(size_t *p, size_t d)
{ interfere(p); VX_ASSERT(!lin, "one atomic step per call"); lin = true; lin_old = *p; *p = *p + d; lin_new = *p; return lin_old; }
static size_t atomic_fetch_sub(size_t *p, size_t d)
{ interfere(p); VX_ASSERT(!lin, "one atomic step per call"); lin = true; lin_old = *p; *p = *p - d; lin_new = *p; return lin_old; }
static size_t atomic_load(size_t *p) { interfere(p); if (g_reads < 3) g_reads++; g_last_read = *p; return *p; }
#define CNT_PRE (!lin && g_reads == 0 && global_activity_count >= g_held && global_activity_count <= BIG && g_held <= BIG)

#ifdef U_INCREMENT
//@FUNC
void increment_global_activity_count(void)
__CPROVER_requires(CNT_PRE)
__CPROVER_ensures(lin && lin_new == lin_old + 1 && g_reads == 0)
__CPROVER_assigns(global_activity_count, lin, lin_old, lin_new)
//@LIFT body
#endif
#ifdef U_DECREMENT
//@FUNC
void decrement_global_activity_count(void)
/* the caller gives back a contribution it holds (the task it has just destroyed was counted) */
__CPROVER_requires(CNT_PRE && g_held >= 1)
/* exactly one step down, never below zero (no wrap-around to a huge count) */
__CPROVER_ensures(lin && lin_old >= 1 && lin_new == lin_old - 1 && g_reads == 0)
__CPROVER_assigns(global_activity_count, lin, lin_old, lin_new)
//@LIFT body
#endif
#ifdef U_GET
//@FUNC
size_t get_global_activity_count(void)
__CPROVER_requires(CNT_PRE)
/* the value returned is the counter's value at one instant; it includes everything the caller holds */
__CPROVER_ensures(!lin && g_reads == 1 && __CPROVER_return_value == g_last_read && __CPROVER_return_value >= g_held)
__CPROVER_assigns(global_activity_count, g_reads, g_last_read)
//@LIFT body
#endif

#else  /* ---------------- create_thread / destroy_thread ---------------- */

static long g_incs, g_decs;                  /* calls of increment / decrement_global_activity_count */
static long g_dc, g_dl;                      /* own ledger: count contribution, live (visible) tasks */
static long g_qcreates, g_qdestroys;         /* queue-level create_thread / destroy_thread calls */
static bool g_created;                       /* the queue really created (published) the task */
static bool g_q_threw;
#define LEDGER_STEP VX_ASSERT(g_dc >= g_dl, "ledger: at every step the count contribution covers the visible live tasks")
static void increment_global_activity_count(void) { if (g_incs < 3) g_incs++; g_dc++; LEDGER_STEP; }
static void decrement_global_activity_count(void)
{ VX_ASSERT(g_dc >= 1, "only a contribution that is held is given back"); if (g_decs < 3) g_decs++; g_dc--; LEDGER_STEP; }
/* thread_queue::create_thread (any queue): the task may become visible to workers from here on; may fail (ec / exception) */
static void q_create(void)
{
  VX_ASSERT(vx_exc == 0, "no call while an exception is propagating");
  VX_ASSERT(g_incs >= 1, "the count is incremented BEFORE the task can become visible in a queue");
  if (g_qcreates < 3) g_qcreates++;
  if (nondet_bool()) { g_created = true; g_dl++; }
  else if (nondet_bool()) { g_q_threw = true; vx_exc = EXC_FOREIGN; }
  LEDGER_STEP;
}
/* thread_queue::destroy_thread: the task stops being live (it is recycled) */
static void q_destroy(void)
{
  VX_ASSERT(g_decs == 0, "the queue-level destroy PRECEDES the decrement");
  VX_ASSERT(g_dl >= 1, "destroying a live task");
  if (g_qdestroys < 3) g_qdestroys++; g_dl--; LEDGER_STEP;
}
#define CREATE_PRE (g_incs == 0 && g_decs == 0 && g_dc == 0 && g_dl == 0 && g_qcreates == 0 && !g_created && !g_q_threw && vx_exc == 0)
/* exactly one increment and no decrement on EVERY path (also when the queue fails or an exception leaves the function) */
#define CREATE_POST (g_incs == 1 && g_decs == 0 && g_dc == 1 && g_dl == (g_created ? 1 : 0) && g_qcreates <= 1)
#define DESTROY_PRE (g_incs == 0 && g_decs == 0 && g_dc == 1 && g_dl == 1 && g_qdestroys == 0 && vx_exc == 0)
#define DESTROY_POST (g_incs == 0 && g_decs == 1 && g_qdestroys == 1 && g_dc == 0 && g_dl == 0 && vx_exc == 0)
#define ASSIGNS_LEDGER g_incs, g_decs, g_dc, g_dl, g_qcreates, g_qdestroys, g_created, g_q_threw, vx_exc

struct init_data { int8_t priority; struct hint schedulehint; bool run_now; void *scheduler_base; };
struct thread_data { void *scheduler_base; size_t last_worker; };
typedef int thread_id_ref;
static void *thrd_scheduler_base(struct thread_data *t) { return t->scheduler_base; }
static size_t atomic_fetch_inc(size_t *p) { if (nondet_bool()) *p = nondet_size(); size_t o = *p; *p = o + 1; return o; }
#define hp_create_thread(self, i, ...) q_create()
#define np_create_thread(self, i, ...) q_create()
#define lp_create_thread(self, ...) q_create()
#define thrd_queue_destroy_thread(...) q_destroy()

#if defined(U_LPQ_CREATE) || defined(U_LPQ_DESTROY) || defined(U_LQ_CREATE) || defined(U_LQ_DESTROY)
struct sched { size_t curr_queue_, num_queues_, num_high_priority_queues_; };
#if defined(U_LQ_CREATE) || defined(U_LQ_DESTROY)
#define WF(s) ((s)->num_queues_ != 0)       /* queues_.size() != 0 */
#else
#define WF(s) ((s)->num_queues_ != 0 && (s)->num_high_priority_queues_ != 0 && (s)->num_high_priority_queues_ <= (s)->num_queues_)
#endif
/* scheduler_base::select_active_pu (C19 unit state.select_active_pu): result < number of workers; takes no part in the count */
static size_t select_active_pu(struct sched *self, size_t n, bool fb)
{ size_t r = nondet_size(); VX_ASSUME(r < self->num_queues_); /* C19 postcondition */ return r; }
#endif

#if defined(U_LPQ_CREATE) || defined(U_LQ_CREATE)
//@FUNC
void create_thread(struct sched *self, struct init_data *data, thread_id_ref *id, int *ec)
__CPROVER_requires(CREATE_PRE && WF(self))
__CPROVER_ensures(CREATE_POST && g_qcreates == 1)
__CPROVER_assigns(ASSIGNS_LEDGER, self->curr_queue_, data->schedulehint, data->priority)
//@LIFT body
#endif
#if defined(U_LPQ_DESTROY) || defined(U_LQ_DESTROY)
//@FUNC
void destroy_thread(struct sched *self, struct thread_data *thrd)
__CPROVER_requires(DESTROY_PRE && thrd->scheduler_base == (void *) self)
__CPROVER_ensures(DESTROY_POST)
__CPROVER_assigns(ASSIGNS_LEDGER)
//@LIFT body
#endif

#if defined(U_SPQ_CREATE) || defined(U_SPQ_DESTROY)
struct sched { size_t num_workers_, num_domains_; bool round_robin_; };
static size_t g_local_num;
static size_t local_thread_number(struct sched *self) { return g_local_num; }     /* size_t(-1) when called from another pool */
static size_t vx_lookup(struct sched *self, size_t i) { return nondet_size(); }   /* d_lookup_ / q_lookup_ / q_offset_ / q_counts_ */
static size_t worker_next(struct sched *self, size_t n) { return nondet_size(); }
static size_t fast_mod(size_t a, size_t b) { return nondet_size(); }
static size_t select_active_pu(struct sched *self, size_t n, bool fb) { return nondet_size(); }
struct qh { size_t domain_index_, queue_index_; };
static struct qh thrd_queue(struct thread_data *t) { struct qh q; q.domain_index_ = nondet_size(); q.queue_index_ = nondet_size(); return q; }
static size_t thrd_last_worker(struct thread_data *t) { return t->last_worker; }
#endif
#ifdef U_SPQ_CREATE
//@FUNC
void create_thread(struct sched *self, struct init_data *data, thread_id_ref *thrd, int *ec)
/* constructor invariant of shared_priority_queue_scheduler: at least one worker (the thread hint is reduced modulo num_workers_) */
__CPROVER_requires(CREATE_PRE && data->scheduler_base == (void *) self && self->num_workers_ >= 1)
/* one increment on every path -- including the refusal of an invalid hint mode, where nothing is created */
__CPROVER_ensures(CREATE_POST)
__CPROVER_ensures(g_qcreates == 0 ==> vx_exc == pika_error_bad_parameter)
__CPROVER_assigns(ASSIGNS_LEDGER, data->run_now)
//@LIFT body
#endif
#ifdef U_SPQ_DESTROY
//@FUNC
void destroy_thread(struct sched *self, struct thread_data *thrd)
__CPROVER_requires(DESTROY_PRE && thrd->scheduler_base == (void *) self && (g_local_num != (size_t) -1 ? g_local_num < self->num_workers_ : thrd->last_worker < self->num_workers_))
__CPROVER_ensures(DESTROY_POST)
__CPROVER_assigns(ASSIGNS_LEDGER)
//@LIFT body
#endif
#endif

void harness(void)
{
  vx_exc = 0;
#if defined(U_INCREMENT) || defined(U_DECREMENT) || defined(U_GET)
  lin = false; lin_old = lin_new = 0; g_reads = 0; g_last_read = 0;
  global_activity_count = nondet_size(); g_held = nondet_size();
#ifdef U_INCREMENT
  increment_global_activity_count();
  if (lin_old == 0) VX_REACH("from_idle"); else VX_REACH("from_busy");
#endif
#ifdef U_DECREMENT
  decrement_global_activity_count();
  if (lin_new == 0) VX_REACH("becomes_idle"); else VX_REACH("still_busy");
#endif
#ifdef U_GET
  size_t c = get_global_activity_count();
  if (c == 0) VX_REACH("idle"); else VX_REACH("busy");
#endif
#else
  static struct sched s;
  struct init_data d; struct thread_data t; thread_id_ref id = 0; int ec = 0;
  g_incs = g_decs = 0; g_dc = g_dl = 0; g_qcreates = g_qdestroys = 0; g_created = false; g_q_threw = false;
  d.priority = nondet_i8(); d.schedulehint.hint = nondet_i16(); d.schedulehint.mode = nondet_i8(); d.run_now = nondet_bool();
  d.scheduler_base = &s; t.scheduler_base = &s; t.last_worker = nondet_size();
#if defined(U_LPQ_CREATE) || defined(U_LPQ_DESTROY) || defined(U_LQ_CREATE) || defined(U_LQ_DESTROY)
  s.curr_queue_ = nondet_size(); s.num_queues_ = nondet_size(); s.num_high_priority_queues_ = nondet_size();
#else
  s.num_workers_ = nondet_size(); s.num_domains_ = nondet_size(); s.round_robin_ = nondet_bool(); g_local_num = nondet_size();
#endif
#if defined(U_LPQ_CREATE) || defined(U_LQ_CREATE) || defined(U_SPQ_CREATE)
  create_thread(&s, &d, &id, &ec);
  if (g_created) VX_REACH("task_created_and_counted");
  if (g_qcreates == 1 && !g_created && !vx_exc) VX_REACH("queue_reported_error_count_stays");
  if (g_q_threw) VX_REACH("queue_threw_count_stays");
#ifdef U_SPQ_CREATE
  if (g_qcreates == 0) VX_REACH("invalid_hint_mode_refused_count_stays");
#endif
#else
  g_dc = 1; g_dl = 1;
  destroy_thread(&s, &t);
  VX_REACH("destroyed_then_uncounted");
#endif
#endif
}
