/* C05 -- the life-cycle hand-shake inside pika::runtime (runtime.cpp): finalize -> wait -> stop, suspend/resume state steps.
 * (written by main after the agent-written slice; M/T contracts) */
#include "vx.h"
enum { RS_invalid = -1, RS_initialized = 0, RS_pre_startup = 1, RS_startup = 2, RS_pre_main = 3, RS_starting = 4, RS_running = 5,
       RS_suspended = 6, RS_pre_sleep = 7, RS_sleeping = 8, RS_pre_shutdown = 9, RS_shutdown = 10, RS_stopping = 11, RS_terminating = 12, RS_stopped = 13 };
struct runtime { struct vx_mutex *mtx_p; bool stop_called_, stop_done_; int result_; int state_; };
static struct runtime *vx_rt;
static struct vx_mutex g_mtx;
static long g_notify_all, g_releases; static bool g_notify_with_lock, g_done_at_notify;
static long g_tm_wait, g_tm_suspend, g_tm_resume; static bool g_done_at_tm_wait; static int g_state_at_tm_call;
static long g_errors; static int g_err; static long g_state_stores; static int g_state_stored;
static long g_blocks;
/* rely: while we do not hold mtx_, other threads may call finalize(): stop_called_/stop_done_ only ever go false -> true */
#define MON_AT_RELEASE() do { VX_ASSERT(g_notify_all == 0 || vx_rt->stop_done_, "the wait condition is true when the mutex is released after waiters were notified"); if (g_releases < 2) g_releases++; } while (0)
#define MON_AT_ACQUIRE() do { if (nondet_bool()) { vx_rt->stop_called_ = true; vx_rt->stop_done_ = true; } } while (0)
#include "monitor.h"
/* std::condition_variable */
static void stdcv_notify_all(void) { if (g_notify_all < 2) g_notify_all++; g_notify_with_lock = g_mtx.held; g_done_at_notify = vx_rt->stop_done_; }
/* wait_condition_.wait(l, pred): while (!pred()) wait(l);  -- one blocking wait = release + re-acquire */
static void stdcv_block(struct ulock *l) { VX_ASSERT(!vx_rt->stop_done_, "blocks only while finalize() has not been called"); if (g_blocks < 2) g_blocks++; ulock_unlock(l); ulock_lock(l); }
#define STDCV_WAIT_UNTIL(l, cond) while (!(cond)) \
  __CPROVER_assigns(vx_rt->stop_called_, vx_rt->stop_done_, g_releases, g_blocks, (l).owns, g_mtx.held) \
  __CPROVER_loop_invariant((l).owns && (l).m == &g_mtx && g_mtx.held && g_blocks >= 0 && g_blocks <= 2 && g_releases >= 0 && g_releases <= 2) \
  { stdcv_block(&(l)); }
static void tm_wait(void) { if (g_tm_wait < 2) g_tm_wait++; g_done_at_tm_wait = vx_rt->stop_done_; }
static void tm_suspend(void) { if (g_tm_suspend < 2) g_tm_suspend++; g_state_at_tm_call = vx_rt->state_; }
static void tm_resume(void) { if (g_tm_resume < 2) g_tm_resume++; g_state_at_tm_call = vx_rt->state_; }
static void vx_throw_pika(int code) { if (g_errors < 2) g_errors++; g_err = code; }
static void set_state(struct runtime *self, int s) { if (g_state_stores < 2) g_state_stores++; g_state_stored = s; self->state_ = s; }
static int atomic_load_state(struct runtime *self) { return self->state_; }
#define INIT_PRE (self == vx_rt && self->mtx_p == &g_mtx && !g_mtx.held && g_notify_all == 0 && g_releases == 0 && g_blocks == 0 && g_tm_wait == 0 && \
                  g_tm_suspend == 0 && g_tm_resume == 0 && g_errors == 0 && g_state_stores == 0)

#ifdef U_NOTIFY_FINALIZE
//@FUNC
void notify_finalize(struct runtime *self)
__CPROVER_requires(INIT_PRE)
/* finalize() makes the wait condition true, and wakes every waiter while holding the mutex (no waiter can miss it) */
__CPROVER_ensures(self->stop_called_ && self->stop_done_ && !g_mtx.held)
__CPROVER_ensures(g_notify_all >= 1 ==> g_notify_with_lock)
__CPROVER_ensures(g_notify_all <= 1 && (self->stop_called_ && self->stop_done_))
__CPROVER_assigns(self->stop_called_, self->stop_done_, g_notify_all, g_notify_with_lock, g_done_at_notify, g_releases, g_mtx.held)
//@LIFT body
#endif
#ifdef U_WAIT_FINALIZE
//@FUNC
void wait_finalize(struct runtime *self)
__CPROVER_requires(INIT_PRE)
/* returns only after finalize() was called */
__CPROVER_ensures(self->stop_done_ && !g_mtx.held)
__CPROVER_assigns(self->stop_called_, self->stop_done_, g_releases, g_blocks, g_mtx.held)
//@LIFT body
#endif
#ifdef U_WAIT
static void wait_finalize(struct runtime *self) { VX_ASSERT(g_tm_wait == 0, "wait for finalize() BEFORE draining the thread manager"); self->stop_called_ = true; self->stop_done_ = true; }
//@FUNC
int rt_wait(struct runtime *self)
__CPROVER_requires(INIT_PRE)
/* returns the entry function's result, only after finalize() was called and then the thread manager was drained once */
__CPROVER_ensures(self->stop_done_ && g_tm_wait == 1 && g_done_at_tm_wait && __CPROVER_return_value == self->result_)
__CPROVER_assigns(self->stop_called_, self->stop_done_, g_tm_wait, g_done_at_tm_wait)
//@LIFT body
#endif
#ifdef U_SUSPEND
//@FUNC
void rt_suspend(struct runtime *self)
__CPROVER_requires(INIT_PRE)
/* already sleeping: nothing; not running: error, nothing; running: pools suspended once, THEN the state becomes sleeping */
__CPROVER_ensures(__CPROVER_old(self->state_) == RS_sleeping ==> (g_tm_suspend == 0 && g_errors == 0 && g_state_stores == 0))
__CPROVER_ensures((__CPROVER_old(self->state_) != RS_sleeping && __CPROVER_old(self->state_) != RS_running) ==> (g_errors == 1 && g_tm_suspend == 0 && g_state_stores == 0))
__CPROVER_ensures(__CPROVER_old(self->state_) == RS_running ==> (g_errors == 0 && g_tm_suspend == 1 && g_state_at_tm_call == RS_running && g_state_stores == 1 && self->state_ == RS_sleeping))
__CPROVER_assigns(self->state_, g_tm_suspend, g_state_at_tm_call, g_errors, g_err, g_state_stores, g_state_stored)
//@LIFT body
#endif
#ifdef U_RESUME
//@FUNC
void rt_resume(struct runtime *self)
__CPROVER_requires(INIT_PRE)
__CPROVER_ensures(__CPROVER_old(self->state_) == RS_running ==> (g_tm_resume == 0 && g_errors == 0 && g_state_stores == 0))
__CPROVER_ensures((__CPROVER_old(self->state_) != RS_sleeping && __CPROVER_old(self->state_) != RS_running) ==> (g_errors == 1 && g_tm_resume == 0 && g_state_stores == 0))
__CPROVER_ensures(__CPROVER_old(self->state_) == RS_sleeping ==> (g_errors == 0 && g_tm_resume == 1 && g_state_at_tm_call == RS_sleeping && g_state_stores == 1 && self->state_ == RS_running))
__CPROVER_assigns(self->state_, g_tm_resume, g_state_at_tm_call, g_errors, g_err, g_state_stores, g_state_stored)
//@LIFT body
#endif

void harness(void)
{
  struct runtime rt;
  vx_rt = &rt; rt.mtx_p = &g_mtx; g_mtx.held = false;
  rt.stop_called_ = nondet_bool(); rt.stop_done_ = rt.stop_called_; rt.result_ = nondet_int(); rt.state_ = nondet_int();
  g_notify_all = g_releases = g_blocks = g_tm_wait = g_tm_suspend = g_tm_resume = g_errors = g_state_stores = 0;
  g_notify_with_lock = g_done_at_notify = g_done_at_tm_wait = false; g_state_at_tm_call = g_err = g_state_stored = 0;
#ifdef U_NOTIFY_FINALIZE
  bool was = rt.stop_done_;
  notify_finalize(&rt);
  if (was) VX_REACH("second_finalize_is_a_no_op"); else VX_REACH("first_finalize_notifies");
#endif
#ifdef U_WAIT_FINALIZE
  wait_finalize(&rt);
  if (g_blocks > 0) VX_REACH("blocked_until_finalize"); else VX_REACH("finalize_already_called");
#endif
#ifdef U_WAIT
  rt_wait(&rt); VX_REACH("returned");
#endif
#ifdef U_SUSPEND
  rt_suspend(&rt);
  if (g_tm_suspend) VX_REACH("suspended"); else if (g_errors) VX_REACH("refused"); else VX_REACH("already_sleeping");
#endif
#ifdef U_RESUME
  rt_resume(&rt);
  if (g_tm_resume) VX_REACH("resumed"); else if (g_errors) VX_REACH("refused"); else VX_REACH("already_running");
#endif
}
