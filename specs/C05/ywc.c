/* C05 -- pika::util::detail::yield_while_count / yield_while_count_timeout (execution_base/this_thread.hpp): the waiting loop under
 * scheduled_thread_pool::wait() (the drain step of stop) and runtime::wait.  The pool's "busy" predicate sums per-queue counters that
 * change while they are read, so a single "idle" reading proves nothing; the loop must return only after required_count + 1
 * CONSECUTIVE idle readings (every busy reading in between starts the count again).
 * (written by main after seeded change C05-6 was missed; I contract with a loop contract, arbitrary sequence of readings) */
#include "vx.h"
static size_t g_consec;            /* length of the current run of `false` readings of the predicate (saturating) */
static long g_reads, g_yields; static int g_yield_kind; static bool g_timed_out;
static bool pred_call(void)
{
  bool busy = nondet_bool();
  if (g_reads < 2) g_reads++;
  if (busy) g_consec = 0; else if (g_consec < (size_t)-1) g_consec++;
  return busy;
}
static void yield_or_spin_call(int kind, size_t k, const char *name) { g_yield_kind = kind; if (g_yields < 2) g_yields++; }
static bool timer_expired(void) { bool e = nondet_bool(); if (e) g_timed_out = true; return e; }
enum { KIND_YIELD_K = 1, KIND_SPIN_K = 2 };

#ifdef U_YWC
//@FUNC
void yield_while_count(size_t required_count, const char *thread_name, bool allow_timed_suspension)
__CPROVER_requires(g_consec == 0 && required_count < (size_t)-1)
/* returns only on a run of more than required_count consecutive idle readings */
__CPROVER_ensures(g_consec > required_count)
__CPROVER_ensures(g_yields >= 1 ==> g_yield_kind == (allow_timed_suspension ? KIND_YIELD_K : KIND_SPIN_K))
__CPROVER_assigns(g_consec, g_reads, g_yields, g_yield_kind)
//@LIFT body
#endif
#ifdef U_YWC_TIMEOUT
//@FUNC
bool yield_while_count_timeout(size_t required_count, bool use_timeout_arg, const char *thread_name, bool allow_timed_suspension)
__CPROVER_requires(g_consec == 0 && required_count < (size_t)-1 && !g_timed_out)
/* true: the predicate was waited for (a long enough run of idle readings); false only after the time-out was seen */
__CPROVER_ensures(__CPROVER_return_value ==> g_consec > required_count)
__CPROVER_ensures(!__CPROVER_return_value ==> (g_timed_out && use_timeout_arg))
__CPROVER_assigns(g_consec, g_reads, g_yields, g_yield_kind, g_timed_out)
//@LIFT body
#endif

void harness(void)
{
  g_consec = 0; g_reads = 0; g_yields = 0; g_yield_kind = 0; g_timed_out = false;
  size_t rc = nondet_size();
#ifdef U_YWC
  yield_while_count(rc, "x", nondet_bool());
  VX_REACH("returned_after_a_full_run");
  if (g_yields >= 1) VX_REACH("yielded_in_between");
#endif
#ifdef U_YWC_TIMEOUT
  bool r = yield_while_count_timeout(rc, nondet_bool(), "x", nondet_bool());
  if (r) VX_REACH("waited_for"); else VX_REACH("timed_out");
#endif
}
