/* C05 -- pika::runtime::start(func, blocking) and runtime::run_helper (runtime.cpp): how an incarnation comes up and how the entry
 * function's result / exception reaches stop().  (written by main after seeded change C05-3 was missed; T contracts)
 *
 * runtime::state_ is shared between the thread that calls start() and the run_helper task: once the run_helper task is registered it
 * may run to completion at any time, so every store start() makes to state_ has to happen BEFORE the registration (otherwise a late
 * `pre_main` overwrites `running` and the incarnation never reports running: finalize/suspend/stop are refused, a non-blocking start
 * never returns). */
#include "vx.h"
enum { RS_invalid = -1, RS_initialized = 0, RS_pre_startup = 1, RS_startup = 2, RS_pre_main = 3, RS_starting = 4, RS_running = 5,
       RS_suspended = 6, RS_pre_sleep = 7, RS_sleeping = 8, RS_pre_shutdown = 9, RS_shutdown = 10, RS_stopping = 11, RS_terminating = 12, RS_stopped = 13 };
enum { TSS_terminated = 5 };
enum { FN_run_helper = 1 };
#define VX_INVALID_ID 0L
struct vx_mutex { bool held; };
struct runtime { struct vx_mutex mtx_; int result_; int state_; int exception_; };
typedef int function_t;      /* util::detail::function<int()>: 0 = empty, otherwise an opaque token */
struct thread_result { int state; long id; };
static struct thread_result result_make(int s, long id) { struct thread_result r; r.state = s; r.id = id; return r; }

static struct runtime *vx_rt;
/* ---- ghost ---- */
static bool g_registered;                    /* the run_helper task exists (it may run, and store to state_, from now on) */
static long g_state_stores; static int g_state_stored;
static long g_tm_run, g_registers, g_waits, g_yields, g_init_tss;
static bool g_run_before_register, g_tss_before_run;
static int g_reg_entry; static struct runtime *g_reg_this; static function_t g_reg_func; static int *g_reg_result; static bool g_reg_startup;
static int g_wait_ret, g_last_state_read;
static bool g_threw; static int g_exc_in_flight;

/* ---- the state word ---- */
static void atomic_store_state(struct runtime *self, int s)
{
  VX_ASSERT(!g_registered, "start() stores to state_ only before the run_helper task is registered (a later store can overwrite `running`)");
  if (g_state_stores < 2) g_state_stores++;
  g_state_stored = s; self->state_ = s;
}
static int rt_get_state(struct runtime *self)
{
  /* once registered, run_helper advances the state at its own pace: pre_main -> ... -> running (monotone) */
  if (g_registered && nondet_bool()) { int s = nondet_int(); VX_ASSUME(s >= self->state_ && s <= RS_running); self->state_ = s; }
  g_last_state_read = self->state_;
  return self->state_;
}
static void vx_yield(void) { if (g_yields < 2) g_yields++; }

#if defined(U_START)
struct bound_fn { int entry; struct runtime *thiz; function_t func; int *result; bool call_startup; };
struct init_data { struct bound_fn f; };
static struct bound_fn bind_make(int entry, struct runtime *thiz, function_t func, int *result, bool call_startup)
{ struct bound_fn b; b.entry = entry; b.thiz = thiz; b.func = func; b.result = result; b.call_startup = call_startup; return b; }
static struct init_data init_data_make(struct bound_fn f) { struct init_data d; d.f = f; return d; }
static void init_tss_helper(void) { if (g_init_tss < 2) g_init_tss++; }
static void tm_run(void) { if (g_tm_run < 2) g_tm_run++; g_tss_before_run = (g_init_tss == 1); }
static void tm_register_thread(struct init_data *d, long *id)
{
  if (g_registers < 2) g_registers++;
  g_run_before_register = (g_tm_run == 1);
  g_reg_entry = d->f.entry; g_reg_this = d->f.thiz; g_reg_func = d->f.func; g_reg_result = d->f.result; g_reg_startup = d->f.call_startup;
  g_registered = true;
  *id = nondet_long();
}
static int rt_wait(struct runtime *self) { if (g_waits < 2) g_waits++; g_wait_ret = nondet_int(); return g_wait_ret; }
/* runtime::starting() -- lifted, called by start */
void rt_starting(struct runtime *self)
//@LIFT starting

//@FUNC
int rt_start(struct runtime *self, function_t func, bool blocking)
__CPROVER_requires(self == vx_rt && !g_registered && g_state_stores == 0 && g_tm_run == 0 && g_registers == 0 && g_waits == 0 && g_yields == 0 && g_init_tss == 0)
/* the thread manager is started once, then exactly one task is registered: run_helper bound to this runtime, the caller's entry
 * function, the runtime's result slot, with the startup functions enabled */
__CPROVER_ensures(g_tm_run == 1 && g_registers == 1 && g_run_before_register && g_init_tss == 1 && g_tss_before_run)
__CPROVER_ensures(g_reg_entry == FN_run_helper && g_reg_this == self && g_reg_func == func && g_reg_result == &self->result_ && g_reg_startup)
/* start() itself moves the state to pre_main, once (and -- obligation inside atomic_store_state -- before the registration) */
__CPROVER_ensures(g_state_stores == 1 && g_state_stored == RS_pre_main)
/* blocking: the result is wait()'s; non-blocking: returns 0 only after it has seen the state at running or beyond */
__CPROVER_ensures(blocking ==> (g_waits == 1 && __CPROVER_return_value == g_wait_ret))
__CPROVER_ensures(!blocking ==> (g_waits == 0 && __CPROVER_return_value == 0 && g_last_state_read >= RS_running))
__CPROVER_assigns(self->state_, g_registered, g_state_stores, g_state_stored, g_tm_run, g_registers, g_waits, g_yields, g_init_tss, g_run_before_register, \
                  g_tss_before_run, g_reg_entry, g_reg_this, g_reg_func, g_reg_result, g_reg_startup, g_wait_ret, g_last_state_read)
//@LIFT start
#endif

#if defined(U_RUN_HELPER)
static long g_late, g_startup_pre, g_startup, g_func_calls, g_finalizes, g_reports, g_report_early, g_exc_stores;
static int g_late_ret, g_func_ret;
static bool g_pre_before_startup, g_startup_before_running, g_running_before_func, g_exc_store_locked, g_finalize_after_running;
static function_t g_func;
/* every callee below may throw (g_threw + a token for the exception in flight) */
static bool vx_may_throw(void) { if (nondet_bool()) { g_threw = true; g_exc_in_flight = 7; return true; } return false; }
static int handle_late_commandline_options(void) { if (g_late < 2) g_late++; if (vx_may_throw()) return 0; g_late_ret = nondet_int(); return g_late_ret; }
static void call_startup_functions(struct runtime *self, bool pre_startup)
{
  if (pre_startup) { if (g_startup_pre < 2) g_startup_pre++; }
  else { if (g_startup < 2) g_startup++; g_pre_before_startup = (g_startup_pre == 1); }
  (void) vx_may_throw();
}
static void set_state(struct runtime *self, int s)
{
  if (g_state_stores < 2) g_state_stores++;
  g_state_stored = s; self->state_ = s;
  g_startup_before_running = (g_startup_pre == g_startup);
}
static int func_call(function_t f)
{
  VX_ASSERT(f != 0, "an empty entry function is not called");
  if (g_func_calls < 2) g_func_calls++;
  g_running_before_func = (g_state_stores == 1 && g_state_stored == RS_running);
  if (vx_may_throw()) return 0;
  g_func_ret = nondet_int(); return g_func_ret;
}
static void rt_finalize(struct runtime *self) { if (g_finalizes < 2) g_finalizes++; g_finalize_after_running = (self->state_ == RS_running); }
static int exc_current(void) { return g_exc_in_flight; }
static void exc_store(struct runtime *self, int e) { if (g_exc_stores < 2) g_exc_stores++; g_exc_store_locked = self->mtx_.held; self->exception_ = e; }
static void report_exception_and_continue(int e) { if (g_report_early < 2) g_report_early++; }
static void rt_report_error(struct runtime *self, int e, bool terminate_all) { if (g_reports < 2) g_reports++; }
static void lg_lock(struct vx_mutex *m) { VX_ASSERT(!m->held, "std::mutex locked twice"); m->held = true; }
static void lg_unlock(struct vx_mutex *m) { m->held = false; }

#define RH_GHOST g_threw, g_exc_in_flight, g_late, g_late_ret, g_startup_pre, g_startup, g_func_calls, g_func_ret, g_finalizes, g_reports, g_report_early, \
                 g_exc_stores, g_pre_before_startup, g_startup_before_running, g_running_before_func, g_exc_store_locked, g_finalize_after_running, \
                 g_state_stores, g_state_stored
//@FUNC
struct thread_result run_helper(struct runtime *self, function_t func, int *result, bool call_startup)
__CPROVER_requires(self == vx_rt && result == &self->result_ && !self->mtx_.held && !g_threw && g_late == 0 && g_startup_pre == 0 && g_startup == 0 && g_func_calls == 0 && \
                   g_finalizes == 0 && g_reports == 0 && g_report_early == 0 && g_exc_stores == 0 && g_state_stores == 0 && self->exception_ == 0)
/* the task always ends (terminated), with the mutex free and no exception escaping */
__CPROVER_ensures(__CPROVER_return_value.state == TSS_terminated && __CPROVER_return_value.id == VX_INVALID_ID && !self->mtx_.held)
/* the entry function runs at most once, only after the state became running; its result is what stop() will return */
__CPROVER_ensures(g_func_calls <= 1 && (g_func_calls == 1 ==> (g_running_before_func && func != 0)))
__CPROVER_ensures((!g_threw && g_late_ret == 0) ==> (g_func_calls == (func != 0 ? 1 : 0) && g_state_stores == 1 && g_state_stored == RS_running && g_finalizes == 0 && \
                   (func != 0 ==> *result == g_func_ret) && self->exception_ == 0))
/* startup functions: pre-startup then startup, once each, before the state becomes running -- iff asked for */
__CPROVER_ensures((!g_threw && g_late_ret == 0) ==> (g_startup_pre == (call_startup ? 1 : 0) && g_startup == g_startup_pre && (call_startup ==> g_pre_before_startup) && g_startup_before_running))
/* late command line handling asks to bail out: running, finalize(), the entry function is not called */
__CPROVER_ensures((!g_threw && g_late_ret != 0) ==> (g_func_calls == 0 && g_startup_pre == 0 && g_startup == 0 && g_state_stores == 1 && g_state_stored == RS_running && \
                   g_finalizes == 1 && g_finalize_after_running && *result == g_late_ret))
/* any exception: result -1, the exception stored once under the mutex and reported, finalize() called so that stop() cannot hang */
__CPROVER_ensures(g_threw ==> (*result == -1 && g_exc_stores == 1 && g_exc_store_locked && self->exception_ == g_exc_in_flight && g_reports == 1 && g_finalizes == 1))
__CPROVER_assigns(self->state_, self->exception_, self->result_, self->mtx_.held, RH_GHOST)
//@LIFT run_helper
#endif

void harness(void)
{
  struct runtime rt;
  vx_rt = &rt; rt.mtx_.held = false; rt.result_ = nondet_int(); rt.state_ = nondet_int(); rt.exception_ = 0;
  g_registered = false; g_state_stores = 0; g_state_stored = 0; g_tm_run = g_registers = g_waits = g_yields = g_init_tss = 0;
  g_run_before_register = g_tss_before_run = false; g_reg_entry = 0; g_reg_this = 0; g_reg_func = 0; g_reg_result = 0; g_reg_startup = false;
  g_wait_ret = 0; g_last_state_read = 0; g_threw = false; g_exc_in_flight = 0;
#if defined(U_START)
  bool blocking = nondet_bool();
  function_t f = nondet_int();
  int r = rt_start(&rt, f, blocking);
  if (blocking) VX_REACH("blocking_start_returns_wait_result");
  if (!blocking && g_yields == 0) VX_REACH("non_blocking_already_running");
  if (!blocking && g_yields > 0) VX_REACH("non_blocking_waited_for_running");
  if (f == 0) VX_REACH("empty_entry_function");
#endif
#if defined(U_RUN_HELPER)
  g_late = g_startup_pre = g_startup = g_func_calls = g_finalizes = g_reports = g_report_early = g_exc_stores = 0; g_late_ret = 0; g_func_ret = 0;
  g_pre_before_startup = g_startup_before_running = g_running_before_func = g_exc_store_locked = g_finalize_after_running = false;
  function_t f = nondet_int();
  bool cs = nondet_bool();
  g_func = f;
  struct thread_result tr = run_helper(&rt, f, &rt.result_, cs);
  if (!g_threw && g_func_calls == 1) VX_REACH("entry_function_returned");
  if (!g_threw && f == 0 && g_late_ret == 0) VX_REACH("no_entry_function");
  if (!g_threw && g_late_ret != 0) VX_REACH("bailed_out_after_late_command_line");
  if (g_threw && g_func_calls == 1) VX_REACH("entry_function_threw");
  if (g_threw && g_func_calls == 0) VX_REACH("startup_threw");
  if (!cs && !g_threw) VX_REACH("without_startup_functions");
#endif
}
