import re

from vx.lift import (Lift, Sub, Call, Members, Guard, DropStmt, TryCatch, Auto, Rule, LiftError, match_close, split_args,
                     read_source)
from vx.run import Unit

GAC = "libs/pika/threading_base/src/global_activity_count.cpp"
LPQ = "libs/pika/schedulers/include/pika/schedulers/local_priority_queue_scheduler.hpp"
LQ = "libs/pika/schedulers/include/pika/schedulers/local_queue_scheduler.hpp"
SPQ = "libs/pika/schedulers/include/pika/schedulers/shared_priority_queue_scheduler.hpp"
TM = "libs/pika/thread_manager/src/thread_manager.cpp"
IR = "libs/pika/init_runtime/src/init_runtime.cpp"
ENUMS = "libs/pika/coroutines/include/pika/coroutines/thread_enums.hpp"
ERR_HPP = "libs/pika/errors/include/pika/errors/error.hpp"


# ---------------------------------------------------------------------------------------------------------------
# helpers local to this spec (same as in specs/C10/spec.py; YieldWhile copied from specs/C19/spec.py)


def enum_defines(relpath, enum_name, prefix):
    """Read `enum class <enum_name> [: T] { a = v, b, ... }` from /repo and return ["<prefix>a=<v>", ...]."""
    try:
        src = read_source(relpath)
    except LiftError:
        return []
    m = re.search(r"enum\s+class\s+%s\b[^{;]*\{" % re.escape(enum_name), src)
    if not m:
        return []
    op = m.end() - 1
    cl = match_close(src, op, "{", "}")
    env, out, nxt = {}, [], 0
    for item in split_args(src[op + 1 : cl]):
        mm = re.match(r"(\w+)\s*(?:=\s*(.*))?$", item.strip(), re.S)
        if not mm:
            continue
        if mm.group(2) is not None:
            try:
                val = int(eval(mm.group(2), {"__builtins__": {}}, dict(env)))
            except Exception:
                continue
        else:
            val = nxt
        env[mm.group(1)] = val
        nxt = val + 1
        out.append("%s%s=%d" % (prefix, mm.group(1), val))
    return out


class Method(Rule):
    """member call `RECV.name(args)` / `RECV->name(args)` -> template(name, recv_pointer_expr, args)"""

    def __init__(self, name, template, n=None):
        self.name, self.template, self.n = name, template, n

    @staticmethod
    def _recv_start(text, dot):
        i = dot
        while True:
            if i >= 1 and text[i - 1] in ")]":
                close = text[i - 1]
                open_ = "(" if close == ")" else "["
                depth, q = 0, i - 1
                while q >= 0:
                    if text[q] == close:
                        depth += 1
                    elif text[q] == open_:
                        depth -= 1
                        if depth == 0:
                            break
                    q -= 1
                if q < 0:
                    raise LiftError("Method: unbalanced receiver")
                i = q
                continue
            mm = re.search(r"\w+$", text[:i])
            if mm:
                i = mm.start()
                if text[i - 2 : i] in ("::", "->"):
                    i -= 2
                    continue
                if text[i - 1 : i] == ".":
                    i -= 1
                    continue
            break
        return i

    def apply(self, text):
        k, scan = 0, 0
        rx = re.compile(r"\s*(\.|->)(%s)\s*\(" % self.name)
        while True:
            m = rx.search(text, scan)
            if not m:
                break
            rs = self._recv_start(text, m.start())
            recv = text[rs : m.start()].strip()
            if not recv:
                raise LiftError("Method(%s): empty receiver" % self.name)
            recv = "(%s)" % recv if m.group(1) == "->" else "&(%s)" % recv
            op = m.end() - 1
            cl = match_close(text, op)
            rep = self.template(m.group(2), recv, split_args(text[op + 1 : cl]))
            text = text[:rs] + rep + text[cl + 1 :]
            scan = rs + len(rep)
            k += 1
        self.check(k, "Method(%s)" % self.name)
        return text


class YieldWhile(Rule):
    """`util::yield_while([caps]() { BODY }, "name");` -> the loop it is (this_thread.hpp: `for (k = 0; predicate(); ++k)
    yield_k(k)`), lambda body inlined:  while (1) { bool vx_ywK; { BODY' } vx_ywK_end: ; if (!vx_ywK) break; vx_yield(); }
    where every `return E;` of BODY becomes `{ vx_ywK = (E); goto vx_ywK_end; }`  (copied from specs/C19/spec.py)"""

    def __init__(self, n=None):
        self.n = n

    def apply(self, text):
        k = 0
        rx = re.compile(r"(?:pika::)?util::yield_while\s*\(")
        while True:
            m = rx.search(text)
            if not m:
                break
            op = m.end() - 1
            cl = match_close(text, op)
            lam = split_args(text[op + 1 : cl])[0]
            ml = re.match(r"\[[^\]]*\]\s*\(\s*\)\s*(?:mutable\s*)?\{", lam, re.S)
            if not ml:
                raise LiftError("YieldWhile: first argument is not a lambda: %r" % lam[:60])
            bop = ml.end() - 1
            bcl = match_close(lam, bop, "{", "}")
            if lam[bcl + 1 :].strip():
                raise LiftError("YieldWhile: text after the lambda body")
            k += 1
            v = "vx_yw%d" % k
            body, nret = re.subn(r"\breturn\b\s*([^;]*);", lambda mm: "{ %s = (%s); goto %s_end; }" % (v, mm.group(1), v),
                                 lam[bop + 1 : bcl])
            if nret == 0:
                raise LiftError("YieldWhile: predicate without return")
            end = cl + 1
            ms = re.match(r"\s*;", text[end:])
            if not ms:
                raise LiftError("YieldWhile: not a statement")
            end += ms.end()
            rep = "while (1) { bool %s; { %s } %s_end: ; if (!%s) break; vx_yield(); }" % (v, body, v, v)
            text = text[: m.start()] + rep + text[end:]
        self.check(k, "YieldWhile")
        return text


ENUM_DEFS = (enum_defines(ENUMS, "thread_priority", "thread_priority_") + enum_defines(ENUMS, "thread_schedule_hint_mode", "hint_mode_") +
             enum_defines(ERR_HPP, "error", "pika_error_"))
PRIO_ENUM = Sub(r"(?:(?:pika::)?execution::)?thread_priority::(\w+)", r"thread_priority_\1", None)
HINT_MODE_ENUM = Sub(r"(?:(?:pika::)?execution::)?thread_schedule_hint_mode::(\w+)", r"hint_mode_\1", None)
ERR_ENUM = Sub(r"(?:pika::)?error::(\w+)", r"pika_error_\1", None)
SIZE_T_CAST = Sub(r"std::size_t\(\s*(-?\w+)\s*\)", r"((size_t) \1)", None)
ACTIVITY = Sub(r"(?:pika::threads::detail::)?(increment|decrement|get)_global_activity_count\(\)", r"\1_global_activity_count()", None)
THIS = Sub(r"\bthis\b(?!->)", "self", None)


def throw_stmt(ret=""):
    return Call(r"\bPIKA_THROW_EXCEPTION", "{ vx_throw_pika({0}); return %s; }" % ret, None, stmt=True)


# ---------------------------------------------------------------------------------------------------------------
# unit group 1a: the counter

CNT_RULES = [Sub(r"\bglobal_activity_count\.(fetch_add|fetch_sub|load)\(", r"atomic_\1(&global_activity_count, ", None),
             Sub(r"\(&global_activity_count,\s*std::memory_order_\w+\)", "(&global_activity_count)", None)]
UNITS = [
    Unit("count.increment", "activity.c", defines=ENUM_DEFS + ["U_INCREMENT"], enforce="increment_global_activity_count",
         lifts={"body": Lift(GAC, r"void increment_global_activity_count\(\)", rules=CNT_RULES)},
         funcs=[GAC + ": increment_global_activity_count"], min_obligations=3, doc="S: exactly one atomic step count -> count + 1"),
    Unit("count.decrement", "activity.c", defines=ENUM_DEFS + ["U_DECREMENT"], enforce="decrement_global_activity_count",
         lifts={"body": Lift(GAC, r"void decrement_global_activity_count\(\)", rules=CNT_RULES)},
         funcs=[GAC + ": decrement_global_activity_count"], min_obligations=3,
         doc="S: exactly one atomic step count -> count - 1; with the caller holding a contribution the count never wraps below 0"),
    Unit("count.get", "activity.c", defines=ENUM_DEFS + ["U_GET"], enforce="get_global_activity_count",
         lifts={"body": Lift(GAC, r"std::size_t get_global_activity_count\(\)", rules=CNT_RULES)},
         funcs=[GAC + ": get_global_activity_count"], min_obligations=3,
         doc="S: returns the counter's value at one instant (>= what the caller itself holds)"),
]

# ---------------------------------------------------------------------------------------------------------------
# unit group 1b: create_thread / destroy_thread of the three schedulers

PLACE_RULES = [
    ACTIVITY, SIZE_T_CAST, PRIO_ENUM, HINT_MODE_ENUM, THIS,
    Sub(r"\bdata\.", "data->", None),
    Sub(r"\bcurr_queue_\s*\+\+", "atomic_fetch_inc(&self->curr_queue_)", None),
    Sub(r"std::unique_lock<pu_mutex_type>\s+(\w+)\s*;", r"int \1 = 0;", None),
    Call(r"\bselect_active_pu", lambda a, env: "select_active_pu(self, %s, %s)" % (a[1], a[2] if len(a) > 2 else "false"), None),
    Sub(r"\bhigh_priority_queues_\[([^\]]+)\]\.data_->(create_thread)\(", r"hp_\2(self, \1, ", None),
    Sub(r"\bqueues_\[([^\]]+)\]\.data_->(create_thread)\(", r"np_\2(self, \1, ", None),
    Sub(r"\bqueues_\[([^\]]+)\]->(create_thread)\(", r"np_\2(self, \1, ", None),
    Sub(r"\blow_priority_queue_\.(create_thread)\(", r"lp_\1(self, ", None),
    Sub(r"\bqueues_\.size\(\)", "self->num_queues_", None),
    Members(["num_queues_", "num_high_priority_queues_"], optional=["num_queues_", "num_high_priority_queues_"]),
]
GET_QUEUE = Sub(r"(\w+)->get_queue<(?:[^<>]|<[^<>]*>)*>\(\)", r"thrd_queue(\1)", None)
DESTROY_RULES = [
    ACTIVITY, THIS, SIZE_T_CAST,
    Sub(r"(\w+)->get_scheduler_base\(\)", r"thrd_scheduler_base(\1)", None),
    GET_QUEUE,
    Method("destroy_thread", lambda name, recv, args: "thrd_queue_destroy_thread(%s)" % ", ".join(args), None),
]
CREATE_LOC = r"void create_thread\(threads::detail::thread_init_data& data,"
DESTROY_LOC = r"void destroy_thread\(threads::detail::thread_data\* thrd\) override"
CREATE_DOC = ("T + ledger: exactly one increment and no decrement on every path; the increment precedes the queue-level "
              "create_thread (the first point where the task can become visible); own-ledger invariant count >= live at every step")
DESTROY_DOC = ("T + ledger: exactly one decrement, AFTER the queue-level destroy_thread; own-ledger invariant count >= live at "
               "every step")
for (tag, src, cls) in [("lpq", LPQ, "local_priority_queue_scheduler"), ("lq", LQ, "local_queue_scheduler")]:
    UNITS += [
        Unit(tag + ".create_thread", "activity.c", defines=ENUM_DEFS + ["U_%s_CREATE" % tag.upper()], enforce="create_thread",
             lifts={"body": Lift(src, CREATE_LOC, rules=PLACE_RULES)}, funcs=[src + ": %s::create_thread" % cls],
             min_obligations=10, doc=CREATE_DOC),
        Unit(tag + ".destroy_thread", "activity.c", defines=ENUM_DEFS + ["U_%s_DESTROY" % tag.upper()], enforce="destroy_thread",
             lifts={"body": Lift(src, DESTROY_LOC, rules=DESTROY_RULES)}, funcs=[src + ": %s::destroy_thread" % cls],
             min_obligations=6, doc=DESTROY_DOC),
    ]

SPQ_LOOKUP = Sub(r"\b(?:d_lookup_|q_lookup_|q_offset_|q_counts_)\[([^\]]+)\]", r"vx_lookup(self, \1)", None)
SPQ_RULES = [
    ACTIVITY, THIS, SIZE_T_CAST, HINT_MODE_ENUM, ERR_ENUM,
    DropStmt(r"\bPIKA_DETAIL_DP", None),
    DropStmt(r"\bspq_arr\.debug", None),
    Sub(r"\busing\s+[^;]*;", "", None),
    Sub(r"\bspq_deb<\d+>\.is_enabled\(\)", "0", None),
    Sub(r"\bdata\.", "data->", None),
    Sub(r"std::unique_lock<pu_mutex_type>\s+(\w+)\s*;", r"int \1 = 0;", None),
    Sub(r"\blocal_thread_number\(\)", "local_thread_number(self)", None),
    Sub(r"numa_holder_\[[^\]]+\]\s*\.thread_queue\((?:[^()]|\([^()]*\))*\)\s*->worker_next\(", "worker_next(self, ", None),
    Call(r"\bselect_active_pu", lambda a, env: "select_active_pu(self, %s, %s)" % (a[1], a[2] if len(a) > 2 else "false"), None),
    SPQ_LOOKUP,
    throw_stmt(),
    Sub(r"numa_holder_\[[^\]]+\]\s*\.thread_queue\((?:[^()]|\([^()]*\))*\)\s*->create_thread\(", "np_create_thread(self, 0, ", None),
    Sub(r"(\w+)->get_scheduler_base\(\)", r"thrd_scheduler_base(\1)", None),
    Sub(r"(\w+)->get_last_worker_thread_num\(\)", r"thrd_last_worker(\1)", None),
    GET_QUEUE,
    Method("destroy_thread", lambda name, recv, args: "thrd_queue_destroy_thread(%s)" % ", ".join(args), None),
    Members(["num_workers_", "num_domains_", "round_robin_"], optional=["num_workers_", "num_domains_", "round_robin_"]),
]
UNITS += [
    Unit("spq.create_thread", "activity.c", defines=ENUM_DEFS + ["U_SPQ_CREATE"], enforce="create_thread",
         lifts={"body": Lift(SPQ, CREATE_LOC, rules=SPQ_RULES)}, funcs=[SPQ + ": shared_priority_queue_scheduler::create_thread"],
         min_obligations=10, doc=CREATE_DOC + "; an invalid hint mode is refused by exception after the increment"),
    Unit("spq.destroy_thread", "activity.c", defines=ENUM_DEFS + ["U_SPQ_DESTROY"], enforce="destroy_thread",
         lifts={"body": Lift(SPQ, DESTROY_LOC, rules=SPQ_RULES, post=[Auto(None)])},
         funcs=[SPQ + ": shared_priority_queue_scheduler::destroy_thread"], min_obligations=6, doc=DESTROY_DOC),
]

# ---------------------------------------------------------------------------------------------------------------
# unit group 2: thread_manager::wait

WAIT_LOOP = """
__CPROVER_assigns(g_count, g_last_count, g_reads, g_yields, g_self_reads)
__CPROVER_loop_invariant(g_reads >= 0 && g_reads <= 3 && g_yields >= 0 && g_yields <= 3 && g_self_reads >= 0 && g_self_reads <= 3)
"""
UNITS += [
    Unit("tm.wait", "wait.c", defines=ENUM_DEFS, enforce="thread_manager_wait",
         lifts={"body": Lift(TM, r"void thread_manager::wait\(\)", rules=[
             YieldWhile(None), ACTIVITY,
             Sub(r"(?:pika::)?threads::detail::get_self_ptr\(\)", "get_self_ptr()", None),
             Sub(r"(?:pika::)?get_(?:local_)?worker_thread_num\(\)", "get_worker_thread_num()", None)],
             loops={1: WAIT_LOOP, "count": 1})},
         funcs=[TM + ": thread_manager::wait"], min_obligations=5,
         doc="returns only on a predicate evaluation that read count <= (caller is a pika task ? 1 : 0); yields otherwise"),
]

SUSP_LOOP = """
__CPROVER_assigns(vx_it, g_susp_total, g_susp_victim, g_resumes)
__CPROVER_loop_invariant(vx_it <= self->npools && g_waits == 1 && g_susp_total >= 0 && g_susp_total <= 3 && g_susp_victim == (vx_it > g_vp ? 1 : 0) && g_resumes == 0)
__CPROVER_decreases(self->npools - vx_it)
"""
UNITS += [
    Unit("tm.suspend", "wait.c", defines=ENUM_DEFS + ["U_TM_SUSPEND"], enforce="thread_manager_suspend",
         lifts={"suspend": Lift(TM, r"void thread_manager::suspend\(\)", rules=[
             Sub(r"(?:pika::)?threads::detail::get_self_ptr\(\)", "get_self_ptr()", None),
             Sub(r"(?<![\w.>:])wait\(\)\s*;", "thread_manager_wait_stub(self);", None),
             Sub(r"for\s*\(\s*auto\s*&\s*(\w+)\s*:\s*pools_\s*\)\s*\{", r"for (size_t vx_it = 0; vx_it != self->npools; ++vx_it) { size_t \1 = vx_it;", None),
             Sub(r"\b(\w+)->(suspend_direct|resume_direct)\(\)", r"pool_\2(self, \1)", None)],
             loops={1: SUSP_LOOP, "count": 1})},
         funcs=[TM + ": thread_manager::suspend"], min_obligations=8,
         doc="T: the runtime is drained (wait) before the first pool is suspended; every pool (one symbolic victim) is suspended once"),
]

# ---------------------------------------------------------------------------------------------------------------
# unit group 3: entry points of init_runtime.cpp

ENV_CALLS = [
    Sub(r"(?:pika::)?threads::detail::get_self_ptr\(\)", "get_self_ptr()", None),
    Sub(r"pika::detail::get_runtime_ptr\(\)", "get_runtime_ptr()", None),
    Sub(r"pika::detail::is_running\(\)", "is_running()", None),
    Sub(r"pika::detail::runtime\s*\*", "struct runtime *", None),
    ERR_ENUM,
]
RT_CALLS = "finalize|wait|stop|rethrow_exception|suspend|resume"


def entry_rules(ret, owner=False):
    recv = (lambda r: "uptr_get(&%s)" % r[1:-1]) if owner else (lambda r: r)
    rules = list(ENV_CALLS) + [throw_stmt(ret)]
    if owner:
        rules += [Sub(r"\b(\w+)\.get\(\)", r"uptr_get(&\1)", None), Sub(r"\b(\w+)\.release\(\)", r"uptr_release(&\1)", None)]
    rules += [
        Method("get_thread_manager", lambda name, r, a: "VXTM(%s)" % recv(r), None),
        Sub(r"VXTM\(([^()]*(?:\([^()]*\))?[^()]*)\)\.wait\(\)", r"tm_wait(\1)", None),
        # rethrow_exception may throw: leave the function (RAII guards are lowered afterwards: destructors run on that edge)
        Method("rethrow_exception", lambda name, r, a: "VXRETHROW(%s)" % recv(r), None),
        Sub(r"VXRETHROW\(([^;]*)\)\s*;", r"{ rt_rethrow_exception(\1); if (vx_exc) return %s; }" % ret, None),
        Method(RT_CALLS, lambda name, r, a: "rt_%s(%s)" % (name, recv(r)), None),
    ]
    if owner:
        rules += [Guard(r"std::unique_ptr<[^;()]*>\s+(\w+)\s*\(([^;]*)\)\s*;", r"struct uptr \1 = uptr_take(\2);", r"uptr_dtor(&\1);", None)]
    return rules


IR_F = IR + ": pika::"
UNITS += [
    Unit("entry.stop", "entry.c", defines=ENUM_DEFS + ["U_STOP"], enforce="stop",
         lifts={"body": Lift(IR, r"int stop\(\)", rules=entry_rules("0", owner=True))}, funcs=[IR_F + "stop"], min_obligations=10,
         doc="T: refused without side effect from a pika task / without a runtime; else ownership taken once, wait -> stop -> "
             "rethrow_exception once each in that order, runtime destroyed exactly once afterwards, returns rt->wait()'s value"),
    Unit("entry.finalize", "entry.c", defines=ENUM_DEFS + ["U_FINALIZE"], enforce="finalize",
         lifts={"body": Lift(IR, r"void finalize\(\)", rules=entry_rules(""))}, funcs=[IR_F + "finalize"], min_obligations=5,
         doc="T: refused without side effect when not running / no runtime; else exactly one rt->finalize() (inside or outside a task)"),
    Unit("entry.wait", "entry.c", defines=ENUM_DEFS + ["U_WAIT"], enforce="wait",
         lifts={"body": Lift(IR, r"void wait\(\)", rules=entry_rules(""))}, funcs=[IR_F + "wait"], min_obligations=5,
         doc="T: refused without a runtime; else exactly one thread_manager::wait, also when called from a task"),
    Unit("entry.suspend", "entry.c", defines=ENUM_DEFS + ["U_SUSPEND"], enforce="suspend",
         lifts={"body": Lift(IR, r"void suspend\(\)", rules=entry_rules(""))}, funcs=[IR_F + "suspend"], min_obligations=5,
         doc="T: refused without side effect from a pika task / without a runtime; else exactly one rt->suspend()"),
    Unit("entry.resume", "entry.c", defines=ENUM_DEFS + ["U_RESUME"], enforce="resume",
         lifts={"body": Lift(IR, r"void resume\(\)", rules=entry_rules(""))}, funcs=[IR_F + "resume"], min_obligations=5,
         doc="T: refused without side effect from a pika task / without a runtime; else exactly one rt->resume()"),
]

META = {
    "explanation": (
        "C05 is decided as a thin SLICE. (1) The global activity count: increment / decrement / get are single atomic steps "
        "(+1 / -1 without wrap / one read); create_thread of local_priority_queue_scheduler, local_queue_scheduler and "
        "shared_priority_queue_scheduler increments exactly once on every path BEFORE the queue-level create_thread (the first "
        "point where the task can become visible); their destroy_thread decrements exactly once AFTER the queue-level destroy. "
        "Each call keeps its own ledger (count contribution >= tasks it has made visible) at every step, which summed over all "
        "threads is count >= live, so 'count == 0 => no live task' is stable under every step. (2) thread_manager::wait returns "
        "only on a predicate evaluation that read count <= (caller is a pika task ? 1 : 0); thread_manager::suspend drains first. "
        "(3) pika::stop / finalize / wait / suspend / resume refuse by exception with no side effect where documented; stop takes "
        "ownership once and performs wait -> stop -> rethrow_exception in that order, destroys the runtime once, returns wait()'s "
        "value."),
    "trusted_base": [
        "specs/C05/activity.c atomic_fetch_add / atomic_fetch_sub / atomic_load: std::atomic<size_t> operations are single "
        "indivisible steps; interfere(): before each of them other threads may set the count to any value >= the contributions "
        "the caller itself holds (VX_ASSUME(v >= g_held && v <= 10^9): rely = the other threads keep their own ledgers; the "
        "upper bound is a ghost bound against wrap-around noise)",
        "specs/C05/activity.c q_create / q_destroy: T-stubs for thread_queue::create_thread / destroy_thread (and "
        "queue_holder_thread's); q_create may publish the task, report an error or throw; the points where `live` changes are "
        "defined to be these calls",
        "specs/C05/activity.c select_active_pu (VX_ASSUME(r < num_queues_): postcondition proved in C19 state.select_active_pu), "
        "atomic_fetch_inc (round-robin counter under interference), vx_lookup / worker_next / fast_mod / local_thread_number / "
        "thrd_queue (placement helpers of shared_priority_queue_scheduler: arbitrary values, they do not touch the count)",
        "specs/C05/wait.c get_global_activity_count: returns an arbitrary value per call (the counter is owned by the environment "
        "while waiting; unit count.get relates it to the counter); get_self_ptr is constant during one call; vx_yield = yield_k",
        "specs/C05/spec.py rule YieldWhile (copied from specs/C19): util::yield_while(pred, name) unfolded to the loop it is "
        "(`for (k = 0; pred(); ++k) yield_k(k)`), lambda body inlined",
        "specs/C05/entry.c rt_* / tm_wait stubs (runtime::finalize/wait/stop/rethrow_exception/suspend/resume, "
        "thread_manager::wait: T-stubs with order assertions; only rethrow_exception is modelled as throwing), uptr_* "
        "(std::unique_ptr<runtime>: construction = taking ownership, destructor deletes a non-null pointee on every scope exit, "
        "lowered by the Guard rule), vx_throw_pika (PIKA_THROW_EXCEPTION leaves the function with the given error code)",
        "enumerator values (thread_priority, thread_schedule_hint_mode, pika::error) are read from /repo by spec.py on every run",
    ],
    "assumptions": [
        "A-CLOSED for the count: besides the three scheduler create_thread/destroy_thread pairs lifted here, the count is "
        "changed only by the CUDA event and MPI polling modules (async_cuda/src/cuda_event_callback.cpp, "
        "async_mpi/src/mpi_polling.cpp; textual census), which add non-task activity: they can only make wait() wait longer "
        "for the safety direction count >= live tasks",
        "ledger summation: count = sum of all calls' count contributions (+ in-flight CUDA/MPI operations), live = sum of all "
        "calls' visible tasks; per-call obligation contribution >= visible at every step is machine checked, the summation over "
        "the interleaved history is the history-induction paper step",
        "a task is 'live' from its queue-level create_thread until its queue-level destroy_thread (a task being torn down "
        "between termination and destroy_thread is still counted, which is the safe direction)",
        "class invariants num_queues_ != 0 (and 0 < num_high_priority_queues_ <= num_queues_) as asserted by the constructors",
    ],
    "not_decided": [
        "pika::wait()'s postcondition 'every task submitted before the call, and every task those spawn, has finished': needs "
        "(a) count >= live over the whole interleaved history (only the per-step ledger is proved), (b) that every submitted "
        "task was counted before wait's read (submission from non-pika threads concurrently with wait is a race the property "
        "explicitly includes), (c) a child is counted before its parent is destroyed -- whole-history statements",
        "that wait()/stop() ever return (liveness); in particular a create_thread whose queue-level creation fails or which "
        "refuses an invalid hint mode leaves the count incremented for ever (reach markers *_count_stays): safe, but wait() then "
        "never returns -- observed, not an obligation of this slice",
        "pika::stop() 'returns only after pika::finalize() was called' (runtime::wait's hand-shake on a condition variable), "
        "that the runtime is drained inside runtime::wait/stop, pool stop_locked's hand-shake and the joins of OS threads",
        "restart: that after stop() the runtime can be started again with a different configuration and each incarnation runs "
        "its own work completely (global state reset across init_start_impl / runtime destructor: not contract-shaped)",
        "that no task body executes while suspended and that all queued work runs after resume() (scheduling loop + OS thread "
        "states over time; the per-worker state machine is C19); only 'thread_manager::suspend drains before suspending any "
        "pool' is proved",
        "runtime::stop / runtime::start / runtime::run bodies (runtime.cpp) and init_start_impl (rt.* units cover wait, the finalize "
        "hand-shake, suspend and resume)",
        "memory-order adequacy of the acquire/release/relaxed accesses to the count (A-SC)",
    ],
}


# ---- runtime.cpp life-cycle hand-shake (written by main; extends the slice) -------------------------------------------
from vx import census as _census
RTCPP = "libs/pika/runtime/src/runtime.cpp"
RT_RULES = [
    Sub(r"pika::runtime_state::(\w+)", r"RS_\1", None),
    Sub(r"\bstate_\.load\(\)", "atomic_load_state(self)", None),
    Call(r"\bPIKA_THROW_EXCEPTION", "{ vx_throw_pika(0); return; }", None, stmt=True),
    Sub(r"\bthread_manager_->(wait|suspend|resume)\(\);", r"tm_\1();", None),
    Sub(r"\bset_state\(", "set_state(self, ", None),
    Sub(r"\bwait_finalize\(\);", "wait_finalize(self);", None),
    Sub(r"\bwait_condition_\.notify_all\(\);", "stdcv_notify_all();", None),
    Sub(r"\bwait_condition_\.wait\((\w+), \[&\] \{ return (\w+); \}\);", r"STDCV_WAIT_UNTIL(\1, self->\2)", None),
    # the wait WITHOUT a predicate: one blocking wait that may also end spuriously (std::condition_variable::wait)
    Sub(r"\bwait_condition_\.wait\((\w+)\);", r"stdcv_block(&\1);", None),
    Guard(r"std::unique_lock<std::mutex> (\w+)\(mtx_\);", r"struct ulock \1 = ulock_make(self->mtx_p);", r"ulock_dtor(&\1);", None),
    Members(["stop_called_", "stop_done_", "result_"], optional=["stop_called_", "stop_done_", "result_"]),
]
RT_WAIT_LOOP = ("__CPROVER_assigns(vx_rt->stop_called_, vx_rt->stop_done_, g_releases, g_blocks, l.owns, g_mtx.held)\n"
                "__CPROVER_loop_invariant(l.owns && l.m == &g_mtx && g_mtx.held && g_blocks >= 0 && g_blocks <= 2 && g_releases >= 0 && g_releases <= 2)")
for (nm, loc, fn, d) in [("rt.notify_finalize", r"void runtime::notify_finalize\(\)", "notify_finalize", "U_NOTIFY_FINALIZE"),
                         ("rt.wait_finalize", r"void runtime::wait_finalize\(\)", "wait_finalize", "U_WAIT_FINALIZE"),
                         ("rt.wait", r"int runtime::wait\(\)", "rt_wait", "U_WAIT"),
                         ("rt.suspend", r"void runtime::suspend\(\)", "rt_suspend", "U_SUSPEND"),
                         ("rt.resume", r"void runtime::resume\(\)", "rt_resume", "U_RESUME")]:
    UNITS.append(Unit(nm, "runtime.c", defines=[d], enforce=fn, lifts={"body": Lift(RTCPP, loc, rules=RT_RULES,
                      # a hand-written re-check loop around the plain wait (equivalent to the predicate form) gets the same loop contract
                      loops={"by_pattern": [(r"while\s*\(\s*!\s*(?:self->)?stop_done_\s*\)", RT_WAIT_LOOP, False)]} if d == "U_WAIT_FINALIZE" else None)},
                      loop_contracts=(d == "U_WAIT_FINALIZE"),
                      funcs=[RTCPP + ": pika::runtime::" + loc.split("::")[1].split("\\")[0]], min_obligations=5))
# ---- runtime::start / run_helper (added by main after seeded change C05-3 was missed) ----------------------------------------------
RS_ENUM = Sub(r"pika::runtime_state::(\w+)", r"RS_\1", None)
LOOP_START_YW = ("__CPROVER_assigns(self->state_, g_last_state_read, g_yields)\n"
                 "__CPROVER_loop_invariant(g_registered && g_yields >= 0 && g_yields <= 2)")
UNITS.append(Unit("rt.start", "runtime2.c", defines=["U_START"], enforce="rt_start", lifts={
    "starting": Lift(RTCPP, r"void runtime::starting\(\)", rules=[RS_ENUM, Sub(r"\bstate_\.store\(([^;]*)\);", r"atomic_store_state(self, \1);", None)]),
    "start": Lift(RTCPP, r"int runtime::start\(\s*pika::util::detail::function<pika_main_function_type> const& func, bool blocking\)", rules=[
        RS_ENUM,
        Call(r"\binit_tss_helper", "init_tss_helper()", None),
        Sub(r"\bthread_manager_->run\(\);", "tm_run();", None),
        Call(r"pika::threads::detail::thread_init_data\s+(\w+)", "struct init_data {h1} = init_data_make({0})", None),
        Call(r"pika::util::detail::bind", "bind_make({0}, {1}, {2}, {3}, {4})", None),
        Sub(r"&runtime::(\w+)", r"FN_\1", None),
        Sub(r"(?:this->)?(?:runtime::)?(?<![\w.>])starting\(\)", "rt_starting(self)", None),
        Sub(r"\bthis\b", "self", None),
        Sub(r"std::ref\(([^()]+)\)", r"&(\1)", None),
        Sub(r"pika::threads::detail::thread_id_ref_type (\w+) = pika::threads::detail::invalid_thread_id;", r"long \1 = VX_INVALID_ID;", None),
        Sub(r"\bthread_manager_->register_thread\((\w+), (\w+)\);", r"tm_register_thread(&\1, &\2);", None),
        Sub(r"(?<![\w.>:])wait\(\)", "rt_wait(self)", None),
        YieldWhile(None),
        Sub(r"(?<![\w.>:])get_state\(\)", "rt_get_state(self)", None),
        Sub(r"\bstate_\.store\(([^;]*)\);", r"atomic_store_state(self, \1);", None),
        Members(["result_"], optional=["result_"]),
    ], loops={1: LOOP_START_YW, "count": 1})},
    funcs=[RTCPP + ": pika::runtime::start(func, blocking)", RTCPP + ": pika::runtime::starting"], min_obligations=10))
UNITS.append(Unit("rt.run_helper", "runtime2.c", defines=["U_RUN_HELPER"], enforce="run_helper", lifts={
    "run_helper": Lift(RTCPP, r"pika::threads::detail::thread_result_type runtime::run_helper\(", rules=[
        RS_ENUM,
        Sub(r"pika::program_options::options_description \w+;", "", None),
        Sub(r"(\w+) = pika::detail::handle_late_commandline_options\([^;]*\);", r"\1 = handle_late_commandline_options(); if (g_threw) VX_THROW_NOW;", None),
        Call(r"(?<![\w.>:])call_startup_functions(?!\s*\(\s*self\b)", "call_startup_functions(self, {0}); if (g_threw) VX_THROW_NOW", None),
        Call(r"(?<![\w.>:])set_state(?!\s*\(\s*self\b)", "set_state(self, {0})", None),
        Sub(r"(?<![\w.>:])finalize\(\);", "rt_finalize(self);", None),
        Call(r"pika::threads::detail::thread_result_type(?=\s*\()", "result_make({0}, {1})", None),
        Sub(r"pika::threads::detail::thread_schedule_state::(\w+)", r"TSS_\1", None),
        Sub(r"pika::threads::detail::invalid_thread_id", "VX_INVALID_ID", None),
        DropStmt(r"pika::threads::detail::set_thread_description", None),
        Sub(r"(\w+) = func\(\);", r"{ int vx_t = func_call(func); if (g_threw) VX_THROW_NOW; \1 = vx_t; }", None),
        Sub(r"(?<![\w.>*])result\b", "(*result)", None),
        Guard(r"std::lock_guard<std::mutex> (\w+)\(mtx_\);", "lg_lock(&self->mtx_);", "lg_unlock(&self->mtx_);", None),
        Sub(r"\bexception_ = std::current_exception\(\);", "exc_store(self, exc_current());", None),
        Sub(r"\bdetail::report_exception_and_continue\b", "report_exception_and_continue", None),
        Call(r"(?<![\w.>:])report_error(?!\s*\(\s*self\b)", "rt_report_error(self, {0}, {1})", None),
        TryCatch(None),
        Members(["exception_"], optional=["exception_"]),
    ])},
    funcs=[RTCPP + ": pika::runtime::run_helper"], min_obligations=10))
STATIC = list(globals().get("STATIC", [])) + [
    _census.enum("runtime_state", "libs/pika/threading_base/include/pika/threading_base/scheduler_state.hpp", "runtime_state",
                 {"invalid": -1, "initialized": 0, "running": 5, "suspended": 6, "pre_sleep": 7, "sleeping": 8, "stopping": 11, "terminating": 12, "stopped": 13}),
    _census.sites("runtime stop_done_ writes", [RTCPP], r"\bstop_done_\s*=(?!=)", 1, "notify_finalize only; constructors initialise it to false"),
]


# ---- C19 units reused (added after seeded change C05-2 was missed): "all queued work runs after resume()" depends on the pool's
# ---- resume path; the units are the ones of specs/C19 (same templates, same contracts), run here as part of C05 as well
_c19 = {"UNITS": [], "VX_NO_REUSE": True}
if not globals().get("VX_NO_REUSE"):     # reuse is never transitive: the other spec is loaded without ITS reuse blocks (no cycles)
    exec(compile(open("/verif/specs/C19/spec.py").read(), "/verif/specs/C19/spec.py", "exec"), _c19)
for _u in _c19["UNITS"]:
    # loop.prologue / loop.iteration (added after seeded change C05-7 was missed): stop() joins the workers; a worker leaves
    # scheduling_loop only with fresh evidence that its queues are empty, so stop() does not return with a task still queued
    if _u.name in ("state.resume_pu_direct", "state.resume_internal", "state.suspend_internal", "state.suspend_pu_internal", "state.sched_suspend", "state.sched_resume",
                   "loop.prologue", "loop.iteration"):
        _u.name = "c19." + _u.name
        _u.template = "../C19/" + _u.template
        UNITS.append(_u)
META["trusted_base"] = list(META.get("trusted_base", [])) + ["units c19.* are the C19 units of the same name (specs/C19/state.c, state.h) with their trusted base"]


# ---- yield_while_count / yield_while_count_timeout (added by main after seeded change C05-6 was missed) ----
TT_HPP = "libs/pika/execution_base/include/pika/execution_base/this_thread.hpp"
YWC_RULES = [
    Sub(r"\bauto (\w+) = allow_timed_suspension \?\s*&pika::execution::this_thread::detail::yield_k\s*:\s*&pika::execution::this_thread::detail::spin_k;",
        r"int \1 = allow_timed_suspension ? KIND_YIELD_K : KIND_SPIN_K;", 1),
    Sub(r"\bpredicate\(\)", "pred_call()", None),
    Sub(r"\byield_or_spin\((\w+), (\w+)\);", r"yield_or_spin_call(yield_or_spin, \1, \2);", None),
]
LOOP_YWC = ("__CPROVER_assigns(k, count, g_consec, g_reads, g_yields, g_yield_kind)\n"
            "__CPROVER_loop_invariant(count == g_consec && count <= required_count && (g_yields >= 1 ==> g_yield_kind == yield_or_spin))")
LOOP_YWCT = ("__CPROVER_assigns(k, count, g_consec, g_reads, g_yields, g_yield_kind, g_timed_out)\n"
             "__CPROVER_loop_invariant(count == g_consec && count <= required_count && !g_timed_out)")
UNITS.append(Unit("util.yield_while_count", "ywc.c", defines=["U_YWC"], enforce="yield_while_count", lifts={"body": Lift(TT_HPP,
    r"void yield_while_count\(Predicate&& predicate, std::size_t required_count,", rules=YWC_RULES, loops={1: LOOP_YWC, "count": 1})},
    funcs=[TT_HPP + ": pika::util::detail::yield_while_count"], min_obligations=8,
    doc="I: returns only after more than required_count CONSECUTIVE false readings of the predicate (any sequence of readings)"))
UNITS.append(Unit("util.yield_while_count_timeout", "ywc.c", defines=["U_YWC_TIMEOUT"], enforce="yield_while_count_timeout", lifts={"body": Lift(TT_HPP,
    r"bool yield_while_count_timeout\(Predicate&& predicate,", rules=YWC_RULES + [
        Sub(r"\busing duration_type = [^;]*;", "", None),
        Sub(r"\bbool const use_timeout = timeout >= duration_type\(0\.0\);", "bool const use_timeout = use_timeout_arg;", 1),
        Sub(r"\bpika::chrono::detail::high_resolution_timer \w+;", "", None),
        Sub(r"\bduration_type\(\w+\.elapsed\(\)\) > timeout", "timer_expired()", None),
    ], loops={1: LOOP_YWCT, "count": 1})},
    funcs=[TT_HPP + ": pika::util::detail::yield_while_count_timeout"], min_obligations=8,
    doc="I: true only after more than required_count consecutive false readings; false only after the time-out was seen"))


# ---- ~partitioner (added by main after seeded change C05-9 was missed): the process-wide statics are given back at the end of an incarnation ----
DP_CPP = "libs/pika/resource_partitioner/src/detail_partitioner.cpp"
UNITS.append(Unit("rp.partitioner_dtor", "partitioner.c", enforce="partitioner_dtor",
                  lifts={"body": Lift(DP_CPP, r"partitioner::~partitioner\(\)", rules=[
                      Sub(r"(?:detail::)?init_pool_data::num_threads_overall", "num_threads_overall", None),
                      Sub(r"--\s*instance_number_counter_", "atomic_dec_fetch_int(&instance_number_counter_)", None),
                      Sub(r"\binstance_number_counter_\s*--", "atomic_fetch_dec_int(&instance_number_counter_)", None)])},
                  funcs=[DP_CPP + ": resource::detail::partitioner::~partitioner"], min_obligations=3,
                  doc="I: after the destructor of the only live partitioner the instance counter is back at -1 and no thread of the finished "
                      "incarnation is accounted for (a restart with any configuration starts from zero)"))
META["not_decided"] = list(META.get("not_decided", [])) + ["partitioner::partitioner / add_resource / setup_pools (the accounting of a NEW incarnation's threads) beyond the destructor's ledger"]
