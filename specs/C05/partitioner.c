/* C05 -- "after stop() the runtime can be started again any number of times with a different configuration": every incarnation builds a
 * new resource partitioner (runtime::~runtime -> delete_partitioner -> ~partitioner).  Two process-wide statics survive the object:
 * the instance counter (starts at -1; the constructor refuses a second LIVE instance) and init_pool_data::num_threads_overall (the
 * threads requested so far, which add_resource / setup_pools check against the thread count of the new incarnation).
 * The destructor must give both back.  I contract (ledger), loop free, full domain.
 * (written by main after seeded change C05-9 was missed) */
#include "vx.h"
static int instance_number_counter_;        /* std::atomic<int> partitioner::instance_number_counter_(-1) */
static size_t num_threads_overall;          /* init_pool_data::num_threads_overall */
static int atomic_dec_fetch_int(int *p) { return --*p; }
static int atomic_fetch_dec_int(int *p) { return (*p)--; }
struct partitioner { int unused; };
//@FUNC
void partitioner_dtor(struct partitioner *self)
/* one live instance: the counter is -1 + (number of live partitioners) == 0 */
__CPROVER_requires(instance_number_counter_ == 0)
/* afterwards the process is as it was before the first incarnation: no live instance, no threads accounted for */
__CPROVER_ensures(instance_number_counter_ == -1 && num_threads_overall == 0)
__CPROVER_assigns(instance_number_counter_, num_threads_overall)
//@LIFT body

void harness(void)
{
  struct partitioner p;
  instance_number_counter_ = nondet_int(); num_threads_overall = nondet_size();
  size_t t0 = num_threads_overall;
  partitioner_dtor(&p);
  VX_REACH("destroyed");
  if (t0 != 0) VX_REACH("threads_of_the_finished_incarnation_forgotten");
}
