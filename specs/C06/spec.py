from vx.lift import Lift, Sub, Call, Members, Guard, DropStmt
from vx.run import Unit

MX = "libs/pika/synchronization/src/mutex.cpp"

# ---------------------------------------------------------------------------------------------------------
# unit group 1: pika::mutex / pika::timed_mutex (monitor contracts, specs/C06/mtx.h)

# PIKA_THROWS_IF(ec, code, f, msg) == pika::detail::throws_if(ec, code, ...): throws iff &ec == &throws, else sets ec
# (libs/pika/errors/src/throw_exception.cpp).  Lowered BEFORE the RAII guard so that the exceptional exit runs the
# destructors of the guards in scope, like stack unwinding does.
THROWS_IF = Call(r"\bPIKA_THROWS_IF", "{ if (vx_throws_if({0}, {1})) return; }", 1)
ERRC = Sub(r"\bpika::error::(\w+)", r"pika_error_\1", 1)
# error_code in a boolean context (operator bool); every other use of `ec` passes the reference on (a pointer in C)
EC_BOOL = Sub(r"(\bif \(|!)ec\b(?!\.|->)", r"\1vx_ec_bool(ec)", None)
ENUM = Sub(r"(?:\w+::)*thread_restart_state::(\w+)", r"thread_restart_state_\1", None)


def mutex_rules(extra):
    return extra + [
        Sub(r"(?:pika::)?threads::detail::thread_id_type\b", "vx_tid", 1),
        Sub(r"(?:pika::)?threads::detail::get_self_id\(\)", "vx_get_self_id()", 1),
        Sub(r"(?:pika::)?threads::detail::get_self_ptr\(\)", "vx_get_self_ptr()", 1),
        Sub(r"(?:pika::)?threads::detail::invalid_thread_id\b", "VX_INVALID_ID", None),
        Sub(r"\bthis\b", "self", None),
        # error_code idiom `if (&ec != &throws) ec = make_success_code();` (spelling only: ec is a pointer in C)
        Sub(r"&ec (!=|==) &throws", r"ec \1 &vx_throws", None),
        Sub(r"\bec = make_success_code\(\);", "ec->value = pika_error_success;", None),
        Call(r"\butil::(un)?register_lock", "vx_{h1}register_lock({0})", None),
        Sub(r"\b(\w+)\.unlock\(\)", r"ulock_unlock(&\1)", None),
        # exactly one guard on the internal lock: the blocking form, or std::try_to_lock (which may fail: vx/prelude/monitor.h)
        Guard(r"std::unique_lock<mutex_type> (\w+)\((\w+)(\s*,\s*std::try_to_lock)?\);",
              lambda m: "struct ulock %s = %s(&self->%s);" % (m.group(1), "ulock_try" if m.group(3) else "ulock_make", m.group(2)),
              r"ulock_dtor(&\1);", 1),
        Sub(r"\b(\w+)\.owns_lock\(\)", r"ulock_owns(&\1)", None),
        # owner_id_ is protected by the internal lock: every access is an obligation "internal lock held"
        Members(["owner_id_"]),
        Sub(r"\bself->owner_id_\b", "(*vx_owner(self))", "+"),
    ]


# ghost local: the caller's error_code value when the wait loop is entered (for the loop invariant only)
GHOST_EC_IN = Sub(r"(\bwhile\s*\()", r"int vx_ec_in = g_ec.value; \1", 1)

LOOP_LOCK = """
__CPROVER_assigns(MTX_FRAME, l.owns)
__CPROVER_loop_invariant(OWNS_L(l) && RELY_RANGE && g_cs_owner == self->owner_id_ && self->owner_id_ != g_self)
__CPROVER_loop_invariant(g_trans == 0 && g_errs == 0 && !g_thrown && g_notifies == 0 && g_ec.value == vx_ec_in)
__CPROVER_loop_invariant(g_waits >= 0 && g_waits <= 2 && g_releases >= 0 && g_releases <= 2)
"""

UNITS = [
    Unit("mutex.lock", "mutex.c", defines=["U_LOCK"], enforce="lock",
         lifts={"body": Lift(MX, r"void mutex::lock\(", rules=mutex_rules([
             THROWS_IF, ERRC,
             Call(r"\bcond_\.wait", "cv_wait(&self->cond_, &{0}, {1})", 1),
             EC_BOOL, GHOST_EC_IN]),
             loops={1: LOOP_LOCK, "count": 1})},
         funcs=[MX + ": pika::mutex::lock"], min_obligations=40),
    # same function, caller re-uses an error_code that still holds an earlier error (see report: suspected defect)
    Unit("mutex.lock.reused_ec", "mutex.c", defines=["U_LOCK", "U_REUSED_EC"], enforce="lock",
         lifts={"body": Lift(MX, r"void mutex::lock\(", rules=mutex_rules([
             THROWS_IF, ERRC,
             Call(r"\bcond_\.wait", "cv_wait(&self->cond_, &{0}, {1})", 1),
             EC_BOOL, GHOST_EC_IN]),
             loops={1: LOOP_LOCK, "count": 1})},
         funcs=[MX + ": pika::mutex::lock (error_code re-used by the caller)"], min_obligations=40),
    Unit("mutex.try_lock", "mutex.c", defines=["U_TRY_LOCK"], enforce="try_lock",
         lifts={"body": Lift(MX, r"bool mutex::try_lock\(", rules=mutex_rules([]))},
         funcs=[MX + ": pika::mutex::try_lock"], min_obligations=20),
    Unit("mutex.unlock", "mutex.c", defines=["U_UNLOCK"], enforce="unlock",
         lifts={"body": Lift(MX, r"void mutex::unlock\(", rules=mutex_rules([
             THROWS_IF, ERRC,
             DropStmt(r"\butil::ignore_while_checking \w+", 1),
             Sub(r"std::move\((\w+)\)", r"ulock_move(&\1)", None),
             Sub(r"\bexecution::thread_priority::(\w+)", r"execution_thread_priority_\1", None),
             Call(r"\bcond_\.notify_one", "cv_notify_one(&self->cond_, {0}, {1}, {2})", None)]))},
         funcs=[MX + ": pika::mutex::unlock"], min_obligations=20),
    Unit("timed_mutex.try_lock_until", "mutex.c", defines=["U_TRY_LOCK_UNTIL"], enforce="try_lock_until",
         lifts={"body": Lift(MX, r"bool timed_mutex::try_lock_until\(", rules=mutex_rules([
             ENUM,
             Sub(r"(?:pika::)?threads::detail::thread_restart_state const\b", "int const", 1),
             Call(r"\bcond_\.wait_until", "cv_wait_until(&self->cond_, &{0}, {1}, {2})", 1),
             EC_BOOL]))},
         funcs=[MX + ": pika::timed_mutex::try_lock_until"], min_obligations=30),
    Unit("timed_mutex.try_lock_until.reused_ec", "mutex.c", defines=["U_TRY_LOCK_UNTIL", "U_REUSED_EC"], enforce="try_lock_until",
         lifts={"body": Lift(MX, r"bool timed_mutex::try_lock_until\(", rules=mutex_rules([
             ENUM,
             Sub(r"(?:pika::)?threads::detail::thread_restart_state const\b", "int const", 1),
             Call(r"\bcond_\.wait_until", "cv_wait_until(&self->cond_, &{0}, {1}, {2})", 1),
             EC_BOOL]))},
         funcs=[MX + ": pika::timed_mutex::try_lock_until (error_code re-used by the caller)"], min_obligations=30),
]

# ---------------------------------------------------------------------------------------------------------
# unit group 2: the spinlocks (rely/guarantee on the flag word, specs/C06/spin.h)

CSP = "libs/pika/concurrency/include/pika/concurrency/spinlock.hpp"
TSP = "libs/pika/thread_support/include/pika/thread_support/spinlock.hpp"
THT = "libs/pika/execution_base/include/pika/execution_base/this_thread.hpp"

ATOMIC = [
    Call(r"\b(\w+)\.exchange", "atomic_exchange_bool(&self->{h1}, {0})", None),
    Call(r"\b(\w+)\.store", "atomic_store_bool(&self->{h1}, {0})", None),
    Call(r"\b(\w+)\.load", "atomic_load_bool(&self->{h1})", None),
]
SELF_CALLS = [
    Sub(r"\bthis\b", "self", None),
    Call(r"\butil::(un)?register_lock", "vx_{h1}register_lock({0})", None),
    Sub(r"(?<![\w.>:])(is_locked|acquire_lock|relinquish_lock|try_lock)\(\)", r"\1(self)", None),
]
LOOP_SPIN = """
__CPROVER_assigns(SPIN_FRAME)
__CPROVER_loop_invariant(!lin && !g_mine && g_yields >= 0 && g_yields <= 2)
"""
LOOP_YW = """
__CPROVER_assigns(k, pred_self->FLAG, g_yields)
__CPROVER_loop_invariant(g_yields >= 0 && g_yields <= 2)
"""
C_LIFTS = {
    "is_locked": Lift(CSP, r"bool is_locked\(\) const", rules=ATOMIC),
    "acquire_lock": Lift(CSP, r"bool acquire_lock\(\)", rules=ATOMIC),
    "relinquish_lock": Lift(CSP, r"void relinquish_lock\(\)", rules=ATOMIC),
    "yield_while": Lift(THT, r"void yield_while\(Predicate&& predicate", rules=[
        Sub(r"\bauto (\w+) =", r"void (*\1)(size_t, char const *) =", 1),
        Sub(r"&pika::execution::this_thread::detail::(\w+)", r"&vx_\1", 2),
        Sub(r"\bpredicate\(\)", "predicate(pred_self)", 1)], loops={1: LOOP_YW, "count": 1}),
    "lock": Lift(CSP, r"void lock\(\)", rules=[
        # the lambda [this] { return member(); } becomes the pair (member function, object)
        Sub(r"\[this\]\s*\{\s*return\s+(\w+)\(\);\s*\}", r"&\1, self", 1),
        Call(r"\butil::yield_while", "yield_while({args})", "+")] + SELF_CALLS, loops={1: LOOP_SPIN, "count": 1, "allow_missing": True}),
    "try_lock": Lift(CSP, r"bool try_lock\(\)", rules=SELF_CALLS),
    "unlock": Lift(CSP, r"void unlock\(\)", rules=SELF_CALLS),
}
T_LIFTS = {
    "try_lock": Lift(TSP, r"bool try_lock\(\)", rules=ATOMIC),
    "lock": Lift(TSP, r"void lock\(\)", rules=[
        Call(r"(?<![\w.>:])yield_k", "vx_spinlock_yield_k(self, {0})", 1)] + SELF_CALLS,
        loops={1: LOOP_SPIN.replace("SPIN_FRAME", "k, SPIN_FRAME"), "count": 1, "allow_missing": True}),
    "unlock": Lift(TSP, r"void unlock\(\)", rules=ATOMIC),
}
for (pre, tpl, lifts, src, cls) in [("spinlock", "spin_c.c", C_LIFTS, CSP, "pika::concurrency::detail::spinlock"),
                                    ("ts_spinlock", "spin_t.c", T_LIFTS, TSP, "pika::detail::spinlock")]:
    UNITS += [
        Unit(pre + ".lock", tpl, defines=["U_LOCK"], enforce="lock", lifts=lifts, min_obligations=20,
             funcs=[src + ": " + cls + "::lock (+ acquire/try_lock helpers" + (", util::yield_while" if lifts is C_LIFTS else "") + ")"]),
        Unit(pre + ".try_lock", tpl, defines=["U_TRY_LOCK"], enforce="try_lock", lifts=lifts, loop_contracts=False,
             min_obligations=10, funcs=[src + ": " + cls + "::try_lock"]),
        Unit(pre + ".unlock", tpl, defines=["U_UNLOCK"], enforce="unlock", lifts=lifts, loop_contracts=False,
             min_obligations=10, funcs=[src + ": " + cls + "::unlock"]),
    ]

# ---------------------------------------------------------------------------------------------------------
# unit group 3: recursive_mutex_impl (specs/C06/rec.h)

RM = "libs/pika/synchronization/include/pika/synchronization/recursive_mutex.hpp"
REC_RULES = [
    Sub(r"\bauto (\w+) = pika::execution::this_thread::detail::agent\(\);", r"vx_agent \1 = vx_this_agent();", None),
    Sub(r"\bpika::execution::detail::agent_ref\(\)", "VX_NO_AGENT", None),
    Sub(r"\+\+recursion_count\b", "atomic_u64_preinc(&self->recursion_count)", None),
    Sub(r"--recursion_count\b", "atomic_u64_predec(&self->recursion_count)", None),
    Sub(r"\brecursion_count\+\+", "atomic_u64_postinc(&self->recursion_count)", None),
    Sub(r"\brecursion_count--", "atomic_u64_postdec(&self->recursion_count)", None),
    Call(r"\brecursion_count\.load", "atomic_u64_load(&self->recursion_count)", None),
    Call(r"\brecursion_count\.store", "atomic_u64_store(&self->recursion_count, {0})", None),
    Call(r"\blocking_context\.exchange", "atomic_agent_exchange(&self->locking_context, {0})", None),
    Call(r"\blocking_context\.load", "atomic_agent_load(&self->locking_context)", None),
    Call(r"\bmtx\.(lock|try_lock|unlock)", "inner_{h1}(&self->mtx)", None),
    Call(r"\bpika::util::(?:ignore_lock|register_lock|unregister_lock|reset_ignored)", "vx_lockreg(0)", None),
    Call(r"(?<![\w.>:])(try_recursive_lock|try_basic_lock)(?=\s*\((?!self,))", "{h1}(self, {0})", None),
]
REC_LIFTS = {
    "try_recursive_lock": Lift(RM, r"bool try_recursive_lock\(pika::execution::detail::agent_ref current_context\)", rules=REC_RULES),
    "try_basic_lock": Lift(RM, r"bool try_basic_lock\(pika::execution::detail::agent_ref current_context\)", rules=REC_RULES),
    "try_lock": Lift(RM, r"bool try_lock\(\)", rules=REC_RULES),
    "lock": Lift(RM, r"void lock\(\)", rules=REC_RULES),
    "unlock": Lift(RM, r"void unlock\(\)", rules=REC_RULES),
}
RCLS = "pika::detail::recursive_mutex_impl<Mutex>::"
UNITS += [
    Unit("recursive_mutex.try_recursive_lock", "rec.c", defines=["U_TRY_RECURSIVE_LOCK"], enforce="try_recursive_lock", lifts=REC_LIFTS,
         funcs=[RM + ": " + RCLS + "try_recursive_lock"], min_obligations=10),
    Unit("recursive_mutex.try_basic_lock", "rec.c", defines=["U_TRY_BASIC_LOCK"], enforce="try_basic_lock", lifts=REC_LIFTS,
         funcs=[RM + ": " + RCLS + "try_basic_lock"], min_obligations=10),
    Unit("recursive_mutex.try_lock", "rec.c", defines=["U_TRY_LOCK"], enforce="try_lock", lifts=REC_LIFTS,
         replace=["try_recursive_lock", "try_basic_lock"], funcs=[RM + ": " + RCLS + "try_lock"], min_obligations=10),
    Unit("recursive_mutex.lock", "rec.c", defines=["U_LOCK"], enforce="lock", lifts=REC_LIFTS,
         replace=["try_recursive_lock"], funcs=[RM + ": " + RCLS + "lock"], min_obligations=10),
    Unit("recursive_mutex.unlock", "rec.c", defines=["U_UNLOCK"], enforce="unlock", lifts=REC_LIFTS,
         funcs=[RM + ": " + RCLS + "unlock"], min_obligations=10),
]

# ---------------------------------------------------------------------------------------------------------
# unit group 4: lemma harnesses over the step contracts (no lifted code)

UNITS += [
    Unit("mutex.lemma.exclusion", "lemma.c", defines=["L_MUTEX"], kind="lemma", min_obligations=6, no_replay=True,
         doc="one arbitrary GUAR step of A, B or a third party from any state satisfying the occupancy invariant keeps the "
             "invariant, keeps at most one owner, and is RELY-admissible for the others"),
    Unit("spinlock.lemma.exclusion", "lemma.c", defines=["L_SPIN"], kind="lemma", min_obligations=5, no_replay=True,
         doc="same for the spinlock flag: S_GUAR steps keep 'flag set iff exactly one holder' and imply the others' S_RELY"),
]

META = {
    "trusted_base": [
        "specs/C06/mtx.h cv_wait/cv_wait_until/cv_notify_one: contract of detail::condition_variable as seen by a client that "
        "holds the internal lock (enqueue under the lock, lock released only inside the suspension; wait returns signaled iff a "
        "notifier dequeued the caller, otherwise timeout with the caller's entry erased; notify_one dequeues the front waiter, "
        "releases its by-value lock on return, resets ec unless it is `throws`; wait/wait_until never touch ec); "
        "VX_ASSUME(g_inflight >= 1) after a signalled wake-up and VX_ASSUME(g_waiters >= 1) after an unsignalled one are facts "
        "about the caller's own queue entry; the cv itself is the subject of C07",
        "specs/C06/mtx.h mtx_at_acquire (VX_ASSUME): environment step of the monitor -- other tasks' critical sections keep INV "
        "and obey RELY (never make us the owner, never take ownership away); justified by the GUAR/INV obligations of every "
        "unit at every release point plus lemma unit mutex.lemma.exclusion",
        "specs/C06/mtx.h vx_throws_if: model of pika::detail::throws_if (throw iff &ec == &throws, else ec := code); an "
        "exception is lowered to a return through the RAII exits; error_code is {value}, operator bool is value != success",
        "vx/prelude/monitor.h: std::unique_lock on the internal spinlock modelled as a ghost 'held' bit (the spinlock's own "
        "acquire/release steps are the spinlock.* units)",
        "specs/C06/spin.h atomic_load_bool/atomic_exchange_bool/atomic_store_bool + interfere (VX_ASSUME S_RELY): "
        "std::atomic<bool> as an indivisible word; before every access the environment may change the flag unless the caller "
        "holds the lock; justified by own_step's S_GUAR obligation in every unit plus lemma unit spinlock.lemma.exclusion; "
        "yield_k/spin_k/spinlock::yield_k and lock registration are no-op environment stubs",
        "specs/C06/rec.h atomic_u64_*/atomic_agent_* + rec_interfere (VX_ASSUME R-REC: nobody else stores our agent, nobody "
        "writes while we hold the inner mutex), inner_lock/inner_try_lock/inner_unlock (contract of the Mutex parameter; "
        "VX_ASSUME: the inner mutex is handed over with count == 0 and empty context, which is what inner_unlock asserts of "
        "the releasing agent)",
        "ghost counters bounded by 10^9 (RELY_RANGE) so that ghost arithmetic cannot overflow",
    ],
    "assumptions": [
        "units without the suffix .reused_ec: the caller passes `throws` or an error_code that holds success; the .reused_ec "
        "units drop this and FAIL on the pinned tree (mutex::lock / timed_mutex::try_lock_until test `if (ec)` after a cv wait "
        "that never sets ec: a stale error makes them consume a wake-up and return without the mutex)",
        "thread ids / execution agents are opaque integer tokens; the calling task's id is stable during a call",
        "deadlines are opaque: a timed wait ends with `timeout` or `signaled` as reported by the cv",
        "recursive_mutex_impl::unlock is called only by the owning agent (the class promises no misuse detection); "
        "recursion_count < 2^64 - 1 when re-entering",
        "util::yield_while is instantiated with the lambda [this]{ return is_locked(); } passed as (member function, object)",
    ],
    "not_decided": [
        "visibility of critical-section writes (memory model; A-SC)", "fairness / starvation of blocked lockers (barging is allowed)",
        "termination of the spin loops and of mutex::lock's wait loop (liveness)", "liveness of the woken task (C02)",
        "lock registration (PIKA_HAVE_VERIFY_LOCKS is off in the shipped configuration; calls are no-op stubs)",
        "the null-context error path inside condition_variable::notify_one (C07)",
        "public wrappers pika::recursive_mutex / pika::spinlock aliases, timed_mutex::try_lock_for (forwarders)",
    ],
}


# ---- C07 units reused (added after seeded change C06-4 was missed): mutex::lock/unlock hand the lock on through
# ---- detail::condition_variable wait / wait_until / notify_one (a waiter that leaves wait() must leave the queue; notify_one
# ---- wakes a queued waiter); these are the C07 units of the same name, run here as well
_c07 = {"UNITS": [], "VX_NO_REUSE": True, "__name__": "c07_reuse"}
if not globals().get("VX_NO_REUSE"):     # reuse is never transitive: the other spec is loaded without ITS reuse blocks (no cycles)
    exec(compile(open("/verif/specs/C07/spec.py").read(), "/verif/specs/C07/spec.py", "exec"), _c07)
for _u in _c07["UNITS"]:
    # agent.da.*: a plain OS thread blocked in lock() suspends / is resumed through default_agent (same reason as in C08 / C09)
    if _u.name in ("cv.wait", "cv.wait_until", "cv.notify_one", "cv.notify_all", "cv.abort_all",
                   "agent.da.ctor", "agent.da.suspend", "agent.da.resume", "agent.da.abort", "agent.da.lemma.rely_guarantee", "agent.da.lemma.suspend_resume"):
        _u.name = "c07." + _u.name
        _u.template = "../C07/" + _u.template
        UNITS.append(_u)
META["trusted_base"] = list(META.get("trusted_base", [])) + ["units c07.* are the C07 units of the same name (specs/C07/cv.c, cv.h) with their trusted base"]


# ---- C02 units reused (added after seeded changes C13-9 / C06-9 / C08-9 were missed): every wake-up of a pika task blocked in this
# ---- facility ends in set_thread_state(pending); when the waiter still reads `active` (it has enqueued itself and dropped the internal
# ---- lock but its worker has not stored `suspended` yet) the wake-up is carried by the helper set_active_state, which may drop it only
# ---- when the target was re-activated since.  Same templates, same contracts as C02.
_c02s = {"UNITS": [], "VX_NO_REUSE": True}
if not globals().get("VX_NO_REUSE"):
    exec(compile(open("/verif/specs/C02/spec.py").read(), "/verif/specs/C02/spec.py", "exec"), _c02s)
for _u in _c02s["UNITS"]:
    if _u.name in ("sts.set_thread_state", "sts.set_active_state", "agent.do_resume", "agent.do_yield"):
        _u.name = "c02." + _u.name
        _u.template = "../C02/" + _u.template
        UNITS.append(_u)
META["trusted_base"] = list(META.get("trusted_base", [])) + ["units c02.sts.* / c02.agent.* are the C02 units of the same name (specs/C02/sts.c, c02.h) with their trusted base"]
