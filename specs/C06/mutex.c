/* units: pika::mutex::lock / try_lock / unlock, pika::timed_mutex::try_lock_until   (M contracts, DESIGN 4 C06) */
#include "mtx.h"

/* common precondition: called from a pika task with id g_self on the object vx_self, internal lock not held by
 * us, ghost ledgers reset; the caller's error_code is `throws` or a clean error_code object */
#define PRE_COMMON (self == vx_self && g_on_pika_thread && g_self != VX_INVALID_ID && !self->mtx_.held && RELY_RANGE && INV() && \
                    g_waits == 0 && g_releases == 0 && g_trans == 0 && g_notifies == 0 && g_errs == 0 && !g_thrown && \
                    vx_throws.value == pika_error_success)
/* U_REUSED_EC: the caller passes an error_code that still holds the error of an earlier call (nothing in the
 * error_code convention forbids it); otherwise the error_code is clean */
#ifdef U_REUSED_EC
#define PRE_EC (((ec) == &vx_throws || (ec) == &g_ec) && g_ec.value == g_ec0)
#else
#define PRE_EC (((ec) == &vx_throws || (ec) == &g_ec) && g_ec.value == g_ec0 && (ec)->value == pika_error_success)
#endif
/* how an error must surface: thrown iff the caller passed `throws`, otherwise stored in the caller's error_code */
#define REPORTED(code) (g_errs == 1 && g_err == (code) && (ec == &vx_throws ? g_thrown : (!g_thrown && g_ec.value == (code))))
/* (the native replay rewrites __CPROVER_old textually, so it is spelled out in every clause) */

#ifdef U_LOCK
//@FUNC
void lock(struct pmutex *self, char const *description, struct error_code *ec)
__CPROVER_requires(PRE_COMMON && PRE_EC)
/* re-locking an owned mutex: reported as `deadlock`, no state change */
__CPROVER_ensures((__CPROVER_old(self->owner_id_) == g_self) ==> (REPORTED(pika_error_deadlock) && g_trans == 0 && self->owner_id_ == g_self && g_waits == 0))
/* otherwise: returns as the owner, and the owner was `invalid` in the critical section in which it was set */
__CPROVER_ensures((__CPROVER_old(self->owner_id_) != g_self) ==> (g_errs == 0 && !g_thrown && self->owner_id_ == g_self && g_trans == 1 && g_trans_from == VX_INVALID_ID && g_trans_to == g_self))
__CPROVER_ensures(!self->mtx_.held && vx_throws.value == pika_error_success && g_notifies == 0)
__CPROVER_assigns(MTX_FRAME)
//@LIFT body
#endif

#ifdef U_TRY_LOCK
//@FUNC
bool try_lock(struct pmutex *self, char const *description, struct error_code *ec)
__CPROVER_requires(PRE_COMMON && PRE_EC)
/* true <=> the owner was invalid in the critical section that decided; then owner == self */
__CPROVER_ensures(__CPROVER_return_value ==> (self->owner_id_ == g_self && g_trans == 1 && g_trans_from == VX_INVALID_ID && g_trans_to == g_self))
/* false => no change.  (C06 only demands "succeeds only when it really acquired": a refusal needs no justification -- a
 * try_lock that gives up when the INTERNAL lock is busy is a legitimate implementation -- so nothing is required of the
 * owner seen; when a critical section was entered, the owner is the one it found.) */
__CPROVER_ensures(!__CPROVER_return_value ==> (g_trans == 0 && (g_releases == 0 || self->owner_id_ == g_cs_owner)))
__CPROVER_ensures(!self->mtx_.held && g_waits == 0 && g_errs == 0 && !g_thrown && g_notifies == 0 && vx_throws.value == pika_error_success)
__CPROVER_assigns(MTX_FRAME)
//@LIFT body
#endif

#ifdef U_UNLOCK
//@FUNC
void unlock(struct pmutex *self, struct error_code *ec)
__CPROVER_requires(PRE_COMMON && PRE_EC)
/* foreign unlock: reported as lock_error, no change */
__CPROVER_ensures((__CPROVER_old(self->owner_id_) != g_self) ==> (REPORTED(pika_error_lock_error) && g_trans == 0 && self->owner_id_ == g_cs_owner && g_notifies == 0))
/* otherwise owner := invalid, and notify_one issued exactly once, after the owner was cleared, inside the same
 * critical section (a release of the internal lock in between would fail INV at that release point) */
__CPROVER_ensures((__CPROVER_old(self->owner_id_) == g_self) ==> (g_errs == 0 && !g_thrown && self->owner_id_ == VX_INVALID_ID && g_trans == 1 && g_trans_from == g_self && \
                                      g_notifies == 1 && g_notify_owner == VX_INVALID_ID))
__CPROVER_ensures(!self->mtx_.held && g_waits == 0 && vx_throws.value == pika_error_success)
__CPROVER_assigns(MTX_FRAME)
//@LIFT body
#endif

#ifdef U_TRY_LOCK_UNTIL
//@FUNC
bool try_lock_until(struct pmutex *self, long abs_time, char const *description, struct error_code *ec)
__CPROVER_requires(PRE_COMMON && PRE_EC)
/* true => owner == self and it was free in the critical section in which it was set */
__CPROVER_ensures(__CPROVER_return_value ==> (self->owner_id_ == g_self && g_trans == 1 && g_trans_from == VX_INVALID_ID && g_trans_to == g_self))
/* false => no change; in particular after a timeout */
__CPROVER_ensures(!__CPROVER_return_value ==> (g_trans == 0 && self->owner_id_ == g_cs_owner))
__CPROVER_ensures((g_waits >= 1 && g_last_wake == thread_restart_state_timeout) ==> !__CPROVER_return_value)
/* a free mutex is not refused: false only after a blocking wait that timed out or found the mutex taken again */
__CPROVER_ensures(!__CPROVER_return_value ==> (g_waits == 1 && (g_last_wake == thread_restart_state_timeout || g_cs_owner != VX_INVALID_ID)))
__CPROVER_ensures(!self->mtx_.held && g_waits <= 1 && g_errs == 0 && !g_thrown && g_notifies == 0 && vx_throws.value == pika_error_success)
__CPROVER_assigns(MTX_FRAME)
//@LIFT body
#endif

void harness(void)
{
  struct pmutex m;
  vx_self = &m;
  m.mtx_.held = false;
  m.owner_id_ = nondet_long();
  g_self = nondet_long();
  g_on_pika_thread = true;
  g_waiters = nondet_long();
  g_inflight = nondet_long();
  g_cs_owner = m.owner_id_;
  g_waits = 0;
  g_last_wake = 0;
  g_releases = 0;
  g_trans = 0;
  g_notifies = 0;
  g_errs = 0;
  g_err = 0;
  g_thrown = false;
  g_registered = 0;
  vx_throws.value = pika_error_success;
#ifdef U_REUSED_EC
  g_ec.value = nondet_int();
#else
  g_ec.value = pika_error_success;
#endif
  g_ec0 = g_ec.value;
  bool use_throws = nondet_bool();
  struct error_code *ec = use_throws ? &vx_throws : &g_ec;
  vx_tid owner0 = m.owner_id_;
#ifdef U_LOCK
  lock(&m, "mutex::lock", ec);
  if (owner0 != g_self) { VX_REACH("locked"); if (g_waits == 1) VX_REACH("locked_after_blocking"); if (g_waits > 1) VX_REACH("blocked_twice"); }
  if (owner0 == g_self && g_thrown) VX_REACH("deadlock_thrown");
  if (owner0 == g_self && !g_thrown) VX_REACH("deadlock_ec");
#ifdef U_REUSED_EC
  if (owner0 != g_self && !use_throws && g_ec0 != pika_error_success && g_waits > 0) VX_REACH("blocked_with_stale_ec");
#endif
#endif
#ifdef U_TRY_LOCK
  bool r = try_lock(&m, "mutex::try_lock", ec);
  if (r) VX_REACH("acquired"); else VX_REACH("refused");
  if (!r && owner0 == g_self) VX_REACH("refused_own");
#endif
#ifdef U_UNLOCK
  long w0 = g_waiters;
  unlock(&m, ec);
  if (owner0 == g_self) { VX_REACH("unlocked"); if (g_inflight > 0) VX_REACH("unlocked_with_wakeup"); }
  if (owner0 != g_self && g_thrown) VX_REACH("foreign_thrown");
  if (owner0 != g_self && !g_thrown) VX_REACH("foreign_ec");
  if (owner0 == VX_INVALID_ID) VX_REACH("unlock_of_free_mutex");
#endif
#ifdef U_TRY_LOCK_UNTIL
  bool r = try_lock_until(&m, nondet_long(), "mutex::try_lock_until", ec);
  if (r && g_waits == 0) VX_REACH("acquired_free");
  if (r && g_waits == 1) VX_REACH("acquired_after_blocking");
  if (!r && g_last_wake == thread_restart_state_timeout) VX_REACH("timed_out");
  if (!r && g_last_wake == thread_restart_state_signaled) VX_REACH("woken_but_taken");
#ifdef U_REUSED_EC
  if (!use_throws && g_ec0 != pika_error_success && g_waits > 0) VX_REACH("blocked_with_stale_ec");
#endif
#endif
}
