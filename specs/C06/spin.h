/* C06 -- S-contracts (rely/guarantee on one atomic word) for the two spinlocks:
 *   pika::concurrency::detail::spinlock  (flag v_)   libs/pika/concurrency/include/pika/concurrency/spinlock.hpp
 *   pika::detail::spinlock               (flag m)    libs/pika/thread_support/include/pika/thread_support/spinlock.hpp
 * The flag is a std::atomic<bool>; FLAG is its member name (template parameter of the unit).
 *
 * Ghost g_mine: "the calling agent holds the lock", set by the agent's own false->true step, cleared by its
 * true->false step.
 *   S_GUAR  a step of ours changes the flag only  false->true while we do not hold it  (acquire), or
 *           true->false while we hold it (release);  everything else leaves the flag unchanged
 *   S_RELY  what the others may do as seen by us: anything while we do not hold the lock, nothing while we do
 *           (their S_GUAR; lemma unit spinlock.lemma.exclusion)
 */
#ifndef C06_SPIN_H
#define C06_SPIN_H
#include "vx.h"

/* the flag is stored as a byte and read back as `!= 0`: a loop contract havocs the object representation, and a
 * havocked _Bool may hold a non-canonical value, which no std::atomic<bool> can */
struct spinlock { uint8_t FLAG; };

#define S_GUAR(mine, o, n) ((n) == (o) || (!(mine) && !(o) && (n)) || ((mine) && (o) && !(n)))
#define S_RELY(mine, o, n) (!(mine) || (n) == (o))

static bool g_mine;                 /* we hold the lock */
static bool lin;                    /* this call has performed its (one) flag-changing step */
static bool lin_old, lin_new;       /* that step */
static long g_yields;               /* back-off calls made (saturating at 2) */
static long g_registered;

#define SPIN_FRAME self->FLAG, g_mine, lin, lin_old, lin_new, g_yields, g_registered

static void interfere(uint8_t *p)
{
  if (nondet_bool())
  {
    bool n = nondet_bool();
    VX_ASSUME(S_RELY(g_mine, *p != 0, n)); /* environment step: other agents' acquire/release steps */
    *p = n;
  }
}
static void own_step(bool old, bool v)
{
  if (old != v)
  {
    VX_ASSERT(!lin, "at most one flag-changing step per call");
    VX_ASSERT(S_GUAR(g_mine, old, v), "guarantee: the flag is changed only false->true by a non-holder or true->false by the holder");
    lin = true;
    lin_old = old;
    lin_new = v;
    g_mine = v;
  }
}
/* std::atomic<bool>::load */
static bool atomic_load_bool(uint8_t *p)
{
  interfere(p);
  return *p != 0;
}
/* std::atomic<bool>::exchange */
static bool atomic_exchange_bool(uint8_t *p, bool v)
{
  interfere(p);
  bool old = *p != 0;
  *p = v;
  own_step(old, v);
  return old;
}
/* std::atomic<bool>::store */
static void atomic_store_bool(uint8_t *p, bool v)
{
  interfere(p);
  bool old = *p != 0;
  *p = v;
  own_step(old, v);
}

/* environment: back-off (execution::this_thread::detail::yield_k / spin_k, pika::detail::spinlock::yield_k) and
 * lock registration.  Interference by other agents is injected at the next atomic access. */
static void vx_yield_k(size_t k, char const *desc) { if (g_yields < 2) g_yields++; }
static void vx_spin_k(size_t k, char const *desc) { if (g_yields < 2) g_yields++; }
static void vx_spinlock_yield_k(struct spinlock *self, unsigned k) { if (g_yields < 2) g_yields++; }
static void vx_register_lock(void *l) { if (g_registered < 2) g_registered++; }
static void vx_unregister_lock(void *l) { if (g_registered > -2) g_registered--; }
#endif
