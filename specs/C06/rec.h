/* C06 -- recursive_mutex_impl<Mutex>: two atomic words (recursion_count, locking_context) written only by the agent
 * that holds the inner mutex `mtx`.  Execution agents are opaque integer tokens; 0 is the empty agent_ref().
 *
 *   g_me      the calling agent (!= 0)
 *   g_inner   ghost: the calling agent holds the inner mutex
 * Rely (R-REC): while we hold the inner mutex nobody else writes either word; while we do not, the others may write
 *   anything except making us the locking context (each of them stores only its own agent, or the empty one).
 * Monitor invariant of the inner mutex (asserted when we release it, assumed when we acquire it):
 *   recursion_count == 0  /\  locking_context == empty
 * Invariant at our own call boundaries (WF_REC):
 *   g_inner  <=>  locking_context == g_me,   g_inner ==> recursion_count >= 1
 * together: recursion_count > 0 <=> locking_context set (DESIGN 4 C06), in every state in which nobody is inside a
 * lock/unlock call.
 */
#ifndef C06_REC_H
#define C06_REC_H
#include "vx.h"

typedef long vx_agent;               /* pika::execution::detail::agent_ref */
#define VX_NO_AGENT 0L               /* agent_ref() */
struct inner_mutex { int unused; };  /* Mutex (by contract: C06 spinlock units / pika::mutex units) */
struct rmutex { uint64_t recursion_count; vx_agent locking_context; struct inner_mutex mtx; };

static struct rmutex *vx_rm;
static vx_agent g_me;
static bool g_inner;
static long g_inner_locks;      /* successful acquisitions of the inner mutex by this call (saturating at 2) */
static long g_inner_tries;      /* inner try_lock calls (saturating at 2) */
static long g_inner_unlocks;    /* releases of the inner mutex by this call (saturating at 2) */
static long g_writes;           /* atomic writes to the two words by this call (saturating at 3) */

#define WF_REC (g_me != VX_NO_AGENT && (g_inner == (vx_rm->locking_context == g_me)) && (!g_inner || vx_rm->recursion_count >= 1))
#define REC_FRAME self->recursion_count, self->locking_context, g_inner, g_inner_locks, g_inner_tries, g_inner_unlocks, g_writes

static void rec_interfere(void)
{
  if (!g_inner && nondet_bool())
  {
    vx_rm->recursion_count = nondet_u64();
    vx_rm->locking_context = nondet_long();
    VX_ASSUME(vx_rm->locking_context != g_me); /* R-REC: nobody but us stores our agent */
  }
}
static void rec_wrote(void) { if (g_writes < 3) g_writes++; }
/* std::atomic<std::uint64_t>: ++x, --x, store, load */
static uint64_t atomic_u64_preinc(uint64_t *p) { rec_interfere(); rec_wrote(); *p = *p + 1; return *p; }
static uint64_t atomic_u64_predec(uint64_t *p) { rec_interfere(); rec_wrote(); *p = *p - 1; return *p; }
static uint64_t atomic_u64_postinc(uint64_t *p) { rec_interfere(); rec_wrote(); *p = *p + 1; return *p - 1; }
static uint64_t atomic_u64_postdec(uint64_t *p) { rec_interfere(); rec_wrote(); *p = *p - 1; return *p + 1; }
static uint64_t atomic_u64_load(uint64_t *p) { rec_interfere(); return *p; }
static void atomic_u64_store(uint64_t *p, uint64_t v) { rec_interfere(); rec_wrote(); *p = v; }
/* std::atomic<agent_ref>: load, exchange */
static vx_agent atomic_agent_load(vx_agent *p) { rec_interfere(); return *p; }
static vx_agent atomic_agent_exchange(vx_agent *p, vx_agent v)
{
  rec_interfere();
  rec_wrote();
  VX_ASSERT(g_inner, "locking_context is written only while holding the inner mutex");
  VX_ASSERT(v == g_me || v == VX_NO_AGENT, "guarantee R-REC: an agent stores only itself or the empty agent as locking context");
  vx_agent old = *p;
  *p = v;
  return old;
}

/* ---- contract of the inner mutex ---- */
static void inner_lock(struct inner_mutex *m)
{
  VX_ASSERT(!g_inner, "inner mutex locked while already held by this agent (self-deadlock)");
  g_inner = true;
  if (g_inner_locks < 2) g_inner_locks++;
  /* environment step + monitor invariant of the inner mutex: whoever released it left the words cleared */
  vx_rm->recursion_count = nondet_u64();
  vx_rm->locking_context = nondet_long();
  VX_ASSUME(vx_rm->recursion_count == 0 && vx_rm->locking_context == VX_NO_AGENT);
}
static bool inner_try_lock(struct inner_mutex *m)
{
  VX_ASSERT(!g_inner, "inner mutex try-locked while already held by this agent");
  if (g_inner_tries < 2) g_inner_tries++;
  if (nondet_bool())
  {
    g_inner = true;
    if (g_inner_locks < 2) g_inner_locks++;
    vx_rm->recursion_count = nondet_u64();
    vx_rm->locking_context = nondet_long();
    VX_ASSUME(vx_rm->recursion_count == 0 && vx_rm->locking_context == VX_NO_AGENT);
    return true;
  }
  return false;
}
static void inner_unlock(struct inner_mutex *m)
{
  VX_ASSERT(g_inner, "inner mutex unlocked by an agent that does not hold it");
  VX_ASSERT(vx_rm->recursion_count == 0 && vx_rm->locking_context == VX_NO_AGENT,
            "inner mutex released exactly when the count is back to 0 and the locking context is cleared");
  g_inner = false;
  if (g_inner_unlocks < 2) g_inner_unlocks++;
}
/* environment */
static vx_agent vx_this_agent(void) { return g_me; }
static void vx_lockreg(void *p) { }
#endif
