/* units: pika::detail::spinlock::{lock, try_lock, unlock} (thread_support)   (S contracts on the flag m) */
#define FLAG m
#include "spin.h"

/* acquire succeeds <=> its exchange flipped the flag false->true; a failed attempt changes nothing */
//@FUNC
bool try_lock(struct spinlock *self)
__CPROVER_requires(!g_mine && !lin)
__CPROVER_ensures(__CPROVER_return_value == lin && __CPROVER_return_value == g_mine)
__CPROVER_ensures(lin ==> (!lin_old && lin_new && self->FLAG))
__CPROVER_assigns(SPIN_FRAME)
//@LIFT try_lock

/* lock returns only after its own successful acquire step (false->true), and then holds the lock */
//@FUNC
void lock(struct spinlock *self)
__CPROVER_requires(!g_mine && !lin && g_yields == 0)
__CPROVER_ensures(lin && !lin_old && lin_new && g_mine && self->FLAG)
__CPROVER_assigns(SPIN_FRAME)
//@LIFT lock

/* unlock (by the holder) only stores false: its one step is true->false */
//@FUNC
void unlock(struct spinlock *self)
__CPROVER_requires(g_mine && self->FLAG && !lin)
__CPROVER_ensures(lin && lin_old && !lin_new && !g_mine)
__CPROVER_assigns(SPIN_FRAME)
//@LIFT unlock

void harness(void)
{
  struct spinlock s;
  s.FLAG = nondet_bool();
  g_mine = nondet_bool();
  lin = false;
  g_yields = 0;
  g_registered = 0;
  bool before = s.FLAG != 0;
#ifdef U_LOCK
  lock(&s);
  VX_REACH("locked");
  if (g_yields > 0) VX_REACH("locked_after_backoff");
  if (before) VX_REACH("locked_although_taken_at_entry");
#endif
#ifdef U_TRY_LOCK
  bool r = try_lock(&s);
  if (r) VX_REACH("acquired"); else VX_REACH("refused");
  if (r && before) VX_REACH("acquired_after_interference");
  if (!r && !before) VX_REACH("refused_after_interference");
#endif
#ifdef U_UNLOCK
  unlock(&s);
  VX_REACH("unlocked");
#endif
}
