/* units: pika::detail::recursive_mutex_impl<Mutex>::{lock, try_lock, unlock, try_recursive_lock, try_basic_lock} */
#include "rec.h"

#define PRE_REC (self == vx_rm && WF_REC && (!g_inner || self->recursion_count < UINT64_MAX) && g_inner_locks == 0 && g_inner_tries == 0 && g_inner_unlocks == 0 && g_writes == 0)

/* fast path: taken exactly by the owning agent; it only bumps the count */
//@FUNC
bool try_recursive_lock(struct rmutex *self, vx_agent current_context)
__CPROVER_requires(PRE_REC && current_context == g_me)
__CPROVER_ensures(__CPROVER_return_value == __CPROVER_old(g_inner))
__CPROVER_ensures(__CPROVER_return_value ==> (self->recursion_count == __CPROVER_old(self->recursion_count) + 1 && self->locking_context == g_me))
__CPROVER_ensures(!__CPROVER_return_value ==> g_writes == 0)
__CPROVER_ensures(WF_REC && g_inner == __CPROVER_old(g_inner) && g_inner_locks == 0 && g_inner_tries == 0 && g_inner_unlocks == 0)
__CPROVER_assigns(REC_FRAME)
//@LIFT try_recursive_lock

/* slow path without blocking: succeeds <=> the inner try_lock succeeded; then count == 1 and we are the context */
//@FUNC
bool try_basic_lock(struct rmutex *self, vx_agent current_context)
__CPROVER_requires(PRE_REC && current_context == g_me && !g_inner)
__CPROVER_ensures(__CPROVER_return_value == g_inner && g_inner_tries == 1 && g_inner_locks == (__CPROVER_return_value ? 1 : 0))
__CPROVER_ensures(__CPROVER_return_value ==> (self->recursion_count == 1 && self->locking_context == g_me))
__CPROVER_ensures(!__CPROVER_return_value ==> g_writes == 0)
__CPROVER_ensures(WF_REC && g_inner_unlocks == 0)
__CPROVER_assigns(REC_FRAME)
//@LIFT try_basic_lock

//@FUNC
bool try_lock(struct rmutex *self)
__CPROVER_requires(PRE_REC)
/* true <=> we own it afterwards; re-entrant success only bumps the count and never touches the inner mutex */
__CPROVER_ensures(__CPROVER_return_value == g_inner)
__CPROVER_ensures(__CPROVER_old(g_inner) ==> (__CPROVER_return_value && self->recursion_count == __CPROVER_old(self->recursion_count) + 1 && g_inner_tries == 0 && g_inner_locks == 0))
__CPROVER_ensures((!__CPROVER_old(g_inner) && __CPROVER_return_value) ==> (self->recursion_count == 1 && g_inner_locks == 1))
/* a refusal only after the inner mutex refused; nothing written */
__CPROVER_ensures(!__CPROVER_return_value ==> (g_writes == 0 && g_inner_locks == 0 && g_inner_tries == 1))
__CPROVER_ensures(WF_REC && g_inner_unlocks == 0)
__CPROVER_assigns(REC_FRAME)
//@LIFT try_lock

//@FUNC
void lock(struct rmutex *self)
__CPROVER_requires(PRE_REC)
/* returns as the owner; fast path only for the owning agent, otherwise exactly one acquisition of the inner mutex */
__CPROVER_ensures(g_inner && self->locking_context == g_me)
__CPROVER_ensures(__CPROVER_old(g_inner) ==> (self->recursion_count == __CPROVER_old(self->recursion_count) + 1 && g_inner_locks == 0))
__CPROVER_ensures(!__CPROVER_old(g_inner) ==> (self->recursion_count == 1 && g_inner_locks == 1))
__CPROVER_ensures(WF_REC && g_inner_unlocks == 0)
__CPROVER_assigns(REC_FRAME)
//@LIFT lock

//@FUNC
void unlock(struct rmutex *self)
__CPROVER_requires(PRE_REC && g_inner)
/* the count goes down by one; the inner mutex is released exactly when it returns to 0 (after clearing the context) */
__CPROVER_ensures(__CPROVER_old(self->recursion_count) > 1 ==> (self->recursion_count == __CPROVER_old(self->recursion_count) - 1 && g_inner && self->locking_context == g_me && g_inner_unlocks == 0))
__CPROVER_ensures(__CPROVER_old(self->recursion_count) == 1 ==> (!g_inner && g_inner_unlocks == 1))
__CPROVER_ensures(WF_REC && g_inner_locks == 0)
__CPROVER_assigns(REC_FRAME)
//@LIFT unlock

void harness(void)
{
  struct rmutex m;
  vx_rm = &m;
  m.recursion_count = nondet_u64();
  m.locking_context = nondet_long();
  g_me = nondet_long();
  g_inner = nondet_bool();
  g_inner_locks = 0;
  g_inner_tries = 0;
  g_inner_unlocks = 0;
  g_writes = 0;
  bool held0 = g_inner;
  uint64_t c0 = m.recursion_count;
#ifdef U_TRY_RECURSIVE_LOCK
  bool r = try_recursive_lock(&m, g_me);
  if (r) VX_REACH("reentered"); else VX_REACH("not_owner");
#endif
#ifdef U_TRY_BASIC_LOCK
  bool r = try_basic_lock(&m, g_me);
  if (r) VX_REACH("acquired"); else VX_REACH("busy");
#endif
#ifdef U_TRY_LOCK
  bool r = try_lock(&m);
  if (r && held0) VX_REACH("reentered");
  if (r && !held0) VX_REACH("acquired");
  if (!r) VX_REACH("busy");
#endif
#ifdef U_LOCK
  lock(&m);
  if (held0) VX_REACH("reentered"); else VX_REACH("acquired");
#endif
#ifdef U_UNLOCK
  unlock(&m);
  if (c0 == 1) VX_REACH("released"); else VX_REACH("still_owned");
#endif
}
