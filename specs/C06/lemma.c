/* lemma harnesses over the step contracts (no lifted code): mutual exclusion (L5, DESIGN 4 C06).
 * They use the very GUAR/RELY macros the units assert/assume, for two distinguished agents A, B and a third party C
 * standing for everybody else.  One arbitrary step from an arbitrary state satisfying the invariant: the induction
 * over the history (DESIGN 3.4) is the paper part. */
#ifdef L_MUTEX
#include "mtx.h"
/* ghost occupancy: inX == "X returned from a successful lock/try_lock/try_lock_until and has not unlocked yet";
 * by the unit postconditions this flips exactly at X's steps invalid->X (g_trans_from == invalid, g_trans_to == X)
 * and X->invalid (unlock) */
void harness(void)
{
  vx_tid A = nondet_long(), B = nondet_long(), C = nondet_long();
  vx_tid o = nondet_long(), n = nondet_long();
  bool inA = nondet_bool(), inB = nondet_bool(), inC = nondet_bool();
  int who = nondet_int();
  if (A == VX_INVALID_ID || B == VX_INVALID_ID || C == VX_INVALID_ID || A == B || A == C || B == C) return;
  if (who < 0 || who > 2) return;
  /* invariant: occupancy agrees with the owner word */
  if (!(inA == (o == A) && inB == (o == B) && inC == (o == C))) return;
  vx_tid X = who == 0 ? A : who == 1 ? B : C;
  /* X performs one critical section of one of the units: its release-point obligation is GUAR(X, o, n) */
  if (!GUAR(X, o, n)) return;
  bool inX = who == 0 ? inA : who == 1 ? inB : inC;
  if (o == VX_INVALID_ID && n == X && o != n) { inX = true; VX_REACH("acquire_step"); }
  if (o == X && n == VX_INVALID_ID && o != n) { inX = false; VX_REACH("release_step"); }
  if (o == n) VX_REACH("no_change_step");
  if (who == 0) inA = inX; else if (who == 1) inB = inX; else inC = inX;
  VX_ASSERT(inA == (n == A) && inB == (n == B) && inC == (n == C), "invariant preserved: occupancy agrees with the owner word");
  VX_ASSERT(!(inA && inB) && !(inA && inC) && !(inB && inC), "mutual exclusion: at most one task owns the mutex");
  /* guarantee of the stepping agent is admissible interference (RELY) for everybody else */
  if (who != 0) VX_ASSERT(RELY(A, o, n), "GUAR(X) implies RELY(A) for X != A");
  if (who != 1) VX_ASSERT(RELY(B, o, n), "GUAR(X) implies RELY(B) for X != B");
  if (who != 2) VX_ASSERT(RELY(C, o, n), "GUAR(X) implies RELY(C) for X != C");
  /* while A is inside, nobody else's step is an acquisition, and only A's step releases */
  if (o == A && who != 0) { VX_ASSERT(n == A, "an owned mutex is not taken or released by another task"); VX_REACH("foreign_step_while_owned"); }
  /* the no-lost-unlock invariant is indifferent to steps that keep or take the owner (only a release needs a wake-up) */
  long w = nondet_long(), f = nondet_long();
  if (w >= 0 && f >= 0 && INV_MTX(o, w, f) && n != VX_INVALID_ID) VX_ASSERT(INV_MTX(n, w, f), "INV is kept by every step that leaves the mutex owned");
}
#endif

#ifdef L_SPIN
#define FLAG v_
#include "spin.h"
void harness(void)
{
  bool o = nondet_bool(), n = nondet_bool();
  bool hA = nondet_bool(), hB = nondet_bool(), hC = nondet_bool();
  int who = nondet_int();
  if (who < 0 || who > 2) return;
  /* invariant: the flag is set iff somebody holds the lock, and at most one agent holds it */
  if (!(o == (hA || hB || hC) && !(hA && hB) && !(hA && hC) && !(hB && hC))) return;
  bool hX = who == 0 ? hA : who == 1 ? hB : hC;
  /* X performs one atomic step of one of the spinlock units: own_step asserts S_GUAR(hX, o, n) */
  if (!S_GUAR(hX, o, n)) return;
  if (o != n) { hX = n; if (n) VX_REACH("acquire_step"); else VX_REACH("release_step"); } else VX_REACH("no_change_step");
  bool hA0 = hA, hB0 = hB, hC0 = hC;
  if (who == 0) hA = hX; else if (who == 1) hB = hX; else hC = hX;
  VX_ASSERT(n == (hA || hB || hC), "invariant preserved: flag set iff somebody holds the lock");
  VX_ASSERT(!(hA && hB) && !(hA && hC) && !(hB && hC), "mutual exclusion: at most one holder");
  if (who != 0) VX_ASSERT(S_RELY(hA0, o, n), "S_GUAR(X) implies S_RELY(A) for X != A");
  if (who != 1) VX_ASSERT(S_RELY(hB0, o, n), "S_GUAR(X) implies S_RELY(B) for X != B");
  if (who != 2) VX_ASSERT(S_RELY(hC0, o, n), "S_GUAR(X) implies S_RELY(C) for X != C");
}
#endif
