/* C06 -- ghost state, monitor invariant, cv contract and error-reporting model for pika::mutex / timed_mutex.
 *
 * Protected state (behind the internal spinlock mtx_): owner_id_ and the queue of cond_, abstracted to
 *   g_waiters   number of entries in cond_'s queue
 *   g_inflight  wake-ups issued (notify_one dequeued a waiter) and not yet consumed by the woken waiter
 * Thread ids are opaque integer tokens; g_self is the id of the task executing the function under contract.
 *
 * Monitor invariant, asserted at every release point of the internal lock (also the one inside a cv wait):
 *   INV:   waiters > 0  /\  owner == invalid   ==>   inflight > 0
 *          "a locker stays queued on a free mutex only while a wake-up is already on its way" -- the safety form
 *          of "whenever the owner unlocks while tasks are blocked in lock(), one of them acquires it".
 *   GUAR:  between acquire and release of the internal lock the owner changes only  invalid -> self  or
 *          self -> invalid  (mutual exclusion step, L5).  The environment's step (MON_AT_ACQUIRE) is the same
 *          relation seen from the other side (RELY): it never makes us the owner and never takes ownership away.
 */
#ifndef C06_MTX_H
#define C06_MTX_H
#include "vx.h"

typedef long vx_tid;                 /* threads::detail::thread_id_type */
#define VX_INVALID_ID 0L             /* threads::detail::invalid_thread_id */
#define VX_BIG 1000000000L

/* one owner-word step of agent `me`: nothing, acquire of a free mutex, release of an owned one */
#define GUAR(me, o, n) ((n) == (o) || ((o) == VX_INVALID_ID && (n) == (me)) || ((o) == (me) && (n) == VX_INVALID_ID))
/* what everybody else may do as seen by `me` */
#define RELY(me, o, n) (((n) == (me)) == ((o) == (me)))
#define INV_MTX(owner, waiters, inflight) ((waiters) == 0 || (owner) != VX_INVALID_ID || (inflight) > 0)

static void mtx_at_release(void);
static void mtx_at_acquire(void);
#define MON_AT_RELEASE() mtx_at_release()
#define MON_AT_ACQUIRE() mtx_at_acquire()
#include "monitor.h"

/* ---- pika::error / pika::error_code / pika::throws ------------------------------------------------------ */
enum pika_error { pika_error_success = 0, pika_error_lock_error = 6, pika_error_deadlock = 10 };
struct error_code { int value; };
static struct error_code vx_throws;   /* the pika::throws sentinel (compared by address only) */
static struct error_code g_ec;        /* the caller's error_code object when it does not pass `throws` */
static int g_ec0;                     /* its value when the call under contract started */
static int g_err;                     /* last error reported by the function under contract */
static long g_errs;                   /* number of errors reported (saturating at 2) */
static bool g_thrown;                 /* an exception left the function */
/* pika::detail::throws_if (libs/pika/errors/src/throw_exception.cpp): throw if &ec == &throws, else set ec.
 * Returns true iff the exception is thrown; the lowering of PIKA_THROWS_IF then leaves through the RAII exits. */
static bool vx_throws_if(struct error_code *ec, int errcode)
{
  g_err = errcode;
  if (g_errs < 2) g_errs++;
  if (ec == &vx_throws) { g_thrown = true; return true; }
  ec->value = errcode;
  return false;
}
/* error_code::operator bool */
static bool vx_ec_bool(struct error_code *ec) { return ec->value != pika_error_success; }

/* ---- the mutex object ----------------------------------------------------------------------------------- */
struct cv { int unused; };
struct pmutex { struct vx_mutex mtx_; vx_tid owner_id_; struct cv cond_; };
/* owner_id_ is read and written only inside a critical section of the internal lock (lifted text: every access goes through here) */
static vx_tid *vx_owner(struct pmutex *self)
{
  VX_ASSERT(self->mtx_.held, "owner_id_ is accessed only with the mutex's internal lock held (else ownership is decided on a stale value / overwritten under another task's critical section)");
  return &self->owner_id_;
}

static struct pmutex *vx_self;
static vx_tid g_self;             /* id of the calling task (!= invalid) */
static bool g_on_pika_thread;     /* get_self_ptr() != nullptr */
static long g_waiters, g_inflight;
static vx_tid g_cs_owner;         /* owner_id_ at the beginning of the current critical section */
static long g_waits;              /* blocking waits performed by this call (saturating at 2) */
static int g_last_wake;           /* how the last blocking wait ended */
static long g_releases;           /* release points of the internal lock passed by this call (saturating at 2) */
static long g_trans;              /* critical sections of this call that changed the owner (saturating at 2) */
static vx_tid g_trans_from, g_trans_to;   /* the last such change */
static long g_notifies;           /* cond_.notify_one calls made by this call (saturating at 2) */
static vx_tid g_notify_owner;     /* owner_id_ at the time of the last notify_one */
static long g_registered;         /* util::register_lock - util::unregister_lock (not part of any contract) */

#define RELY_RANGE (g_waiters >= 0 && g_waiters <= VX_BIG && g_inflight >= 0 && g_inflight <= VX_BIG)
#define INV() INV_MTX(vx_self->owner_id_, g_waiters, g_inflight)
#define OWNS_L(l) ((l).owns && (l).m == &vx_self->mtx_ && vx_self->mtx_.held)
#define MTX_FRAME self->owner_id_, self->mtx_.held, g_cs_owner, g_waiters, g_inflight, g_waits, g_last_wake, g_releases, \
                  g_trans, g_trans_from, g_trans_to, g_notifies, g_notify_owner, g_registered, g_err, g_errs, g_thrown, g_ec.value

static void mtx_at_release(void)
{
  VX_ASSERT(GUAR(g_self, g_cs_owner, vx_self->owner_id_),
            "guarantee at release: the owner changed only invalid->self or self->invalid in this critical section (mutual exclusion)");
  VX_ASSERT(INV(), "monitor invariant at release: waiters > 0 and owner == invalid implies a wake-up is in flight (no unlock is lost)");
  if (vx_self->owner_id_ != g_cs_owner)
  {
    if (g_trans < 2) g_trans++;
    g_trans_from = g_cs_owner;
    g_trans_to = vx_self->owner_id_;
  }
  if (g_releases < 2) g_releases++;
}
static void mtx_at_acquire(void)
{
  vx_tid before = vx_self->owner_id_;
  vx_self->owner_id_ = nondet_long();
  g_waiters = nondet_long();
  g_inflight = nondet_long();
  /* environment step: other tasks' critical sections keep the invariant and obey RELY (each of them is an
   * instance of the units proved here, whose GUAR implies our RELY: lemma unit mutex.lemma.exclusion) */
  VX_ASSUME(RELY_RANGE && INV() && RELY(g_self, before, vx_self->owner_id_));
  g_cs_owner = vx_self->owner_id_;
}

/* ---- contract of detail::condition_variable as seen by a client holding the internal lock (C07) ---------- */
/* wait(l, ec): enqueue under the lock, release inside the suspension, re-acquire.  Returns `signaled` iff a
 * notifier dequeued us, otherwise (spurious resumption) `timeout` with our entry erased by reset_queue_entry.
 * ec is not touched (the parameter is unnamed in condition_variable.cpp). */
static int cv_wait(struct cv *c, struct ulock *l, struct error_code *ec)
{
  VX_ASSERT(vx_owns_p(l) && l->m == &vx_self->mtx_, "cv.wait called without the internal lock");
  VX_ASSERT(vx_self->owner_id_ != VX_INVALID_ID, "blocks only while the mutex is owned (owner != invalid)");
  VX_ASSERT(vx_self->owner_id_ != g_self, "blocks waiting for itself (self-deadlock)");
  g_waiters++;
  if (g_waits < 2) g_waits++;
  ulock_unlock(l);
  ulock_lock(l);
  if (nondet_bool())
  {
    VX_ASSUME(g_inflight >= 1); /* we run again because a notifier dequeued us: our wake-up was in flight */
    g_inflight--;
    g_last_wake = thread_restart_state_signaled;
    return thread_restart_state_signaled;
  }
  VX_ASSUME(g_waiters >= 1); /* resumed otherwise: our own entry is still queued; reset_queue_entry erases it */
  g_waiters--;
  g_last_wake = thread_restart_state_timeout;
  return thread_restart_state_timeout;
}
/* wait_until(l, abs_time, ec): as wait, `timeout` also when the deadline passed */
static int cv_wait_until(struct cv *c, struct ulock *l, long abs_time, struct error_code *ec)
{
  VX_ASSERT(vx_owns_p(l) && l->m == &vx_self->mtx_, "cv.wait_until called without the internal lock");
  VX_ASSERT(vx_self->owner_id_ != VX_INVALID_ID, "blocks only while the mutex is owned (owner != invalid)");
  g_waiters++;
  if (g_waits < 2) g_waits++;
  ulock_unlock(l);
  ulock_lock(l);
  if (nondet_bool())
  {
    VX_ASSUME(g_inflight >= 1); /* dequeued by a notifier */
    g_inflight--;
    g_last_wake = thread_restart_state_signaled;
    return thread_restart_state_signaled;
  }
  VX_ASSUME(g_waiters >= 1); /* our own entry is still queued at the deadline; reset_queue_entry erases it */
  g_waiters--;
  g_last_wake = thread_restart_state_timeout;
  return thread_restart_state_timeout;
}
/* notify_one(std::move(l), priority, ec): dequeues and resumes the front waiter if any; the by-value lock is
 * released when the call returns; returns "queue still non-empty"; with an empty queue it sets ec to success unless ec is `throws` (after resuming a waiter ec is left untouched) */
static bool cv_notify_one(struct cv *c, struct ulock l, int priority, struct error_code *ec)
{
  VX_ASSERT(vx_owns_v(l) && l.m == &vx_self->mtx_, "cv.notify_one called without the internal lock");
  bool more = false;
  if (g_notifies < 2) g_notifies++;
  g_notify_owner = vx_self->owner_id_;
  if (g_waiters > 0)
  {
    g_waiters--;
    g_inflight++;
    more = g_waiters > 0;
  }
  else if (ec != &vx_throws) ec->value = pika_error_success; /* as proved in C07 cv.notify_one: ec is reset only on the empty-queue path */
  ulock_dtor(&l);
  return more;
}

/* ---- environment: identity of the caller, lock registration (debug facility, compiled out in this build) -- */
static vx_tid vx_get_self_id(void) { return g_self; }
static void *vx_get_self_ptr(void) { return g_on_pika_thread ? (void *) &g_self : (void *) 0; }
static void vx_register_lock(void *m) { if (g_registered < VX_BIG) g_registered++; }
static void vx_unregister_lock(void *m) { if (g_registered > -VX_BIG) g_registered--; }
enum { execution_thread_priority_boost = 5 };
#endif
