/* units: the public pika::sliding_semaphore_var<> wrappers (set_max_difference / wait / try_wait / signal / signal_all): take the
 * internal lock exactly once, call the detail function exactly once with the lock held and with the caller's arguments IN THEIR ORDER
 * (set_max_difference(max_difference, lower_limit): both are std::int64_t, a swap type-checks), pass the result through and leave
 * the lock released (RAII lowered).  T-contracts; the detail functions are the units ssem.*.
 * (written by main after seeded change C08-6 was missed) */
#include "vx.h"
static struct vx_mutex *g_m;
static long g_acquires, g_releases, g_calls; static int g_which; static int64_t g_a1, g_a2; static int64_t g_ret; static bool g_bret;
#define MON_AT_RELEASE() do { if (g_releases < 2) g_releases++; } while (0)
#define MON_AT_ACQUIRE() do { if (g_acquires < 2) g_acquires++; } while (0)
#include "monitor.h"
struct dsem { int unused; };
struct psem { struct vx_mutex mtx_; struct dsem sem_; };
enum { D_NONE, D_SET_MAX_DIFFERENCE, D_WAIT, D_TRY_WAIT, D_SIGNAL, D_SIGNAL_ALL };
#define CALLED(w, a, b) do { g_which = (w); g_a1 = (a); g_a2 = (b); if (g_calls < 2) g_calls++; } while (0)
static void d_set_max_difference(struct dsem *s, struct ulock *l, int64_t max_difference, int64_t lower_limit)
{ VX_ASSERT(vx_owns_p(l), "detail::set_max_difference called with the lock held"); CALLED(D_SET_MAX_DIFFERENCE, max_difference, lower_limit); }
static void d_wait(struct dsem *s, struct ulock *l, int64_t upper_limit)
{ VX_ASSERT(vx_owns_p(l), "detail::wait called with the lock held"); CALLED(D_WAIT, upper_limit, 0); }
static bool d_try_wait(struct dsem *s, struct ulock *l, int64_t upper_limit)
{ VX_ASSERT(vx_owns_p(l), "detail::try_wait called with the lock held"); CALLED(D_TRY_WAIT, upper_limit, 0); g_bret = nondet_bool(); return g_bret; }
static void d_signal(struct dsem *s, struct ulock l, int64_t lower_limit)
{ VX_ASSERT(vx_owns_v(l), "detail::signal called with the lock held (moved in)"); CALLED(D_SIGNAL, lower_limit, 0); ulock_dtor(&l); }
static int64_t d_signal_all(struct dsem *s, struct ulock l)
{ VX_ASSERT(vx_owns_v(l), "detail::signal_all called with the lock held (moved in)"); CALLED(D_SIGNAL_ALL, 0, 0); g_ret = nondet_long(); ulock_dtor(&l); return g_ret; }
#define P_FRAME self->mtx_.held, g_acquires, g_releases, g_calls, g_which, g_a1, g_a2, g_ret, g_bret
#define P_PRE (!self->mtx_.held && g_acquires == 0 && g_releases == 0 && g_calls == 0)
#define P_POST(which, a, b) (!self->mtx_.held && g_acquires == 1 && g_releases == 1 && g_calls == 1 && g_which == (which) && g_a1 == (a) && g_a2 == (b))

#ifdef U_SET_MAX_DIFFERENCE
//@FUNC
void set_max_difference(struct psem *self, int64_t max_difference, int64_t lower_limit)
__CPROVER_requires(P_PRE)
/* the window size and the lower limit reach the detail object in that order */
__CPROVER_ensures(P_POST(D_SET_MAX_DIFFERENCE, max_difference, lower_limit))
__CPROVER_assigns(P_FRAME)
//@LIFT body
#endif
#ifdef U_WAIT
//@FUNC
void wait(struct psem *self, int64_t upper_limit)
__CPROVER_requires(P_PRE)
__CPROVER_ensures(P_POST(D_WAIT, upper_limit, 0))
__CPROVER_assigns(P_FRAME)
//@LIFT body
#endif
#ifdef U_TRY_WAIT
//@FUNC
bool try_wait(struct psem *self, int64_t upper_limit)
__CPROVER_requires(P_PRE)
__CPROVER_ensures(P_POST(D_TRY_WAIT, upper_limit, 0) && __CPROVER_return_value == g_bret)
__CPROVER_assigns(P_FRAME)
//@LIFT body
#endif
#ifdef U_SIGNAL
//@FUNC
void signal(struct psem *self, int64_t lower_limit)
__CPROVER_requires(P_PRE)
__CPROVER_ensures(P_POST(D_SIGNAL, lower_limit, 0))
__CPROVER_assigns(P_FRAME)
//@LIFT body
#endif
#ifdef U_SIGNAL_ALL
//@FUNC
int64_t signal_all(struct psem *self)
__CPROVER_requires(P_PRE)
__CPROVER_ensures(P_POST(D_SIGNAL_ALL, 0, 0) && __CPROVER_return_value == g_ret)
__CPROVER_assigns(P_FRAME)
//@LIFT body
#endif

void harness(void)
{
  struct psem s;
  s.mtx_.held = false; g_acquires = g_releases = g_calls = 0; g_which = D_NONE; g_a1 = g_a2 = 0; g_ret = 0; g_bret = false;
#ifdef U_SET_MAX_DIFFERENCE
  int64_t d = nondet_long(), l = nondet_long();
  set_max_difference(&s, d, l);
  if (d != l) VX_REACH("distinct_arguments");
#endif
#ifdef U_WAIT
  wait(&s, nondet_long());
#endif
#ifdef U_TRY_WAIT
  if (try_wait(&s, nondet_long())) VX_REACH("true"); else VX_REACH("false");
#endif
#ifdef U_SIGNAL
  signal(&s, nondet_long());
#endif
#ifdef U_SIGNAL_ALL
  signal_all(&s);
#endif
  VX_REACH("returned");
}
