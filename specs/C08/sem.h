/* C08 -- ghost state, monitor invariant and cv contract for detail::counting_semaphore.
 *
 * Protected state: value_ (and the cv queue, abstracted to ghost counters).
 *   g_waiters   number of entries in cond_'s queue
 *   g_inflight  wake-ups issued (notify_one dequeued a waiter) and not yet consumed by the woken waiter
 *   g_owed      notify_one calls the function under verification has still promised to make (signal only)
 * Monitor invariant (unit-permit API, i.e. every waiter waits for 1 permit):
 *   INV(owed):  waiters > 0  ==>  value_ <= inflight + owed
 *   "a waiter stays enqueued only while every available permit is already spoken for by a wake-up in flight
 *    or by a notification the releasing thread is still committed to issue" -- the safety form of
 *   "a task blocked in acquire proceeds once enough permits have been released".
 */
#ifndef C08_SEM_H
#define C08_SEM_H
#include "vx.h"

struct cv { int unused; };
struct csem { ptrdiff_t value_; struct cv cond_; };

static struct csem *vx_self;
static long g_waiters, g_inflight, g_owed;
static ptrdiff_t g_count;        /* ghost copy of the `count` argument of the call under verification */
static ptrdiff_t g_cs_value;     /* value_ at the beginning of the current critical section */
static long g_waits;             /* number of blocking waits performed by this call */
static int g_last_wake;          /* result of the last blocking wait */
static bool g_lastrel_ok;        /* INV(0) held at the last release point */
static long g_releases;          /* number of release points passed by this call (saturating at 2) */
static ptrdiff_t g_first_rel_value; /* value_ at the first release point */
static struct vx_mutex *g_mtx;

#define VX_BIG 1000000000L
#define OWNS_P(l) ((l)->owns && (l)->m->held)
#define SEM_FRAME self->value_, g_cs_value, g_waiters, g_inflight, g_waits, g_last_wake, g_lastrel_ok, g_releases, g_first_rel_value, l->owns, l->m->held
#define RELY_RANGE (vx_self->value_ >= 0 && vx_self->value_ <= VX_BIG && g_waiters >= 0 && g_waiters <= VX_BIG && \
                    g_inflight >= 0 && g_inflight <= VX_BIG)
#define INV(owed) (g_count != 1 || g_waiters == 0 || vx_self->value_ <= g_inflight + (owed))

#define MON_AT_RELEASE() do { \
    VX_ASSERT(vx_self->value_ >= 0, "monitor invariant at release: value_ >= 0 (acquisitions never exceed initial + released)"); \
    VX_ASSERT(INV(g_owed), "monitor invariant at release: a waiter stays queued only while all permits are spoken for (no lost wake-up)"); \
    g_lastrel_ok = INV(0); if (g_releases == 0) g_first_rel_value = vx_self->value_; \
    if (g_releases < 2) g_releases++; } while (0)
#define MON_AT_ACQUIRE() do { \
    vx_self->value_ = nondet_ptrdiff(); g_waiters = nondet_long(); g_inflight = nondet_long(); \
    VX_ASSUME(RELY_RANGE && INV(g_owed)); g_cs_value = vx_self->value_; } while (0)
#include "monitor.h"

/* ---- contract of detail::condition_variable as seen by a client holding the lock (proved in C07) ---- */
/* blocks: enqueue under the lock, release inside the suspension, return after a notifier dequeued us */
static int cv_wait(struct cv *c, struct ulock *l)
{
  VX_ASSERT(vx_owns_p(l), "cv.wait called without the internal lock");
  VX_ASSERT(vx_self->value_ < g_count, "blocks only while fewer than `count` permits are available");
  g_waiters++;
  if (g_waits < 2) g_waits++; /* saturating ghost: 0, 1, many */
  ulock_unlock(l);
  ulock_lock(l);
  /* as proved for detail::condition_variable::wait (C07 unit cv.wait): `signaled` iff a notifier dequeued us; if the
   * suspension ends without a notifier the entry is still queued, is erased, and the result is `timeout` */
  if (nondet_bool())
  {
    VX_ASSUME(g_inflight >= 1); /* we run again because a notifier dequeued us: our wake-up was in flight */
    g_inflight--;
    g_last_wake = thread_restart_state_signaled;
    return thread_restart_state_signaled;
  }
  VX_ASSUME(g_waiters >= 1); /* our own entry is still in the queue; reset_queue_entry erases it */
  g_waiters--;
  g_last_wake = thread_restart_state_timeout;
  return thread_restart_state_timeout;
}
/* timed: returns signaled (dequeued by a notifier) or timeout (still enqueued at the deadline; entry erased) */
static int cv_wait_until(struct cv *c, struct ulock *l, long abs_time)
{
  VX_ASSERT(vx_owns_p(l), "cv.wait_until called without the internal lock");
  VX_ASSERT(vx_self->value_ < g_count, "blocks only while fewer than `count` permits are available");
  g_waiters++;
  if (g_waits < 2) g_waits++; /* saturating ghost: 0, 1, many */
  ulock_unlock(l);
  ulock_lock(l);
  if (nondet_bool())
  {
    VX_ASSUME(g_inflight >= 1);
    g_inflight--;
    g_last_wake = thread_restart_state_signaled;
    return thread_restart_state_signaled;
  }
  VX_ASSUME(g_waiters >= 1); /* our own entry is still in the queue; reset_queue_entry erases it */
  g_waiters--;
  g_last_wake = thread_restart_state_timeout;
  return thread_restart_state_timeout;
}
/* notify_one(std::move(l)): dequeues the front waiter if any, resumes it, releases the lock;
 * returns true iff the queue is still non-empty */
static long g_notifies;
static bool cv_notify_one(struct cv *c, struct ulock l)
{
  VX_ASSERT(vx_owns_v(l), "cv.notify_one called without the internal lock");
  bool more = false;
  g_notifies++;
  if (g_owed > 0) g_owed--; /* one of the promised notify_one calls has now been made */
  if (g_waiters > 0)
  {
    g_waiters--;
    g_inflight++;
    more = g_waiters > 0;
  }
  ulock_dtor(&l);
  return more;
}
static size_t cv_size(struct cv *c, struct ulock l_ref) { return (size_t) g_waiters; }
#endif
