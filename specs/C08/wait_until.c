/* unit: detail::counting_semaphore::wait_until / wait / try_wait / try_acquire  (M + I contracts) */
#include "sem.h"

#ifdef U_WAIT_UNTIL
//@FUNC
bool wait_until(struct csem *self, struct ulock *l, long abs_time, ptrdiff_t count)
__CPROVER_requires(self == vx_self && OWNS_P(l) && count >= 1 && count <= VX_BIG && g_count == count)
__CPROVER_requires(RELY_RANGE && INV(0) && g_owed == 0 && g_waits == 0 && g_cs_value == self->value_)
/* true exactly when it consumed the permits, in the critical section in which they were available */
__CPROVER_ensures(__CPROVER_return_value ==> (g_cs_value >= count && self->value_ == g_cs_value - count))
/* false leaves the count untouched ... */
__CPROVER_ensures(!__CPROVER_return_value ==> self->value_ == g_cs_value)
/* ... and is returned only if the last blocking wait ended by timeout ("returns true if a permit was released before its deadline") */
__CPROVER_ensures(!__CPROVER_return_value ==> (g_waits >= 1 && g_last_wake == thread_restart_state_timeout))
__CPROVER_ensures(OWNS_P(l) && self->value_ >= 0 && INV(0))
__CPROVER_assigns(SEM_FRAME)
//@LIFT body
#endif

#ifdef U_WAIT
//@FUNC
void wait(struct csem *self, struct ulock *l, ptrdiff_t count)
__CPROVER_requires(self == vx_self && OWNS_P(l) && count >= 1 && count <= VX_BIG && g_count == count)
__CPROVER_requires(RELY_RANGE && INV(0) && g_owed == 0 && g_waits == 0 && g_cs_value == self->value_)
__CPROVER_ensures(g_cs_value >= count && self->value_ == g_cs_value - count)
__CPROVER_ensures(OWNS_P(l) && self->value_ >= 0 && INV(0))
__CPROVER_assigns(SEM_FRAME)
//@LIFT body
#endif

#ifdef U_TRY_ACQUIRE
//@FUNC
bool try_acquire(struct csem *self, struct ulock *l)
__CPROVER_requires(self == vx_self && OWNS_P(l) && g_count == 1)
__CPROVER_requires(RELY_RANGE && INV(0) && g_owed == 0 && g_cs_value == self->value_)
__CPROVER_ensures(__CPROVER_return_value == (__CPROVER_old(self->value_) >= 1))
__CPROVER_ensures(self->value_ == __CPROVER_old(self->value_) - (__CPROVER_return_value ? 1 : 0))
__CPROVER_ensures(OWNS_P(l) && self->value_ >= 0 && INV(0) && g_waiters == __CPROVER_old(g_waiters))
__CPROVER_assigns(SEM_FRAME)
//@LIFT body
#endif

#ifdef U_TRY_WAIT
void wait(struct csem *self, struct ulock *l, ptrdiff_t count)
__CPROVER_requires(self == vx_self && OWNS_P(l) && count >= 1 && count <= VX_BIG && g_count == count)
__CPROVER_requires(RELY_RANGE && INV(0) && g_owed == 0 && g_waits == 0 && g_cs_value == self->value_)
__CPROVER_ensures(g_cs_value >= count && self->value_ == g_cs_value - count)
__CPROVER_ensures(OWNS_P(l) && self->value_ >= 0 && INV(0))
__CPROVER_assigns(SEM_FRAME)
;
//@FUNC
bool try_wait(struct csem *self, struct ulock *l, ptrdiff_t count)
__CPROVER_requires(self == vx_self && OWNS_P(l) && count >= 1 && count <= VX_BIG && g_count == count)
__CPROVER_requires(RELY_RANGE && INV(0) && g_owed == 0 && g_waits == 0 && g_cs_value == self->value_)
__CPROVER_ensures(__CPROVER_return_value ==> (g_cs_value >= count && self->value_ == g_cs_value - count))
__CPROVER_ensures(!__CPROVER_return_value ==> (self->value_ == __CPROVER_old(self->value_) && g_waits == 0))
__CPROVER_ensures(OWNS_P(l) && self->value_ >= 0 && INV(0))
__CPROVER_assigns(SEM_FRAME)
//@LIFT body
#endif

void harness(void)
{
  struct csem s;
  struct vx_mutex m;
  struct ulock l;
  vx_self = &s;
  s.value_ = nondet_ptrdiff();
  g_waiters = nondet_long();
  g_inflight = nondet_long();
  g_count = nondet_ptrdiff();
  g_owed = 0;
  g_waits = 0;
  g_last_wake = 0;
  g_cs_value = s.value_;
  m.held = true;
  l.m = &m;
  l.owns = true;
#ifdef U_WAIT_UNTIL
  bool r = wait_until(&s, &l, nondet_long(), g_count);
  if (r) { VX_REACH("acquired"); if (g_waits > 0) VX_REACH("acquired_after_blocking"); } else VX_REACH("timed_out");
#endif
#ifdef U_WAIT
  wait(&s, &l, g_count);
  VX_REACH("acquired");
  if (g_waits > 1) VX_REACH("blocked_twice");
#endif
#ifdef U_TRY_ACQUIRE
  bool r = try_acquire(&s, &l);
  if (r) VX_REACH("acquired"); else VX_REACH("refused");
#endif
#ifdef U_TRY_WAIT
  bool r = try_wait(&s, &l, g_count);
  if (r) VX_REACH("acquired"); else VX_REACH("refused");
#endif
}
