from vx.lift import Lift, Sub, Call, Members, Guard, DropStmt
from vx.run import Unit
from vx import census

CS = "libs/pika/synchronization/src/detail/counting_semaphore.cpp"
HPP = "libs/pika/synchronization/include/pika/synchronization/counting_semaphore.hpp"
ENUM = Sub(r"(?:\w+::)*thread_restart_state::(\w+)", r"thread_restart_state_\1", None)

LOOP_WAIT = """
__CPROVER_assigns(SEM_FRAME)
__CPROVER_loop_invariant(OWNS_P(l) && RELY_RANGE && g_cs_value == self->value_ && g_waits >= 0 && g_waits <= 2)
__CPROVER_loop_invariant(g_count != 1 || g_waiters == 0 || self->value_ <= g_inflight + (g_waits > 0 ? 1 : 0))
"""

UNITS = [
    Unit("csem.wait_until", "wait_until.c", defines=["U_WAIT_UNTIL"], enforce="wait_until",
         lifts={"body": Lift(CS, r"bool counting_semaphore::wait_until\(", rules=[
             Call(r"cond_\.wait_until", "cv_wait_until(&self->cond_, {0}, {1})", 1),
             ENUM, Members(["value_"])], loops={1: LOOP_WAIT, "count": 1})},
         funcs=[CS + ": detail::counting_semaphore::wait_until"], min_obligations=40),
    Unit("csem.wait", "wait_until.c", defines=["U_WAIT"], enforce="wait",
         lifts={"body": Lift(CS, r"void counting_semaphore::wait\(", rules=[
             Call(r"cond_\.wait", "cv_wait(&self->cond_, {0})", 1),
             Members(["value_"])], loops={1: LOOP_WAIT, "count": 1, "allow_missing": True})},
         funcs=[CS + ": detail::counting_semaphore::wait"], min_obligations=40),
    Unit("csem.try_acquire", "wait_until.c", defines=["U_TRY_ACQUIRE"], enforce="try_acquire",
         lifts={"body": Lift(CS, r"bool counting_semaphore::try_acquire\(", rules=[Members(["value_"])])},
         funcs=[CS + ": detail::counting_semaphore::try_acquire"], min_obligations=10),
    Unit("csem.try_wait", "wait_until.c", defines=["U_TRY_WAIT"], enforce="try_wait", replace=["wait"],
         lifts={"body": Lift(CS, r"bool counting_semaphore::try_wait\(", rules=[
             Call(r"\bwait", "wait(self, {0}, {1})", 1), Members(["value_"])])},
         funcs=[CS + ": detail::counting_semaphore::try_wait"], min_obligations=10),
]

LOOP_SIGNAL = """
__CPROVER_assigns(i, l, SIG_FRAME)
__CPROVER_loop_invariant(0 <= i && i <= count && g_owed == count - i && l.owns && l.m == mtx && mtx == g_mtx && mtx->held)
__CPROVER_loop_invariant(self->value_ >= 0 && self->value_ <= 2 * VX_BIG && g_waiters >= 0 && g_waiters <= VX_BIG && g_inflight >= 0 && g_inflight <= 2 * VX_BIG)
__CPROVER_loop_invariant(g_waiters == 0 || self->value_ <= g_inflight + g_owed)
__CPROVER_loop_invariant(g_notifies >= 0 && g_notifies <= i)
__CPROVER_loop_invariant(i == 0 ? (g_releases == 0 && self->value_ == vx_v0 + count) : (g_releases >= 1 && g_first_rel_value == vx_v0 + count))
__CPROVER_loop_invariant((i > 0 && g_owed == 0) ==> g_lastrel_ok)
__CPROVER_decreases(count - i)
"""

UNITS += [
    Unit("csem.signal", "signal.c", defines=["U_SIGNAL"], enforce="signal",
         lifts={"body": Lift(CS, r"void counting_semaphore::signal\(", rules=[
             Sub(r"mutex_type\* mtx = l\.mutex\(\);", "struct vx_mutex* mtx = l.m; ptrdiff_t vx_v0 = self->value_;", 1),
             Sub(r"std::move\(l\)", "ulock_move(&l)", 1),
             Call(r"cond_\.notify_one", "cv_notify_one(&self->cond_, {0})", 1),
             Sub(r"l = std::unique_lock<mutex_type>\(\*mtx\);", "ulock_assign(&l, ulock_make(mtx));", 1),
             Guard(r"^\{", "{", "ulock_dtor(&l);", 1),
             Members(["value_"])], loops={1: LOOP_SIGNAL, "count": 1})},
         funcs=[CS + ": detail::counting_semaphore::signal"], min_obligations=40),
]

SS = "libs/pika/synchronization/src/detail/sliding_semaphore.cpp"
LOOP_SWAIT = """
__CPROVER_assigns(W_FRAME)
__CPROVER_loop_invariant(OWNS_P(l) && RANGE && g_cs_lower == self->lower_limit_ && g_cs_maxdiff == self->max_difference_ && (g_waits == 0 ==> self->max_difference_ == vx_md0) && g_waits >= 0 && g_waits <= 2 && g_releases >= 0 && g_releases <= 2)
"""
LOOP_SSIGNAL = """
__CPROVER_assigns(count, l, S_FRAME)
__CPROVER_loop_invariant(l.owns && l.m == mtx && mtx == g_mtx && mtx->held && RANGE && g_cs_lower <= self->lower_limit_)
__CPROVER_loop_invariant(g_orig <= count || g_orig == 0)
__CPROVER_loop_invariant(g_orig >= 0 && (count <= 0 ==> g_orig == 0))
__CPROVER_loop_invariant(g_releases == 0 ? (self->lower_limit_ == VX_MAX(lower_limit, vx_l0) && g_notifies == 0) : g_first_rel_lower == VX_MAX(lower_limit, vx_l0))
__CPROVER_loop_invariant(g_notifies >= 0 && g_notifies <= 2 && g_releases >= 0 && g_releases <= 2 && (g_notifies == 0) == (g_releases == 0))
"""
UNITS += [
    Unit("ssem.wait", "sliding.c", defines=["U_WAIT"], enforce="wait",
         lifts={"body": Lift(SS, r"void sliding_semaphore::wait\(", rules=[
             Call(r"cond_\.wait", "cv_wait(&self->cond_, {0})", 1), Members(["max_difference_", "lower_limit_"]),
             Sub(r"^\s*\{", "{ int64_t vx_md0 = self->max_difference_;", 1)],   # ghost: max_difference_ at entry (loop invariant only)
             loops={1: LOOP_SWAIT, "count": 1})},
         funcs=[SS + ": detail::sliding_semaphore::wait"], min_obligations=20),
    Unit("ssem.try_wait", "sliding.c", defines=["U_TRY_WAIT"], enforce="try_wait", replace=["wait"],
         lifts={"body": Lift(SS, r"bool sliding_semaphore::try_wait\(", rules=[
             Call(r"\bwait", "wait(self, {0}, {1})", 1), Members(["max_difference_", "lower_limit_"])])},
         funcs=[SS + ": detail::sliding_semaphore::try_wait"], min_obligations=10),
    Unit("ssem.signal", "sliding.c", defines=["U_SIGNAL"], enforce="signal",
         lifts={"body": Lift(SS, r"void sliding_semaphore::signal\(", rules=[
             Sub(r"mutex_type\* mtx = l\.mutex\(\);", "struct vx_mutex* mtx = l.m; int64_t vx_l0 = self->lower_limit_;", 1),
             Sub(r"\(std::max\)", "VX_MAX", None),
             Call(r"cond_\.size", "cv_size(&self->cond_, &{0})", 1),
             Sub(r"std::move\(l\)", "ulock_move(&l)", 1),
             Call(r"cond_\.notify_one", "cv_notify_one(&self->cond_, {0})", 1),
             Sub(r"l = std::unique_lock<mutex_type>\(\*mtx\);", "ulock_assign(&l, ulock_make(mtx));", 1),
             Guard(r"^\{", "{", "ulock_dtor(&l);", 1),
             Members(["lower_limit_"])], loops={1: LOOP_SSIGNAL, "count": 1})},
         funcs=[SS + ": detail::sliding_semaphore::signal"], min_obligations=30),
    Unit("ssem.set_max_difference", "sliding.c", defines=["U_SET_MAX_DIFFERENCE"], enforce="set_max_difference",
         lifts={"body": Lift(SS, r"void sliding_semaphore::set_max_difference\(", rules=[Members(["max_difference_", "lower_limit_"])])},
         funcs=[SS + ": detail::sliding_semaphore::set_max_difference"]),
]

PUB_RULES = [
    Sub(r"std::move\((\w+)\)", r"ulock_move(&\1)", None),
    Call(r"sem_\.signal", "d_signal(&self->sem_, {0}, {1})", None),
    Call(r"sem_\.try_acquire", "d_try_acquire(&self->sem_, &{0})", None),
    Call(r"sem_\.wait_until", "d_wait_until(&self->sem_, &{0}, {1}, {2})", None),
    Call(r"sem_\.wait", "d_wait(&self->sem_, &{0}, {1})", None),
    Guard(r"std::unique_lock<mutex_type> (\w+)\((\w+)\);", r"struct ulock \1 = ulock_make(&self->\2);", r"ulock_dtor(&\1);", None),
]
for nm, pat, defs in [("release", r"void release\(std::ptrdiff_t update = 1\)", "U_RELEASE"),
                      ("try_acquire", r"bool try_acquire\(\) noexcept", "U_TRY_ACQUIRE"),
                      ("acquire", r"void acquire\(\)", "U_ACQUIRE"),
                      ("try_acquire_until", r"bool try_acquire_until\(pika::chrono::steady_time_point const& abs_time\)", "U_TRY_ACQUIRE_UNTIL")]:
    UNITS.append(Unit("public." + nm, "public.c", defines=[defs], enforce=nm,
                      lifts={"body": Lift(HPP, pat, rules=PUB_RULES)},
                      funcs=[HPP + ": pika::counting_semaphore<>::" + nm], min_obligations=5))
UNITS.append(Unit("public.try_acquire_for", "public.c", defines=["U_TRY_ACQUIRE_FOR"], enforce="try_acquire_for",
                  lifts={"body": Lift(HPP, r"bool try_acquire_for\(pika::chrono::steady_duration const& rel_time\)", rules=[
                      Sub(r"\b(\w+)\.from_now\(\)", r"dur_from_now(\1)", None),
                      Sub(r"\b(\w+)\.value\(\)", r"dur_value(\1)", None),
                      Sub(r"(?:pika|std)::chrono::steady_clock::duration::zero\(\)", "dur_zero()", None),
                      Sub(r"(?:pika|std)::chrono::steady_clock::now\(\)", "clock_now()", None),
                      Call(r"(?<![\w.>:])try_acquire_until(?!\s*\(\s*self\b)", "try_acquire_until(self, {0})", None)])},
                  funcs=[HPP + ": pika::counting_semaphore<>::try_acquire_for"], min_obligations=5))

# ---- public sliding_semaphore_var<> forwarders (added by main after seeded change C08-6 was missed) ----
SHPP = "libs/pika/synchronization/include/pika/synchronization/sliding_semaphore.hpp"
PUBS_RULES = [
    Sub(r"std::move\((\w+)\)", r"ulock_move(&\1)", None),
    Call(r"sem_\.set_max_difference", "d_set_max_difference(&self->sem_, &{0}, {1}, {2})", None),
    Call(r"sem_\.signal_all", "d_signal_all(&self->sem_, {0})", None),
    Call(r"sem_\.signal", "d_signal(&self->sem_, {0}, {1})", None),
    Call(r"sem_\.try_wait", "d_try_wait(&self->sem_, &{0}, {1})", None),
    Call(r"sem_\.wait", "d_wait(&self->sem_, &{0}, {1})", None),
    Guard(r"std::unique_lock<mutex_type> (\w+)\((\w+)\);", r"struct ulock \1 = ulock_make(&self->\2);", r"ulock_dtor(&\1);", None),
]
for nm, pat, defs in [("set_max_difference", r"void set_max_difference\(std::int64_t max_difference, std::int64_t lower_limit = 0\)", "U_SET_MAX_DIFFERENCE"),
                      ("wait", r"void wait\(std::int64_t upper_limit\)", "U_WAIT"),
                      ("try_wait", r"bool try_wait\(std::int64_t upper_limit = 1\)", "U_TRY_WAIT"),
                      ("signal", r"void signal\(std::int64_t lower_limit\)", "U_SIGNAL"),
                      ("signal_all", r"std::int64_t signal_all\(\)", "U_SIGNAL_ALL")]:
    UNITS.append(Unit("public.sliding." + nm, "public_sliding.c", defines=[defs], enforce=nm,
                      lifts={"body": Lift(SHPP, pat, rules=PUBS_RULES)},
                      funcs=[SHPP + ": pika::sliding_semaphore_var<>::" + nm], min_obligations=5,
                      doc="T: one lock acquisition, one call of the detail function with the lock held and the caller's arguments in their order, result passed through, lock released"))

META = {
    "trusted_base": [
        "specs/C08/sem.h cv_wait/cv_wait_until/cv_notify_one/cv_size: contract of detail::condition_variable as seen by a "
        "client that holds the internal lock (enqueue under the lock, lock released only inside the suspension, "
        "wait and wait_until return signaled (a notifier dequeued us) or timeout (entry still queued, erased), notify_one dequeues the front waiter and returns 'still non-empty' -- exactly what C07's units cv.wait / cv.wait_until / cv.notify_one prove); "
        "the cv implementation itself is the subject of C07",
        "vx/prelude/monitor.h: std::unique_lock / spinlock modelled as a ghost 'held' bit (A-LOCK: mutual exclusion trusted)",
        "ghost counters bounded by 10^9 (RELY_RANGE) so that ghost arithmetic cannot overflow",
    ],
    "assumptions": [
        "deadlines are opaque: 'a permit was released before its deadline' is decided as 'the cv reported signaled'",
        "no-lost-wake-up invariant INV is stated for the unit-permit API (count == 1), which is all the public "
        "counting_semaphore/binary_semaphore wrappers use",
    ],
    "not_decided": ["real time", "liveness of the woken task (C02)", "sync_wait's use of the semaphore"],
}

STATIC = [
    census.enum("thread_restart_state", "libs/pika/coroutines/include/pika/coroutines/thread_enums.hpp", "thread_restart_state",
                {"unknown": 0, "signaled": 1, "timeout": 2, "terminate": 3, "abort": 4}),
    # A-CLOSED: value_ of detail::counting_semaphore is written only in the lifted functions (+ the constructor)
    census.sites("counting_semaphore.value_ writes", ["libs/pika/synchronization/src/detail/counting_semaphore.cpp"],
                 r"\bvalue_\s*(?:[-+]?=(?!=)|\+\+|--)|(?:\+\+|--)\s*value_", 4),
    census.sites("sliding_semaphore.lower_limit_ writes", ["libs/pika/synchronization/src/detail/sliding_semaphore.cpp"],
                 r"\blower_limit_\s*=(?!=)", 2),
]


# ---- C07 units reused (added after seeded changes C08-8 / C09-8 were missed): a waiter that is a plain OS thread (sync_wait's main
# ---- thread, any std::thread) blocks and is woken through default_agent (execution_base/src/this_thread.cpp); resume() must wait
# ---- until the target has really suspended, else a wake-up that arrives between "enqueued, lock dropped" and "asleep" is lost
_c07 = {"UNITS": [], "VX_NO_REUSE": True}
if not globals().get("VX_NO_REUSE"):     # reuse is never transitive: the other spec is loaded without ITS reuse blocks (no cycles)
    exec(compile(open("/verif/specs/C07/spec.py").read(), "/verif/specs/C07/spec.py", "exec"), _c07)
for _u in _c07["UNITS"]:
    if _u.name in ("agent.da.ctor", "agent.da.suspend", "agent.da.resume", "agent.da.abort", "agent.da.lemma.rely_guarantee", "agent.da.lemma.suspend_resume"):
        _u.name = "c07." + _u.name
        _u.template = "../C07/" + _u.template.replace("../C07/", "")
        UNITS.append(_u)
META["trusted_base"] = list(META.get("trusted_base", [])) + ["units c07.agent.da.* are the C07 units of the same name (specs/C07/agent_da.c) with their trusted base"]


# ---- C02 units reused (added after seeded changes C13-9 / C06-9 / C08-9 were missed): every wake-up of a pika task blocked in this
# ---- facility ends in set_thread_state(pending); when the waiter still reads `active` (it has enqueued itself and dropped the internal
# ---- lock but its worker has not stored `suspended` yet) the wake-up is carried by the helper set_active_state, which may drop it only
# ---- when the target was re-activated since.  Same templates, same contracts as C02.
_c02s = {"UNITS": [], "VX_NO_REUSE": True}
if not globals().get("VX_NO_REUSE"):
    exec(compile(open("/verif/specs/C02/spec.py").read(), "/verif/specs/C02/spec.py", "exec"), _c02s)
for _u in _c02s["UNITS"]:
    if _u.name in ("sts.set_thread_state", "sts.set_active_state", "agent.do_resume", "agent.do_yield"):
        _u.name = "c02." + _u.name
        _u.template = "../C02/" + _u.template
        UNITS.append(_u)
META["trusted_base"] = list(META.get("trusted_base", [])) + ["units c02.sts.* / c02.agent.* are the C02 units of the same name (specs/C02/sts.c, c02.h) with their trusted base"]


# ---- C07 units reused (added after seeded change C09-9 was missed): the release loops of latch / semaphores run `while (cond_.notify_one(..))`:
# ---- detail::condition_variable::notify_one returns "more waiters left" -- exactly when the queue is non-empty after its dequeue
_c07c = {"UNITS": [], "VX_NO_REUSE": True}
if not globals().get("VX_NO_REUSE"):
    exec(compile(open("/verif/specs/C07/spec.py").read(), "/verif/specs/C07/spec.py", "exec"), _c07c)
for _u in _c07c["UNITS"]:
    if _u.name in ("cv.wait", "cv.wait_until", "cv.notify_one", "cv.notify_all", "cv.abort_all"):
        _u.name = "c07." + _u.name
        _u.template = "../C07/" + _u.template
        UNITS.append(_u)
META["trusted_base"] = list(META.get("trusted_base", [])) + ["units c07.cv.* are the C07 units of the same name (specs/C07/cv.c, cv.h) with their trusted base"]
