/* units: detail::sliding_semaphore::{wait, try_wait, signal, signal_all, set_max_difference} */
#include "vx.h"
struct cv { int unused; };
struct ssem { int64_t max_difference_; int64_t lower_limit_; struct cv cond_; };
static struct ssem *vx_self;
static struct vx_mutex *g_mtx;
static long g_waiters;          /* entries in cond_'s queue */
static long g_orig;             /* of those, waiters that were already queued when signal() was entered (FIFO: at the front) */
static int64_t g_upper;         /* ghost copy of the upper_limit argument of the call under verification */
static long g_waits, g_releases, g_notifies;
static int64_t g_cs_lower, g_cs_maxdiff, g_first_rel_lower;
static bool g_last_left_empty;
#define VX_BIG 1000000000L
#define LIM (INT64_MAX / 4)
#define RANGE (vx_self->lower_limit_ >= -LIM && vx_self->lower_limit_ <= LIM && vx_self->max_difference_ >= 0 && vx_self->max_difference_ <= LIM && \
               g_waiters >= 0 && g_waiters <= VX_BIG && g_orig >= 0 && g_orig <= g_waiters)
/* rely: other signal() calls never decrease lower_limit_; set_max_difference (a public member, callable at any time under the
 * same lock) replaces BOTH max_difference_ and lower_limit_ by arbitrary values.  The wait units (U_WAIT / U_TRY_WAIT) are
 * verified against both kinds of interference; the signal unit's guarantee ("never decreases") speaks about signal only. */
#if defined(U_WAIT) || defined(U_TRY_WAIT)
#define ENV_RECONFIGURES 1
#else
#define ENV_RECONFIGURES 0
#endif
#define MON_AT_RELEASE() do { \
    VX_ASSERT(vx_self->lower_limit_ >= g_cs_lower, "guarantee: lower_limit_ never decreases within a critical section"); \
    if (g_releases == 0) g_first_rel_lower = vx_self->lower_limit_; if (g_releases < 2) g_releases++; } while (0)
#define MON_AT_ACQUIRE() do { \
    int64_t vx_old_lower = vx_self->lower_limit_; long vx_old_orig = g_orig; \
    vx_self->lower_limit_ = nondet_i64(); g_waiters = nondet_long(); g_orig = nondet_long(); \
    if (ENV_RECONFIGURES) vx_self->max_difference_ = nondet_i64(); \
    VX_ASSUME(RANGE && (ENV_RECONFIGURES || vx_self->lower_limit_ >= vx_old_lower) && g_orig <= vx_old_orig); \
    g_cs_lower = vx_self->lower_limit_; g_cs_maxdiff = vx_self->max_difference_; } while (0)
#include "monitor.h"
#define OWNS_P(l) ((l)->owns && (l)->m->held)
#define BLOCKED(upper) ((upper) - vx_self->max_difference_ > vx_self->lower_limit_)

static int cv_wait(struct cv *c, struct ulock *l)
{
  VX_ASSERT(vx_owns_p(l), "cv.wait called without the internal lock");
  VX_ASSERT(BLOCKED(g_upper), "blocks only while upper_limit - max_difference > lower_limit");
  if (g_waiters < VX_BIG) g_waiters++;
  if (g_waits < 2) g_waits++;
  ulock_unlock(l);
  ulock_lock(l);
  return thread_restart_state_signaled;
}
static size_t cv_size(struct cv *c, struct ulock *l) { VX_ASSERT(vx_owns_p(l), "cv.size called without the internal lock"); return (size_t) g_waiters; }
static bool cv_notify_one(struct cv *c, struct ulock l)
{
  VX_ASSERT(vx_owns_v(l), "cv.notify_one called without the internal lock");
  bool more = false;
  if (g_notifies < 2) g_notifies++;
  if (g_waiters > 0) { g_waiters--; if (g_orig > 0) g_orig--; more = g_waiters > 0; }
  g_last_left_empty = (g_waiters == 0);
  ulock_dtor(&l);
  return more;
}
#define VX_MAX(a, b) ((a) > (b) ? (a) : (b))
#define W_FRAME vx_self->lower_limit_, vx_self->max_difference_, g_waiters, g_orig, g_waits, g_releases, g_first_rel_lower, g_cs_lower, g_cs_maxdiff, l->owns, l->m->held

#ifdef U_WAIT
//@FUNC
void wait(struct ssem *self, struct ulock *l, int64_t upper_limit)
__CPROVER_requires(self == vx_self && OWNS_P(l) && RANGE && g_upper == upper_limit && upper_limit >= -LIM && upper_limit <= LIM && g_waits == 0 && g_cs_lower == self->lower_limit_ && g_cs_maxdiff == self->max_difference_)
/* returns only once the signalled lower bound is within the configured distance, in the current critical section */
__CPROVER_ensures(OWNS_P(l) && RANGE && !BLOCKED(upper_limit) && self->lower_limit_ == g_cs_lower)
/* a call that finds the bound within distance neither blocks nor changes anything */
__CPROVER_ensures(!(upper_limit - __CPROVER_old(self->max_difference_) > __CPROVER_old(self->lower_limit_)) ==> (g_waits == 0 && self->lower_limit_ == __CPROVER_old(self->lower_limit_)))
/* wait itself never writes max_difference_ (it is the value found in the final critical section) */
__CPROVER_ensures(self->max_difference_ == g_cs_maxdiff && (g_waits == 0 ==> self->max_difference_ == __CPROVER_old(self->max_difference_)))
__CPROVER_assigns(W_FRAME)
//@LIFT body
#endif

#ifdef U_TRY_WAIT
void wait(struct ssem *self, struct ulock *l, int64_t upper_limit)
__CPROVER_requires(self == vx_self && OWNS_P(l) && RANGE && g_upper == upper_limit && upper_limit >= -LIM && upper_limit <= LIM && g_waits == 0 && g_cs_lower == self->lower_limit_)
__CPROVER_ensures(OWNS_P(l) && RANGE && !BLOCKED(upper_limit) && self->lower_limit_ == g_cs_lower)
/* a call that finds the bound within distance neither blocks nor changes anything */
__CPROVER_ensures(!(upper_limit - __CPROVER_old(self->max_difference_) > __CPROVER_old(self->lower_limit_)) ==> (g_waits == 0 && self->lower_limit_ == __CPROVER_old(self->lower_limit_)))
/* wait itself never writes max_difference_ (it is the value found in the final critical section) */
__CPROVER_ensures(self->max_difference_ == g_cs_maxdiff && (g_waits == 0 ==> self->max_difference_ == __CPROVER_old(self->max_difference_)))
__CPROVER_assigns(W_FRAME)
;
//@FUNC
bool try_wait(struct ssem *self, struct ulock *l, int64_t upper_limit)
__CPROVER_requires(self == vx_self && OWNS_P(l) && RANGE && g_upper == upper_limit && upper_limit >= -LIM && upper_limit <= LIM && g_waits == 0 && g_cs_lower == self->lower_limit_)
/* true exactly when wait() would not have blocked; never blocks; false changes nothing */
__CPROVER_ensures(__CPROVER_return_value == !(upper_limit - __CPROVER_old(self->max_difference_) > __CPROVER_old(self->lower_limit_)))
__CPROVER_ensures(OWNS_P(l) && g_waits == 0 && self->lower_limit_ == __CPROVER_old(self->lower_limit_) && self->max_difference_ == __CPROVER_old(self->max_difference_))
__CPROVER_assigns(W_FRAME)
//@LIFT body
#endif

#ifdef U_SIGNAL
#define S_FRAME vx_self->lower_limit_, g_waiters, g_orig, g_notifies, g_releases, g_first_rel_lower, g_cs_lower, g_cs_maxdiff, g_last_left_empty, g_mtx->held
//@FUNC
void signal(struct ssem *self, struct ulock l, int64_t lower_limit)
__CPROVER_requires(self == vx_self && l.owns && l.m == g_mtx && g_mtx->held && RANGE && g_orig == g_waiters && g_releases == 0 && g_notifies == 0 && g_cs_lower == self->lower_limit_)
__CPROVER_requires(lower_limit >= -LIM && lower_limit <= LIM)
/* the lower bound is raised to max(old, new) before the lock is first released -- it never decreases */
__CPROVER_ensures(g_releases >= 1 && g_first_rel_lower == VX_MAX(lower_limit, __CPROVER_old(self->lower_limit_)))
/* every waiter that was queued when signal was called has been notified (dequeued) when signal lets go of the lock for good */
__CPROVER_ensures(g_orig == 0)
__CPROVER_ensures(!g_mtx->held)
__CPROVER_assigns(S_FRAME)
//@LIFT body
#endif

#ifdef U_SET_MAX_DIFFERENCE
//@FUNC
void set_max_difference(struct ssem *self, struct ulock *l, int64_t max_difference, int64_t lower_limit)
__CPROVER_requires(self == vx_self && OWNS_P(l))
__CPROVER_ensures(self->max_difference_ == max_difference && self->lower_limit_ == lower_limit && OWNS_P(l))
__CPROVER_assigns(self->max_difference_, self->lower_limit_)
//@LIFT body
#endif

void harness(void)
{
  struct ssem s;
  struct vx_mutex m;
  struct ulock l;
  vx_self = &s; g_mtx = &m;
  s.max_difference_ = nondet_i64(); s.lower_limit_ = nondet_i64();
  g_waiters = nondet_long(); g_orig = nondet_long();
  g_upper = nondet_i64();
  g_waits = 0; g_releases = 0; g_notifies = 0; g_last_left_empty = false; g_first_rel_lower = 0;
  g_cs_lower = s.lower_limit_; g_cs_maxdiff = s.max_difference_;
  m.held = true; l.m = &m; l.owns = true;
#ifdef U_WAIT
  wait(&s, &l, g_upper);
  if (g_waits == 0) VX_REACH("no_block"); else VX_REACH("blocked");
  if (g_waits > 1) VX_REACH("blocked_twice");
#endif
#ifdef U_TRY_WAIT
  if (try_wait(&s, &l, g_upper)) VX_REACH("would_not_block"); else VX_REACH("would_block");
#endif
#ifdef U_SIGNAL
  long w0 = g_waiters;
  signal(&s, l, nondet_i64());
  VX_REACH("returned");
  if (w0 == 0) VX_REACH("no_waiters");
  if (g_notifies >= 2) VX_REACH("notified_twice");
#endif
#ifdef U_SET_MAX_DIFFERENCE
  set_max_difference(&s, &l, nondet_i64(), nondet_i64());
  VX_REACH("set");
#endif
}
