/* unit: detail::counting_semaphore::signal / signal_all */
#include "sem.h"
#define SIG_FRAME self->value_, g_cs_value, g_waiters, g_inflight, g_owed, g_notifies, g_lastrel_ok, g_releases, g_first_rel_value, g_mtx->held

#ifdef U_SIGNAL
//@FUNC
void signal(struct csem *self, struct ulock l, ptrdiff_t count)
__CPROVER_requires(self == vx_self && l.owns && l.m == g_mtx && g_mtx->held && count >= 0 && count <= VX_BIG && g_count == 1)
__CPROVER_requires(RELY_RANGE && INV(0) && g_owed == count && g_releases == 0 && g_notifies == 0)
/* permits are added exactly once, before the lock is first released (no permit lost, none invented) */
__CPROVER_ensures(g_releases >= 1 && g_first_rel_value == __CPROVER_old(self->value_) + count)
/* when signal lets go of the lock for the last time no waiter is left behind with an unclaimed permit */
__CPROVER_ensures(g_lastrel_ok)
__CPROVER_ensures(!g_mtx->held)
__CPROVER_assigns(SIG_FRAME)
//@LIFT body
#endif

void harness(void)
{
  struct csem s;
  struct vx_mutex m;
  struct ulock l;
  vx_self = &s;
  g_mtx = &m;
  s.value_ = nondet_ptrdiff();
  g_waiters = nondet_long();
  g_inflight = nondet_long();
  g_count = 1;
  ptrdiff_t count = nondet_ptrdiff();
  g_owed = count;
  g_releases = 0;
  g_notifies = 0;
  g_cs_value = s.value_;
  m.held = true;
  l.m = &m;
  l.owns = true;
#ifdef U_SIGNAL
  long w0 = g_waiters;
  signal(&s, l, count);
  VX_REACH("returned");
  if (count == 0) VX_REACH("count0");
  if (g_notifies >= 2) VX_REACH("notified_twice");
  if (w0 == 0 && count > 0) VX_REACH("no_waiters");
#endif
}
