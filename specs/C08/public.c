/* units: the public pika::counting_semaphore<> wrappers (release / try_acquire / acquire / try_acquire_until):
 * take the internal lock exactly once, call the detail function exactly once with the lock held and the right
 * count, and leave the lock released (RAII lowered).  T-contracts; the detail functions are the units csem.*. */
#include "vx.h"
static struct vx_mutex *g_m;
static long g_acquires, g_releases, g_calls; static int g_which; static ptrdiff_t g_count; static bool g_result; static bool g_moved_in;
#define MON_AT_RELEASE() do { if (g_releases < 2) g_releases++; } while (0)
#define MON_AT_ACQUIRE() do { if (g_acquires < 2) g_acquires++; } while (0)
#include "monitor.h"
struct dsem { int unused; };
struct psem { struct vx_mutex mtx_; struct dsem sem_; };
enum { D_NONE, D_SIGNAL, D_TRY_ACQUIRE, D_WAIT, D_WAIT_UNTIL };
static void d_signal(struct dsem *s, struct ulock l, ptrdiff_t count)
{ VX_ASSERT(vx_owns_v(l), "detail::signal called with the lock held (moved in)"); g_which = D_SIGNAL; g_count = count; if (g_calls < 2) g_calls++; ulock_dtor(&l); }
static bool d_try_acquire(struct dsem *s, struct ulock *l)
{ VX_ASSERT(vx_owns_p(l), "detail::try_acquire called with the lock held"); g_which = D_TRY_ACQUIRE; g_count = 1; if (g_calls < 2) g_calls++; g_result = nondet_bool(); return g_result; }
static void d_wait(struct dsem *s, struct ulock *l, ptrdiff_t count)
{ VX_ASSERT(vx_owns_p(l), "detail::wait called with the lock held"); g_which = D_WAIT; g_count = count; if (g_calls < 2) g_calls++; }
static bool d_wait_until(struct dsem *s, struct ulock *l, long abs_time, ptrdiff_t count)
{ VX_ASSERT(vx_owns_p(l), "detail::wait_until called with the lock held"); g_which = D_WAIT_UNTIL; g_count = count; if (g_calls < 2) g_calls++; g_result = nondet_bool(); return g_result; }
#define P_FRAME self->mtx_.held, g_acquires, g_releases, g_calls, g_which, g_count, g_result
#define P_PRE (!self->mtx_.held && g_acquires == 0 && g_releases == 0 && g_calls == 0)
#define P_POST(which, cnt) (!self->mtx_.held && g_acquires == 1 && g_releases == 1 && g_calls == 1 && g_which == (which) && g_count == (cnt))

#ifdef U_RELEASE
//@FUNC
void release(struct psem *self, ptrdiff_t update)
__CPROVER_requires(P_PRE)
__CPROVER_ensures(P_POST(D_SIGNAL, update))
__CPROVER_assigns(P_FRAME)
//@LIFT body
#endif
#ifdef U_TRY_ACQUIRE
//@FUNC
bool try_acquire(struct psem *self)
__CPROVER_requires(P_PRE)
__CPROVER_ensures(P_POST(D_TRY_ACQUIRE, 1) && __CPROVER_return_value == g_result)
__CPROVER_assigns(P_FRAME)
//@LIFT body
#endif
#ifdef U_ACQUIRE
//@FUNC
void acquire(struct psem *self)
__CPROVER_requires(P_PRE)
__CPROVER_ensures(P_POST(D_WAIT, 1))
__CPROVER_assigns(P_FRAME)
//@LIFT body
#endif
#ifdef U_TRY_ACQUIRE_UNTIL
//@FUNC
bool try_acquire_until(struct psem *self, long abs_time)
__CPROVER_requires(P_PRE)
__CPROVER_ensures(P_POST(D_WAIT_UNTIL, 1) && __CPROVER_return_value == g_result)
__CPROVER_assigns(P_FRAME)
//@LIFT body
#endif

#ifdef U_TRY_ACQUIRE_FOR
/* try_acquire_for(rel_time): a forwarder -- exactly one try_acquire_until with the deadline rel_time.from_now(), whatever the
 * duration is (zero and negative durations included: the counter is consulted before the deadline), result passed through */
static long g_tau_calls; static long g_tau_deadline; static bool g_tau_ret; static long g_from_now_of; static long g_from_now_ret;
static long dur_from_now(long rel) { g_from_now_of = rel; g_from_now_ret = nondet_long(); return g_from_now_ret; }
static long dur_value(long rel) { return rel; }
static long dur_zero(void) { return 0; }
static long clock_now(void) { long t = nondet_long(); return t; }
static bool try_acquire_until(struct psem *self, long abs_time) { if (g_tau_calls < 2) g_tau_calls++; g_tau_deadline = abs_time; g_tau_ret = nondet_bool(); return g_tau_ret; }
//@FUNC
bool try_acquire_for(struct psem *self, long rel_time)
__CPROVER_requires(g_tau_calls == 0)
__CPROVER_ensures(g_tau_calls == 1 && g_from_now_of == rel_time && g_tau_deadline == g_from_now_ret && __CPROVER_return_value == g_tau_ret)
__CPROVER_assigns(g_tau_calls, g_tau_deadline, g_tau_ret, g_from_now_of, g_from_now_ret)
//@LIFT body
#endif

void harness(void)
{
  struct psem s;
  s.mtx_.held = false; g_acquires = g_releases = g_calls = 0; g_which = D_NONE; g_count = 0; g_result = false;
#ifdef U_RELEASE
  release(&s, nondet_ptrdiff());
#endif
#ifdef U_TRY_ACQUIRE
  if (try_acquire(&s)) VX_REACH("true"); else VX_REACH("false");
#endif
#ifdef U_ACQUIRE
  acquire(&s);
#endif
#ifdef U_TRY_ACQUIRE_UNTIL
  if (try_acquire_until(&s, nondet_long())) VX_REACH("true"); else VX_REACH("false");
#endif
#ifdef U_TRY_ACQUIRE_FOR
  g_tau_calls = 0; g_tau_deadline = 0; g_tau_ret = false; g_from_now_of = 0; g_from_now_ret = 0;
  long rel = nondet_long();
  if (try_acquire_for(&s, rel)) VX_REACH("true"); else VX_REACH("false");
  if (rel <= 0) VX_REACH("zero_or_negative_duration");
#endif
  VX_REACH("returned");
}
