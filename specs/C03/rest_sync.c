/* C03 extension -- sync_wait: the receiver (result stored, then the waiter woken exactly once, nothing touched afterwards),
 * shared_state::wait / get_value, and the sync_wait function itself (connect, start, wait, get_value -- in this order).
 * pika::binary_semaphore is a contract stub here (its own correctness: C08). */
#define VX_TRY_BEGIN(k) ((void) 0)
#define VX_CATCH_BEGIN(k) ((void) 0)
#define VX_THROW_TO(label) do { if (nondet_bool()) goto label; } while (0)
#include "vx.h"

enum { SW_MONOSTATE = 0, SW_ERROR = 1, SW_VALUE = 2 };     /* variant<monostate, error_type, value_type> value */
#define SW_ALT_error_type SW_ERROR
#define SW_ALT_value_type SW_VALUE
struct variant { int index; int tok; };
struct sw_state { int sem; struct variant value; };          /* sync_wait_receiver::shared_state */
struct sw_recv { struct sw_state *state; };

static struct sw_ghost {
  _Bool exc; int thrown_tok;
  struct sw_state *state; bool alive;                        /* the waiter's stack frame (which owns the shared state) still exists */
  long emplaces, releases, acquires; int index_at_release, tok_at_release;
  bool ret_void; bool error_is_eptr;
  int phase; long connects, starts, waits, gets; int conn_sender, op_tok; bool completed; int get_result; bool get_threw;
} G;
#define vx_exc G.exc
#define g_thrown_tok G.thrown_tok
#define vx_state G.state
#define g_alive G.alive
#define g_emplaces G.emplaces
#define g_releases G.releases
#define g_acquires G.acquires
#define g_index_at_release G.index_at_release
#define g_tok_at_release G.tok_at_release
#define g_ret_void G.ret_void
#define g_phase G.phase
#define SAT(c) do { if ((c) < 3) (c)++; } while (0)
#define ALIVE(what) VX_ASSERT(g_alive, "life time: " what " touched after the waiter was woken (sync_wait may have returned and destroyed its shared state)")
static void init_ghost(void)
{
  vx_exc = false; g_thrown_tok = 0; vx_state = NULL; g_alive = true; g_emplaces = g_releases = g_acquires = 0; g_index_at_release = g_tok_at_release = 0;
  g_ret_void = false; G.error_is_eptr = false; g_phase = 0; G.connects = G.starts = G.waits = G.gets = 0; G.conn_sender = G.op_tok = 0; G.completed = false;
  G.get_result = 0; G.get_threw = false;
}

/* ---- pika::binary_semaphore<> sem{0} (contract: release wakes the waiter; acquire returns after a release) ------------- */
static void sem_release(int *sem)
{
  ALIVE("the semaphore");
  VX_ASSERT(sem == &vx_state->sem, "the semaphore of this sync_wait's shared state");
  VX_ASSERT(g_releases == 0, "the waiter is woken at most once");
  SAT(g_releases); g_index_at_release = vx_state->value.index; g_tok_at_release = vx_state->value.tok;
  g_alive = false;          /* the waiter may run now: get_value, return, shared state destroyed */
}
static void sem_acquire(int *sem) { VX_ASSERT(sem == &vx_state->sem, "the semaphore of this shared state"); SAT(g_acquires); }
static void sw_emplace(struct sw_state *s, int alt, int tok)
{
  ALIVE("the result variant");
  VX_ASSERT(s == vx_state, "the result is stored in this sync_wait's shared state");
  VX_ASSERT(g_releases == 0, "the result is stored before the waiter is woken");
  s->value.index = alt; s->value.tok = tok; SAT(g_emplaces);
}
static bool sw_holds(int alt, struct variant *v) { return v->index == alt; }
static int sw_get(int alt, struct variant *v) { VX_ASSERT(v->index == alt, "pika::detail::get<T> of the active alternative"); return v->tok; }
static void vx_throw(int tok) { vx_exc = true; g_thrown_tok = tok; }

#ifdef U_SW_RECV
void sw_signal_set_called(struct sw_recv *self)
//@LIFT signal
/* a completion of the predecessor: value / error are stored in the shared state BEFORE the waiter is woken; the waiter is woken
 * exactly once; nothing of the shared state is touched afterwards (it lives in the stack frame of the woken sync_wait call).
 * set_stopped stores nothing (sync_wait documents that it does not support stopped: docs/usage.rst). */
//@FUNC
void sw_set(struct sw_recv *self, int PNAME)
__CPROVER_requires(self->state == vx_state && g_alive && g_releases == 0 && g_emplaces == 0 && vx_state->value.index == SW_MONOSTATE)
__CPROVER_ensures(g_releases == 1 && !vx_exc)
__CPROVER_ensures(SW_EXPECT == SW_MONOSTATE ? (g_emplaces == 0 && g_index_at_release == SW_MONOSTATE) : (g_emplaces == 1 && g_index_at_release == SW_EXPECT && g_tok_at_release == PNAME))
__CPROVER_assigns(G, vx_state->value)
//@LIFT body
#endif

#ifdef U_SW_WAIT
/* wait(): blocks on the semaphore once */
//@FUNC
void sw_wait_impl(struct sw_state *self)
__CPROVER_requires(self == vx_state && g_acquires == 0)
__CPROVER_ensures(g_acquires == 1 && g_releases == 0 && g_emplaces == 0)
__CPROVER_assigns(G)
//@LIFT body
#endif

#ifdef U_SW_GET
struct sw_ev { int unused; };
void sw_ev_eptr(struct sw_ev *self, int ep)
//@LIFT ev_eptr
void sw_ev_other(struct sw_ev *self, int error)
//@LIFT ev_other
/* pika::detail::visit(sync_wait_error_visitor{}, error_variant): the overload of the active alternative */
static void sw_visit_error(int errtok) { struct sw_ev v; v.unused = 0; if (G.error_is_eptr) sw_ev_eptr(&v, errtok); else sw_ev_other(&v, errtok); }
/* get_value(): after a value completion the stored value is returned (nothing for a void result); after an error completion the
 * stored error is thrown; PIKA_UNREACHABLE is not reached for either (stopped is outside sync_wait's documented domain) */
//@FUNC
int sw_get_value(struct sw_state *self)
__CPROVER_requires(self == vx_state && !vx_exc && !g_ret_void && (self->value.index == SW_VALUE || self->value.index == SW_ERROR))
__CPROVER_ensures(self->value.index == SW_VALUE ==> (!vx_exc && (IS_VOID_RESULT ? g_ret_void : (!g_ret_void && __CPROVER_return_value == self->value.tok))))
__CPROVER_ensures(self->value.index == SW_ERROR ==> (vx_exc && g_thrown_tok == self->value.tok))
__CPROVER_assigns(G)
//@LIFT body
#endif

#ifdef U_SW_FACTORY
/* T-stubs with an order ghost: 0 state constructed, 1 connected, 2 started, 3 waited, 4 result fetched */
static struct sw_state sw_state_make(void) { struct sw_state s; s.sem = 0; s.value.index = SW_MONOSTATE; s.value.tok = 0; return s; }
static struct sw_recv sw_recv_make(struct sw_state *s) { struct sw_recv r; r.state = s; return r; }
static int sw_connect(int sender, struct sw_recv r)
{
  VX_ASSERT(g_phase == 0, "order: connect first");
  vx_state = r.state;
  if (nondet_bool()) { vx_exc = true; g_thrown_tok = nondet_int(); return 0; }
  SAT(G.connects); G.conn_sender = sender; G.op_tok = nondet_int(); g_phase = 1;
  return G.op_tok;
}
static void env_complete(void) { G.completed = true; vx_state->value.index = nondet_bool() ? SW_VALUE : SW_ERROR; vx_state->value.tok = nondet_int(); vx_state->sem = 1; }
static void sw_start(int optok)
{
  VX_ASSERT(g_phase == 1 && optok == G.op_tok, "order: the operation state returned by connect is started, once");
  SAT(G.starts); g_phase = 2;
  if (nondet_bool()) env_complete();              /* inline completion */
}
static void sw_wait(struct sw_state *s)
{
  VX_ASSERT(g_phase == 2 && s == vx_state, "order: wait on this shared state after start");
  if (!G.completed) env_complete();               /* the predecessor completes on another thread; acquire returns after its release */
  SAT(G.waits); g_phase = 3;
}
static int sw_get_value_stub(struct sw_state *s)
{
  VX_ASSERT(g_phase == 3 && s == vx_state && s->sem == 1, "order: the result is read only after wait() returned");
  SAT(G.gets); g_phase = 4;
  if (s->value.index == SW_ERROR) { vx_exc = true; g_thrown_tok = s->value.tok; G.get_threw = true; return 0; }
  G.get_result = s->value.tok;
  return G.get_result;
}
/* sync_wait(sender): connect once to a receiver that refers to the local shared state, start once, wait once, then return what
 * get_value returns / let its exception through; if connect throws nothing else happens */
//@FUNC
int sync_wait(int sender)
__CPROVER_requires(!vx_exc && g_phase == 0 && G.connects == 0 && G.starts == 0 && G.waits == 0 && G.gets == 0 && !G.completed && !G.get_threw)
__CPROVER_ensures(G.connects == 0 ==> (vx_exc && G.starts == 0 && G.waits == 0 && G.gets == 0))
__CPROVER_ensures(G.connects == 1 ==> (G.conn_sender == sender && G.starts == 1 && G.waits == 1 && G.gets == 1 && g_phase == 4))
__CPROVER_ensures(G.connects == 1 ==> (G.get_threw ? vx_exc : (!vx_exc && __CPROVER_return_value == G.get_result)))
__CPROVER_assigns(G)
//@LIFT body
#endif

void harness(void)
{
  struct sw_state st; struct sw_recv r;
  init_ghost();
  st.sem = 0; st.value.index = SW_MONOSTATE; st.value.tok = 0; r.state = &st;
  G.error_is_eptr = nondet_bool();
#ifdef U_SW_RECV
  vx_state = &st;
  sw_set(&r, nondet_int());
  VX_REACH("woken");
#endif
#ifdef U_SW_WAIT
  vx_state = &st;
  sw_wait_impl(&st);
  VX_REACH("waited");
#endif
#ifdef U_SW_GET
  vx_state = &st;
  st.value.index = nondet_bool() ? SW_VALUE : SW_ERROR; st.value.tok = nondet_int();
  { int v = sw_get_value(&st); (void) v; }
  if (vx_exc) VX_REACH("error_thrown"); else VX_REACH("value_returned");
  if (vx_exc && G.error_is_eptr) VX_REACH("exception_ptr_rethrown");
#endif
#ifdef U_SW_FACTORY
  { int v = sync_wait(nondet_int()); (void) v; }
  if (G.connects == 0) VX_REACH("connect_threw");
  if (G.connects == 1 && G.get_threw) VX_REACH("error");
  if (G.connects == 1 && !G.get_threw) VX_REACH("value");
#endif
}
