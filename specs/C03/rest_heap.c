/* C03 extension -- heap objects that own themselves: start_detached's operation_state_holder, the shared state of
 * split / ensure_started / split_tuple.  See rest.h for the memory + life-cycle ledger. */
static void env_async(void);
#define ENV_STEP() env_async()
#include "rest.h"

#define LEDGER G, g_cell
#define LEDGER_ZERO (g_allocs == 0 && g_deallocs == 0 && !g_mem_live && !g_members_live && g_ctor_begun == 0 && g_ctor_done == 0 && g_ctor_unwound == 0 && \
  g_dtors == 0 && g_connects == 0 && !g_child_live && !g_child_recv_live && g_starts == 0 && !g_completed && g_ss_starts == 0 && g_add_refs == 0 && g_releases == 0 && \
  !vx_exc && !g_caught)

/* ======================= start_detached ================================================================================ */
#if defined(U_SD_FACTORY) || defined(U_SD_RELEASE)
static int *hobj_alloc(struct hobj *s) { MEMBERS_LIVE(s, "member alloc read"); return &HM(s)->alloc; }
/* ~operation_state_holder(): implicit; the member op_state (the child operation state, which owns the receiver) dies */
static void hobj_dtor(struct hobj *self) { g_child_live = false; g_child_recv_live = false; }
void intrusive_ptr_add_ref(struct hobj *p) { VX_ASSERT(0, "ghost: start_detached has no reference count"); }
void intrusive_ptr_release(struct hobj *p) { VX_ASSERT(0, "ghost: start_detached has no reference count"); }
#endif

#ifdef U_SD_RELEASE
static void env_async(void) { }
/* release(): the object is destroyed and its memory returned, once each, in this order, with (a copy of) its own allocator;
 * nothing of the object is read after it was destroyed */
//@FUNC
void holder_release(struct hobj *self)
__CPROVER_requires(self == g_mem && g_mem_live && g_members_live && g_dtors == 0 && g_deallocs == 0 && g_mem_alloc == self->alloc)
__CPROVER_ensures(g_dtors == 1 && g_deallocs == 1 && !g_mem_live && !g_members_live)
__CPROVER_assigns(LEDGER)
//@LIFT release
#endif

#ifdef U_SD_FACTORY
void holder_release(struct hobj *self)
//@LIFT release
void sdr_set_value(struct hrecv *self)
//@LIFT recv_set_value
void sdr_set_stopped(struct hrecv *self)
//@LIFT recv_set_stopped
/* the child operation completes (value or stopped; the error channel terminates the program: units start_detached.set_error.*)
 * through the receiver it was connected with -- inline in start(), or later from another thread */
static void env_complete(void)
{
  VX_ASSERT(g_child_recv_live && !g_completed, "ghost: one completion of a connected, started child");
  g_completed = true;
  g_complete_channel_stopped = nondet_bool();
  if (g_complete_channel_stopped) sdr_set_stopped(&g_child_recv); else sdr_set_value(&g_child_recv);
}
static void env_async(void) { if (g_starts == 1 && !g_completed && nondet_bool()) env_complete(); }
static void child_start(int optok)
{
  VX_ASSERT(g_connects == 1 && optok == g_child_op && g_child_live, "the operation state returned by connect is started");
  VX_ASSERT(g_starts == 0, "the child operation is started at most once");
  SAT(g_starts);
  if (g_complete_inline) env_complete();
}
void operation_state_type_ctor(struct hobj *self, int sender, int alloc)
//@LIFT ctor

/* start_detached(sender, allocator): one allocation; connect + start exactly once; if connect throws the exception leaves the
 * factory with the allocation returned (once) and nothing destroyed that was not constructed; otherwise the operation state is
 * owned by its own pending completion: released (destroyed + deallocated, once) by it -- possibly before the factory returns --
 * and never touched afterwards (pointer checks on every access of the lifted text). */
//@FUNC
void sd_factory(int sender, int allocator)
__CPROVER_requires(LEDGER_ZERO)
__CPROVER_ensures(g_alloc_failed ? (vx_exc && g_allocs == 0) : (g_allocs == 1 && g_mem_alloc == allocator))
__CPROVER_ensures((vx_exc && !g_alloc_failed) ==> (g_starts == 0 && g_connects == 0 && g_deallocs == 1 && !g_mem_live && g_dtors == 0 && !g_members_live))
__CPROVER_ensures(!vx_exc ==> (g_connects == 1 && g_conn_sender == sender && g_starts == 1 && g_ctor_done == 1))
__CPROVER_ensures((!vx_exc && !g_completed) ==> (g_mem_live && g_members_live && g_dtors == 0 && g_deallocs == 0 && g_child_live))
__CPROVER_ensures((!vx_exc && g_completed) ==> (!g_mem_live && !g_members_live && g_dtors == 1 && g_deallocs == 1))
__CPROVER_assigns(LEDGER)
//@LIFT factory
#endif

/* ======================= split / ensure_started: the reference-counted shared state ===================================== */
#if defined(U_SS_CTOR) || defined(U_SS_RELEASE) || defined(U_SS_ADDREF) || defined(U_SS_CONNECT)
#define shared_state_type_ctor shared_state_ctor
static int *hobj_alloc(struct hobj *s) { MEMBERS_LIVE(s, "member alloc read"); return &HM(s)->alloc; }
void shared_state_dtor_body(struct hobj *self)
//@LIFT ss_dtor
/* ~shared_state(): the user-written body, then the members: os (the child operation state and the receiver it owns) */
static void hobj_dtor(struct hobj *self)
{
  shared_state_dtor_body(self);
  VX_ASSERT(!(self->os_has && g_child_recv_live && g_child_recv.state.p != NULL), "ghost: the shared state is destroyed while the receiver stored in its own child operation state still owns a reference");
  if (self->os_has) { g_child_live = false; g_child_recv_live = false; }
}
#endif

#if defined(U_SS_CTOR) || defined(U_SS_CONNECT)
void intrusive_ptr_add_ref(struct hobj *p)
//@LIFT add_ref
void intrusive_ptr_release(struct hobj *p)
//@LIFT release
#endif

#ifdef U_SS_ADDREF
static void env_async(void) { }
void intrusive_ptr_release(struct hobj *p) { VX_ASSERT(0, "ghost: not called"); }
/* one more owner: exactly one atomic increment, nothing else */
//@FUNC
void intrusive_ptr_add_ref(struct hobj *p)
__CPROVER_requires(p == g_mem && g_mem_live && g_members_live && !g_lin && p->reference_count >= 0 && p->reference_count < 1000000)
__CPROVER_ensures(g_lin && g_lin_new == g_lin_old + 1 && p->reference_count == __CPROVER_old(p->reference_count) + 1)
__CPROVER_ensures(g_mem_live && g_members_live && g_dtors == 0 && g_deallocs == 0)
__CPROVER_assigns(LEDGER)
//@LIFT add_ref
#endif

#ifdef U_SS_RELEASE
static void env_async(void) { }
void intrusive_ptr_add_ref(struct hobj *p) { VX_ASSERT(0, "ghost: not called"); }
/* one owner less: exactly one atomic decrement; the owner whose decrement reaches 0 -- and nobody else -- destroys the object and
 * returns its memory (once each, in this order, with a copy of the object's allocator); an owner whose decrement leaves other
 * owners behind does not touch the object again (they may free it at any time) */
//@FUNC
void intrusive_ptr_release(struct hobj *p)
__CPROVER_requires(p == g_mem && g_mem_live && g_members_live && !g_lin && p->reference_count >= 1 && p->reference_count < 1000000)
__CPROVER_requires(g_dtors == 0 && g_deallocs == 0 && g_mem_alloc == p->alloc && p->start_called && !p->os_has)
__CPROVER_ensures(g_lin && g_lin_new == g_lin_old - 1)
__CPROVER_ensures(g_lin_new == 0 ==> (g_dtors == 1 && g_deallocs == 1 && !g_mem_live))
__CPROVER_ensures(g_lin_new != 0 ==> (g_dtors == 0 && g_deallocs == 0))
__CPROVER_assigns(LEDGER)
//@LIFT release
#endif

#ifdef U_SS_CTOR
/* the predecessor completes through the receiver it was connected with (contracts of units <adaptor>.recv.* and
 * <adaptor>.set_predecessor_done): `auto r = std::move(*this)`, result stored, os.reset() -- the child operation state and the
 * moved-from receiver in it die --, then r is destroyed: the reference the receiver owned is dropped */
static void env_complete(void)
{
  struct hrecv r;
  VX_ASSERT(g_child_recv_live && !g_completed && g_mem_live && g_members_live, "ghost: one completion of a connected, started child");
  g_completed = true;
  r = g_child_recv; g_child_recv.state.p = NULL;
  g_cell.os_has = false; g_child_live = false; g_child_recv_live = false;
  recv_dtor(&r);
}
static void env_async(void) { if (g_starts == 1 && !g_completed && g_child_recv_live && nondet_bool()) env_complete(); }
/* shared_state::start() (units <adaptor>.start): start_called set, the predecessor started at most once -- it may complete inline */
static void ss_start(struct hobj *s)
{
  MEMBERS_LIVE(s, "start()");
  VX_ASSERT(g_ss_starts == 0 && s->os_has && g_child_live, "start() of the freshly constructed shared state, whose child operation state exists");
  SAT(g_ss_starts);
  /* contract of shared_state::start (units <adaptor>.start): the predecessor is started iff the exchange found the flag clear */
  if (!s->start_called) { s->start_called = true; SAT(g_starts); if (g_complete_inline) env_complete(); }
}
static void child_start(int optok) { VX_ASSERT(0, "ghost: the shared state starts its predecessor only through start()"); }
void shared_state_ctor(struct hobj *self, int sender, int alloc)
//@LIFT ss_ctor

/* split(sender) / ensure_started(sender): one allocation, one shared state constructed in it, the predecessor connected once to a
 * receiver that refers to it.  On success the sender owns one reference and the predecessor's receiver one (until the
 * predecessor has completed): reference_count == number of owners, nothing destroyed or freed.  If connect throws (or the
 * allocation fails) the exception leaves the constructor with the allocation returned exactly once and the partially
 * constructed object unwound exactly once -- no leak, no double destruction, no double free. */
//@FUNC
void sender_ctor(struct sender *self, int sender, int allocator)
__CPROVER_requires(LEDGER_ZERO && self->state.p == NULL && g_owners == 0)
__CPROVER_ensures(g_alloc_failed ? (vx_exc && g_allocs == 0) : (g_allocs == 1 && g_mem_alloc == allocator))
__CPROVER_ensures((vx_exc && !g_alloc_failed) ==> (g_connects == 0 && g_ss_starts == 0 && g_deallocs == 1 && !g_mem_live && !g_members_live && g_dtors + g_ctor_unwound == 1 && self->state.p == NULL))
__CPROVER_ensures(!vx_exc ==> (g_connects == 1 && g_conn_sender == sender && g_ctor_done == 1 && g_mem_live && g_members_live && g_dtors == 0 && g_deallocs == 0 && g_cell.alloc == allocator))
__CPROVER_ensures(!vx_exc ==> (self->state.p == g_mem && g_owners == (g_completed ? 1 : 2) && g_cell.reference_count == g_owners))
__CPROVER_ensures(!vx_exc ==> (g_cell.os_has == !g_completed && g_ss_starts == SS_EAGER_START && g_starts == SS_EAGER_START && g_cell.start_called == (SS_EAGER_START == 1)))
__CPROVER_assigns(LEDGER, self->state)
//@LIFT sender_ctor
#endif

#ifdef U_SS_CONNECT
static void env_async(void) { }
void consumer_op_ctor(struct consumer_op *self, struct receiver receiver, struct iptr *state)
//@LIFT op_ctor
/* connect(receiver) of the split / ensure_started / split_tuple sender: the consumer's operation state holds the receiver it was
 * connected with and a reference to the sender's shared state.  An rvalue sender hands its own reference over (count
 * unchanged, the sender is left empty); an lvalue sender keeps its reference and the operation state gets a new one (count + 1).
 * No reference is lost or duplicated: reference_count changes by exactly the change in the number of owners. */
//@FUNC
void sender_connect(struct sender *self, struct consumer_op *vx_ret, struct receiver receiver)
__CPROVER_requires(self->state.p == g_mem && g_mem_live && g_members_live && g_cell.reference_count >= 1 && g_cell.reference_count < 999990 && g_dtors == 0 && g_deallocs == 0)
__CPROVER_requires(receiver.id == RECV_ID && vx_ret->state.p == NULL && g_owners == 1)
__CPROVER_ensures(vx_ret->receiver.id == RECV_ID && vx_ret->state.p == g_mem)
__CPROVER_ensures(CONNECT_COPIES ? (self->state.p == g_mem && g_owners == 2) : (self->state.p == NULL && g_owners == 1))
__CPROVER_ensures(g_cell.reference_count == __CPROVER_old(g_cell.reference_count) + (CONNECT_COPIES ? 1 : 0))
__CPROVER_ensures(g_mem_live && g_members_live && g_dtors == 0 && g_deallocs == 0)
__CPROVER_assigns(LEDGER, self->state, *vx_ret)
//@LIFT connect
#endif

/* ======================= split_tuple: one shared state, one sender (= one reference) per tuple element ================== */
#ifdef U_ST_MAKE
#define shared_state_type_ctor shared_state_ctor
#define VX_PACK_SIZE g_pack_n
#define TUPLE_MAX 1000u
static size_t g_pack_n, g_st_victim; static struct sender g_victim_sender; static long g_victim_ctors;
static int *hobj_alloc(struct hobj *s) { MEMBERS_LIVE(s, "member alloc read"); return &HM(s)->alloc; }
void shared_state_dtor_body(struct hobj *self)
//@LIFT ss_dtor
static void hobj_dtor(struct hobj *self) { shared_state_dtor_body(self); if (self->os_has) { g_child_live = false; g_child_recv_live = false; } }
void intrusive_ptr_add_ref(struct hobj *p)
//@LIFT add_ref
void intrusive_ptr_release(struct hobj *p)
//@LIFT release
static void env_async(void) { }
static void child_start(int optok) { VX_ASSERT(0, "ghost: nothing is started by the factory"); }
void shared_state_ctor(struct hobj *self, int sender, int alloc)
//@LIFT ss_ctor
void split_tuple_sender_impl_ctor(struct sender *self, struct iptr *state)
//@LIFT sender_ctor
/* element Is of the returned std::tuple: one symbolic victim stands for every element */
static void split_tuple_sender_ctor(size_t Is, struct iptr *state)
{
  struct sender tmp; tmp.state.p = NULL;
  split_tuple_sender_impl_ctor(&tmp, state);
  VX_ASSERT(tmp.state.p == g_mem, "every sender of the tuple refers to the one shared state");
  if (Is == g_st_victim) { SAT(g_victim_ctors); g_victim_sender = tmp; }
}
#define ST_LOOP_FRAME Is, G.owners, G.lin, G.lin_old, G.lin_new, g_cell.reference_count, g_victim_ctors, g_victim_sender
void make_senders_pack(struct iptr *state)
//@LIFT make_pack

/* split_tuple(sender): one allocation, one shared state, the predecessor connected once (its receiver holds a plain reference);
 * N = tuple size senders are returned, each owning exactly one reference: reference_count == N == number of owners, nothing is
 * destroyed or freed; a throwing connect leaves with the allocation returned once and the members unwound once */
//@FUNC
void st_make(int sender, int allocator)
__CPROVER_requires(LEDGER_ZERO && g_owners == 0 && g_pack_n >= 1 && g_pack_n <= TUPLE_MAX && g_victim_ctors == 0)
__CPROVER_ensures(g_alloc_failed ? (vx_exc && g_allocs == 0) : (g_allocs == 1 && g_mem_alloc == allocator))
__CPROVER_ensures((vx_exc && !g_alloc_failed) ==> (g_connects == 0 && g_deallocs == 1 && !g_mem_live && !g_members_live && g_dtors + g_ctor_unwound == 1))
__CPROVER_ensures(!vx_exc ==> (g_connects == 1 && g_conn_sender == sender && g_ctor_done == 1 && g_mem_live && g_members_live && g_dtors == 0 && g_deallocs == 0))
__CPROVER_ensures(!vx_exc ==> (g_owners == (long) g_pack_n && g_cell.reference_count == g_owners && g_cell.os_has && !g_cell.start_called))
__CPROVER_ensures(!vx_exc ==> (g_victim_ctors == (g_st_victim < g_pack_n ? 1 : 0) && (g_st_victim < g_pack_n ==> g_victim_sender.state.p == g_mem)))
__CPROVER_assigns(LEDGER, g_victim_ctors, g_victim_sender)
//@LIFT make
#endif

void harness(void)
{
  init_ghost();
  g_connect_may_throw = nondet_bool();
  g_complete_inline = nondet_bool();
#ifdef KF_CONNECT_NOTHROW
  g_connect_may_throw = false;      /* known-finding input class excluded: connect() of the predecessor throws */
#endif
#ifdef U_SD_RELEASE
  {
    struct hobj *h = alloc_allocate(nondet_int(), 1);
    if (h == NULL) return;
    ctor_begin(h); h->alloc = g_mem_alloc; ctor_end(h);
    holder_release(h);
    VX_REACH("released");
  }
#endif
#ifdef U_SS_ADDREF
  {
    struct hobj *h = alloc_allocate(nondet_int(), 1);
    if (h == NULL) return;
    ctor_begin(h); h->alloc = g_mem_alloc; h->reference_count = nondet_long(); h->start_called = nondet_bool(); ctor_end(h);
    g_shared = true;
    intrusive_ptr_add_ref(h);
    VX_REACH("counted");
  }
#endif
#ifdef U_SS_RELEASE
  {
    struct hobj *h = alloc_allocate(nondet_int(), 1);
    if (h == NULL) return;
    ctor_begin(h); h->alloc = g_mem_alloc; h->reference_count = nondet_long(); h->start_called = true; ctor_end(h);
    g_shared = true;
    intrusive_ptr_release(h);
    if (g_lin_new == 0) VX_REACH("last_owner_destroys"); else VX_REACH("other_owners_remain");
    if (g_lin_old == 1 && g_lin_new == 0) VX_REACH("sole_owner");
  }
#endif
#ifdef U_ST_MAKE
  g_pack_n = nondet_size(); g_st_victim = nondet_size(); g_victim_ctors = 0; g_victim_sender.state.p = NULL;
  st_make(nondet_int(), nondet_int());
  if (vx_exc && g_alloc_failed) VX_REACH("bad_alloc");
  if (vx_exc && !g_alloc_failed) VX_REACH("connect_threw");
  if (!vx_exc && g_st_victim < g_pack_n) VX_REACH("senders_made");
#endif
#ifdef U_SS_CONNECT
  {
    struct sender snd; struct consumer_op cop; struct receiver rcv;
    struct hobj *h = alloc_allocate(nondet_int(), 1);
    if (h == NULL) return;
    ctor_begin(h); h->alloc = g_mem_alloc; h->reference_count = nondet_long(); h->start_called = nondet_bool(); ctor_end(h);
    snd.state.p = h; g_owners = 1; cop.state.p = NULL; cop.receiver.id = 0; rcv.id = RECV_ID;
    sender_connect(&snd, &cop, rcv);
    VX_REACH("connected");
  }
#endif
#ifdef U_SS_CTOR
  {
    struct sender snd; snd.state.p = NULL;
    sender_ctor(&snd, nondet_int(), nondet_int());
    if (vx_exc && g_alloc_failed) VX_REACH("bad_alloc");
#ifndef KF_CONNECT_NOTHROW
    if (vx_exc && !g_alloc_failed) VX_REACH("connect_threw");
#endif
#if SS_EAGER_START
    if (!vx_exc && g_completed) VX_REACH("predecessor_completed_inline");
#endif
    if (!vx_exc && !g_completed) VX_REACH("predecessor_pending");
  }
#endif
#ifdef U_SD_FACTORY
  sd_factory(nondet_int(), nondet_int());
  if (vx_exc && g_alloc_failed) VX_REACH("bad_alloc");
  if (vx_exc && !g_alloc_failed) VX_REACH("connect_threw");
  if (!vx_exc && g_completed) VX_REACH("completed_before_return");
  if (!vx_exc && g_completed && !g_complete_inline) VX_REACH("completed_concurrently");
  if (!vx_exc && !g_completed)
  {
    /* the completion arrives later: exactly one release in total */
    env_complete();
    VX_ASSERT(g_dtors == 1 && g_deallocs == 1 && !g_mem_live, "a completion after the factory returned releases the operation state exactly once");
    VX_REACH("completed_later");
  }
#endif
}
