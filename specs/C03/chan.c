/* C03 -- channel-preserving adaptors: one template, table-driven contracts (kind selected by -DC_<KIND>).
 * Every function under contract is `void fn(struct SELF_T *self, int PNAME)`: SELF_T = rcv (a member of the adaptor's receiver)
 * or op (a member of its operation state); PNAME is the name of the payload parameter in the source (vx_unused if none).
 *   IN_TOK        the token the adaptor is expected to pass on (PNAME, or e.g. vx_op->ts.tok for parked values)
 *   OUT_CH        1 value / 2 error / 3 stopped : the channel the adaptor denotes for this upstream signal
 *   OUT_PAYLOAD   1 iff the downstream signal carries IN_TOK (0: set_value() without values, set_stopped)
 *   RESETS_OS     1 iff a stored child operation state has to be reset (once) before the downstream signal */
#include "chan.h"

#define PRE_SELF_rcv(s) ((s)->receiver.id == RECV_ID && (s)->op_state == vx_op && (s)->f == vx_op->f && vx_op->receiver.id == RECV_ID)
#define PRE_SELF_op(s) ((s) == vx_op && (s)->receiver.id == RECV_ID)
#define VX_CAT_(a, b) a##b
#define VX_CAT(a, b) VX_CAT_(a, b)
#define PRE_SELF(s) VX_CAT(PRE_SELF_, SELF_T)(s)
#define HARNESS_SELF_rcv r
#define HARNESS_SELF_op o
#ifndef PAYLOAD_COPY_NOTHROW
#define PAYLOAD_COPY_NOTHROW 0
#endif
#define FRAME vx_exc, g_thrown_tok, g_current_exception, g_caught, g_set_value, g_set_error, g_set_stopped, g_tok, g_has_payload, g_receiver_moved, \
  g_f_calls, g_f_arg, g_f_result, g_f_index, g_f_calls_victim, g_os_resets, g_os_reset_before_signal, g_ref_bound, g_ref_dangling, g_connects, g_conn_sender, g_conn_op, \
  g_succ_starts, g_succ_emplaced_at_start, g_sched_calls, g_sched_starts, g_parked_at_sched_start, g_sched_emplaced_at_start, g_child_starts, \
  g_releases, g_alive, g_m_calls, g_m_id, g_m_tok, vx_op->predecessor_ts, vx_op->predecessor_error, vx_op->successor_op_state, vx_op->ts, vx_op->op_state_has, \
  vx_op->scheduler_op_state_has, vx_op->scheduler_op_tok, vx_op->started

#ifdef C_SF_DELIVER
void ssvv_monostate(struct ssvv *self)
//@LIFT ssvv_monostate
void ssvv_alt(struct ssvv *self, int ts)
//@LIFT ssvv_alt
#endif

#ifdef C_FWD
/* one upstream signal => exactly one downstream signal, on the channel the adaptor denotes, carrying the same payload; if a
 * local copy of the payload throws (drop_operation_state, just) the exception arrives as the error instead */
//@FUNC
void fn(struct SELF_T *self, int PNAME)
__CPROVER_requires(PRE_SELF(self) && !vx_exc && !g_caught && g_set_value + g_set_error + g_set_stopped == 0 && g_os_resets == 0)
__CPROVER_requires(!RESETS_OS || (vx_op->op_state_has && vx_op->scheduler_op_state_has))
__CPROVER_requires(!PARKED_IN_TS || vx_op->ts.index == 1)
__CPROVER_ensures(!vx_exc && g_set_value + g_set_error + g_set_stopped == 1)
__CPROVER_ensures(!g_caught ==> (g_set_value == (OUT_CH == 1 ? 1 : 0) && g_set_error == (OUT_CH == 2 ? 1 : 0) && g_set_stopped == (OUT_CH == 3 ? 1 : 0)))
__CPROVER_ensures((!g_caught && OUT_PAYLOAD) ==> (g_has_payload && g_tok == IN_TOK))
__CPROVER_ensures((!g_caught && !OUT_PAYLOAD && OUT_CH == 1) ==> !g_has_payload)
__CPROVER_ensures(g_caught ==> (g_set_error == 1 && g_tok == g_thrown_tok))
__CPROVER_ensures(g_os_resets == RESETS_OS && (!RESETS_OS || g_os_reset_before_signal))
__CPROVER_assigns(FRAME)
//@LIFT body
#endif

#ifdef C_THEN
/* then: f is invoked once with the values; returns => set_value(result) (set_value() for void); throws => set_error(that exception) */
//@FUNC
void fn(struct SELF_T *self, int PNAME)
__CPROVER_requires(PRE_SELF(self) && !vx_exc && !g_caught && g_set_value + g_set_error + g_set_stopped == 0 && g_f_calls == 0)
__CPROVER_ensures(!vx_exc && g_f_calls == 1 && g_f_arg == PNAME)
__CPROVER_ensures(g_set_value + g_set_error == 1 && g_set_stopped == 0)
__CPROVER_ensures(g_caught ==> (g_set_error == 1 && g_tok == g_thrown_tok))
__CPROVER_ensures(!g_caught ==> (g_set_value == 1 && (F_RETURNS_VOID ? !g_has_payload : (g_has_payload && g_tok == g_f_result))))
__CPROVER_assigns(FRAME)
//@LIFT body
#endif

#ifdef C_BULK
/* bulk (generic loop): f(s, values) once for every element of the shape, then the values are forwarded unchanged; a throwing call
 * ends the loop and its exception arrives as the error */
//@FUNC
void fn(struct SELF_T *self, int PNAME)
__CPROVER_requires(PRE_SELF(self) && !vx_exc && !g_caught && g_set_value + g_set_error + g_set_stopped == 0 && g_f_calls_victim == 0)
__CPROVER_ensures(!vx_exc && g_set_value + g_set_error == 1 && g_set_stopped == 0)
__CPROVER_ensures(g_caught ==> (g_set_error == 1 && g_tok == g_thrown_tok && g_f_calls_victim <= 1))
__CPROVER_ensures(!g_caught ==> (g_set_value == 1 && g_has_payload && g_tok == PNAME && g_f_calls_victim == (g_victim < self->shape.n ? 1 : 0)))
__CPROVER_assigns(FRAME)
//@LIFT body
#endif

#ifdef C_LET
void ovis_monostate(struct ovis *self)
//@LIFT ovis_monostate
void ovis_alt(struct ovis *self, int ALT_PARAM)
//@LIFT ovis_alt
void svis_monostate(struct svis *self)
//@LIFT svis_monostate
void svis_alt(struct svis *self, int op_state)
//@LIFT svis_alt
/* let_value / let_error: the payload is parked in the operation state, f is applied to the parked payload (once), the sender it
 * returns is connected to the downstream receiver, the resulting operation state is emplaced and started (once): from then on
 * the successor signals the receiver.  If anything throws before that, exactly one set_error(that exception) instead. */
//@FUNC
void fn(struct SELF_T *self, int PNAME)
__CPROVER_requires(PRE_SELF(self) && !vx_exc && !g_caught && g_set_value + g_set_error + g_set_stopped == 0 && g_f_calls == 0 && g_connects == 0 && g_succ_starts == 0 && !g_receiver_moved)
__CPROVER_requires(vx_op->PARK.index == 0 && vx_op->successor_op_state.index == 0)
__CPROVER_ensures(!vx_exc && g_succ_starts + g_set_error == 1 && g_set_value == 0 && g_set_stopped == 0)
__CPROVER_ensures(g_succ_starts == 1 ==> (!g_caught && g_f_calls == 1 && g_f_arg == PNAME && vx_op->PARK.index == 1 && vx_op->PARK.tok == PNAME))
__CPROVER_ensures(g_succ_starts == 1 ==> (g_connects == 1 && g_conn_sender == g_f_result && g_succ_emplaced_at_start))
__CPROVER_ensures(g_set_error == 1 ==> (g_caught && g_tok == g_thrown_tok))
__CPROVER_assigns(FRAME)
//@LIFT body
#endif

#ifdef C_SF_PARK
/* schedule_from: predecessor values are parked BEFORE the scheduler operation is emplaced and started; no downstream signal here */
//@FUNC
void fn(struct SELF_T *self, int PNAME)
__CPROVER_requires(PRE_SELF(self) && !vx_exc && g_set_value + g_set_error + g_set_stopped == 0 && g_sched_calls == 0 && g_sched_starts == 0)
__CPROVER_requires(vx_op->ts.index == 0 && !vx_op->scheduler_op_state_has)
__CPROVER_ensures(!vx_exc && g_set_value + g_set_error + g_set_stopped == 0)
__CPROVER_ensures(vx_op->ts.index == 1 && vx_op->ts.tok == PNAME)
__CPROVER_ensures(g_sched_calls == 1 && g_sched_starts == 1 && g_parked_at_sched_start && g_sched_emplaced_at_start)
__CPROVER_assigns(FRAME)
//@LIFT body
#endif

#ifdef C_SD
/* start_detached: the heap operation state is released exactly once on this channel (and nothing of it is touched afterwards) */
//@FUNC
void fn(struct SELF_T *self, int PNAME)
__CPROVER_requires(self->op_state == vx_op && g_alive && g_releases == 0)
__CPROVER_ensures(g_releases == 1 && !g_alive)
__CPROVER_assigns(FRAME)
//@LIFT body
#endif

#ifdef C_CHILD_START
/* start() of an adaptor that owns its child operation state in an optional: the child is started exactly once */
//@FUNC
void fn(struct SELF_T *self, int PNAME)
__CPROVER_requires(PRE_SELF(self) && vx_op->op_state_has && g_child_starts == 0)
__CPROVER_ensures(g_child_starts == 1 && (!SETS_STARTED || vx_op->started))
__CPROVER_assigns(FRAME)
//@LIFT body
#endif

#ifdef C_TRAMP
/* schedule_from's internal receivers: the signal is handed to the matching member of the operation state, once, unchanged */
//@FUNC
void fn(struct SELF_T *self, int PNAME)
__CPROVER_requires(PRE_SELF(self) && g_m_calls == 0)
__CPROVER_ensures(g_m_calls == 1 && g_m_id == EXPECT_M && (!OUT_PAYLOAD || g_m_tok == PNAME))
__CPROVER_ensures(g_set_value + g_set_error + g_set_stopped == 0)
__CPROVER_assigns(FRAME)
//@LIFT body
#endif

#ifdef C_TCEP
/* pika::detail::try_catch_exception_ptr(t, c): t is called once; c is called iff t threw, with that exception, after the handler
 * has been left.  (This is the contract the lowering rule TryCatchEP relies on at the call sites.) */
//@FUNC
void try_catch_exception_ptr(void)
__CPROVER_requires(!vx_exc && !g_caught && g_t_calls == 0 && g_c_calls == 0 && !g_t_threw)
__CPROVER_ensures(!vx_exc && g_t_calls == 1 && g_c_calls == (g_t_threw ? 1 : 0))
__CPROVER_ensures(g_t_threw ==> g_c_arg == g_thrown_tok)
__CPROVER_assigns(vx_exc, g_thrown_tok, g_current_exception, g_caught, g_t_calls, g_c_calls, g_c_arg, g_t_threw)
//@LIFT body
#endif

void harness(void)
{
  struct op o;
  struct rcv r;
  init_ghost();
  vx_op = &o;
  o.receiver.id = RECV_ID; o.f = nondet_int(); o.scheduler = nondet_int();
  o.predecessor_ts.index = 0; o.predecessor_ts.tok = 0; o.predecessor_error.index = 0; o.predecessor_error.tok = 0;
  o.successor_op_state.index = 0; o.successor_op_state.tok = 0;
  o.ts.index = 0; o.ts.tok = 0;
  o.op_state_has = true; o.scheduler_op_state_has = false; o.scheduler_op_tok = 0; o.started = false;
  r.receiver.id = RECV_ID; r.f = o.f; r.shape.n = nondet_size(); r.op_state = &o;
  g_victim = nondet_size();
  g_may_throw = PAYLOAD_COPY_NOTHROW ? false : nondet_bool();
#if defined(C_FWD) && (RESETS_OS || PARKED_IN_TS)
  o.scheduler_op_state_has = true; o.scheduler_op_tok = nondet_int();
  o.ts.index = 1; o.ts.tok = nondet_int();
#endif
#ifdef C_TCEP
  try_catch_exception_ptr();
  if (g_t_threw) VX_REACH("threw"); else VX_REACH("returned");
#else
  fn(&VX_CAT(HARNESS_SELF_, SELF_T), nondet_int());
  VX_REACH("returned");
#if defined(C_THEN) || defined(C_BULK) || defined(C_LET) || (defined(C_FWD) && MAY_CATCH)
  if (g_caught) VX_REACH("threw");
  if (!g_caught) VX_REACH("no_throw");
#endif
#endif
}
