/* C03 -- when_all: the slot layout of the value storage.  operation_state<..., I> (I > 0) derives from operation_state<..., I-1>;
 * predecessor i's values occupy the slots [i_storage_offset, i_storage_offset + sender_pack_size).  "Values arrive unchanged and in
 * order" needs consecutive, non-overlapping slot ranges: offset(I) == offset(I-1) + pack_size(I-1), offset(0) == 0.
 * (written by main after seeded change C03-4 was missed; F contract on the lifted constant expressions) */
#include "vx.h"
//@FUNC
size_t derived_offset(size_t base_i_storage_offset, size_t base_sender_pack_size, size_t own_sender_pack_size)
__CPROVER_requires(base_i_storage_offset <= 0xffff && base_sender_pack_size <= 0xffff && own_sender_pack_size <= 0xffff)
/* predecessor I's slots start right after predecessor I-1's */
__CPROVER_ensures(__CPROVER_return_value == base_i_storage_offset + base_sender_pack_size)
__CPROVER_assigns()
{
//@LIFT derived
}
size_t base_offset(void)
{
//@LIFT base
}
void harness(void)
{
  size_t a = nondet_size(), b = nondet_size(), c = nondet_size();
  size_t r = derived_offset(a, b, c);
  VX_ASSERT(base_offset() == 0, "predecessor 0's slots start at 0");
  if (b != c) VX_REACH("predecessors_with_different_value_counts");
  VX_REACH("returned");
}
