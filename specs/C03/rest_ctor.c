/* C03 extension -- constructors, start() and connect() of the adaptors' operation states (see rest_ctor.h).
 * The completion-path units of specs/C03/spec.py START from a constructed operation state (join.c: predecessors_remaining,
 * set_stopped_error_called; chan.c: ts / scheduler_op_state empty, the receiver and the callable in place); these units prove
 * that the constructors establish exactly that, connect every predecessor exactly once to a receiver that refers to the
 * operation state under construction, start nothing and signal nothing. */
#include "rest_ctor.h"

#define WA_NUM_PREDECESSORS g_np
#define I g_I
#define NO_EFFECTS (g_starts == 0 && g_signals == 0)
#define GHOST_ZERO (!vx_exc && !g_caught && g_connects == 0 && g_base_ctors == 0 && g_starts == 0 && g_signals == 0 && g_victim_connects == 0 && g_resizes == 0)

/* ---- std::vector<Sender> senders / the array of optional child operation states / the value slots ------------------- */
static size_t vec_size(struct pack *p) { return g_np; }
static int vec_at(struct pack *p, size_t i) { VX_ASSERT(i < g_np, "vector of senders indexed within bounds"); g_get_index = i; return SENDER_AT(*p, i); }
static void opt_ops_null(struct opt_ops *o) { o->allocated = false; o->n = 0; o->victim_has = false; o->victim_op = 0; }
static void opt_ops_make(struct opt_ops *o, size_t n) { o->allocated = true; o->n = n; o->victim_has = false; o->victim_op = 0; }
static void opt_ops_emplace(struct opt_ops *o, size_t i, int optok)
{
  VX_ASSERT(o->allocated && i < o->n, "op_states[i] within the allocated array");
  if (i == g_victim) { VX_ASSERT(!o->victim_has, "a child operation state is emplaced over an existing one"); o->victim_has = true; o->victim_op = optok; }
}
static void slots_resize(struct slots *s, size_t n) { s->n = n; SAT(g_resizes); g_resize_n = n; }

/* ======================= when_all: base (I == 0) and derived (I > 0) operation state, sender connect ==================== */
#if defined(U_WA_BASE) || defined(U_WA_DERIVED)
void wrecv_ctor(struct wrecv *self, struct wop *op_state)
//@LIFT recv_ctor
static struct wrecv wrecv_make(struct wop *s) { struct wrecv r; r.op_state = NULL; r.i = 0; r.has_index = false; wrecv_ctor(&r, s); return r; }
#endif

#ifdef U_WA_BASE
/* operation_state<Receiver, SendersPack, 0>: default member initialisers (in declaration order) + constructor.
 * The join counter starts at the number of predecessors, the error/stop latch is clear, the downstream receiver is stored,
 * predecessor 0 is connected once to a receiver that refers to this operation state; nothing is started or signalled. */
//@FUNC
void wa_base_ctor(struct wop *self, struct receiver receiver, struct pack senders)
__CPROVER_requires(self == vx_self && receiver.id == RECV_ID && GHOST_ZERO && g_np >= 1 && g_np <= NP_MAX)
__CPROVER_ensures(NO_EFFECTS)
__CPROVER_ensures(!vx_exc ==> (self->receiver.id == RECV_ID && self->predecessors_remaining == g_np && !self->set_stopped_error_called))
__CPROVER_ensures(!vx_exc ==> (g_connects == 1 && g_conn_sender == senders.tok && g_conn_index == 0 && self->op_state == g_child_op))
__CPROVER_ensures(vx_exc ==> g_connects == 0)
__CPROVER_assigns(G, *self)
//@LIFT ctor
#endif

#ifdef U_WA_DERIVED
/* the base sub-object's constructor (unit rest.when_all.ctor.base / this unit, by induction over I) */
static void wa_base_ctor(struct wop *self, struct receiver receiver, struct pack senders)
{
  VX_ASSERT(self == vx_self && g_connects == 0, "the base sub-object is constructed first");
  SAT(g_base_ctors); g_base_recv_id = receiver.id; g_base_pack = senders.tok;
  if (g_connect_may_throw && nondet_bool()) { vx_exc = true; g_thrown_tok = nondet_int(); }
}
/* operation_state<Receiver, SendersPack, I>, I > 0: the base sub-object (predecessors 0..I-1) is constructed once from the same
 * receiver and senders, then predecessor I -- not any other -- is connected once to a receiver referring to this operation state */
//@FUNC
void wa_derived_ctor(struct wop *self, struct receiver receiver, struct pack senders)
__CPROVER_requires(self == vx_self && receiver.id == RECV_ID && GHOST_ZERO && g_np >= 2 && g_np <= NP_MAX && g_I >= 1 && g_I < g_np)
__CPROVER_ensures(NO_EFFECTS && g_base_ctors == 1 && g_base_recv_id == RECV_ID && g_base_pack == senders.tok)
__CPROVER_ensures(!vx_exc ==> (g_connects == 1 && g_conn_sender == senders.tok && g_conn_index == g_I && self->op_state == g_child_op))
__CPROVER_ensures(vx_exc ==> g_connects == 0)
__CPROVER_assigns(G, *self)
//@LIFT ctor
#endif

#ifdef U_WA_CONNECT
struct wa_sender { struct pack senders; };
static struct wop *g_ret; static size_t g_top_index; static long g_top_ctors; static int g_top_recv_id, g_top_pack;
static void wa_top_ctor(struct wop *ret, size_t top_index, struct receiver receiver, struct pack senders)
{
  SAT(g_top_ctors); g_top_index = top_index; g_top_recv_id = receiver.id; g_top_pack = senders.tok;
}
/* when_all_sender::connect: the operation state returned is the one for the LAST predecessor (index num_predecessors - 1), whose
 * base classes cover predecessors 0 .. num_predecessors - 2: every predecessor is connected, so the join counter can reach zero */
//@FUNC
void wa_connect(struct wa_sender *self, struct wop *vx_ret, struct receiver receiver)
__CPROVER_requires(receiver.id == RECV_ID && g_top_ctors == 0 && g_np >= 1 && g_np <= NP_MAX)
__CPROVER_ensures(g_top_ctors == 1 && g_top_index == g_np - 1 && g_top_recv_id == RECV_ID && g_top_pack == self->senders.tok)
__CPROVER_assigns(g_top_ctors, g_top_index, g_top_recv_id, g_top_pack)
//@LIFT connect
#endif

/* ======================= when_all_vector: operation state constructor (loop over the senders) ========================== */
#ifdef U_WAV_CTOR
#define WAV_LOOP_FRAME vx_it1, i, G.connects, G.conn_sender, G.conn_index, G.conn_recv_i, G.conn_has_index, G.child_op, G.get_index, \
  G.victim_connects, G.victim_sender, G.victim_child, G.exc, G.thrown_tok, G.throw_seen, self->op_states.victim_has, self->op_states.victim_op
/* every sender of the vector is connected exactly once, sender k to a receiver that refers to this operation state and carries
 * index k, and the resulting operation state is stored in slot k (one symbolic victim k = g_victim stands for all of them); the
 * join counter and num_predecessors equal the number of senders, the latch is clear, one value slot per predecessor */
//@FUNC
void wav_ctor(struct wop *self, struct receiver receiver, struct pack senders)
__CPROVER_requires(self == vx_self && receiver.id == RECV_ID && GHOST_ZERO && g_np <= NP_MAX && senders.tok >= 0 && senders.tok <= 1000)
__CPROVER_ensures(NO_EFFECTS)
__CPROVER_ensures(!vx_exc ==> (self->receiver.id == RECV_ID && self->num_predecessors == g_np && self->predecessors_remaining == g_np && !self->set_stopped_error_called))
__CPROVER_ensures(!vx_exc ==> (self->op_states.allocated && self->op_states.n == g_np && g_victim_connects == (g_victim < g_np ? 1 : 0)))
__CPROVER_ensures((!vx_exc && g_victim < g_np) ==> (g_victim_sender == SENDER_AT(senders, g_victim) && self->op_states.victim_has && self->op_states.victim_op == g_victim_child))
__CPROVER_ensures((!vx_exc && !IS_VOID_VALUE) ==> (g_resizes == 1 && self->ts.n == g_np))
__CPROVER_ensures(g_victim_connects <= 1)
__CPROVER_assigns(G, *self)
//@LIFT ctor
#endif

/* ======================= schedule_from / let_value / let_error: operation state constructor and start() ================= */
#ifdef U_OP_CTOR
#if RECV_HAS_CTOR
void wrecv_ctor(struct wrecv *self, struct wop *op_state)
//@LIFT recv_ctor
static struct wrecv wrecv_make(struct wop *s) { struct wrecv r; r.op_state = NULL; r.i = 0; r.has_index = false; wrecv_ctor(&r, s); return r; }
#endif
/* the downstream receiver, the callable / scheduler are stored; the predecessor sender given is connected exactly once to a
 * receiver that refers to this operation state and the resulting child operation state is kept; nothing started or signalled */
//@FUNC
void op_ctor(struct wop *self, int predecessor_sender, int scheduler, struct receiver receiver, int f)
__CPROVER_requires(self == vx_self && receiver.id == RECV_ID && GHOST_ZERO)
__CPROVER_ensures(NO_EFFECTS)
__CPROVER_ensures(!vx_exc ==> (self->receiver.id == RECV_ID && (!HAS_F || self->f == f) && (!HAS_SCHEDULER || self->scheduler == scheduler)))
__CPROVER_ensures(!vx_exc ==> (g_connects == 1 && g_conn_sender == predecessor_sender && self->CHILD_MEMBER == g_child_op))
__CPROVER_ensures(vx_exc ==> g_connects == 0)
__CPROVER_assigns(G, *self)
//@LIFT ctor
#endif

#ifdef U_OP_START
/* start(): the child operation state kept by the constructor is started, exactly once; nothing else */
//@FUNC
void op_start(struct wop *self)
__CPROVER_requires(self == vx_self && GHOST_ZERO)
__CPROVER_ensures(g_starts == 1 && g_started_op == __CPROVER_old(self->CHILD_MEMBER) && g_signals == 0 && g_connects == 0)
__CPROVER_assigns(G)
//@LIFT start
#endif

/* ======================= then / bulk / drop_value / unpack: sender::connect ============================================== */
#ifdef U_FWD_CONNECT
struct asender { int sender; int f; int shape; };            /* the adaptor's sender: predecessor + parameters */
struct arecv { struct receiver receiver; int f; int shape; };   /* the adaptor's receiver */
static struct arecv g_ar; static long g_aconnects; static int g_aconn_sender, g_achild;
#if RECV_HAS_CTOR
void arecv_ctor(struct arecv *self, struct receiver receiver, int shape, int f)
//@LIFT recv_ctor
static struct arecv arecv_make(struct receiver receiver, int shape, int f) { struct arecv r; r.receiver.id = 0; r.f = 0; r.shape = 0; arecv_ctor(&r, receiver, shape, f); return r; }
#endif
static int a_connect(int sender, struct arecv r)
{
  if (g_aconnects < 3) g_aconnects++;
  g_aconn_sender = sender; g_ar = r; g_achild = nondet_int();
  return g_achild;
}
/* connect(receiver): the predecessor sender is connected exactly once to the adaptor's receiver, which carries the downstream
 * receiver and the sender's parameters (callable, shape); the resulting operation state is the one returned */
//@FUNC
int fwd_connect(struct asender *self, struct receiver receiver)
__CPROVER_requires(receiver.id == RECV_ID && g_aconnects == 0)
__CPROVER_ensures(g_aconnects == 1 && g_aconn_sender == self->sender && __CPROVER_return_value == g_achild)
__CPROVER_ensures(g_ar.receiver.id == RECV_ID && (!HAS_F || g_ar.f == self->f) && (!HAS_SHAPE || g_ar.shape == self->shape))
__CPROVER_assigns(g_ar, g_aconnects, g_aconn_sender, g_achild)
//@LIFT connect
#endif

void harness(void)
{
  struct wop o; struct receiver rcv; struct pack snd;
  init_ghost();
  vx_self = &o;
  rcv.id = RECV_ID; snd.tok = nondet_int();
  g_np = nondet_size(); g_I = nondet_size(); g_victim = nondet_size();
  g_connect_may_throw = nondet_bool();
  o.receiver.id = 0; o.f = nondet_int(); o.scheduler = nondet_int();
  o.num_predecessors = nondet_size(); o.predecessors_remaining = nondet_size(); o.set_stopped_error_called = nondet_bool();
  o.op_state = nondet_int(); o.sender_os = nondet_int(); o.predecessor_op_state = nondet_int(); o.predecessor_operation_state = nondet_int();
  o.op_states.n = 0; o.op_states.allocated = false; o.op_states.victim_has = false; o.op_states.victim_op = 0; o.ts.n = 0; o.started = false;
#ifdef U_WA_BASE
  wa_base_ctor(&o, rcv, snd);
  if (vx_exc) VX_REACH("connect_threw"); else VX_REACH("constructed");
#endif
#ifdef U_WA_DERIVED
  wa_derived_ctor(&o, rcv, snd);
  if (vx_exc && g_connects == 0 && G.throw_seen) VX_REACH("connect_threw");
  if (vx_exc && !G.throw_seen) VX_REACH("base_threw");
  if (!vx_exc) VX_REACH("constructed");
#endif
#ifdef U_WA_CONNECT
  {
    struct wa_sender s; struct wop ret;
    s.senders = snd; g_top_ctors = 0; g_top_index = 0; g_top_recv_id = 0; g_top_pack = 0; g_ret = &ret;
    wa_connect(&s, &ret, rcv);
    VX_REACH("connected");
  }
#endif
#ifdef U_WAV_CTOR
  wav_ctor(&o, rcv, snd);
  if (vx_exc) VX_REACH("connect_threw");
  if (!vx_exc && g_np == 0) VX_REACH("no_predecessors");
  if (!vx_exc && g_victim < g_np) VX_REACH("victim_connected");
#endif
#ifdef U_FWD_CONNECT
  {
    struct asender s; s.sender = nondet_int(); s.f = nondet_int(); s.shape = nondet_int();
    g_aconnects = 0; g_aconn_sender = 0; g_achild = 0; g_ar.receiver.id = 0; g_ar.f = 0; g_ar.shape = 0;
    { int v = fwd_connect(&s, rcv); (void) v; }
    VX_REACH("connected");
  }
#endif
#ifdef U_OP_CTOR
  op_ctor(&o, nondet_int(), nondet_int(), rcv, nondet_int());
  if (vx_exc) VX_REACH("connect_threw"); else VX_REACH("constructed");
#endif
#ifdef U_OP_START
  op_start(&o);
  VX_REACH("started");
#endif
}
