import re

from vx.lift import Lift, Sub, Call, Members, Guard, DropStmt, TryCatch, Auto, Rule, LiftError, match_close, read_source
from vx.run import Unit

ALG = "libs/pika/execution/include/pika/execution/algorithms/"
UNITS = []


# ---------------------------------------------------------------------------------------------------------------
# local helper rules (syntactic)


class RangeFor(Rule):
    """`for (auto [const] &[&] x : c) {`  ->  `for (size_t vx_itK = 0; vx_itK != SIZE(&c); ++vx_itK) { ELEM x = AT(&c, vx_itK);`
    (range-based for over an indexable container; the container operations stay calls to stubs)"""

    def __init__(self, n=None, size="conts_size", at="conts_at", elem="struct cont"):
        self.n, self.size, self.at, self.elem = n, size, at, elem

    def apply(self, text):
        k = [0]

        def rep(m):
            k[0] += 1
            it = "vx_it%d" % k[0]
            return "for (size_t %s = 0; %s != %s(&%s); ++%s) { %s %s = %s(&%s, %s);" % (
                it, it, self.size, m.group(2), it, self.elem, m.group(1), self.at, m.group(2), it)

        text = re.sub(r"\bfor\s*\(\s*auto\s*(?:const\s*)?&{1,2}\s*(\w+)\s*:\s*((?:\w+(?:\.|->))*\w+)\s*\)\s*\{", rep, text)
        self.check(k[0], "RangeFor")
        return text


class Lambda(Rule):
    """`[caps]() [mutable] { BODY }`  ->  `VX_CLOSURE(caps)` (capture list without `&`).  The BODY is not part of the enclosing
    function's behaviour (it runs when the closure is invoked); it is lifted as a unit of its own from the same text."""

    def __init__(self, n=1):
        self.n = n

    def apply(self, text):
        k = 0
        rx = re.compile(r"\[([^\[\]]*)\]\s*\(\s*\)\s*(?:mutable\s*)?\{")
        while True:
            m = rx.search(text)
            if not m:
                break
            op = m.end() - 1
            cl = match_close(text, op, "{", "}")
            caps = ", ".join(c.strip().lstrip("&").strip() for c in m.group(1).split(",") if c.strip())
            text = text[: m.start()] + "VX_CLOSURE(%s)" % caps + text[cl + 1:]
            k += 1
        self.check(k, "Lambda")
        return text


FWD = Sub(r"std::forward<(?:[^<>()]|\([^()]*\))*>\((\w+)\)(?:\s*\.\.\.)?", r"\1", None)
SETSIG = Sub(r"pika::execution::experimental::set_(value|error|stopped)\b", r"recv_set_\1", None)
THIS = Sub(r"\bthis\b", "self", None)
BIND_APPLY = [Call(r"pika::util::detail::bind_front", "VX_BIND({0}, {1})", None), Call(r"std::apply", "VX_APPLY({0}, {1})", None)]


def visit_tmpl(args, env):
    """pika::detail::visit(VISITOR<targs>{receiver}, variant)  ->  visit_VISITOR(receiver, [non-type targs,] &(variant))"""
    m = re.match(r"\s*(\w+)<([^{}]*)>\s*\{\s*(\w+)\s*\}\s*,\s*(.*)$", env["args"], re.S)
    if not m:
        raise LiftError("visit: first argument is not VISITOR<..>{receiver}: %r" % env["args"][:80])
    name, targs, recv, var = m.groups()
    extra = [a.strip() for a in targs.split(",") if a.strip() and a.strip() != "Receiver"]
    return "visit_%s(%s, %s&(%s))" % (name, recv, "".join(e + ", " for e in extra), var.strip())


VISIT = Call(r"pika::detail::visit", visit_tmpl, None)

# ---------------------------------------------------------------------------------------------------------------
# unit group 1: shared-state adaptors (split, split_tuple, ensure_started) -- one parametrised rule set


def _recv_holds_ptr(src, recv_struct):
    """declared type of the predecessor receiver's `state` member, read from the source"""
    try:
        m = re.search(r"struct %s\s*\{.*?(pika::intrusive_ptr<shared_state>|shared_state\s*&)\s*state\s*;" % recv_struct, read_source(src), re.S)
    except LiftError:
        return 0
    return 1 if (m and m.group(1).startswith("pika::intrusive_ptr")) else 0


def emplace_tmpl(args, env):
    alt = env["h2"].split("::")[-1]
    tok = args[0] if args and args[0] else "0"
    return "variant_emplace(&%s.state->v, VX_ALT_%s, %s)" % (env["h1"], alt, tok)


RECV_RULES = [
    # auto r = std::move(*this);  (RAII: r lives to the end of the function and owns what the receiver owned)
    Guard(r"auto (\w+) = std::move\(\*this\);", r"struct pred_receiver \1 = pred_receiver_move(self);", r"pred_receiver_dtor(&\1);", None),
    # auto&& r = std::move(*this);  (a reference: nothing is moved, the receiver stored in the predecessor operation state keeps its members)
    Sub(r"auto\s*&&?\s*(\w+) = std::move\(\*this\);", r"struct pred_receiver \1 = pred_receiver_alias(self);", None),
    Sub(r"\bpred_receiver_(move|alias)\(self\)", r"pred_receiver_\1(self)", 1),     # exactly one of the two spellings
    Sub(r"\b(\w+)\.state\.", r"\1.state->", None),
    FWD,
    Call(r"std::make_tuple(?:<>)?", "{args}", None),
    Call(r"\berror_type", "{args}", None),
    Call(r"\b(\w+)\.state->v\.template emplace<([\w:]+)>", emplace_tmpl, None),
    Call(r"\b(\w+)\.state->set_predecessor_done", "set_predecessor_done({h1}.state)", None),
]

CONT_RULES = {
    0: [  # pika::detail::small_vector<continuation_type, 1> continuations
        Sub(r"\bcontinuations\.empty\(\)", "conts_empty(&continuations)", None),
        RangeFor(None),
        Sub(r"(?<![\w.>])continuation\(\);", "cont_invoke(continuation);", None),
        Sub(r"\bcontinuations\.clear\(\);", "conts_clear(&continuations);", None),
        Call(r"\bcontinuations\.emplace_back", "conts_emplace_back(&continuations, {0})", None),
    ],
    1: [  # std::array<continuation_type, N> continuations
        Sub(r"\bcontinuations\.empty\(\)", "conts_empty(&continuations)", None),
        Sub(r"auto (\w+) = std::move\(continuations\);", r"struct conts \1 = conts_move(&continuations);", None),
        RangeFor(None),
        Sub(r"if \(continuation\)", "if (cont_engaged(continuation))", None),
        Sub(r"(?<![\w.>])continuation\(\);", "cont_invoke(continuation);", None),
        Sub(r"\bcontinuations\[(\w+)\]\s*=\s*(VX_CLOSURE\([^()]*\));", r"conts_assign(&continuations, \1, \2);", None),
    ],
    2: [  # std::optional<continuation_type> continuation
        Sub(r"if \(continuation\)", "if (opt_has(&continuation))", None),
        Sub(r"\(\*continuation\)\(\);", "cont_invoke(conts_at(&continuation, 0));", None),
        Sub(r"\bcontinuation\.reset\(\);", "conts_clear(&continuation);", None),
        Sub(r"\bcontinuation\.has_value\(\)", "opt_has(&continuation)", None),
        Call(r"\bcontinuation\.emplace", "conts_emplace_back(&continuation, {0})", None),
    ],
}


def spd_rules(kind, member):
    return [
        Guard(r"pika::intrusive_ptr<shared_state>\s+\w+\s*[({]\s*this\s*[)}]\s*;", "vx_ref_acquire(self);", "vx_ref_release(self);", None),
        Sub(r"\bos\.reset\(\);", "os_reset(self);", None),
        Sub(r"\bos\.has_value\(\)", "os_has_value(self)", None),
        Sub(r"(?<![\w.>])predecessor_done\s*=\s*([^;=]+);", r"atomic_store_bool(&self->predecessor_done, \1);", None),
        Guard(r"std::lock_guard<mutex_type>\s+(\w+)\s*[({]\s*mtx\s*[)}]\s*;", r"struct ulock \1 = ulock_make(&self->mtx);", r"ulock_dtor(&\1);", None),
    ] + CONT_RULES[kind] + [Members([member])]


def add_rules(kind, member):
    return [
        Lambda(None), THIS,
        Guard(r"std::(?:unique_lock|lock_guard|scoped_lock)<mutex_type>\s+(\w+)\s*[({]\s*mtx\s*[)}]\s*;", r"struct ulock \1 = ulock_make(&self->mtx);", r"ulock_dtor(&\1);", None),
        Sub(r"\b(\w+)\.unlock\(\);", r"ulock_unlock(&\1);", None),
        VISIT,
    ] + CONT_RULES[kind] + [
        Sub(r"(?<![\w.>&])predecessor_done\b", "atomic_load_bool(&self->predecessor_done)", None),
        Members([member, "v"], optional=[member]),
    ]


def loop_spd(cont_expr):
    return """
__CPROVER_assigns(vx_it1, g_victim_calls, g_alive)
__CPROVER_loop_invariant(vx_it1 <= %(c)s.n && (g_refs == 0 || g_alive))
__CPROVER_loop_invariant(g_victim_calls == ((%(c)s.victim_engaged && g_victim < vx_it1) ? 1 : 0))
""" % {"c": cont_expr}


SEV_COMMON = [Sub(r"std::move\((error)\)", r"(*tok_moved_p(&(\1)))", None), FWD, SETSIG, VISIT, Sub(r"std::get<(\w+)>\((\w+)\)", r"tok_get(\1, \2)", None),
              Sub(r"pika::execution::experimental::sender_traits<Sender>::sends_done", "PRED_SENDS_STOPPED", None)] + BIND_APPLY + [
    Members(["receiver", "Index"], optional=["receiver", "Index"])]

SHARED = {
    "split": dict(
        src=ALG + "split.hpp", kind=0, member="continuations", recv_struct="split_receiver", value_in="ts", value_param="ts",
        set_value=r"auto set_value\(Ts&&\.\.\. ts\) && noexcept", sev_mono=r"void operator\(\)\(pika::detail::monostate\) const",
        sev_error=r"void operator\(\)\(error_type(?: const)?\s*&&? error\)", sev_value=r"void operator\(\)\(value_type const& ts\)",
        ev=r"void operator\(\)\(Error(?: const)?\s*&&? error\)", vv=r"void operator\(\)\(Ts const& ts\)",
        loop=loop_spd("self->continuations"), op_starts_pred=1, sends_stopped=[1]),
    "split_tuple": dict(
        src=ALG + "split_tuple.hpp", kind=1, member="continuations", recv_struct="split_tuple_receiver", value_in="t", value_param="t",
        set_value=r"auto set_value\(T&& t\) && noexcept", sev_mono=r"void operator\(\)\(pika::detail::monostate\) const",
        sev_error=r"void operator\(\)\(error_type(?: const)?\s*&&? error\)", sev_value=r"void operator\(\)\(value_type& t\)",
        ev=r"void operator\(\)\(Error(?: const)?\s*&&? error\)", vv=None,
        loop=loop_spd("continuations_local"), op_starts_pred=1, sends_stopped=[1, 0]),
    "ensure_started": dict(
        src=ALG + "ensure_started.hpp", kind=2, member="continuation", recv_struct="ensure_started_receiver", value_in="ts", value_param="t",
        set_value=r"auto set_value\(Ts&&\.\.\. ts\) && noexcept", sev_mono=r"void operator\(\)\(T&&\) const",
        sev_error=r"void operator\(\)\(error_type&& error\)", sev_value=r"void operator\(\)\(T&& t\)",
        ev=r"void operator\(\)\(Error&& error\)", vv=r"void operator\(\)\(Ts&& ts\)",
        loop=None, op_starts_pred=0, sends_stopped=[1]),
}


def shared_units(name, c):
    src, kind, member = c["src"], c["kind"], c["member"]
    base = ["ERROR_SHARED=%d" % (1 if kind in (0, 1) else 0), "CONT_KIND=%d" % kind, "CONT_MEMBER=" + member, "RECV_HOLDS_PTR=%d" % _recv_holds_ptr(src, c["recv_struct"]),
            "VALUE_IN=" + c["value_in"], "VALUE_PARAM=" + c["value_param"], "OP_START_STARTS_PRED=%d" % c["op_starts_pred"]]
    D = base + ["PRED_SENDS_STOPPED=1"]
    where = src + ": " + name + " shared_state::"
    us = []
    # (i) predecessor receiver
    for sig, loc in [("value", c["set_value"]), ("error", r"void set_error\(Error&& error\) && noexcept"), ("stopped", r"void set_stopped\(\) && noexcept")]:
        us.append(Unit("%s.recv.set_%s" % (name, sig), "shared.c", defines=D + ["U_RECV", "U_RECV_" + sig.upper()], enforce="pr_set_" + sig,
                       lifts={"body": Lift(src, loc, rules=RECV_RULES)}, funcs=[where + c["recv_struct"] + "::set_" + sig], min_obligations=8,
                       doc="(i) a non-monostate alternative of the right kind is stored in v before set_predecessor_done is called (once)"))
    # (ii) set_predecessor_done
    us.append(Unit(name + ".set_predecessor_done", "shared.c", defines=D + ["U_SPD"], enforce="set_predecessor_done",
                   lifts={"body": Lift(src, r"void set_predecessor_done\(\)", rules=spd_rules(kind, member),
                                       loops=({1: c["loop"], "count": 1} if c["loop"] else {"count": 0}))},
                   funcs=[where + "set_predecessor_done"], min_obligations=20,
                   doc="(ii) os reset, done published, lock cycle, then every stored continuation exactly once, container emptied; "
                       "nothing touched after the state may be gone"))
    # (iii) add_continuation + stored continuation, per predecessor stop capability
    vis = {
        "sev_monostate": Lift(src, c["sev_mono"], rules=SEV_COMMON),
        "sev_stopped": Lift(src, r"void operator\(\)\(pika::execution::detail::stopped_type\)", rules=SEV_COMMON),
        "sev_error": Lift(src, c["sev_error"], rules=SEV_COMMON),
        "sev_value": Lift(src, c["sev_value"], rules=SEV_COMMON),
        "ev_call": Lift(src, c["ev"], rules=SEV_COMMON),
    }
    if c["vv"]:
        vis["vv_call"] = Lift(src, c["vv"], rules=SEV_COMMON)
    vfuncs = [src + ": " + name + " stopped_error_value_visitor::operator() (4 overloads), error_visitor::operator()" + (", value_visitor::operator()" if c["vv"] else "")]
    for ss in c["sends_stopped"]:
        DS = base + ["PRED_SENDS_STOPPED=%d" % ss]
        sfx = "" if ss else ".nostop"
        us.append(Unit(name + ".add_continuation" + sfx, "shared.c", defines=DS + ["U_ADD"], enforce="add_continuation",
                       lifts=dict(vis, body=Lift(src, r"void add_continuation\(Receiver& receiver\)", rules=add_rules(kind, member))),
                       funcs=[where + "add_continuation"] + vfuncs, min_obligations=30,
                       doc="(iii) exactly one of {deliver inline, store}; store only under the lock after re-reading done == false; inline "
                           "delivery of the alternative recorded in v; visiting monostate unreachable"))
        us.append(Unit(name + ".continuation" + sfx, "shared.c", defines=DS + ["U_CONT"], enforce="continuation_body",
                       lifts=dict(vis, body=Lift(src, r"\[this, &receiver\]\(\) mutable", rules=[THIS, VISIT, Members(["v"])])),
                       funcs=[where + "add_continuation (stored lambda)"] + vfuncs, min_obligations=10,
                       doc="(iii) the stored continuation delivers the alternative recorded in v, once"))
    # (iv) start
    us.append(Unit(name + ".start", "shared.c", defines=D + ["U_START"], enforce="ss_start_impl",
                   lifts={"body": Lift(src, r"void start\(\) & noexcept", expect=2, which=0, rules=[
                       Call(r"\bstart_called\.exchange", "atomic_exchange_bool(&self->start_called, {0})", None),
                       Members(["start_called"], optional=["start_called"]),
                       Sub(r"\bos\.has_value\(\)", "os_has_value(self)", None),
                       Sub(r"\*os\b", "os_deref(self)", None),
                       Call(r"pika::execution::experimental::start", "pred_start({0})", None)])},
                   funcs=[where + "start"], min_obligations=8, doc="(iv) the predecessor is started at most once (exchange(true))"))
    us.append(Unit(name + ".op_start", "shared.c", defines=D + ["U_OP_START"], enforce="op_start",
                   lifts={"body": Lift(src, r"void start\(\) & noexcept", expect=2, which=1, rules=[
                       Sub(r"(?<![\w.>])state->", "ops_state(self)->", None),
                       Call(r"ops_state\(self\)->start", "ss_start(ops_state(self))", None),
                       Call(r"ops_state\(self\)->(?:template\s+)?add_continuation(?:<\w+>)?", "ss_add_continuation(ops_state(self), &({0}))", None),
                       Members(["receiver"], optional=["receiver"])])},
                   funcs=[src + ": " + name + " sender operation_state::start"], min_obligations=4))
    return us


for _n in ("split", "split_tuple", "ensure_started"):
    UNITS += shared_units(_n, SHARED[_n])


# ---------------------------------------------------------------------------------------------------------------
# unit group 2: join adaptors when_all / when_all_vector


class VisitLambda(Rule):
    """pika::detail::visit([caps](auto&& X) { BODY }, ARG)  ->  { int vx_alt = (ARG); BODY[X := vx_alt] }
    (a generic lambda applied to the active alternative of a variant = its body run on that alternative)"""

    def __init__(self, n=None):
        self.n = n

    def apply(self, text):
        k = 0
        rx = re.compile(r"pika::detail::visit\s*\(")
        pos = 0
        while True:
            m = rx.search(text, pos)
            if not m:
                break
            op = m.end() - 1
            cl = match_close(text, op)
            inner = text[op + 1:cl]
            ml = re.match(r"\s*\[[^\]]*\]\s*\(\s*auto\s*&&\s*(\w+)\s*\)\s*\{", inner, re.S)
            if not ml:
                pos = m.end()
                continue
            bop = ml.end() - 1
            bcl = match_close(inner, bop, "{", "}")
            rest = inner[bcl + 1:]
            mr = re.match(r"\s*,\s*(.*)$", rest, re.S)
            if not mr:
                raise LiftError("VisitLambda: no variant argument")
            body = re.sub(r"\b%s\b" % re.escape(ml.group(1)), "vx_alt", inner[bop + 1:bcl])
            end = cl + 1
            ms = re.match(r"\s*;", text[end:])
            if ms:
                end += ms.end()
            text = text[:m.start()] + "{ int vx_alt = (%s); %s }" % (mr.group(1).strip(), body) + text[end:]
            k += 1
        self.check(k, "VisitLambda")
        return text


WA = ALG + "when_all.hpp"
WAV = ALG + "when_all_vector.hpp"
THROWS = " if (vx_exc) VX_THROW_NOW;"
WA_RECV_RULES = [
    Sub(r"auto (\w+) = std::move\(\*this\);", r"struct wa_receiver \1 = *self;", 1),
    Sub(r"\b(\w+)\.op_state\.", r"\1.op_state->", None),
    FWD,
    Call(r"\b(\w+)\.op_state->set_stopped_error_called\.exchange", "atomic_exchange_bool(&{h1}.op_state->set_stopped_error_called, {0})", None),
    Sub(r"\b(\w+)\.op_state->set_stopped_error_called\s*=\s*([^;=]+);", r"atomic_store_bool(&\1.op_state->set_stopped_error_called, \2);", None),
    Sub(r"(?<!&)\b(\w+)\.op_state->set_stopped_error_called\b", r"atomic_load_bool(&\1.op_state->set_stopped_error_called)", None),
    Sub(r"\b(\w+)\.op_state->error\s*=\s*std::current_exception\(\);", r"error_assign_current(\1.op_state);", None),
    Sub(r"\b(\w+)\.op_state->error\s*=\s*([^;]+);", r"{ error_assign(\1.op_state, \2);" + THROWS + " }", None),
    # when_all: r.set_value_helper(index_pack_type{}, ts...);   when_all_vector: r.op_state.ts[r.i].emplace(ts...);
    Sub(r"\b(\w+)\.set_value_helper\(index_pack_type\{\},\s*(\w+)\);", r"{ recv_set_value_helper(&\1, \2);" + THROWS + " }", None),
    Sub(r"\b(\w+)\.op_state->ts\[([\w.]+)\]\.emplace\((\w+)\);", r"{ slots_emplace(&\1.op_state->ts, \2, \3);" + THROWS + " }", None),
    Call(r"\b(\w+)\.op_state->finish", "wa_finish({h1}.op_state)", None),
    Sub(r"\bOperationState::(\w+)", r"OPSTATE_\1", None),
    Sub(r"sizeof\.\.\.\(Ts\)", "SIZEOF_TS", None),
    TryCatch(None),
]
WA_HELPER_RULES = [
    FWD,
    Sub(r"\((\w+)\.ts\.template get<([\w:]+) \+ Is>\(\)\.emplace\(\s*(\w+)\),\s*\.\.\.\);", r"pack_emplace(&\1->ts, \2, \3);", 1),
    Sub(r"\bOperationState::(\w+)", r"OPSTATE_\1", None),
    Members(["op_state"]),
]
# the member `std::optional<variant<...>> error`: `*error` and (what is left after that) its contextual conversion to bool
ERR_MEMBER = [Sub(r"\*error\b", "error_deref(self)", None), Sub(r"(?<![\w.>])error\b(?!\s*[=(.])", "error_engaged(self)", None)]
WA_FINISH_RULES = [
    Sub(r"--\s*\(?predecessors_remaining\)?", "atomic_dec_fetch(&self->predecessors_remaining)", None),
    Sub(r"(?<![\w.>&])set_stopped_error_called\b", "atomic_load_bool(&self->set_stopped_error_called)", None),
    FWD, VisitLambda(None), THIS] + ERR_MEMBER + [
    Sub(r"\bset_value_helper\((\w+)\);", r"op_set_value_helper(self, &\1);", None),
    Sub(r"pika::execution::experimental::set_value\(\s*std::move\(receiver\),\s*std::move\(\*\((\w+)\.template get<Is>\(\)\)\)\.\.\.\)", r"recv_set_value_pack(std::move(receiver), PACK(\1))", None),
    SETSIG,
    Sub(r"std::move\(receiver\)", "&self->receiver", None),
    Sub(r"types::is_void_value_type", "IS_VOID_VALUE", None),
    Sub(r"pika::execution::experimental::sender_traits<Sender>::sends_done", "PRED_SENDS_STOPPED", None),
    Sub(r"std::vector<typename types::element_value_type>\s+(\w+);", r"struct vec \1 = vec_make();", None),
    Sub(r"std::vector<typename types::element_value_type>\{\}", "vec_make()", None),
    Call(r"\b(\w+)\.reserve", "vec_reserve(&{h1}, {0})", None),
    RangeFor(None, size="slots_size", at="slots_at", elem="struct slot"),
    Sub(r"\b(\w+)\.has_value\(\)", r"slot_has_value(\1)", None),
    Sub(r"std::move\(\s*\*(\w+)\s*\)", r"slot_deref(\1)", None),
    Call(r"\b(\w+)\.push_back", "vec_push_back(&{h1}, {0})", None),
    Sub(r"(?<![\w.>])num_predecessors\b", "wa_num_predecessors(self)", None),
]
WA_TS = [Members(["ts"], optional=["ts"])]
LOOP_WAV_FINISH = """
__CPROVER_assigns(vx_it1, values)
__CPROVER_loop_invariant(vx_it1 <= self->ts.n && values.n == vx_it1 && values.has_victim == (g_victim < vx_it1))
__CPROVER_loop_invariant(!values.has_victim || (values.victim_pos == g_victim && values.victim_tok == self->ts.victim_tok))
"""
LOOP_WAV_START = """
__CPROVER_assigns(i, g_alive, g_child_starts_victim)
__CPROVER_loop_invariant(i <= num_predecessors_local && num_predecessors_local == g_np && (i < g_np ==> g_alive))
__CPROVER_loop_invariant(g_child_starts_victim == (g_victim < i ? 1 : 0))
"""


def join_units():
    us = []
    for (name, src, vec) in [("when_all", WA, 0), ("when_all_vector", WAV, 1)]:
        variants = [("", 1, 0)] + ([(".void", 1, 1), (".nostop", 0, 0)] if vec else [])
        sv = r"void set_value\(Ts&&\.\.\. ts\) && noexcept" if vec else r"auto set_value\(Ts&&\.\.\. ts\) && noexcept"
        rname = "when_all_vector_receiver" if vec else "when_all_receiver_type"
        for (sfx, stop, void) in variants:
            D = ["WA_VECTOR=%d" % vec, "PRED_SENDS_STOPPED=%d" % stop, "IS_VOID_VALUE=%d" % void]
            if sfx != ".nostop":
                for sig, loc in [("value", sv), ("error", r"void set_error\(Error&& error\) && noexcept"), ("stopped", r"void set_stopped\(\) && noexcept")]:
                    lifts = {"body": Lift(src, loc, rules=WA_RECV_RULES)}
                    if sig == "value" and not vec:
                        lifts["recv_helper"] = Lift(src, r"auto set_value_helper\(pika::util::detail::index_pack<Is\.\.\.>, Ts&&\.\.\. ts\)", rules=WA_HELPER_RULES)
                    us.append(Unit("%s.recv.set_%s%s" % (name, sig, sfx), "join.c", defines=D + ["U_WA_RECV", "U_WA_RECV_" + sig.upper()], enforce="war_set_" + sig,
                                   lifts=lifts, funcs=["%s: %s::set_%s" % (src, rname, sig)], min_obligations=10,
                                   doc="each receiver signal calls finish() exactly once (all paths); first error wins through exchange and is stored before finish()"))
            lifts = {"body": Lift(src, r"void finish\(\) noexcept", rules=WA_FINISH_RULES + WA_TS,
                                         loops=({1: LOOP_WAV_FINISH, "count": 1} if vec else {"count": 0}))}
            if not vec:
                lifts["op_helper"] = Lift(src, r"void set_value_helper\(\s*pika::util::detail::member_pack<", rules=WA_FINISH_RULES)
            us.append(Unit("%s.finish%s" % (name, sfx), "join.c", defines=D + ["U_WA_FINISH"], enforce="finish", lifts=lifts,
                           funcs=["%s: %s operation_state::finish" % (src, name)] + ([] if vec else ["%s: when_all operation_state::set_value_helper" % src]),
                           min_obligations=20, loop_contracts=(False if void else None),
                           doc="downstream signalled iff the decrement reaches 0: value iff nothing latched, the stored error iff one was stored, stopped otherwise"))
            if vec and sfx != ".nostop":
                us.append(Unit("%s.start%s" % (name, sfx), "join.c", defines=D + ["U_WAV_START"], enforce="wav_start",
                               lifts={"body": Lift(src, r"void start\(\) & noexcept", rules=WA_FINISH_RULES + [
                                   Sub(r"\bop_states\[(\w+)\]\.has_value\(\)", r"opstates_has(self, \1)", None),
                                   Sub(r"\*\(op_states\.get\(\)\[(\w+)\]\)", r"opstates_deref(self, \1)", None),
                                   Call(r"pika::execution::experimental::start", "child_start({0})", None)] + WA_TS,
                                   loops={1: LOOP_WAV_START, "count": 1})},
                               funcs=["%s: when_all_vector operation_state::start" % src], min_obligations=10))
    return us


UNITS += join_units()
for _w, _d in ((0, 0), (1, 1)):
    UNITS.append(Unit("when_all.start.%s" % ("derived" if _d else "base"), "join.c", defines=["WA_VECTOR=0", "PRED_SENDS_STOPPED=1", "IS_VOID_VALUE=0", "U_WA_START", "WA_DERIVED=%d" % _d],
                      enforce="wa_start", lifts={"body": Lift(WA, r"void start\(\) & noexcept", expect=2, which=_w, rules=[
                          Sub(r"\bbase_type::start\(\);", "wa_base_start(self);", None),
                          Call(r"pika::execution::experimental::start", "wa_child_start(self)", None)])},
                      funcs=[WA + ": when_all operation_state<..., %s>::start" % ("I" if _d else "0")], min_obligations=2))
UNITS.append(Unit("shared.lemma_L3", "lemma.c", kind="lemma", loop_contracts=False, min_obligations=4,
                  doc="lemma over contracts (ii)+(iii): whatever the interleaving of one consumer's add_continuation with the predecessor's "
                      "set_predecessor_done, the consumer is signalled exactly once (stored => stored before the predecessor's lock cycle)"))

# ---------------------------------------------------------------------------------------------------------------
# unit groups 3-5: exception-wrapping adaptors, schedule_from, start_detached, pure forwarders (one table)


class TryCatchEP(Rule):
    """pika::detail::try_catch_exception_ptr([&]() { A }, [&](std::exception_ptr X) { B });
    ->  try { A } catch (...) { int X = vx_current_exception(); B }
    (contract of the helper, proved as unit errors.try_catch_exception_ptr: t once; c iff t threw, with that exception)"""

    def __init__(self, n=None):
        self.n = n

    def apply(self, text):
        k = 0
        rx = re.compile(r"pika::detail::try_catch_exception_ptr\s*\(")
        while True:
            m = rx.search(text)
            if not m:
                break
            op = m.end() - 1
            cl = match_close(text, op)
            inner = text[op + 1:cl]
            m1 = re.match(r"\s*\[&\]\s*\(\s*\)\s*\{", inner)
            if not m1:
                raise LiftError("TryCatchEP: first argument is not a [&]() lambda")
            a0 = m1.end() - 1
            a1 = match_close(inner, a0, "{", "}")
            m2 = re.match(r"\s*,\s*\[&\]\s*\(\s*std::exception_ptr\s+(\w+)\s*\)\s*\{", inner[a1 + 1:])
            if not m2:
                raise LiftError("TryCatchEP: second argument is not a [&](std::exception_ptr x) lambda")
            b0 = a1 + 1 + m2.end() - 1
            b1 = match_close(inner, b0, "{", "}")
            if inner[b1 + 1:].strip():
                raise LiftError("TryCatchEP: trailing text")
            end = cl + 1
            ms = re.match(r"\s*;", text[end:])
            if ms:
                end += ms.end()
            text = text[:m.start()] + "try { %s } catch (...) { int %s = vx_current_exception(); %s }" % (
                inner[a0 + 1:a1], m2.group(1), inner[b0 + 1:b1]) + text[end:]
            k += 1
        self.check(k, "TryCatchEP")
        return text


def unwrap_with_result_of(args, env):
    m = re.match(r"\s*\[&\]\s*\(\s*\)\s*(?:mutable\s*)?\{\s*return\s+(.*);\s*\}\s*$", args[0], re.S)
    if not m:
        raise LiftError("with_result_of: argument is not [&]() { return E; }")
    return m.group(1)


def visit_generic(prop):
    """pika::detail::visit(VISITOR[<..>]{ctor args}, variant) -> visit_VISITOR([ctor args,] &(variant)); an exception raised
    inside the visitor propagates"""
    def tmpl(args, env):
        m = re.match(r"\s*(\w+)(?:<[^{}]*>)?\s*\{\s*([^{}]*?)\s*\}\s*,\s*(.*)$", env["args"], re.S)
        if not m:
            raise LiftError("visit: %r" % env["args"][:80])
        name, ctor, var = m.groups()
        return "visit_%s(%s&(%s)); if (vx_exc) %s" % (name, (ctor + ", ") if ctor else "", var.strip(), prop)
    return tmpl


def throwing(call, prop):
    return "({ int vx_v = %s; if (vx_exc) %s; vx_v; })" % (call, prop)


EMPLACE_T = r"\.template emplace<(?:[^<>()]|<(?:[^<>()]|<[^<>()]*>)*>)*>"


def chan_rules(prop, members=()):
    """prop: how an exception leaves the lifted text: 'VX_THROW_NOW' (inside a lowered try / noexcept body) or 'return'"""
    return [
        TryCatchEP(None),
        Sub(r"auto (\w+) = std::move\(\*this\);", r"struct rcv \1 = *self;", None),
        Sub(r"\b(\w+)\.op_state\.", r"\1.op_state->", None),
        FWD, Sub(r"\b(ts|us)\s*\.\.\.", r"\1", None),
        Sub(r"std::is_void_v<std::invoke_result_t<F, Ts\.\.\.>>", "F_RETURNS_VOID", None),
        Sub(r"std::is_same_v<std::decay_t<Error>, std::exception_ptr>", "ERROR_IS_EPTR", None),
        DropStmt(r"using operation_state_type =\s*decltype", None),
        Call(r"pika::detail::with_result_of", unwrap_with_result_of, None),
        Call(r"\bPIKA_INVOKE", throwing("invoke_f({args})", prop), None),
        Call(r"std::apply(?=\(std::move\(\w+(?:->|\.)f\))", throwing("invoke_f({args})", prop), None),
        # parked payloads / local decay copies
        Sub(r"\b((?:\w+(?:\.|->))*(?:predecessor_ts|predecessor_error|ts))" + EMPLACE_T + r"\(\s*(\w+)\s*\);",
            r"{ variant_emplace(&\1, \2); if (vx_exc) %s; }" % prop, None),
        Sub(r"auto\s*&&?\s*(\w+) = (\w+);", r"int \1 = ref_bind(\2);", None),
        Sub(r"auto (\w+) = (\w+);", r"int \1 = " + throwing(r"decay_copy(\2)", prop) + ";", None),
        Sub(r"std::tuple<std::decay_t<Ts>\.\.\.>\s+(\w+)\((\w+)\);", r"int \1 = " + throwing(r"decay_copy(\2)", prop) + ";", None),
        # successor / scheduler / child operation states
        Call(r"pika::execution::experimental::connect(?=\(\s*pika::execution::experimental::schedule)", "sched_connect({0}, {1})", None),
        Call(r"pika::execution::experimental::schedule", "sched_schedule({0})", None),
        Sub(r"scheduler_sender_receiver\{\*this\}", "self", None),
        Call(r"pika::execution::experimental::connect", throwing("sr_connect({0}, {1})", prop), None),
        Sub(r"\b((?:\w+(?:\.|->))*successor_op_state)\.template emplace<operation_state_type>\(", r"succ_emplace(&\1, ", None),
        Call(r"\bscheduler_op_state\.emplace", "sched_emplace(self, {0})", None),
        Sub(r"\bscheduler_op_state\.reset\(\);", "sched_reset(self);", None),
        Sub(r"\*scheduler_op_state\b", "sched_deref(self)", None),
        Call(r"pika::execution::experimental::start(?=\(\s*sched_deref)", "sched_start({0})", None),
        Sub(r"\b(\w+)\.op_state->op_state\.reset\(\);", r"os_reset(\1.op_state);", None),
        Sub(r"\b(\w+)\.op_state->op_state\.has_value\(\)", r"os_has_value(\1.op_state)", None),
        Sub(r"(?<![\w.>])op_state\.has_value\(\)", "os_has_value(self)", None),
        Sub(r"\*\(op_state\)", "os_deref(self)", None),
        Call(r"pika::execution::experimental::start(?=\(\s*os_deref)", "child_start({0})", None),
        Call(r"pika::execution::experimental::start(?=\(\s*op_state\s*\))", "succ_start({0})", None),
        Call(r"pika::detail::visit", visit_generic(prop), None),
        Call(r"\b(\w+)\.op_state->(set_(?:value|error|stopped)_(?:predecessor|scheduler)_sender)",
             lambda args, env: "op_method(%s.op_state, M_%s, %s)" % (env["h1"], env["h2"], args[0] if args and args[0] else "0"), None),
        Sub(r"std::current_exception\(\)", "vx_current_exception()", None),
        # start_detached
        Call(r"\b(\w+)\.op_state->release", "holder_release({h1}.op_state)", None),
        Sub(r"std::rethrow_exception\((\w+)\);", r"{ vx_terminate(); return; }", None),
        Sub(r"std::terminate\(\);", "{ vx_terminate(); return; }", None),
        Call(r"PIKA_ASSERT_MSG(?=\(\s*false)", "vx_terminate()", None),
        # just: set_value(std::move(receiver), std::move(ts).template get<Is>()...)
        Sub(r"std::move\(ts\)\.template get<Is>\(\)\s*\.\.\.", "VX_PACK(ts)", None),
        SETSIG] + BIND_APPLY + [
        Sub(r"std::move\(((?:\w+(?:\.|->))*receiver)\)", r"&\1", None),
        RangeFor(None, size="shape_size", at="shape_at", elem="size_t"),
        TryCatch(None),
    ] + ([Members(list(members), optional=list(members))] if members else [])


LOOP_BULK = """
__CPROVER_assigns(vx_it1, vx_exc, g_thrown_tok, g_f_arg, g_f_index, g_f_calls_victim)
__CPROVER_loop_invariant(vx_it1 <= r.shape.n && !vx_exc && g_f_calls_victim == (g_victim < vx_it1 ? 1 : 0))
"""
SE = r"void set_error\(Error&& error\) && noexcept"
SS = r"void set_stopped\(\) && noexcept"
SV = r"void set_value\(Ts&&\.\.\. ts\) && noexcept"
ASV = r"auto set_value\(Ts&&\.\.\. ts\) && noexcept"
OPM = ["receiver", "ts", "scheduler", "started"]

# name, file, locator, kind, SELF_T, PNAME, extra defines (table: what the adaptor denotes for this upstream signal), lift kwargs
def FW(out, payload, resets=0, in_tok=None, catch=0, parked=0):
    return dict(OUT_CH=out, OUT_PAYLOAD=payload, RESETS_OS=resets, IN_TOK=in_tok, MAY_CATCH=catch, PARKED_IN_TS=parked)


CHAN = [
    # --- then
    ("then.set_value", "then.hpp", SV, "C_THEN", "rcv", "ts", dict(F_RETURNS_VOID=0), {}),
    ("then.set_value.void", "then.hpp", SV, "C_THEN", "rcv", "ts", dict(F_RETURNS_VOID=1), {}),
    ("then.set_error", "then.hpp", SE, "C_FWD", "rcv", "error", FW(2, 1), {}),
    ("then.set_stopped", "then.hpp", SS, "C_FWD", "rcv", "vx_unused", FW(3, 0), {}),
    # --- bulk (generic loop)
    ("bulk.set_value", "bulk.hpp", SV, "C_BULK", "rcv", "ts", {}, dict(loops={1: LOOP_BULK, "count": 1})),
    ("bulk.set_error", "bulk.hpp", SE, "C_FWD", "rcv", "error", FW(2, 1), {}),
    ("bulk.set_stopped", "bulk.hpp", SS, "C_FWD", "rcv", "vx_unused", FW(3, 0), {}),
    # --- let_value / let_error
    ("let_value.set_value", "let_value.hpp", ASV, "C_LET", "rcv", "ts", dict(PARK="predecessor_ts", ALT_PARAM="t"), dict(let="value")),
    ("let_value.set_error", "let_value.hpp", SE, "C_FWD", "rcv", "error", FW(2, 1), {}),
    ("let_value.set_stopped", "let_value.hpp", SS, "C_FWD", "rcv", "vx_unused", FW(3, 0), {}),
    ("let_error.set_error", "let_error.hpp", SE, "C_LET", "rcv", "error", dict(PARK="predecessor_error", ALT_PARAM="error"), dict(let="error")),
    ("let_error.set_value", "let_error.hpp", SV, "C_FWD", "rcv", "ts", FW(1, 1), {}),
    ("let_error.set_stopped", "let_error.hpp", SS, "C_FWD", "rcv", "vx_unused", FW(3, 0), {}),
    # --- schedule_from (= continues_on's fallback)
    ("schedule_from.pred.set_value", "schedule_from.hpp", r"void set_value_predecessor_sender\(Us&&\.\.\. us\) noexcept", "C_SF_PARK", "op", "us", dict(PAYLOAD_COPY_NOTHROW=1), dict(members=OPM)),
    ("schedule_from.pred.set_error", "schedule_from.hpp", r"void set_error_predecessor_sender\(Error&& error\) noexcept", "C_FWD", "op", "error", FW(2, 1), dict(members=OPM)),
    ("schedule_from.pred.set_stopped", "schedule_from.hpp", r"void set_stopped_predecessor_sender\(\) noexcept", "C_FWD", "op", "vx_unused", FW(3, 0), dict(members=OPM)),
    ("schedule_from.sched.set_value", "schedule_from.hpp", r"void set_value_scheduler_sender\(\) noexcept", "C_FWD", "op", "vx_unused",
     dict(FW(1, 1, resets=1, in_tok="vx_op->ts.tok", parked=1), C_SF_DELIVER=1), dict(members=OPM, sf_deliver=True)),
    ("schedule_from.sched.set_error", "schedule_from.hpp", r"void set_error_scheduler_sender\(Error&& error\) noexcept", "C_FWD", "op", "error", FW(2, 1, resets=1), dict(members=OPM)),
    ("schedule_from.sched.set_stopped", "schedule_from.hpp", r"void set_stopped_scheduler_sender\(\) noexcept", "C_FWD", "op", "vx_unused", FW(3, 0, resets=1), dict(members=OPM)),
    ("schedule_from.pred_recv.set_value", "schedule_from.hpp", ASV, "C_TRAMP", "rcv", "ts", dict(EXPECT_M="M_set_value_predecessor_sender", OUT_PAYLOAD=1), {}),
    ("schedule_from.pred_recv.set_error", "schedule_from.hpp", SE, "C_TRAMP", "rcv", "error", dict(EXPECT_M="M_set_error_predecessor_sender", OUT_PAYLOAD=1), dict(expect=2, which=0)),
    ("schedule_from.pred_recv.set_stopped", "schedule_from.hpp", SS, "C_TRAMP", "rcv", "vx_unused", dict(EXPECT_M="M_set_stopped_predecessor_sender"), dict(expect=2, which=0)),
    ("schedule_from.sched_recv.set_value", "schedule_from.hpp", r"void set_value\(\) && noexcept", "C_TRAMP", "rcv", "vx_unused", dict(EXPECT_M="M_set_value_scheduler_sender"), {}),
    ("schedule_from.sched_recv.set_error", "schedule_from.hpp", SE, "C_TRAMP", "rcv", "error", dict(EXPECT_M="M_set_error_scheduler_sender", OUT_PAYLOAD=1), dict(expect=2, which=1)),
    ("schedule_from.sched_recv.set_stopped", "schedule_from.hpp", SS, "C_TRAMP", "rcv", "vx_unused", dict(EXPECT_M="M_set_stopped_scheduler_sender"), dict(expect=2, which=1)),
    # --- start_detached
    ("start_detached.set_value", "start_detached.hpp", r"void set_value\(Ts&&\.\.\.\) && noexcept", "C_SD", "rcv", "vx_unused", {}, {}),
    ("start_detached.set_stopped", "start_detached.hpp", SS, "C_SD", "rcv", "vx_unused", {}, {}),
    ("start_detached.set_error.eptr", "start_detached.hpp", SE, "C_SD", "rcv", "error", dict(ERROR_IS_EPTR=1), {}),
    ("start_detached.set_error.other", "start_detached.hpp", SE, "C_SD", "rcv", "error", dict(ERROR_IS_EPTR=0), {}),
    # --- pure forwarders
    ("drop_value.set_value", "drop_value.hpp", r"void set_value\(Ts&&\.\.\.\) && noexcept", "C_FWD", "rcv", "vx_unused", FW(1, 0), {}),
    ("drop_value.set_error", "drop_value.hpp", SE, "C_FWD", "rcv", "error", FW(2, 1), {}),
    ("drop_value.set_stopped", "drop_value.hpp", SS, "C_FWD", "rcv", "vx_unused", FW(3, 0), {}),
    ("unpack.set_value", "unpack.hpp", r"void set_value\(Ts&& ts\) && noexcept", "C_FWD", "rcv", "ts", FW(1, 1), {}),
    ("unpack.set_error", "unpack.hpp", SE, "C_FWD", "rcv", "error", FW(2, 1), {}),
    ("unpack.set_stopped", "unpack.hpp", SS, "C_FWD", "rcv", "vx_unused", FW(3, 0), {}),
    ("require_started.set_value", "require_started.hpp", SV, "C_FWD", "rcv", "ts", FW(1, 1), {}),
    ("require_started.set_error", "require_started.hpp", SE, "C_FWD", "rcv", "error", FW(2, 1), {}),
    ("require_started.set_stopped", "require_started.hpp", SS, "C_FWD", "rcv", "vx_unused", FW(3, 0), {}),
    ("require_started.start", "require_started.hpp", r"void start\(\) & noexcept", "C_CHILD_START", "op", "vx_unused", dict(SETS_STARTED=1), dict(members=OPM)),
    ("drop_operation_state.set_value", "drop_operation_state.hpp", SV, "C_FWD", "rcv", "ts", FW(1, 1, resets=1, catch=1), {}),
    ("drop_operation_state.set_error", "drop_operation_state.hpp", SE, "C_FWD", "rcv", "error", FW(2, 1, resets=1, catch=1), {}),
    ("drop_operation_state.set_stopped", "drop_operation_state.hpp", SS, "C_FWD", "rcv", "vx_unused", FW(3, 0, resets=1), {}),
    ("drop_operation_state.start", "drop_operation_state.hpp", r"void start\(\) & noexcept", "C_CHILD_START", "op", "vx_unused", dict(SETS_STARTED=0), dict(members=OPM)),
    ("just.start", "just.hpp", r"void start\(\) & noexcept", "C_FWD", "op", "vx_unused", FW(1, 1, in_tok="vx_op->ts.tok", parked=1), dict(members=OPM)),
]

LET_VIS = {
    "value": dict(mono=r"void operator\(\)\(pika::detail::monostate\) const", alt=r"void operator\(\)\(T& t\)"),
    "error": dict(mono=r"void operator\(\)\(pika::detail::monostate\) const", alt=r"void operator\(\)\(Error& error\)"),
}


def chan_units():
    us = []
    for (name, f, loc, kind, selft, pname, defs, kw) in CHAN:
        src = ALG + f
        D = [kind, "SELF_T=" + selft, "PNAME=" + pname]
        d = dict(EXPECT_M=0, PAYLOAD_COPY_NOTHROW=0, OUT_CH=0, OUT_PAYLOAD=0, RESETS_OS=0, MAY_CATCH=0, PARKED_IN_TS=0, IN_TOK=None, F_RETURNS_VOID=0, ERROR_IS_EPTR=0, SETS_STARTED=0)
        d.update(defs)
        if d["IN_TOK"] is None:
            d["IN_TOK"] = pname
        D += ["%s=%s" % (k, v) for k, v in sorted(d.items())]
        members = kw.get("members", ())
        rules = chan_rules("VX_THROW_NOW", members)
        if kind == "C_CHILD_START":
            # every member access of start() is an obligation "the operation state is still alive" (specs/C03/chan.h child_start)
            rules = rules + [Sub(r"\bself->(\w+)\b(?!\s*\()", r"VX_MEMBER(self, \1)", None)]
        lifts = {"body": Lift(src, loc, rules=rules, loops=kw.get("loops"), expect=kw.get("expect", 1), which=kw.get("which", 0))}
        funcs = ["%s: %s" % (src, name)]
        if kw.get("let"):
            v = LET_VIS[kw["let"]]
            vr = chan_rules("return") + [Sub(r"(?<![\w.>])op_state->", "self->op_state->", None)]
            lifts["ovis_monostate"] = Lift(src, v["mono"], rules=vr)
            lifts["ovis_alt"] = Lift(src, v["alt"], rules=[Sub(r"(?<![\w.>])op_state\.", "op_state->", None)] + vr)
            lifts["svis_monostate"] = Lift(src, r"void PIKA_STATIC_CALL_OPERATOR\(pika::detail::monostate\)", rules=vr)
            lifts["svis_alt"] = Lift(src, r"void PIKA_STATIC_CALL_OPERATOR\(OperationState_& op_state\)", rules=chan_rules("return"))
            funcs.append("%s: set_%s_visitor::operator() (2 overloads), start_visitor::operator() (2 overloads)" % (src, kw["let"]))
        if kw.get("sf_deliver"):
            vr = chan_rules("return", ["receiver"])
            lifts["ssvv_monostate"] = Lift(src, r"void operator\(\)\(pika::detail::monostate\) const", rules=vr)
            lifts["ssvv_alt"] = Lift(src, r"void operator\(\)\(Ts&& ts\)", rules=vr)
            funcs.append("%s: scheduler_sender_value_visitor::operator() (2 overloads)" % src)
        us.append(Unit(name, "chan.c", defines=D, enforce="fn", lifts=lifts, funcs=funcs, min_obligations=5))
    us.append(Unit("errors.try_catch_exception_ptr", "chan.c", defines=["C_TCEP", "SELF_T=op", "PNAME=vx_unused"], enforce="try_catch_exception_ptr",
                   lifts={"body": Lift("libs/pika/errors/include/pika/errors/try_catch_exception_ptr.hpp", r"decltype\(auto\) try_catch_exception_ptr\(TryCallable&& t, CatchCallable&& c\)", rules=[
                       Sub(r"std::exception_ptr (\w+);", r"int \1 = 0;", None),
                       Sub(r"return t\(\);", "{ t_call(); if (vx_exc) VX_THROW_NOW; return; }", None),
                       Sub(r"(?<![\w.>])t\(\);", "{ t_call(); if (vx_exc) VX_THROW_NOW; }", None),
                       Sub(r"std::current_exception\(\)", "vx_current_exception()", None),
                       Sub(r"return c\(std::move\((\w+)\)\);", r"{ c_call(\1); return; }", None),
                       TryCatch(None)])},
                   funcs=["libs/pika/errors/include/pika/errors/try_catch_exception_ptr.hpp: pika::detail::try_catch_exception_ptr"], min_obligations=4))
    return us


UNITS += chan_units()

META = {
    "explanation":
        "C03 is decided on the bookkeeping member functions of the adaptors, lifted one by one; payloads, callables, senders, "
        "schedulers, exceptions and child operation states are opaque tokens, pika::detail::variant is (index, token), std::optional "
        "is a flag, the downstream receiver is a T-stub that counts set_value/set_error/set_stopped and asserts 'at most once', "
        "'the connected receiver', 'not after it was moved away'.  "
        "Group 1 (shared.c, split/split_tuple/ensure_started, one rule set): (i) predecessor receiver stores the right alternative "
        "before set_predecessor_done; (ii) set_predecessor_done: order ghost g_phase (os reset < done published < lock taken < lock "
        "released < continuations), one symbolic victim slot for 'every stored continuation exactly once', loop contract over the "
        "container; (iii) add_continuation under interference (the predecessor may complete before every flag read, other consumers "
        "may store before the lock is acquired), lifted visitor overloads, the stored lambda as its own unit; (iv) start() as an "
        "S-contract on start_called; lemma L3 composes (ii)+(iii).  A life-time ghost g_alive makes 'nothing is touched after the "
        "operation/shared state may have been destroyed' an obligation of every stub.  "
        "Group 2 (join.c, when_all/when_all_vector): receiver signals against a finish() T-stub that records what the last finisher "
        "will find; finish() against a decrement stub with interference (S-contract), values through one symbolic slot; lowered "
        "try/catch.  Group 3-5 (chan.c): one table (CHAN) of (function, channel it denotes, payload, child-operation reset) -> "
        "contracts C_FWD / C_THEN / C_BULK / C_LET / C_SF_PARK / C_SD / C_CHILD_START / C_TRAMP; try_catch_exception_ptr is lowered "
        "at its call sites by rule TryCatchEP and proved separately (errors.try_catch_exception_ptr).  "
        "Expected on the unchanged tree: split.recv.set_stopped and split_tuple.recv.set_stopped FAIL (defect D3: done is published "
        "with v == monostate); split_tuple.set_predecessor_done FAILS its life-time obligations (the predecessor receiver holds only "
        "a reference to the shared state, see report).",
    "trusted_base": [
        "specs/C03/join.h atomic_dec_fetch: three VX_ASSUMEs at the moment OUR decrement reaches 0 -- J1 'flag clear => every slot "
        "stored', J2 'flag set => an error is stored or some predecessor signalled stopped' (both are the postconditions of units "
        "when_all*.recv.* for every other receiver, each of which calls finish() as its last action), J3 'a predecessor whose "
        "sender_traits say sends_done == false never calls set_stopped' (well-typedness of the pipeline)",
        "specs/C03/shared.h env_predecessor_may_complete / env_consumers_store / env_may_release / atomic_exchange_bool: the "
        "environment of one agent -- the predecessor completes at most once and stores a non-monostate alternative before it "
        "publishes predecessor_done (= contract (i)); other consumers store only under the lock having re-read done == false "
        "(= contract (iii)); ensure_started has a single consumer, split_tuple one consumer per Index; the shared state stays alive "
        "only while the agent holds a reference or a not-yet-signalled consumer exists",
        "specs/C03/shared.h, join.h, chan.h receiver stubs: downstream receivers and successor/child operation states honour their "
        "own contract (exactly one completion; induction over the pipeline term); a receiver's completion may destroy the operation "
        "state that owns it",
        "std::visit / pika::detail::visit = call of the overload for the active alternative (hand-written dispatch stubs visit_*); "
        "std::apply(bind_front(f, a), t) = f(a, t...); std::optional / small_vector / std::array<unique_function> / member_pack "
        "modelled as flags, lengths and one symbolic victim slot",
        "vx/prelude/monitor.h: spinlock + std::unique_lock/std::lock_guard as a ghost 'held' bit (A-LOCK)",
        "chan.h sr_connect: connect() may throw only before it has consumed the receiver",
        "lowering rules defined in specs/C03/spec.py: RangeFor, Lambda (closure = captured variables; body lifted as unit "
        "*.continuation), VisitLambda, TryCatchEP (relies on unit errors.try_catch_exception_ptr), statement-expression "
        "lowering of may-throw calls nested in expressions",
    ],
    "assumptions": [
        "ghost range: continuation container length <= 10^6, when_all slots <= 10^6",
        "schedule_from.pred.set_value is proved with non-throwing payload copies / schedule / connect (the function is noexcept and "
        "has no handler: a throwing decay-copy there is std::terminate, not set_error -- observation, not counted as a violation)",
        "exceptions are modelled only where a stub is marked may-throw (user callable, payload decay-copy/emplace, connect, error "
        "object copy); allocation failure is not modelled",
        "RECV_HOLDS_PTR (does the predecessor receiver own a reference) is read from the member declaration in the source",
    ],
    "not_decided": [
        "type-level part of 'well-typed pipelines' (sender_traits / completion signatures, sends_done constants), value and "
        "exception identity beyond token passing (moves, std::apply, tuple element order except split_tuple's Index and "
        "when_all_vector's position)",
        "destructor-exactly-once for objects whose life time is implicit C++ scope; intrusive_ptr_release / allocator bookkeeping of "
        "the shared states; constructors (connect of the predecessor, ensure_started's eager start in the sender constructor)",
        "sync_wait, any_sender (C18), require_started's unstarted detection in destructors, stdexec configuration (PIKA_HAVE_STDEXEC off)",
        "inner value variant of ensure_started/schedule_from (monostate overload of value_visitor) beyond the outer alternative",
        "all-schedules statement: per-agent obligations + lemma L3 are machine checked, the induction over the history is the paper "
        "argument of DESIGN 3.4",
    ],
}


# ---- start_detached, shared-state life cycle of split / ensure_started / split_tuple, constructors / start / connect of the
# ---- adaptors, sync_wait: second sub-agent ---------------------------------------------------------------------------------
exec(open("/verif/specs/C03/rest_spec.py").read())
UNITS += REST_UNITS
for _k in ("trusted_base", "assumptions", "not_decided"):
    META[_k] = list(META.get(_k, [])) + list(REST_META.get(_k, []))
STATIC = list(globals().get("STATIC", [])) + list(REST_STATIC)


# ---- when_all slot layout (added by main after seeded change C03-4 was missed) ----
WA_HPP = ALG + "when_all.hpp"
UNITS.append(Unit("when_all.storage_offsets", "offsets.c", enforce="derived_offset", loop_contracts=False, lifts={
    "derived": Lift(WA_HPP, r"static constexpr std::size_t i_storage_offset =(?!\s*0;)", fragment_end=r";", rules=[
        Sub(r"static constexpr std::size_t i_storage_offset =", "return", 1),
        Sub(r"\bbase_type::(\w+)", r"base_\1", None),
        Sub(r"(?<![\w:])(sender_pack_size|i_storage_offset)\b", r"own_\1", None)], generic=False),
    "base": Lift(WA_HPP, r"static constexpr std::size_t i_storage_offset =(?=\s*0;)", fragment_end=r";", rules=[
        Sub(r"static constexpr std::size_t i_storage_offset =", "return", 1)], generic=False)},
    funcs=[WA_HPP + ": when_all operation_state<..., I>::i_storage_offset (both definitions)"], min_obligations=2,
    doc="F: offset(I) == offset(I-1) + pack_size(I-1), offset(0) == 0: the predecessors' value slots are consecutive and disjoint"))
