import re

from vx.lift import Lift, Sub, Call, Members, Guard, DropStmt, TryCatch, Auto, Rule, LiftError, match_close, read_source
from vx.run import Unit

ALG = "libs/pika/execution/include/pika/execution/algorithms/"
UNITS = []


# ---------------------------------------------------------------------------------------------------------------
# local helper rules (syntactic)


class RangeFor(Rule):
    """`for (auto [const] &[&] x : c) {`  ->  `for (size_t vx_itK = 0; vx_itK != SIZE(&c); ++vx_itK) { ELEM x = AT(&c, vx_itK);`
    (range-based for over an indexable container; the container operations stay calls to stubs)"""

    def __init__(self, n=None, size="conts_size", at="conts_at", elem="struct cont"):
        self.n, self.size, self.at, self.elem = n, size, at, elem

    def apply(self, text):
        k = [0]

        def rep(m):
            k[0] += 1
            it = "vx_it%d" % k[0]
            return "for (size_t %s = 0; %s != %s(&%s); ++%s) { %s %s = %s(&%s, %s);" % (
                it, it, self.size, m.group(2), it, self.elem, m.group(1), self.at, m.group(2), it)

        text = re.sub(r"\bfor\s*\(\s*auto\s*(?:const\s*)?&{1,2}\s*(\w+)\s*:\s*(\w+)\s*\)\s*\{", rep, text)
        self.check(k[0], "RangeFor")
        return text


class Lambda(Rule):
    """`[caps]() [mutable] { BODY }`  ->  `VX_CLOSURE(caps)` (capture list without `&`).  The BODY is not part of the enclosing
    function's behaviour (it runs when the closure is invoked); it is lifted as a unit of its own from the same text."""

    def __init__(self, n=1):
        self.n = n

    def apply(self, text):
        k = 0
        rx = re.compile(r"\[([^\[\]]*)\]\s*\(\s*\)\s*(?:mutable\s*)?\{")
        while True:
            m = rx.search(text)
            if not m:
                break
            op = m.end() - 1
            cl = match_close(text, op, "{", "}")
            caps = ", ".join(c.strip().lstrip("&").strip() for c in m.group(1).split(",") if c.strip())
            text = text[: m.start()] + "VX_CLOSURE(%s)" % caps + text[cl + 1:]
            k += 1
        self.check(k, "Lambda")
        return text


FWD = Sub(r"std::forward<(?:[^<>()]|\([^()]*\))*>\((\w+)\)(?:\s*\.\.\.)?", r"\1", None)
SETSIG = Sub(r"pika::execution::experimental::set_(value|error|stopped)\b", r"recv_set_\1", None)
THIS = Sub(r"\bthis\b", "self", None)
BIND_APPLY = [Call(r"pika::util::detail::bind_front", "VX_BIND({0}, {1})", None), Call(r"std::apply", "VX_APPLY({0}, {1})", None)]


def visit_tmpl(args, env):
    """pika::detail::visit(VISITOR<targs>{receiver}, variant)  ->  visit_VISITOR(receiver, [non-type targs,] &(variant))"""
    m = re.match(r"\s*(\w+)<([^{}]*)>\s*\{\s*(\w+)\s*\}\s*,\s*(.*)$", env["args"], re.S)
    if not m:
        raise LiftError("visit: first argument is not VISITOR<..>{receiver}: %r" % env["args"][:80])
    name, targs, recv, var = m.groups()
    extra = [a.strip() for a in targs.split(",") if a.strip() and a.strip() != "Receiver"]
    return "visit_%s(%s, %s&(%s))" % (name, recv, "".join(e + ", " for e in extra), var.strip())


VISIT = Call(r"pika::detail::visit", visit_tmpl, None)

# ---------------------------------------------------------------------------------------------------------------
# unit group 1: shared-state adaptors (split, split_tuple, ensure_started) -- one parametrised rule set


def _recv_holds_ptr(src, recv_struct):
    """declared type of the predecessor receiver's `state` member, read from the source"""
    try:
        m = re.search(r"struct %s\s*\{.*?(pika::intrusive_ptr<shared_state>|shared_state\s*&)\s*state\s*;" % recv_struct, read_source(src), re.S)
    except LiftError:
        return 0
    return 1 if (m and m.group(1).startswith("pika::intrusive_ptr")) else 0


def emplace_tmpl(args, env):
    alt = env["h2"].split("::")[-1]
    tok = args[0] if args and args[0] else "0"
    return "variant_emplace(&%s.state->v, VX_ALT_%s, %s)" % (env["h1"], alt, tok)


RECV_RULES = [
    # auto r = std::move(*this);  (RAII: r lives to the end of the function and owns what the receiver owned)
    Guard(r"auto (\w+) = std::move\(\*this\);", r"struct pred_receiver \1 = pred_receiver_move(self);", r"pred_receiver_dtor(&\1);", 1),
    Sub(r"\b(\w+)\.state\.", r"\1.state->", None),
    FWD,
    Call(r"std::make_tuple(?:<>)?", "{args}", None),
    Call(r"\berror_type", "{args}", None),
    Call(r"\b(\w+)\.state->v\.template emplace<([\w:]+)>", emplace_tmpl, None),
    Call(r"\b(\w+)\.state->set_predecessor_done", "set_predecessor_done({h1}.state)", None),
]

CONT_RULES = {
    0: [  # pika::detail::small_vector<continuation_type, 1> continuations
        Sub(r"\bcontinuations\.empty\(\)", "conts_empty(&continuations)", None),
        RangeFor(None),
        Sub(r"(?<![\w.>])continuation\(\);", "cont_invoke(continuation);", None),
        Sub(r"\bcontinuations\.clear\(\);", "conts_clear(&continuations);", None),
        Call(r"\bcontinuations\.emplace_back", "conts_emplace_back(&continuations, {0})", None),
    ],
    1: [  # std::array<continuation_type, N> continuations
        Sub(r"\bcontinuations\.empty\(\)", "conts_empty(&continuations)", None),
        Sub(r"auto (\w+) = std::move\(continuations\);", r"struct conts \1 = conts_move(&continuations);", None),
        RangeFor(None),
        Sub(r"if \(continuation\)", "if (cont_engaged(continuation))", None),
        Sub(r"(?<![\w.>])continuation\(\);", "cont_invoke(continuation);", None),
        Sub(r"\bcontinuations\[(\w+)\]\s*=\s*(VX_CLOSURE\([^()]*\));", r"conts_assign(&continuations, \1, \2);", None),
    ],
    2: [  # std::optional<continuation_type> continuation
        Sub(r"if \(continuation\)", "if (opt_has(&continuation))", None),
        Sub(r"\(\*continuation\)\(\);", "cont_invoke(conts_at(&continuation, 0));", None),
        Sub(r"\bcontinuation\.reset\(\);", "conts_clear(&continuation);", None),
        Sub(r"\bcontinuation\.has_value\(\)", "opt_has(&continuation)", None),
        Call(r"\bcontinuation\.emplace", "conts_emplace_back(&continuation, {0})", None),
    ],
}


def spd_rules(kind, member):
    return [
        Guard(r"pika::intrusive_ptr<shared_state>\s+\w+\s*[({]\s*this\s*[)}]\s*;", "vx_ref_acquire(self);", "vx_ref_release(self);", None),
        Sub(r"\bos\.reset\(\);", "os_reset(self);", None),
        Sub(r"(?<![\w.>])predecessor_done\s*=\s*([^;=]+);", r"atomic_store_bool(&self->predecessor_done, \1);", None),
        Guard(r"std::lock_guard<mutex_type>\s+(\w+)\s*[({]\s*mtx\s*[)}]\s*;", r"struct ulock \1 = ulock_make(&self->mtx);", r"ulock_dtor(&\1);", None),
    ] + CONT_RULES[kind] + [Members([member])]


def add_rules(kind, member):
    return [
        Lambda(None), THIS,
        Guard(r"std::unique_lock<mutex_type>\s+(\w+)\s*[({]\s*mtx\s*[)}]\s*;", r"struct ulock \1 = ulock_make(&self->mtx);", r"ulock_dtor(&\1);", None),
        Sub(r"\b(\w+)\.unlock\(\);", r"ulock_unlock(&\1);", None),
        VISIT,
    ] + CONT_RULES[kind] + [
        Sub(r"(?<![\w.>&])predecessor_done\b", "atomic_load_bool(&self->predecessor_done)", None),
        Members([member, "v"], optional=[member]),
    ]


def loop_spd(cont_expr):
    return """
__CPROVER_assigns(vx_it1, g_victim_calls, g_alive)
__CPROVER_loop_invariant(vx_it1 <= %(c)s.n && (g_refs == 0 || g_alive))
__CPROVER_loop_invariant(g_victim_calls == ((%(c)s.victim_engaged && g_victim < vx_it1) ? 1 : 0))
""" % {"c": cont_expr}


SEV_COMMON = [FWD, SETSIG, VISIT, Sub(r"std::get<(\w+)>\((\w+)\)", r"tok_get(\1, \2)", None),
              Sub(r"pika::execution::experimental::sender_traits<Sender>::sends_done", "PRED_SENDS_STOPPED", None)] + BIND_APPLY + [
    Members(["receiver", "Index"], optional=["receiver", "Index"])]

SHARED = {
    "split": dict(
        src=ALG + "split.hpp", kind=0, member="continuations", recv_struct="split_receiver", value_in="ts", value_param="ts",
        set_value=r"auto set_value\(Ts&&\.\.\. ts\) && noexcept", sev_mono=r"void operator\(\)\(pika::detail::monostate\) const",
        sev_error=r"void operator\(\)\(error_type const& error\)", sev_value=r"void operator\(\)\(value_type const& ts\)",
        ev=r"void operator\(\)\(Error const& error\)", vv=r"void operator\(\)\(Ts const& ts\)",
        loop=loop_spd("self->continuations"), op_starts_pred=1, sends_stopped=[1]),
    "split_tuple": dict(
        src=ALG + "split_tuple.hpp", kind=1, member="continuations", recv_struct="split_tuple_receiver", value_in="t", value_param="t",
        set_value=r"auto set_value\(T&& t\) && noexcept", sev_mono=r"void operator\(\)\(pika::detail::monostate\) const",
        sev_error=r"void operator\(\)\(error_type const& error\)", sev_value=r"void operator\(\)\(value_type& t\)",
        ev=r"void operator\(\)\(Error const& error\)", vv=None,
        loop=loop_spd("continuations_local"), op_starts_pred=1, sends_stopped=[1, 0]),
    "ensure_started": dict(
        src=ALG + "ensure_started.hpp", kind=2, member="continuation", recv_struct="ensure_started_receiver", value_in="ts", value_param="t",
        set_value=r"auto set_value\(Ts&&\.\.\. ts\) && noexcept", sev_mono=r"void operator\(\)\(T&&\) const",
        sev_error=r"void operator\(\)\(error_type&& error\)", sev_value=r"void operator\(\)\(T&& t\)",
        ev=r"void operator\(\)\(Error&& error\)", vv=r"void operator\(\)\(Ts&& ts\)",
        loop=None, op_starts_pred=0, sends_stopped=[1]),
}


def shared_units(name, c):
    src, kind, member = c["src"], c["kind"], c["member"]
    base = ["CONT_KIND=%d" % kind, "CONT_MEMBER=" + member, "RECV_HOLDS_PTR=%d" % _recv_holds_ptr(src, c["recv_struct"]),
            "VALUE_IN=" + c["value_in"], "VALUE_PARAM=" + c["value_param"], "OP_START_STARTS_PRED=%d" % c["op_starts_pred"]]
    D = base + ["PRED_SENDS_STOPPED=1"]
    where = src + ": " + name + " shared_state::"
    us = []
    # (i) predecessor receiver
    for sig, loc in [("value", c["set_value"]), ("error", r"void set_error\(Error&& error\) && noexcept"), ("stopped", r"void set_stopped\(\) && noexcept")]:
        us.append(Unit("%s.recv.set_%s" % (name, sig), "shared.c", defines=D + ["U_RECV", "U_RECV_" + sig.upper()], enforce="pr_set_" + sig,
                       lifts={"body_recv_" + sig: Lift(src, loc, rules=RECV_RULES)}, funcs=[where + c["recv_struct"] + "::set_" + sig], min_obligations=8,
                       doc="(i) a non-monostate alternative of the right kind is stored in v before set_predecessor_done is called (once)"))
    # (ii) set_predecessor_done
    us.append(Unit(name + ".set_predecessor_done", "shared.c", defines=D + ["U_SPD"], enforce="set_predecessor_done",
                   lifts={"body_spd": Lift(src, r"void set_predecessor_done\(\)", rules=spd_rules(kind, member),
                                       loops=({1: c["loop"], "count": 1} if c["loop"] else {"count": 0}))},
                   funcs=[where + "set_predecessor_done"], min_obligations=20,
                   doc="(ii) os reset, done published, lock cycle, then every stored continuation exactly once, container emptied; "
                       "nothing touched after the state may be gone"))
    # (iii) add_continuation + stored continuation, per predecessor stop capability
    vis = {
        "sev_monostate": Lift(src, c["sev_mono"], rules=SEV_COMMON),
        "sev_stopped": Lift(src, r"void operator\(\)\(pika::execution::detail::stopped_type\)", rules=SEV_COMMON),
        "sev_error": Lift(src, c["sev_error"], rules=SEV_COMMON),
        "sev_value": Lift(src, c["sev_value"], rules=SEV_COMMON),
        "ev_call": Lift(src, c["ev"], rules=SEV_COMMON),
    }
    if c["vv"]:
        vis["vv_call"] = Lift(src, c["vv"], rules=SEV_COMMON)
    vfuncs = [src + ": " + name + " stopped_error_value_visitor::operator() (4 overloads), error_visitor::operator()" + (", value_visitor::operator()" if c["vv"] else "")]
    for ss in c["sends_stopped"]:
        DS = base + ["PRED_SENDS_STOPPED=%d" % ss]
        sfx = "" if ss else ".nostop"
        us.append(Unit(name + ".add_continuation" + sfx, "shared.c", defines=DS + ["U_ADD"], enforce="add_continuation",
                       lifts=dict(vis, body_add=Lift(src, r"void add_continuation\(Receiver& receiver\)", rules=add_rules(kind, member))),
                       funcs=[where + "add_continuation"] + vfuncs, min_obligations=30,
                       doc="(iii) exactly one of {deliver inline, store}; store only under the lock after re-reading done == false; inline "
                           "delivery of the alternative recorded in v; visiting monostate unreachable"))
        us.append(Unit(name + ".continuation" + sfx, "shared.c", defines=DS + ["U_CONT"], enforce="continuation_body",
                       lifts=dict(vis, body_cont=Lift(src, r"\[this, &receiver\]\(\) mutable", rules=[THIS, VISIT, Members(["v"])])),
                       funcs=[where + "add_continuation (stored lambda)"] + vfuncs, min_obligations=10,
                       doc="(iii) the stored continuation delivers the alternative recorded in v, once"))
    # (iv) start
    us.append(Unit(name + ".start", "shared.c", defines=D + ["U_START"], enforce="ss_start_impl",
                   lifts={"body_start": Lift(src, r"void start\(\) & noexcept", expect=2, which=0, rules=[
                       Call(r"\bstart_called\.exchange", "atomic_exchange_bool(&self->start_called, {0})", None),
                       Members(["start_called"], optional=["start_called"]),
                       Sub(r"\bos\.has_value\(\)", "os_has_value(self)", None),
                       Sub(r"\*os\b", "os_deref(self)", None),
                       Call(r"pika::execution::experimental::start", "pred_start({0})", None)])},
                   funcs=[where + "start"], min_obligations=8, doc="(iv) the predecessor is started at most once (exchange(true))"))
    us.append(Unit(name + ".op_start", "shared.c", defines=D + ["U_OP_START"], enforce="op_start",
                   lifts={"body_opstart": Lift(src, r"void start\(\) & noexcept", expect=2, which=1, rules=[
                       Sub(r"(?<![\w.>])state->", "ops_state(self)->", None),
                       Call(r"ops_state\(self\)->start", "ss_start(ops_state(self))", None),
                       Call(r"ops_state\(self\)->(?:template\s+)?add_continuation(?:<\w+>)?", "ss_add_continuation(ops_state(self), &({0}))", None),
                       Members(["receiver"], optional=["receiver"])])},
                   funcs=[src + ": " + name + " sender operation_state::start"], min_obligations=4))
    return us


for _n in ("split", "split_tuple", "ensure_started"):
    UNITS += shared_units(_n, SHARED[_n])


# ---------------------------------------------------------------------------------------------------------------
# unit group 2: join adaptors when_all / when_all_vector


class VisitLambda(Rule):
    """pika::detail::visit([caps](auto&& X) { BODY }, ARG)  ->  { int vx_alt = (ARG); BODY[X := vx_alt] }
    (a generic lambda applied to the active alternative of a variant = its body run on that alternative)"""

    def __init__(self, n=None):
        self.n = n

    def apply(self, text):
        k = 0
        rx = re.compile(r"pika::detail::visit\s*\(")
        pos = 0
        while True:
            m = rx.search(text, pos)
            if not m:
                break
            op = m.end() - 1
            cl = match_close(text, op)
            inner = text[op + 1:cl]
            ml = re.match(r"\s*\[[^\]]*\]\s*\(\s*auto\s*&&\s*(\w+)\s*\)\s*\{", inner, re.S)
            if not ml:
                pos = m.end()
                continue
            bop = ml.end() - 1
            bcl = match_close(inner, bop, "{", "}")
            rest = inner[bcl + 1:]
            mr = re.match(r"\s*,\s*(.*)$", rest, re.S)
            if not mr:
                raise LiftError("VisitLambda: no variant argument")
            body = re.sub(r"\b%s\b" % re.escape(ml.group(1)), "vx_alt", inner[bop + 1:bcl])
            end = cl + 1
            ms = re.match(r"\s*;", text[end:])
            if ms:
                end += ms.end()
            text = text[:m.start()] + "{ int vx_alt = (%s); %s }" % (mr.group(1).strip(), body) + text[end:]
            k += 1
        self.check(k, "VisitLambda")
        return text


WA = ALG + "when_all.hpp"
WAV = ALG + "when_all_vector.hpp"
THROWS = " if (vx_exc) VX_THROW_NOW;"
WA_RECV_RULES = [
    Sub(r"auto (\w+) = std::move\(\*this\);", r"struct wa_receiver \1 = *self;", 1),
    Sub(r"\b(\w+)\.op_state\.", r"\1.op_state->", None),
    FWD,
    Call(r"\b(\w+)\.op_state->set_stopped_error_called\.exchange", "atomic_exchange_bool(&{h1}.op_state->set_stopped_error_called, {0})", None),
    Sub(r"\b(\w+)\.op_state->set_stopped_error_called\s*=\s*([^;=]+);", r"atomic_store_bool(&\1.op_state->set_stopped_error_called, \2);", None),
    Sub(r"(?<!&)\b(\w+)\.op_state->set_stopped_error_called\b", r"atomic_load_bool(&\1.op_state->set_stopped_error_called)", None),
    Sub(r"\b(\w+)\.op_state->error\s*=\s*std::current_exception\(\);", r"error_assign_current(\1.op_state);", None),
    Sub(r"\b(\w+)\.op_state->error\s*=\s*([^;]+);", r"{ error_assign(\1.op_state, \2);" + THROWS + " }", None),
    # when_all: r.set_value_helper(index_pack_type{}, ts...);   when_all_vector: r.op_state.ts[r.i].emplace(ts...);
    Sub(r"\b(\w+)\.set_value_helper\(index_pack_type\{\},\s*(\w+)\);", r"{ recv_set_value_helper(&\1, \2);" + THROWS + " }", None),
    Sub(r"\b(\w+)\.op_state->ts\[([\w.]+)\]\.emplace\((\w+)\);", r"{ slots_emplace(&\1.op_state->ts, \2, \3);" + THROWS + " }", None),
    Call(r"\b(\w+)\.op_state->finish", "wa_finish({h1}.op_state)", None),
    Sub(r"\bOperationState::(\w+)", r"OPSTATE_\1", None),
    Sub(r"sizeof\.\.\.\(Ts\)", "SIZEOF_TS", None),
    TryCatch(None),
]
WA_HELPER_RULES = [
    FWD,
    Sub(r"\((\w+)\.ts\.template get<([\w:]+) \+ Is>\(\)\.emplace\(\s*(\w+)\),\s*\.\.\.\);", r"pack_emplace(&\1->ts, \2, \3);", 1),
    Sub(r"\bOperationState::(\w+)", r"OPSTATE_\1", None),
    Members(["op_state"]),
]
# the member `std::optional<variant<...>> error`: `*error` and (what is left after that) its contextual conversion to bool
ERR_MEMBER = [Sub(r"\*error\b", "error_deref(self)", None), Sub(r"(?<![\w.>])error\b(?!\s*[=(.])", "error_engaged(self)", None)]
WA_FINISH_RULES = [
    Sub(r"--\s*\(?predecessors_remaining\)?", "atomic_dec_fetch(&self->predecessors_remaining)", None),
    Sub(r"(?<![\w.>&])set_stopped_error_called\b", "atomic_load_bool(&self->set_stopped_error_called)", None),
    FWD, VisitLambda(None), THIS] + ERR_MEMBER + [
    Sub(r"\bset_value_helper\((\w+)\);", r"op_set_value_helper(self, &\1);", None),
    Sub(r"pika::execution::experimental::set_value\(\s*std::move\(receiver\),\s*std::move\(\*\((\w+)\.template get<Is>\(\)\)\)\.\.\.\)", r"recv_set_value_pack(std::move(receiver), PACK(\1))", None),
    SETSIG,
    Sub(r"std::move\(receiver\)", "&self->receiver", None),
    Sub(r"types::is_void_value_type", "IS_VOID_VALUE", None),
    Sub(r"pika::execution::experimental::sender_traits<Sender>::sends_done", "PRED_SENDS_STOPPED", None),
    Sub(r"std::vector<typename types::element_value_type>\s+(\w+);", r"struct vec \1 = vec_make();", None),
    Sub(r"std::vector<typename types::element_value_type>\{\}", "vec_make()", None),
    Call(r"\b(\w+)\.reserve", "vec_reserve(&{h1}, {0})", None),
    RangeFor(None, size="slots_size", at="slots_at", elem="struct slot"),
    Sub(r"\b(\w+)\.has_value\(\)", r"slot_has_value(\1)", None),
    Sub(r"std::move\(\s*\*(\w+)\s*\)", r"slot_deref(\1)", None),
    Call(r"\b(\w+)\.push_back", "vec_push_back(&{h1}, {0})", None),
    Sub(r"(?<![\w.>])num_predecessors\b", "wa_num_predecessors(self)", None),
]
WA_TS = [Members(["ts"], optional=["ts"])]
LOOP_WAV_FINISH = """
__CPROVER_assigns(vx_it1, values)
__CPROVER_loop_invariant(vx_it1 <= self->ts.n && values.n == vx_it1 && values.has_victim == (g_victim < vx_it1))
__CPROVER_loop_invariant(!values.has_victim || (values.victim_pos == g_victim && values.victim_tok == self->ts.victim_tok))
"""
LOOP_WAV_START = """
__CPROVER_assigns(i, g_alive, g_child_starts_victim)
__CPROVER_loop_invariant(i <= num_predecessors_local && num_predecessors_local == g_np && (i < g_np ==> g_alive))
__CPROVER_loop_invariant(g_child_starts_victim == (g_victim < i ? 1 : 0))
"""


def join_units():
    us = []
    for (name, src, vec) in [("when_all", WA, 0), ("when_all_vector", WAV, 1)]:
        variants = [("", 1, 0)] + ([(".void", 1, 1), (".nostop", 0, 0)] if vec else [])
        sv = r"void set_value\(Ts&&\.\.\. ts\) && noexcept" if vec else r"auto set_value\(Ts&&\.\.\. ts\) && noexcept"
        rname = "when_all_vector_receiver" if vec else "when_all_receiver_type"
        for (sfx, stop, void) in variants:
            D = ["WA_VECTOR=%d" % vec, "PRED_SENDS_STOPPED=%d" % stop, "IS_VOID_VALUE=%d" % void]
            if sfx != ".nostop":
                for sig, loc in [("value", sv), ("error", r"void set_error\(Error&& error\) && noexcept"), ("stopped", r"void set_stopped\(\) && noexcept")]:
                    lifts = {"body_recv_" + sig: Lift(src, loc, rules=WA_RECV_RULES)}
                    if sig == "value" and not vec:
                        lifts["recv_helper"] = Lift(src, r"auto set_value_helper\(pika::util::detail::index_pack<Is\.\.\.>, Ts&&\.\.\. ts\)", rules=WA_HELPER_RULES)
                    us.append(Unit("%s.recv.set_%s%s" % (name, sig, sfx), "join.c", defines=D + ["U_WA_RECV", "U_WA_RECV_" + sig.upper()], enforce="war_set_" + sig,
                                   lifts=lifts, funcs=["%s: %s::set_%s" % (src, rname, sig)], min_obligations=10,
                                   doc="each receiver signal calls finish() exactly once (all paths); first error wins through exchange and is stored before finish()"))
            lifts = {"body_finish": Lift(src, r"void finish\(\) noexcept", rules=WA_FINISH_RULES + WA_TS,
                                         loops=({1: LOOP_WAV_FINISH, "count": 1} if vec else {"count": 0}))}
            if not vec:
                lifts["op_helper"] = Lift(src, r"void set_value_helper\(\s*pika::util::detail::member_pack<", rules=WA_FINISH_RULES)
            us.append(Unit("%s.finish%s" % (name, sfx), "join.c", defines=D + ["U_WA_FINISH"], enforce="finish", lifts=lifts,
                           funcs=["%s: %s operation_state::finish" % (src, name)] + ([] if vec else ["%s: when_all operation_state::set_value_helper" % src]),
                           min_obligations=20, loop_contracts=(False if void else None),
                           doc="downstream signalled iff the decrement reaches 0: value iff nothing latched, the stored error iff one was stored, stopped otherwise"))
            if vec and sfx != ".nostop":
                us.append(Unit("%s.start%s" % (name, sfx), "join.c", defines=D + ["U_WAV_START"], enforce="wav_start",
                               lifts={"body_start": Lift(src, r"void start\(\) & noexcept", rules=WA_FINISH_RULES + [
                                   Sub(r"\bop_states\[(\w+)\]\.has_value\(\)", r"opstates_has(self, \1)", None),
                                   Sub(r"\*\(op_states\.get\(\)\[(\w+)\]\)", r"opstates_deref(self, \1)", None),
                                   Call(r"pika::execution::experimental::start", "child_start({0})", None)] + WA_TS,
                                   loops={1: LOOP_WAV_START, "count": 1})},
                               funcs=["%s: when_all_vector operation_state::start" % src], min_obligations=10))
    return us


UNITS += join_units()

META = {
    "explanation": "",
    "trusted_base": [],
    "assumptions": [],
    "not_decided": [],
}
