/* lemma L3 (no lifted text: a lemma over the contracts of units *.set_predecessor_done (ii) and *.add_continuation (iii),
 * DESIGN 3.4): for ONE consumer C racing with the predecessor's completion P, on a sequentially consistent time line,
 *   - C's continuation is stored only if its critical section lies wholly before P's lock cycle, hence it is in the container
 *     when P looks at it, hence (ii) it is invoked exactly once;
 *   - otherwise C delivers inline (exactly once) and nothing of it is in the container, so P never invokes it;
 * i.e. the consumer's receiver is signalled exactly once whatever the interleaving.
 * What is taken from the contracts:
 *   (ii)  P: publish predecessor_done  <  lock acquire  <  lock release  <  first look at the container; P invokes exactly the
 *         continuations that are in the container when the lock is released, once each;
 *   (iii) C: read flag; true => inline.  false => lock; re-read under the lock; true => unlock, inline; false => store under the lock.
 *   flag monotone: a read at time t returns true iff t is after the publication;  A-LOCK: critical sections do not overlap.
 * Hypotheses are `if (!h) return;`. */
#include "vx.h"

void harness(void)
{
  /* --- P (contract (ii)) */
  bool p_happens = nondet_bool();          /* the predecessor may also complete only after C is done */
  int tp = nondet_int(), pl1 = nondet_int(), pl2 = nondet_int(), tlook = nondet_int();
  if (!(tp < pl1 && pl1 < pl2 && pl2 < tlook)) return;
  /* --- C (contract (iii)) */
  int r1 = nondet_int(), cl1 = nondet_int(), r2 = nondet_int(), ts = nondet_int(), cl2 = nondet_int();
  if (r1 == tp || r2 == tp) return;        /* distinct instants */
  bool v1 = p_happens && tp < r1;
  bool delivered_inline = false, stored = false;
  if (v1) delivered_inline = true;
  else
  {
    if (!(r1 < cl1 && cl1 < r2 && r2 < ts && ts < cl2)) return;      /* program order of C inside its critical section */
    if (p_happens && !(cl2 < pl1 || pl2 < cl1)) return;             /* A-LOCK */
    bool v2 = p_happens && tp < r2;
    if (v2) delivered_inline = true; else stored = true;
  }
  VX_ASSERT(delivered_inline != stored, "exactly one of {deliver inline, store}");
  /* a continuation stored at ts is in the container at P's release iff ts < pl2; P runs exactly those */
  bool in_container_at_release = stored && (!p_happens || ts < pl2);
  VX_ASSERT(!stored || in_container_at_release, "a stored continuation is in the container when P releases the lock (nobody stores after P's lock cycle)");
  VX_ASSERT(!(stored && p_happens) || cl2 < pl1, "a storing consumer's critical section precedes P's lock cycle");
  long signals = (delivered_inline ? 1 : 0) + ((in_container_at_release && p_happens) ? 1 : 0);
  VX_ASSERT(!p_happens || signals == 1, "the consumer's receiver is signalled exactly once");
  VX_ASSERT(p_happens || (stored && signals == 0), "before the predecessor completes the continuation waits in the container");
  if (delivered_inline && !v1) VX_REACH("inline_after_lock");
  if (delivered_inline && v1) VX_REACH("inline_first_read");
  if (stored && p_happens) VX_REACH("stored_then_run_by_predecessor");
  if (stored && !p_happens) VX_REACH("stored_waiting");
}
