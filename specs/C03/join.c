/* C03 -- join adaptors when_all / when_all_vector: receiver signals, finish(), when_all_vector::start  (T + S contracts) */
#include "join.h"

#if WA_VECTOR
#define VICTIM_IS_OURS(r) (!IS_VOID_VALUE && g_victim == (r)->i)
#define OPSTATE_sender_pack_size 1
#else
#define VICTIM_IS_OURS(r) (g_victim >= g_offset && g_victim - g_offset < g_pack_size)
#define OPSTATE_sender_pack_size g_pack_size       /* OperationState::sender_pack_size (compile-time constant; symbolic here) */
#define OPSTATE_i_storage_offset g_offset          /* OperationState::i_storage_offset */
#endif
#define SIZEOF_TS (IS_VOID_VALUE ? 0 : 1)          /* sizeof...(Ts) of when_all_vector_receiver::set_value */

#define RECV_PRE(self) ((self)->op_state == vx_op && g_alive && g_finish == 0 && !g_xchg && g_error_writes == 0 && !vx_exc && !g_caught && \
  vx_op->ts.n <= WA_MAX && (WA_VECTOR ? (IS_VOID_VALUE || (self)->i < vx_op->ts.n) : (g_pack_size <= WA_MAX && g_offset <= WA_MAX && g_offset + g_pack_size <= vx_op->ts.n)) && \
  (!VICTIM_IS_OURS(self) || !vx_op->ts.victim_engaged))
#define RECV_FRAME vx_op->set_stopped_error_called, vx_op->error_has, vx_op->error_tok, vx_op->ts, g_alive, vx_exc, g_thrown_tok, g_current_exception, g_caught, \
  g_finish, g_fin_flag, g_fin_error_has, g_fin_error_tok, g_fin_victim_engaged, g_fin_victim_tok, g_xchg, g_xchg_old, g_error_writes, g_stopped_seen, g_env_step

#if defined(U_WA_RECV_VALUE) && !WA_VECTOR
/* when_all_receiver::set_value_helper: (op_state.ts.get<offset + Is>().emplace(ts), ...) */
void recv_set_value_helper(struct wa_receiver *self, int ts)
//@LIFT recv_helper
#endif

#ifdef U_WA_RECV_VALUE
//@FUNC
void war_set_value(struct wa_receiver *self, int ts)
__CPROVER_requires(RECV_PRE(self))
/* finish() exactly once, on every path, and no exception escapes */
__CPROVER_ensures(g_finish == 1 && !vx_exc)
/* what the last finisher will find: the stop/error flag set, or this receiver's values stored (unchanged) */
__CPROVER_ensures(g_fin_flag || !VICTIM_IS_OURS(self) || (g_fin_victim_engaged && g_fin_victim_tok == ts))
/* a failing store latches the exception as the error: first writer wins through the exchange, stored before finish() */
__CPROVER_ensures(g_caught ==> g_fin_flag)
__CPROVER_ensures(g_error_writes == ((g_xchg && !g_xchg_old) ? 1 : 0))
__CPROVER_ensures((g_xchg && !g_xchg_old) ==> (g_caught && g_fin_error_has && g_fin_error_tok == g_thrown_tok))
__CPROVER_assigns(RECV_FRAME)
//@LIFT body
#endif

#ifdef U_WA_RECV_ERROR
//@FUNC
void war_set_error(struct wa_receiver *self, int error)
__CPROVER_requires(RECV_PRE(self))
__CPROVER_ensures(g_finish == 1 && !vx_exc && g_fin_flag && g_xchg)
/* first writer wins: the error slot is written iff this call's exchange found the flag clear, and then before finish() */
__CPROVER_ensures(g_error_writes == (g_xchg_old ? 0 : 1))
__CPROVER_ensures(!g_xchg_old ==> (g_fin_error_has && (g_caught ? g_fin_error_tok == g_thrown_tok : g_fin_error_tok == error)))
__CPROVER_assigns(RECV_FRAME)
//@LIFT body
#endif

#ifdef U_WA_RECV_STOPPED
//@FUNC
void war_set_stopped(struct wa_receiver *self)
__CPROVER_requires(RECV_PRE(self))
__CPROVER_ensures(g_finish == 1 && !vx_exc && g_fin_flag && g_error_writes == 0)
__CPROVER_assigns(RECV_FRAME)
//@LIFT body
#endif

#if defined(U_WA_FINISH) && !WA_VECTOR
/* operation_state<..., 0>::set_value_helper: set_value(std::move(receiver), std::move(*(ts.get<Is>()))...) */
void op_set_value_helper(struct wa_op *self, struct slots *ts)
//@LIFT op_helper
#endif

#ifdef U_WA_FINISH
//@FUNC
void finish(struct wa_op *self)
__CPROVER_requires(self == vx_op && g_alive && !g_lin && g_set_value + g_set_error + g_set_stopped == 0 && self->predecessors_remaining >= 1)
__CPROVER_requires(self->ts.n <= WA_MAX && (!WA_VECTOR || IS_VOID_VALUE || self->ts.n == self->num_predecessors) && (!self->ts.victim_engaged || g_victim < self->ts.n))
/* exactly one decrement; the downstream receiver is signalled iff it reached 0, and then exactly once */
__CPROVER_ensures(g_lin && g_lin_new == g_lin_old - 1)
__CPROVER_ensures(g_set_value + g_set_error + g_set_stopped == (g_lin_new == 0 ? 1 : 0))
/* value iff no stop/error was latched, error iff one was stored (that one), stopped otherwise */
__CPROVER_ensures(g_lin_new == 0 ==> (g_set_value == (self->set_stopped_error_called ? 0 : 1)))
__CPROVER_ensures(g_lin_new == 0 ==> (g_set_error == ((self->set_stopped_error_called && self->error_has) ? 1 : 0)))
__CPROVER_ensures(g_set_error == 1 ==> g_tok == self->error_tok)
/* the values are the stored ones, in order */
__CPROVER_ensures((g_set_value == 1 && !WA_VECTOR && g_victim < self->ts.n) ==> (g_pack_victim_ok && g_tok == self->ts.victim_tok))
__CPROVER_ensures((g_set_value == 1 && WA_VECTOR && !IS_VOID_VALUE) ==> (g_vec.n == self->ts.n && (g_victim < self->ts.n ==> (g_vec.has_victim && g_vec.victim_pos == g_victim && g_vec.victim_tok == self->ts.victim_tok))))
__CPROVER_assigns(self->predecessors_remaining, self->set_stopped_error_called, self->error_has, self->error_tok, self->ts, g_alive, g_lin, g_lin_old, g_lin_new, \
  g_set_value, g_set_error, g_set_stopped, g_tok, g_vec, g_pack_victim_ok, g_stopped_seen, g_env_step)
//@LIFT body
#endif

#ifdef U_WAV_START
//@FUNC
void wav_start(struct wa_op *self)
__CPROVER_requires(self == vx_op && g_alive && self->num_predecessors == g_np && g_np <= WA_MAX && g_set_value + g_set_error + g_set_stopped == 0 && g_child_starts_victim == 0)
/* no predecessors: complete at once with (an empty vector of) values; otherwise no direct signal and every child operation is
 * started exactly once */
__CPROVER_ensures(g_set_value == (g_np == 0 ? 1 : 0) && g_set_error == 0 && g_set_stopped == 0)
__CPROVER_ensures((g_np == 0 && !IS_VOID_VALUE) ==> g_vec.n == 0)
__CPROVER_ensures(g_child_starts_victim == (g_victim < g_np ? 1 : 0))
__CPROVER_assigns(g_alive, g_set_value, g_tok, g_vec, g_child_starts_victim)
//@LIFT body
#endif

#ifdef U_WA_START
/* when_all operation_state<.., I>::start: (the base class's start, then) this level's child operation is started, once each */
//@FUNC
void wa_start(struct wa_op *self)
__CPROVER_requires(self == vx_op && g_base_starts == 0 && g_child_starts == 0)
__CPROVER_ensures(g_child_starts == 1 && g_base_starts == WA_DERIVED)
__CPROVER_assigns(g_base_starts, g_child_starts)
//@LIFT body
#endif

void harness(void)
{
  struct wa_op op;
  struct wa_receiver rc;
  init_ghost();
  vx_op = &op;
  rc.op_state = &op; rc.i = nondet_size();
  g_victim = nondet_size();
  g_pack_size = nondet_size(); g_offset = nondet_size();
  g_may_throw = nondet_bool();
  op.num_predecessors = nondet_size(); g_np = op.num_predecessors;
  op.predecessors_remaining = nondet_size();
  op.set_stopped_error_called = nondet_bool();
  op.error_has = nondet_bool(); op.error_tok = nondet_int();
  g_stopped_seen = PRED_SENDS_STOPPED ? nondet_bool() : false;
  op.ts.n = nondet_size(); op.ts.victim_engaged = nondet_bool(); op.ts.victim_tok = nondet_int();
#ifdef U_WA_RECV_VALUE
  war_set_value(&rc, nondet_int());
  if (!g_fin_flag) VX_REACH("values_stored");
#if !IS_VOID_VALUE
  if (g_caught && g_error_writes) VX_REACH("store_threw_error_latched");
  if (g_caught && !g_error_writes) VX_REACH("store_threw_somebody_else_first");
#endif
  if (g_fin_flag && !g_caught) VX_REACH("flag_already_set");
#endif
#ifdef U_WA_RECV_ERROR
  war_set_error(&rc, nondet_int());
  if (g_error_writes && !g_caught) VX_REACH("first_error_stored");
  if (g_error_writes && g_caught) VX_REACH("copy_threw_exception_stored");
  if (!g_error_writes) VX_REACH("later_error_dropped");
#endif
#ifdef U_WA_RECV_STOPPED
  war_set_stopped(&rc);
  VX_REACH("finished");
#endif
#ifdef U_WA_FINISH
  finish(&op);
  if (g_set_value) VX_REACH("last_signals_value");
  if (g_set_error) VX_REACH("last_signals_error");
#if PRED_SENDS_STOPPED
  if (g_set_stopped) VX_REACH("last_signals_stopped");
#endif
  if (g_set_value + g_set_error + g_set_stopped == 0) VX_REACH("not_last");
#endif
#ifdef U_WA_START
  g_base_starts = 0; g_child_starts = 0;
  wa_start(&op);
  VX_REACH("started");
#endif
#ifdef U_WAV_START
  wav_start(&op);
  if (g_np == 0) VX_REACH("empty_completes_at_once"); else VX_REACH("children_started");
  if (g_child_starts_victim) VX_REACH("victim_started");
#endif
}
