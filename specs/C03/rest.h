/* C03 extension (rest_spec.py) -- life cycle of the objects the adaptors allocate and construct:
 *   - start_detached's self-owning heap operation state (factory, constructor, release, receivers),
 *   - the reference-counted shared state of split / ensure_started / split_tuple (sender constructor, shared_state
 *     constructor/destructor, intrusive_ptr_add_ref/release, connect copy-vs-move, consumer operation state constructor).
 *
 * The heap is ONE cell `struct hobj g_cell`; every member access of the lifted text is routed through HM(p), which asserts
 * that the memory has not been returned to the allocator (use after free); a second deallocate is an obligation of the
 * allocator stub.  Besides the memory,
 * a ghost ledger follows the C++ object life cycle: allocated -> members constructed -> (constructor finished) -> destroyed ->
 * deallocated.  Senders, allocators, child operation states and payloads are opaque int tokens.
 *
 * Exceptions: a stub that throws sets vx_exc; the rule that bound the call appends `if (vx_exc) return;` (propagation).  What
 * C++ does implicitly on the way out is written out by the lowering rules of rest_spec.py (and is therefore trusted):
 * temporaries die at the end of their full expression (also when it is left by an exception), a constructor left by an
 * exception destroys the members constructed so far, locals with destructors (std::unique_ptr) are destroyed on every exit. */
#ifndef C03_REST_H
#define C03_REST_H
#define VX_TRY_BEGIN(k) ((void) 0)
#define VX_CATCH_BEGIN(k) (vx_exc = 0, g_current_exception = g_thrown_tok, g_caught = 1)
#define VX_THROW_TO(label) do { if (nondet_bool()) goto label; } while (0)
#include "vx.h"

#define RECV_ID 7
struct receiver { int id; };                          /* the downstream (consumer's) receiver */
struct hobj;
struct iptr { struct hobj *p; };                       /* pika::intrusive_ptr<shared_state> */
struct hrecv { struct iptr state; struct hobj *op_state; };   /* the receiver handed to the predecessor: owns a reference
                                                                 (split, ensure_started) or holds a plain reference */
struct hobj {                                          /* operation_state_holder / shared_state (members used here) */
  int alloc;                                           /* PIKA_NO_UNIQUE_ADDRESS allocator_type alloc */
  long reference_count;                                /* pika::detail::atomic_count reference_count{0} */
  bool start_called;                                   /* std::atomic<bool> start_called{false} */
  bool os_has; int os;                                 /* std::optional<operation_state_type> os  (token of the child operation) */
  int op_state;                                        /* start_detached: operation_state_type op_state (child operation) */
};
struct uptr { struct hobj *p; int alloc; };            /* std::unique_ptr<T, allocator_deleter<other_allocator>> */
struct sender { struct iptr state; };                  /* split_sender / ensure_started_sender: the member `state` */
struct consumer_op { struct receiver receiver; struct iptr state; };   /* split_sender::operation_state<Receiver> */

/* ---- ghost state: ONE struct (a single assigns target keeps dfcc's write-set checks cheap); all of it is set by init_ghost()
 * (dfcc havocs statics) --------------------------------------------------------------------------------------------------- */
static struct rest_ghost {
  _Bool exc; int thrown_tok, current_exception; _Bool caught;
  struct hobj *mem; bool mem_live; int mem_alloc; long allocs, deallocs; bool alloc_failed;
  bool members_live;                                   /* members constructed and not yet destroyed */
  long ctor_begun, ctor_done, ctor_unwound, dtors;
  bool connect_may_throw; long connects; int conn_sender, child_op; bool child_live;
  struct hrecv child_recv; bool child_recv_live;       /* the receiver the child operation state owns (moved into it by connect) */
  long starts; bool complete_inline, completed, complete_channel_stopped;
  long ss_starts, add_refs, releases;
  long owners;                                         /* live pika::intrusive_ptr objects that point to the cell */
  bool shared;                                         /* other threads own references too (units *.intrusive_ptr_release / add_ref) */
  bool lin; long lin_old, lin_new;                     /* the one atomic step of this call on reference_count */
  long set_value, set_error, set_stopped;
} G;
#define vx_exc G.exc
#define g_thrown_tok G.thrown_tok
#define g_current_exception G.current_exception
#define g_caught G.caught
#define g_mem G.mem
#define g_mem_live G.mem_live
#define g_mem_alloc G.mem_alloc
#define g_allocs G.allocs
#define g_deallocs G.deallocs
#define g_alloc_failed G.alloc_failed
#define g_members_live G.members_live
#define g_ctor_begun G.ctor_begun
#define g_ctor_done G.ctor_done
#define g_ctor_unwound G.ctor_unwound
#define g_dtors G.dtors
#define g_connect_may_throw G.connect_may_throw
#define g_connects G.connects
#define g_conn_sender G.conn_sender
#define g_child_op G.child_op
#define g_child_live G.child_live
#define g_child_recv G.child_recv
#define g_child_recv_live G.child_recv_live
#define g_starts G.starts
#define g_complete_inline G.complete_inline
#define g_completed G.completed
#define g_complete_channel_stopped G.complete_channel_stopped
#define g_ss_starts G.ss_starts
#define g_add_refs G.add_refs
#define g_releases G.releases
#define g_owners G.owners
#define g_shared G.shared
#define g_lin G.lin
#define g_lin_old G.lin_old
#define g_lin_new G.lin_new
#define g_set_value G.set_value
#define g_set_error G.set_error
#define g_set_stopped G.set_stopped

static void init_ghost(void)
{
  vx_exc = false; g_thrown_tok = g_current_exception = 0; g_caught = false;
  g_mem = NULL; g_mem_live = false; g_mem_alloc = 0; g_allocs = g_deallocs = 0; g_alloc_failed = false; g_members_live = false;
  g_ctor_begun = g_ctor_done = g_ctor_unwound = g_dtors = 0;
  g_connect_may_throw = false; g_connects = 0; g_conn_sender = g_child_op = 0; g_child_live = false;
  g_child_recv.state.p = NULL; g_child_recv.op_state = NULL; g_child_recv_live = false;
  g_starts = 0; g_complete_inline = g_completed = g_complete_channel_stopped = false; g_ss_starts = 0;
  g_add_refs = g_releases = 0; g_set_value = g_set_error = g_set_stopped = 0;
  g_owners = 0; g_shared = false; g_lin = false; g_lin_old = g_lin_new = 0;
}
/* the heap: ONE cell.  Every member access of the lifted text goes through HM(p) (R_CtorLift obj, Members(obj="HM(self)"), `p->` rules), which makes "the
 * memory was already returned to the allocator" (use after free) an obligation of that access. */
static struct hobj g_cell;
static struct hobj *hobj_live(struct hobj *p)
{
  VX_ASSERT(p == g_mem && g_mem_live, "use after free: the object is accessed after its memory was returned to the allocator");
  return p;
}
#define HM(p) hobj_live(p)
#define SAT(c) do { if ((c) < 3) (c)++; } while (0)
#define MEMBERS_LIVE(p, what) VX_ASSERT((p) == g_mem && g_mem_live && g_members_live, "life time: " what " of an object that was already destroyed (or never constructed)")

/* ---- allocator (std::allocator_traits<A>::allocate / destroy / deallocate), allocator copies ----------------------- */
static int alloc_copy(int a) { return a; }
static struct hobj *alloc_allocate(int a, size_t n)
{
  struct hobj *p;
  VX_ASSERT(n == 1, "room for exactly one object is allocated");
  VX_ASSERT(g_allocs == 0, "ghost: one allocation per factory call");
  if (nondet_bool()) { vx_exc = true; g_thrown_tok = nondet_int(); g_alloc_failed = true; return NULL; }   /* std::bad_alloc */
  p = &g_cell;
  /* fresh memory: indeterminate content */
  p->alloc = nondet_int(); p->reference_count = nondet_long(); p->start_called = nondet_bool(); p->os_has = nondet_bool(); p->os = nondet_int(); p->op_state = nondet_int();
  g_mem = p; g_mem_live = true; g_mem_alloc = a; SAT(g_allocs);
  return p;
}
static void hobj_dtor(struct hobj *self);
static void alloc_destroy(int a, struct hobj *p)          /* allocator_traits::destroy(a, p)  ==  p->~T() */
{
  VX_ASSERT(p == g_mem && g_mem_live, "destroy of the object in the factory's allocation");
  VX_ASSERT(g_members_live, "double destruction: the object's destructor runs although it was already destroyed (or its members were unwound)");
  hobj_dtor(p);
  g_members_live = false; SAT(g_dtors);
}
static void alloc_deallocate(int a, struct hobj *p, size_t n)
{
  VX_ASSERT(p == g_mem, "deallocate of the factory's allocation");
  VX_ASSERT(g_mem_live, "double free: the allocation is returned to the allocator a second time");
  VX_ASSERT(!g_members_live, "the memory is returned while the object in it is still alive (its destructor did not run)");
  VX_ASSERT(n == 1 && a == g_mem_alloc, "deallocate with the allocator and the size of the allocation");
  g_mem_live = false; SAT(g_deallocs);
}

/* ---- std::unique_ptr<T, pika::detail::allocator_deleter<A>>: the deleter only deallocates (no destructor call) ------ */
#ifndef ENV_STEP
#define ENV_STEP() ((void) 0)          /* a step of the environment (another thread) between two steps of the lifted text */
#endif
static struct uptr uptr_make(struct hobj *p, int a) { struct uptr u; u.p = p; u.alloc = a; return u; }
static struct hobj *uptr_get(struct uptr *u) { ENV_STEP(); return u->p; }
static struct hobj *uptr_release(struct uptr *u) { struct hobj *p = u->p; ENV_STEP(); u->p = NULL; return p; }
static void uptr_dtor(struct uptr *u) { ENV_STEP(); if (u->p != NULL) { alloc_deallocate(u->alloc, u->p, 1); u->p = NULL; } }

/* ---- constructor protocol (written out by rule PlacementNew): begin, then the lifted constructor, then either "finished" or
 * "left by an exception => the members constructed so far are destroyed" ----------------------------------------------- */
static void ctor_begin(struct hobj *p)
{
  VX_ASSERT(p == g_mem && g_mem_live && !g_members_live && g_ctor_begun == 0, "the object is constructed once, in the fresh allocation");
  SAT(g_ctor_begun); g_members_live = true;
  /* implicit default construction of std::optional<operation_state_type> os (empty); the default member initialisers
   * reference_count{0}, start_called{false} are LIFTED (fragments prepended to the constructor by R_CtorLift) */
  p->os_has = false;
}
static void ctor_end(struct hobj *p) { SAT(g_ctor_done); }     /* ghost only: the object may already have destroyed itself */
static void ctor_unwind(struct hobj *p)
{
  VX_ASSERT(g_mem_live && g_members_live, "double destruction: a constructor left by an exception destroys its members, but the object was already destroyed and freed through a reference dropped during construction");
  g_members_live = false; SAT(g_ctor_unwound);
}

/* ---- pika::intrusive_ptr<T> (boost semantics): the lifted intrusive_ptr_add_ref / intrusive_ptr_release do the counting;
 * g_owners counts the live intrusive_ptr objects of THIS agent (representation invariant: reference_count == owners when
 * nobody else shares the object) --------------------------------------------------------------------------------------- */
void intrusive_ptr_add_ref(struct hobj *p);
void intrusive_ptr_release(struct hobj *p);
static struct iptr iptr_from_raw(struct hobj *p) { struct iptr r; r.p = p; if (p != NULL) { intrusive_ptr_add_ref(p); VX_ASSERT(g_owners < 1000000, "ghost range of the number of owners"); g_owners++; } return r; }
static struct iptr iptr_copy(struct iptr *from) { return iptr_from_raw(from->p); }
static struct iptr iptr_move(struct iptr *from) { struct iptr r; r.p = from->p; from->p = NULL; return r; }
static struct hobj *iptr_get(struct iptr *ip) { return ip->p; }
static void iptr_dtor(struct iptr *ip) { if (ip->p != NULL) { struct hobj *p = ip->p; ip->p = NULL; if (g_owners > 0) g_owners--; intrusive_ptr_release(p); } }
/* operator=(T* rhs): this_type(rhs).swap(*this) -- new reference first, then the old one is dropped */
static void iptr_assign_raw(struct iptr *ip, struct hobj *rhs) { struct iptr tmp = iptr_from_raw(rhs); struct hobj *old = ip->p; ip->p = tmp.p; tmp.p = old; iptr_dtor(&tmp); }
/* pika::detail::atomic_count: ++c / --c are single atomic read-modify-write steps returning the new value.  When the object is
 * shared (g_shared) other owners may drop their references before our step, and once our own reference is gone while others
 * remain, the last of them may destroy and free the object at any moment: the agent must not touch it any more. */
static long atomic_count_inc(long *c)
{
  VX_ASSERT(c == &g_cell.reference_count && g_mem_live && g_members_live, "reference count of a live object");
  VX_ASSERT(*c < 1000000, "ghost range of the reference count");
  if (g_shared) VX_ASSERT(!g_lin, "one atomic step per call");
  g_lin = true; g_lin_old = *c;
  ++*c; g_lin_new = *c;
  return *c;
}
static long atomic_count_dec(long *c)
{
  VX_ASSERT(c == &g_cell.reference_count && g_mem_live && g_members_live, "reference count of a live object");
  if (g_shared) { long others = nondet_long(); if (others >= 1 && others < *c) *c = others; }   /* interference: other owners released; ours is still counted */
  VX_ASSERT(*c > 0, "reference count decremented below zero");
  if (g_shared) VX_ASSERT(!g_lin, "one atomic step per call");
  g_lin = true; g_lin_old = *c;
  --*c; g_lin_new = *c;
  if (g_shared && *c > 0) { g_mem_live = false; g_members_live = false; }   /* the remaining owners may free it now */
  return *c;
}

/* ---- the receiver handed to the predecessor ---------------------------------------------------------------------------- */
static struct hrecv recv_owning(struct hobj *s) { struct hrecv r; r.state = iptr_from_raw(s); r.op_state = s; return r; }   /* R{this}, state is an intrusive_ptr */
static struct hrecv recv_ref(struct hobj *s) { struct hrecv r; r.state.p = NULL; r.op_state = s; return r; }                /* R{*this}, plain reference */
static void recv_dtor(struct hrecv *r) { iptr_dtor(&r->state); }

/* connect(sender, receiver&&): may throw before it has consumed the receiver; on success the receiver lives in the returned
 * (child) operation state */
static int child_connect(int sender, struct hrecv *r, struct hobj *self)
{
  VX_ASSERT(r->op_state == self && (r->state.p == NULL || r->state.p == self), "the predecessor is connected to a receiver that refers to this object");
  if (g_connect_may_throw && nondet_bool()) { vx_exc = true; g_thrown_tok = nondet_int(); return 0; }
  SAT(g_connects); g_conn_sender = sender; g_child_op = nondet_int(); g_child_live = true;
  g_child_recv = *r; r->state.p = NULL; g_child_recv_live = true;
  return g_child_op;
}
/* std::optional<operation_state_type> os */
static void os_emplace(struct hobj *self, int optok) { MEMBERS_LIVE(self, "os.emplace"); HM(self)->os_has = true; HM(self)->os = optok; }
#endif
