/* C03 -- join adaptors when_all / when_all_vector: C types, ghost state, callee and environment stubs.
 *
 * -D parameters:  WA_VECTOR (0 = when_all.hpp, 1 = when_all_vector.hpp), PRED_SENDS_STOPPED (sender_traits<Sender>::sends_done),
 * IS_VOID_VALUE (when_all_vector: predecessors send nothing).
 * Values storage `ts` (member_pack<optional<T>...> / vector<optional<T>>): length + ONE symbolic slot, the victim g_victim.
 * Payloads / exceptions are int tokens.  Exceptions: a stub that "throws" sets vx_exc; the rule that bound the call appends
 * `if (vx_exc) VX_THROW_NOW;`, which the lowered try/catch turns into a jump to the handler (outside any try it is an
 * obligation: an exception must not escape these noexcept functions).
 * g_alive: the when_all operation state is still guaranteed to exist.  It is owned by whoever connected it and may be destroyed
 * as soon as the downstream receiver has been signalled; a receiver whose finish() was not the last cannot know when that is.
 */
#ifndef C03_JOIN_H
#define C03_JOIN_H
static _Bool vx_exc; static int g_thrown_tok, g_current_exception; static _Bool g_caught;
#define VX_TRY_BEGIN(k) ((void) 0)
#define VX_CATCH_BEGIN(k) (vx_exc = 0, g_current_exception = g_thrown_tok, g_caught = 1)   /* std::current_exception() inside the handler */
#define VX_THROW_TO(label) do { if (nondet_bool()) goto label; } while (0)
#include "vx.h"
/* a VX_THROW_NOW that is not inside a lowered try block: the exception leaves the noexcept function */
#define VX_THROW_NOW VX_ASSERT(0, "an exception escapes a noexcept completion function (std::terminate)")

struct receiver { int unused; };
struct slots { size_t n; bool victim_engaged; int victim_tok; };
struct vec { size_t n; bool has_victim; size_t victim_pos; int victim_tok; };   /* std::vector<element_value_type> values */
struct wa_op {
  size_t num_predecessors;
  size_t predecessors_remaining;     /* std::atomic<std::size_t> */
  bool set_stopped_error_called;     /* std::atomic<bool> */
  bool error_has; int error_tok;     /* std::optional<variant<errors...>> error */
  struct slots ts;
  struct receiver receiver;
};
struct wa_receiver { struct wa_op *op_state; size_t i; };

static struct wa_op *vx_op;
static bool g_alive;
static size_t g_victim;
static long g_set_value, g_set_error, g_set_stopped; static int g_tok; static struct vec g_vec; static bool g_pack_victim_ok;
static long g_finish; static bool g_fin_flag, g_fin_error_has, g_fin_victim_engaged; static int g_fin_error_tok, g_fin_victim_tok;
static bool g_lin; static size_t g_lin_old, g_lin_new;            /* the decrement of finish() */
static bool g_xchg; static bool g_xchg_old;                       /* this receiver's exchange on set_stopped_error_called */
static long g_error_writes;                                        /* writes to op_state.error by this call */
static bool g_stopped_seen;                                        /* some predecessor called set_stopped */
static size_t g_pack_size, g_offset;                               /* when_all: OperationState::sender_pack_size / i_storage_offset */
static long g_child_starts_victim, g_child_starts; static bool g_env_step;

#define SIGNALS (g_set_value + g_set_error + g_set_stopped)
#define ALIVE(what) VX_ASSERT(g_alive, "life time: " what " touched after the operation state may have been destroyed")
#define WA_MAX 1000000u

static void init_ghost(void)
{
  vx_exc = false; g_thrown_tok = 0; g_current_exception = 0; g_caught = false; g_alive = true; g_victim = 0;
  g_set_value = g_set_error = g_set_stopped = 0; g_tok = 0; g_vec.n = 0; g_vec.has_victim = false; g_vec.victim_pos = 0; g_vec.victim_tok = 0;
  g_pack_victim_ok = false; g_finish = 0; g_fin_flag = g_fin_error_has = g_fin_victim_engaged = false; g_fin_error_tok = g_fin_victim_tok = 0;
  g_lin = false; g_lin_old = g_lin_new = 0; g_xchg = g_xchg_old = false; g_error_writes = 0; g_stopped_seen = false;
  g_pack_size = 0; g_offset = 0; g_child_starts_victim = g_child_starts = 0; g_env_step = false;
}

/* ---- downstream receiver: T-stubs ----------------------------------------------------------------------------- */
static void recv_signal(struct receiver *r)
{
  ALIVE("receiver");
  VX_ASSERT(r == &vx_op->receiver, "the signal goes to the connected receiver");
  VX_ASSERT(SIGNALS == 0, "the receiver is signalled at most once");
  g_alive = false;   /* completion may destroy the operation state */
}
static void recv_set_error(struct receiver *r, int tok) { recv_signal(r); g_set_error++; g_tok = tok; }
static void recv_set_stopped(struct receiver *r) { recv_signal(r); g_set_stopped++; }
static void recv_set_value_void(struct receiver *r) { recv_signal(r); g_set_value++; }
static void recv_set_value_vec(struct receiver *r, struct vec v) { recv_signal(r); g_set_value++; g_vec = v; }
/* set_value(receiver, std::move(*(ts.get<Is>()))...): every optional of the pack is dereferenced */
static void recv_set_value_pack(struct receiver *r, struct slots *ts)
{
  ALIVE("ts");
  VX_ASSERT(!(g_victim < ts->n) || ts->victim_engaged, "dereference of an empty std::optional (a value that was never stored is sent)");
  g_pack_victim_ok = !(g_victim < ts->n) || ts->victim_engaged;
  g_tok = ts->victim_tok;
  recv_signal(r); g_set_value++;
}
#define PACK(x) (x)   /* a member_pack passed by reference */
#define recv_set_value(...) VX_SV_PICK(__VA_ARGS__, recv_set_value_vec, recv_set_value_void)(__VA_ARGS__)
#define VX_SV_PICK(a, b, f, ...) f

/* ---- std::atomic ---------------------------------------------------------------------------------------------- */
/* environment, seen from one receiver: the other predecessors' receivers run concurrently.  Each of them only ever sets the
 * flag, writes `error` only as the winner of the exchange (so never after somebody else won), and stores only its own slots. */
static void env_others(void)
{
  if (g_lin && g_lin_new == 0) return;   /* our decrement reached 0: every other receiver has finished */
  if (nondet_bool())
  {
    g_env_step = true;
    if (!vx_op->set_stopped_error_called && nondet_bool())
    {
      vx_op->set_stopped_error_called = true;
      if (PRED_SENDS_STOPPED && nondet_bool()) g_stopped_seen = true;
      else { vx_op->error_has = true; vx_op->error_tok = nondet_int(); }   /* (the winner stores before its finish(); see atomic_dec_fetch) */
    }
  }
}
static bool atomic_load_bool(bool *p) { ALIVE("set_stopped_error_called"); env_others(); return *p; }
static void atomic_store_bool(bool *p, bool v)
{
  ALIVE("set_stopped_error_called"); env_others();
  VX_ASSERT(v, "guarantee: set_stopped_error_called is only ever set");
  *p = v;
}
static bool atomic_exchange_bool(bool *p, bool v)
{
  ALIVE("set_stopped_error_called"); env_others();
  VX_ASSERT(!g_xchg, "one exchange per signal");
  VX_ASSERT(v, "guarantee: set_stopped_error_called is only ever set");
  g_xchg = true; g_xchg_old = *p; *p = v;
  return g_xchg_old;
}
/* --predecessors_remaining.  Environment: other receivers' finish() calls may decrement first, never below our own
 * outstanding contribution.  When OUR decrement reaches 0 every other receiver has returned from its set_* call (finish() is
 * the last thing it does), so by the contracts of units *.recv.* :
 *   J:  flag clear  ==> every slot is stored;   flag set ==> an error is stored, or some predecessor signalled stopped. */
static size_t atomic_dec_fetch(size_t *p)
{
  ALIVE("predecessors_remaining");
  if (nondet_bool()) { size_t v = nondet_size(); if (v >= 1 && v <= *p) { if (v != *p) g_env_step = true; *p = v; } }
  env_others();
  VX_ASSERT(!g_lin, "one decrement per finish()");
  VX_ASSERT(*p >= 1, "predecessors_remaining does not underflow");
  g_lin = true; g_lin_old = *p; *p = *p - 1; g_lin_new = *p;
  if (g_lin_new == 0)
  {
    if (g_env_step && !vx_op->ts.victim_engaged && nondet_bool()) { vx_op->ts.victim_engaged = true; vx_op->ts.victim_tok = nondet_int(); }
    VX_ASSUME(vx_op->set_stopped_error_called || !(g_victim < vx_op->ts.n) || vx_op->ts.victim_engaged);      /* J, first half */
    VX_ASSUME(!vx_op->set_stopped_error_called || vx_op->error_has || g_stopped_seen);                          /* J, second half */
    VX_ASSUME(PRED_SENDS_STOPPED || !g_stopped_seen);   /* well-typed pipeline: a sender with sends_done == false never calls set_stopped */
  }
  else g_alive = false;   /* somebody else's finish() will be the last: the operation state may be gone any time now */
  return g_lin_new;
}

/* ---- error slot, value slots ------------------------------------------------------------------------------------ */
static bool g_may_throw;   /* harness: do copies/moves of payloads throw at all */
/* op_state.error = <error object>  (copy/move construction of the error may throw) */
static void error_assign(struct wa_op *op, int tok)
{
  ALIVE("error");
  if (g_may_throw && nondet_bool()) { vx_exc = true; g_thrown_tok = nondet_int(); return; }
  op->error_has = true; op->error_tok = tok;
  if (g_error_writes < 3) g_error_writes++;
}
/* op_state.error = std::current_exception()  (does not throw) */
static void error_assign_current(struct wa_op *op)
{
  ALIVE("error");
  VX_ASSERT(g_caught, "std::current_exception() outside a handler");
  op->error_has = true; op->error_tok = g_current_exception;
  if (g_error_writes < 3) g_error_writes++;
}
static bool error_engaged(struct wa_op *op) { ALIVE("error"); return op->error_has; }
static int error_deref(struct wa_op *op) { ALIVE("error"); VX_ASSERT(op->error_has, "dereference of an empty std::optional (error)"); return op->error_tok; }
/* ts[i].emplace(value) */
static void slots_emplace(struct slots *ts, size_t i, int tok)
{
  ALIVE("ts");
  VX_ASSERT(i < ts->n, "ts indexed within bounds");
  if (g_may_throw && nondet_bool()) { vx_exc = true; g_thrown_tok = nondet_int(); return; }
  if (i == g_victim) { ts->victim_engaged = true; ts->victim_tok = tok; }
}
/* (ts.get<offset + Is>().emplace(ts_i), ...): the receiver's sender_pack_size values go to slots offset .. offset+size-1 */
static void pack_emplace(struct slots *ts, size_t offset, int tok)
{
  ALIVE("ts");
  VX_ASSERT(offset + g_pack_size <= ts->n, "ts indexed within bounds");
  if (g_may_throw && nondet_bool())
  {
    vx_exc = true; g_thrown_tok = nondet_int();
    if (nondet_bool()) return;      /* thrown before / after the victim's slot was written */
  }
  if (g_victim >= offset && g_victim - offset < g_pack_size) { ts->victim_engaged = true; ts->victim_tok = tok; }
}
static struct vec vec_make(void) { struct vec v; v.n = 0; v.has_victim = false; v.victim_pos = 0; v.victim_tok = 0; return v; }
static void vec_reserve(struct vec *v, size_t n) { }
struct slot { size_t idx; bool engaged; int tok; };
static size_t slots_size(struct slots *ts) { ALIVE("ts"); return ts->n; }
static struct slot slots_at(struct slots *ts, size_t i)
{
  struct slot s; ALIVE("ts");
  s.idx = i; s.engaged = (i == g_victim) ? ts->victim_engaged : true; s.tok = (i == g_victim) ? ts->victim_tok : 0;
  return s;
}
static bool slot_has_value(struct slot s) { return s.engaged; }
static struct slot slot_deref(struct slot s) { VX_ASSERT(s.engaged, "dereference of an empty std::optional (a value that was never stored is sent)"); return s; }
static void vec_push_back(struct vec *v, struct slot s)
{
  if (s.idx == g_victim) { VX_ASSERT(!v->has_victim, "a stored value is sent twice"); v->has_victim = true; v->victim_pos = v->n; v->victim_tok = s.tok; }
  if (v->n < WA_MAX) v->n++;
}

/* ---- finish() as a callee of the receivers (T-stub: records what the last finisher will find) ------------------------ */
#ifdef U_WA_RECV
static void wa_finish(struct wa_op *op)
{
  ALIVE("operation state");
  VX_ASSERT(op == vx_op, "finish() of this receiver's operation state");
  if (g_finish == 0)
  {
    g_fin_flag = op->set_stopped_error_called; g_fin_error_has = op->error_has; g_fin_error_tok = op->error_tok;
    g_fin_victim_engaged = op->ts.victim_engaged; g_fin_victim_tok = op->ts.victim_tok;
  }
  if (g_finish < 3) g_finish++;
  g_alive = false;   /* if this was not the last finish() the operation state may disappear any time; if it was, it has completed */
}
#endif

/* ---- when_all_vector::start ------------------------------------------------------------------------------------------ */
static size_t wa_num_predecessors(struct wa_op *op) { ALIVE("num_predecessors"); return op->num_predecessors; }
static bool opstates_has(struct wa_op *op, size_t i) { ALIVE("op_states"); VX_ASSERT(i < op->num_predecessors, "op_states indexed within bounds"); return true; }
static size_t opstates_deref(struct wa_op *op, size_t i) { ALIVE("op_states"); VX_ASSERT(i < op->num_predecessors, "op_states indexed within bounds"); return i; }
static size_t g_np;   /* ghost copy of num_predecessors */
static long g_base_starts;
static void wa_base_start(struct wa_op *o) { if (g_base_starts < 3) g_base_starts++; }
static void wa_child_start(struct wa_op *o) { if (g_child_starts < 3) g_child_starts++; }
static void child_start(size_t i)
{
  if (i == g_victim && g_child_starts_victim < 3) g_child_starts_victim++;
  /* once the last child has been started all predecessors may complete: the operation state may be gone */
  if (i + 1 == g_np) g_alive = false;
}
#endif
