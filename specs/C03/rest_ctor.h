/* C03 extension (rest_spec.py) -- constructors / start / connect of the adaptors' operation states ("wiring"): which
 * predecessor is connected, to a receiver that refers to which operation state, what the bookkeeping members are initialised
 * to (= the preconditions of the completion-path units of specs/C03/spec.py), what is started.
 *
 * Senders, schedulers, callables and child operation states are opaque int tokens; a pack of senders is one token plus the index
 * that `.template get<i>()` selected.  Exceptions: a stub that throws sets vx_exc; the binding rule appends
 * `if (vx_exc) VX_THROW_NOW;` (-> `return`, or a jump to the handler inside a lowered try block). */
#ifndef C03_REST_CTOR_H
#define C03_REST_CTOR_H
#define VX_TRY_BEGIN(k) ((void) 0)
#define VX_CATCH_BEGIN(k) (vx_exc = 0, g_current_exception = g_thrown_tok, g_caught = 1)
#define VX_THROW_TO(label) do { if (nondet_bool()) goto label; } while (0)
#include "vx.h"

#define RECV_ID 7
#define NP_MAX 1000000u                                /* ghost range of the number of predecessors */
struct receiver { int id; };
struct variant { int index; int tok; };
struct pack { int tok; };                              /* member_pack / std::vector of predecessor senders */
struct wop;
struct wrecv { struct wop *op_state; size_t i; bool has_index; };   /* the adaptor's receiver handed to a predecessor */
struct opt_ops { size_t n; bool allocated; bool victim_has; int victim_op; };   /* unique_ptr<optional<operation_state_type>[]> */
struct slots { size_t n; };                            /* std::vector<std::optional<T>> ts */
struct wop {                                           /* an adaptor's operation state (union of the members used here) */
  struct receiver receiver; int f; int scheduler;
  size_t num_predecessors, predecessors_remaining; bool set_stopped_error_called;
  int op_state, sender_os, predecessor_op_state, predecessor_operation_state;   /* the child operation state (by its member name) */
  struct opt_ops op_states; struct slots ts;
  bool started;
};

static struct rest_ctor_ghost {
  _Bool exc; int thrown_tok, current_exception; _Bool caught;
  struct wop *self;
  bool connect_may_throw; long connects; int conn_sender, child_op; size_t get_index, conn_index, conn_recv_i; bool conn_has_index;
  long base_ctors; int base_recv_id, base_pack;
  long starts; int started_op;
  long signals;
  size_t np, idxI, victim; long victim_connects; int victim_sender, victim_child; bool throw_seen;
  long resizes; size_t resize_n;
} G;
#define vx_exc G.exc
#define g_thrown_tok G.thrown_tok
#define g_current_exception G.current_exception
#define g_caught G.caught
#define vx_self G.self
#define g_connect_may_throw G.connect_may_throw
#define g_connects G.connects
#define g_conn_sender G.conn_sender
#define g_child_op G.child_op
#define g_get_index G.get_index
#define g_conn_index G.conn_index
#define g_conn_recv_i G.conn_recv_i
#define g_conn_has_index G.conn_has_index
#define g_base_ctors G.base_ctors
#define g_base_recv_id G.base_recv_id
#define g_base_pack G.base_pack
#define g_starts G.starts
#define g_started_op G.started_op
#define g_signals G.signals
#define g_np G.np
#define g_I G.idxI
#define g_victim G.victim
#define g_victim_connects G.victim_connects
#define g_victim_sender G.victim_sender
#define g_victim_child G.victim_child
#define g_resizes G.resizes
#define g_resize_n G.resize_n
#define SAT(c) do { if ((c) < 3) (c)++; } while (0)

static void init_ghost(void)
{
  vx_exc = false; g_thrown_tok = g_current_exception = 0; g_caught = false; vx_self = NULL;
  g_connect_may_throw = false; g_connects = 0; g_conn_sender = g_child_op = 0; g_get_index = g_conn_index = g_conn_recv_i = 0; g_conn_has_index = false;
  g_base_ctors = 0; g_base_recv_id = g_base_pack = 0; g_starts = 0; g_started_op = 0; g_signals = 0;
  g_np = 1; g_I = 0; g_victim = 0; g_victim_connects = 0; g_victim_sender = g_victim_child = 0; G.throw_seen = false;
  g_resizes = 0; g_resize_n = 0;
}

/* senders.template get<i>() / the element of a vector of senders */
static int pack_get(struct pack p, size_t i) { VX_ASSERT(i < g_np, "get<i> within the pack of predecessor senders"); g_get_index = i; return p.tok; }
/* token of the i-th sender of a vector */
#define SENDER_AT(p, i) ((p).tok + (int) ((i) & 0xffff))

/* the receiver temporaries: aggregate `R{*this}` / `R{*this, i}`; constructor calls `R(*this)` run the lifted constructor */
static struct wrecv wrecv_agg1(struct wop *s) { struct wrecv r; r.op_state = s; r.i = 0; r.has_index = false; return r; }
static struct wrecv wrecv_agg2(struct wop *s, size_t i) { struct wrecv r; r.op_state = s; r.i = i; r.has_index = true; return r; }

/* connect(sender, receiver): may throw; T-stub */
static int w_connect(int sender, struct wrecv r, struct wop *self)
{
  VX_ASSERT(self == vx_self && r.op_state == self, "the predecessor is connected to a receiver that refers to this operation state");
  if (g_connect_may_throw && nondet_bool()) { vx_exc = true; g_thrown_tok = nondet_int(); G.throw_seen = true; return 0; }
  SAT(g_connects); g_conn_sender = sender; g_conn_index = g_get_index; g_conn_recv_i = r.i; g_conn_has_index = r.has_index;
  g_child_op = nondet_int();
  if (r.has_index && r.i == g_victim) { SAT(g_victim_connects); g_victim_sender = sender; g_victim_child = g_child_op; }
  return g_child_op;
}
static void child_start(int optok) { SAT(g_starts); g_started_op = optok; }
#endif
