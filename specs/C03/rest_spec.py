"""C03 extension -- what specs/C03/spec.py does not put under contract: constructors / factories / destructors of the adaptors'
operation states and shared states (allocation, connect, start, reference counting, release), the remaining small members, and
sync_wait's receiver.

Defines REST_UNITS / REST_META / REST_STATIC (merged by the owner: exec + `UNITS += REST_UNITS`).  Self-contained: every name it
defines carries the prefix R_ / r_.  Templates: specs/C03/rest*.c|h, referenced as ../C03/<file> so that the same text works from
specs/C03 and from the scratch directory specs/C03X.

Known finding on the pinned tree: rest.split.sender_ctor / rest.ensure_started.sender_ctor fail when connect() of the predecessor
throws (double destruction + double free).  The template excludes that input class with -DKF_CONNECT_NOTHROW (for a known_findings
line `exclude=KF_CONNECT_NOTHROW`); the environment variable R_KF_CONNECT_NOTHROW=1 adds the define to those two units (development
aid for tools/mut.sh runs only).  Native reproduction: specs/C03/rest_findings/run.sh [<source root>].
"""
import os
import re

from vx.lift import (Lift, Sub, Call, Members, Guard, DropStmt, Rule, Auto, TryCatch, LiftError, match_close, split_args, read_source,
                     locate, locate_fragment, resolve_pp, apply_rules, splice_loops, GENERIC_RULES)
from vx.run import Unit

R_ALG = "libs/pika/execution/include/pika/execution/algorithms/"
R_DIR = "../C03/"
REST_UNITS = []


# ---------------------------------------------------------------------------------------------------------------
# local helper rules / lifts (syntactic)


def r_obj(kw):
    return kw.pop("obj", "HM(self)")


class R_CtorLift(Lift):
    """A constructor: the mem-initialiser list `: a(x), b{y}` becomes the assignments `self->a = (x); self->b = (y);` in front of the
    (lifted) constructor body, in the order written; then the unit rules run.  (Same lowering as specs/C01 CtorLift; the header is
    #if-resolved first.)"""

    def __init__(self, *a, **kw):
        self.obj = r_obj(kw)
        self.pre = kw.pop("pre", [])        # [(start_regex, end_regex)]: default member initialisers / constants, prepended in this order
        self.bases = kw.pop("bases", {})    # base-class initialisers: name -> replacement template with {args}
        Lift.__init__(self, *a, **kw)

    def run(self):
        body, line, header = locate(self.src, self.locate, self.which, self.expect, ctor=True)
        raw = header + body
        header = resolve_pp(header)
        op = header.index("(")
        cl = match_close(header, op)
        rest = header[cl + 1:].strip()
        inits = []
        if rest:
            if not rest.startswith(":"):
                raise LiftError("R_CtorLift: unexpected text between the parameter list and the body of /%s/: %r" % (self.locate, rest[:40]))
            for item in split_args(rest[1:]):
                m = re.match(r"\s*(\w+)\s*[({](.*)[)}]\s*$", item, re.S)
                if not m:
                    raise LiftError("R_CtorLift: cannot parse initialiser %r" % item)
                if m.group(1) in self.bases:
                    inits.append(self.bases[m.group(1)].replace("{args}", m.group(2).strip()))
                else:
                    inits.append("%s->%s = (%s);" % (self.obj, m.group(1), m.group(2).strip()))
        pre = []
        for (a, b) in self.pre:
            frag, _, _ = locate_fragment(self.src, a, b)
            pre.append(frag)
            raw += frag
        text = "{ " + " ".join(pre) + " " + " ".join(inits) + " " + body.strip()[1:]
        text = resolve_pp(text)
        text = apply_rules(text, self.rules)
        if self.generic:
            text = apply_rules(text, GENERIC_RULES)
        text = apply_rules(text, self.post)
        text, nloops = splice_loops(text, self.loops)
        return {"text": text, "line": line, "file": self.src, "raw": raw, "nloops": nloops, "header": header}


def r_throwing(call, on_exc="return"):
    """a may-throw call nested in an expression: leave the function while the exception is in flight"""
    return "({ __typeof__(%s) vx_v = %s; if (vx_exc) %s; vx_v; })" % (call, call, on_exc)


def r_unwrap_with_result_of(args, env):
    m = re.match(r"\s*\[&\]\s*\(\s*\)\s*(?:mutable\s*)?\{\s*return\s+(.*);\s*\}\s*$", args[0], re.S)
    if not m:
        raise LiftError("with_result_of: argument is not [&]() { return E; }")
    return m.group(1)


def r_connect_temp(make):
    """connect(SENDER, RECEIVER_TYPE{ARG})  with a receiver TEMPORARY:
        ({ struct hrecv vx_tmp = MAKE(ARG); int vx_v = child_connect(SENDER, &vx_tmp, self); recv_dtor(&vx_tmp); if (vx_exc) VX_THROW_NOW; vx_v; })
    the temporary is created before the call and destroyed at the end of the full expression, also when connect throws.
    VX_THROW_NOW: jump to the handler inside a lowered try block (rule TryCatch), otherwise `return` (rule R_PROPAGATE)."""
    def tmpl(args, env):
        if len(args) != 2:
            raise LiftError("connect: expected (sender, receiver), got %r" % (args,))
        m = re.match(r"^(\w+)(?:<[^{}()]*>)?\s*[{(]\s*(\*?)\s*this\s*[})]$", args[1].strip())
        if not m:
            raise LiftError("connect: the receiver argument is not RECEIVER{this} / RECEIVER{*this}: %r" % args[1][:60])
        mk = make[m.group(2)]
        return ("({ struct hrecv vx_tmp = %s(self); int vx_v = child_connect(%s, &vx_tmp, self); recv_dtor(&vx_tmp); "
                "if (vx_exc) VX_THROW_NOW; vx_v; })" % (mk, args[0]))
    return tmpl


def r_recv_owns(src, recv_struct):
    """does the receiver handed to the predecessor own a reference?  Read from the declaration of its member in the source:
    `pika::intrusive_ptr<...> state;` (owning) versus a plain reference / pointer member"""
    m = re.search(r"struct %s\s*\{(.*?)\b(set_error|set_stopped|set_value)\b" % recv_struct, read_source(src), re.S)
    if not m:
        raise LiftError("receiver struct %s not found in %s" % (recv_struct, src))
    return bool(re.search(r"pika::intrusive_ptr<\s*\w+\s*>\s+\w+\s*;", m.group(1)))


def r_connect(src, recv_struct):
    """binding of connect(sender, RECEIVER{this}) for the adaptor in `src` (evaluated lazily: LiftError => exit 2)"""
    class _R(Rule):
        n = None

        def apply(self, text):
            mk = "recv_owning" if r_recv_owns(src, recv_struct) else "recv_ref"
            return Call(r"pika::execution::experimental::connect", r_connect_temp({"": mk, "*": mk}), None).apply(text)
    return _R()


R_PROPAGATE = Sub(r"\bVX_THROW_NOW\b", "return", None)
R_FWD = Sub(r"std::forward<(?:[^<>()]|\([^()]*\))*>\((\w+)\)(?:\s*\.\.\.)?", r"\1", None)
R_USING = Sub(r"\busing\s+\w+\s*=[^;]*;", "", None)
R_THIS = Sub(r"\bthis\b", "self", None)
R_START = Call(r"pika::execution::experimental::start", "child_start({0})", None)

# the allocate / placement-new / release idiom of start_detached, split, ensure_started, split_tuple
R_FACTORY = [
    R_USING, R_FWD,
    Sub(r"\bother_allocator\s+(\w+)\((\w+)\);", r"int \1 = alloc_copy(\2);", None),
    # new (PTR) TYPE{ARGS};  ->  constructor protocol around the lifted constructor TYPE_ctor; an exception leaves the function
    Sub(r"\bnew\s*\(((?:[^()]|\([^()]*\))*)\)\s*(\w+)\s*\{([^{}]*)\};",
        r"{ struct hobj *vx_p = \1; ctor_begin(vx_p); \2_ctor(vx_p, \3); if (vx_exc) { ctor_unwind(vx_p); return; } ctor_end(vx_p); }", None),
    Guard(r"\bunique_ptr\s+(\w+)\(\s*allocator_traits::allocate\((\w+),\s*(\w+)\),\s*pika::detail::allocator_deleter<other_allocator>\{(\w+)\}\);",
          r"struct uptr \1 = uptr_make(alloc_allocate(\2, \3), \4); if (vx_exc) return;", r"uptr_dtor(&\1);", None),
    Sub(r"\b(\w+)\.get\(\)", r"uptr_get(&\1)", None),
    Sub(r"\b(\w+)\.release\(\)", r"uptr_release(&\1)", None),
    Call(r"\bPIKA_UNUSED", "(void) ({0})", None),
]
R_RELEASE = [
    R_THIS,
    Sub(r"\ballocator_type\s+(\w+)\(((?:\w+->)?alloc)\);", r"int \1 = alloc_copy(\2);", None),
    Call(r"std::allocator_traits<allocator_type>::destroy", "alloc_destroy({0}, {1})", None),
    Call(r"std::allocator_traits<allocator_type>::deallocate", "alloc_deallocate({0}, {1}, {2})", None),
]

# ---------------------------------------------------------------------------------------------------------------
# unit group A: start_detached -- the self-owning heap operation state

R_SD = R_ALG + "start_detached.hpp"
R_SD_RELEASE = Lift(R_SD, r"void release\(\) noexcept", rules=R_RELEASE + [Sub(r"(?<![\w.>])alloc\b", "(*hobj_alloc(self))", None)])
R_SD_RECV = [Sub(r"auto (\w+) = std::move\(\*this\);", r"struct hrecv \1 = *self;", None),
             Call(r"\b(\w+)\.op_state\.release", "holder_release({h1}.op_state)", None)]


def r_sd_units():
    us = []
    us.append(Unit("rest.start_detached.release", R_DIR + "rest_heap.c", defines=["U_SD_RELEASE"], enforce="holder_release",
                   lifts={"release": R_SD_RELEASE}, funcs=[R_SD + ": operation_state_holder::release"], min_obligations=8,
                   doc="release(): destroy then deallocate, once each, with a copy of the object's allocator taken before the destructor runs"))
    us.append(Unit("rest.start_detached.factory", R_DIR + "rest_heap.c", defines=["U_SD_FACTORY"], enforce="sd_factory",
                   lifts={
                       "release": R_SD_RELEASE,
                       "recv_set_value": Lift(R_SD, r"void set_value\(Ts&&\.\.\.\) && noexcept", rules=R_SD_RECV),
                       "recv_set_stopped": Lift(R_SD, r"void set_stopped\(\) && noexcept", rules=R_SD_RECV),
                       "ctor": R_CtorLift(R_SD, r"explicit operation_state_holder\(Sender_&& sender, allocator_type const& alloc\)",
                                          rules=[R_FWD, r_connect(R_SD, "start_detached_receiver"), R_START, Members(["op_state"], optional=["op_state"], obj="HM(self)"), R_PROPAGATE]),
                       "factory": Lift(R_SD, r"tag_fallback_invoke\(\s*start_detached_t, Sender&& sender, Allocator const& allocator = Allocator\{\}\)",
                                       rules=R_FACTORY),
                   },
                   funcs=[R_SD + ": start_detached_t tag_fallback_invoke (factory)", R_SD + ": operation_state_holder constructor",
                          R_SD + ": operation_state_holder::release", R_SD + ": start_detached_receiver::set_value / set_stopped"],
                   min_obligations=40,
                   doc="one allocation, connect + start once; connect throws => allocation returned once, nothing else; otherwise released "
                       "exactly once by the completion (inline in start, concurrently, or later) and never touched afterwards"))
    return us


REST_UNITS += r_sd_units()

# ---------------------------------------------------------------------------------------------------------------
# unit group B: split / ensure_started -- allocation, construction and reference counting of the shared state

R_SS = {
    "split": dict(src=R_ALG + "split.hpp", recv="split_receiver", sender_ctor=r"\bsplit_sender\(Sender_&& sender, Allocator const& allocator\)", eager=0),
    "ensure_started": dict(src=R_ALG + "ensure_started.hpp", recv="ensure_started_receiver",
                           sender_ctor=r"\bensure_started_sender\(Sender_&& sender, Allocator const& allocator\)", eager=1),
}
R_HM_P = Sub(r"(?<![\w.>])(\w+)->(reference_count|alloc)\b", r"HM(\1)->\2", None)
R_COUNT = [Sub(r"\+\+\s*(\w+)->reference_count", r"atomic_count_inc(&HM(\1)->reference_count)", None),
           Sub(r"--\s*(\w+)->reference_count", r"atomic_count_dec(&HM(\1)->reference_count)", None),
           Sub(r"\+\+\s*reference_count\b", r"atomic_count_inc(&HM(self)->reference_count)", None),
           Sub(r"--\s*reference_count\b", r"atomic_count_dec(&HM(self)->reference_count)", None)]
R_RETHROW = Sub(r"\bthrow\s*;", "{ vx_exc = true; g_thrown_tok = g_current_exception; return; }", None)


# default member initialisers of the shared state, lifted as fragments in front of the constructor
R_SS_NSDMI = [(r"pika::detail::atomic_count reference_count", r";"), (r"std::atomic<bool> start_called", r";")]
R_SS_NSDMI_RULES = [Sub(r"pika::detail::atomic_count\s+(\w+)\s*\{([^{}]*)\};", r"HM(self)->\1 = (\2);", None),
                    Sub(r"std::atomic<bool>\s+(\w+)\s*\{([^{}]*)\};", r"HM(self)->\1 = (\2);", None)]


def r_ss_lifts(c):
    src = c["src"]
    return {
        "add_ref": Lift(src, r"friend void intrusive_ptr_add_ref\(shared_state\* p\)", rules=R_COUNT),
        "release": Lift(src, r"friend void intrusive_ptr_release\(shared_state\* p\)",
                        rules=R_COUNT + R_RELEASE + [Sub(r"(?<![\w.>])(\w+)->alloc\b", r"(*hobj_alloc(\1))", None)]),
        "ss_dtor": Lift(src, r"~shared_state\(\)", rules=[Members(["start_called"], optional=["start_called"], obj="HM(self)")], optional=True),
    }


# development aid (tools/mut.sh runs): exclude the input class of the connect-throws finding so that mutants are judged on the rest
R_DEV_KF = ["KF_CONNECT_NOTHROW"] if os.environ.get("R_KF_CONNECT_NOTHROW") else []


def r_ss_units():
    us = []
    for name, c in R_SS.items():
        src = c["src"]
        D = ["SS_EAGER_START=%d" % c["eager"]] + R_DEV_KF
        where = src + ": " + name + " "
        L = r_ss_lifts(c)
        us.append(Unit("rest.%s.intrusive_ptr_add_ref" % name, R_DIR + "rest_heap.c", defines=D + ["U_SS_ADDREF"], enforce="intrusive_ptr_add_ref",
                       lifts={"add_ref": L["add_ref"], "ss_dtor": L["ss_dtor"]}, funcs=[where + "intrusive_ptr_add_ref(shared_state*)"], min_obligations=5))
        us.append(Unit("rest.%s.intrusive_ptr_release" % name, R_DIR + "rest_heap.c", defines=D + ["U_SS_RELEASE"], enforce="intrusive_ptr_release",
                       lifts={"release": L["release"], "ss_dtor": L["ss_dtor"]},
                       funcs=[where + "intrusive_ptr_release(shared_state*)", where + "shared_state::~shared_state"], min_obligations=10,
                       doc="one atomic decrement; exactly the owner that reaches 0 destroys + deallocates (once each, in this order); "
                           "otherwise the object is not touched again"))
        lifts = dict(L)
        lifts["ss_ctor"] = R_CtorLift(src, r"\bshared_state\(Sender_&& sender, allocator_type const& alloc\)", pre=R_SS_NSDMI, rules=R_SS_NSDMI_RULES + [
            R_FWD, Call(r"pika::detail::with_result_of", r_unwrap_with_result_of, None), r_connect(src, c["recv"]),
            Call(r"(?<![\w.>])os\.emplace", "os_emplace(self, {0})", None)] + R_COUNT + [R_RETHROW, TryCatch(None), R_PROPAGATE])
        lifts["sender_ctor"] = Lift(src, c["sender_ctor"], rules=R_FACTORY + [
            Sub(r"(?<![\w.>])state\s*=\s*([^;=]+);", r"iptr_assign_raw(&self->state, \1);", None),
            Sub(r"(?<![\w.>])state->start\(\);", "ss_start(iptr_get(&self->state));", None)])
        us.append(Unit("rest.%s.sender_ctor" % name, R_DIR + "rest_heap.c", defines=D + ["U_SS_CTOR"], enforce="sender_ctor", lifts=lifts,
                       funcs=[where + "sender constructor (allocate + placement new + release)", where + "shared_state constructor",
                              where + "intrusive_ptr_add_ref / intrusive_ptr_release", where + "shared_state::~shared_state"],
                       min_obligations=40,
                       doc="one allocation, one construction, predecessor connected once; reference_count == number of owners afterwards; "
                           "a throwing connect leaves with the allocation returned once and the members unwound once"))
    return us


REST_UNITS += r_ss_units()


def r_return_braced(m):
    """`return {A, B};` of a connect(): the returned operation state is constructed in place from (A, B).  B is a by-value
    intrusive_ptr parameter: move-constructed from `std::move(x)`, copy-constructed from an lvalue `x`; it dies after the call."""
    b = m.group(2).strip()
    mm = re.match(r"^std::move\((\w+)\)$", b)
    arg = "iptr_move(&self->%s)" % mm.group(1) if mm else ("iptr_copy(&self->%s)" % b if re.match(r"^\w+$", b) else None)
    if arg is None:
        raise LiftError("connect: second constructor argument is neither x nor std::move(x): %r" % b)
    return "{ struct iptr vx_arg = %s; consumer_op_ctor(vx_ret, %s, &vx_arg); iptr_dtor(&vx_arg); return; }" % (arg, m.group(1).strip())


R_OP_CTOR_RULES = [R_FWD, Sub(r"std::move\(state\)", "iptr_move(state)", None), Sub(r"=\s*\(\s*state\s*\)", "= (iptr_copy(state))", None)]
R_CONNECT_RULES = [R_FWD, Sub(r"\breturn\s*\{([^,{}]+),([^{}]+)\}\s*;", r_return_braced, None)]
R_SS_CONNECT = [
    ("split", "split.hpp", [("rvalue", r"operation_state<Receiver> connect\(Receiver&& receiver\) &&", 0), ("lvalue", r"operation_state<Receiver> connect\(Receiver&& receiver\) const&", 1)]),
    ("ensure_started", "ensure_started.hpp", [("rvalue", r"operation_state<Receiver> connect\(Receiver&& receiver\) &&", 0)]),
    ("split_tuple", "split_tuple.hpp", [("rvalue", r"operation_state<Receiver> connect\(Receiver&& receiver\) &&", 0)]),
]


def r_connect_units():
    us = []
    for name, f, variants in R_SS_CONNECT:
        src = R_ALG + f
        for (v, loc, copies) in variants:
            us.append(Unit("rest.%s.connect.%s" % (name, v), R_DIR + "rest_heap.c", defines=["U_SS_CONNECT", "SS_EAGER_START=0", "CONNECT_COPIES=%d" % copies],
                           enforce="sender_connect",
                           lifts=dict(r_ss_lifts(R_SS.get(name, R_SS["split"]) if name in R_SS else dict(src=src)),
                                      connect=Lift(src, loc, rules=R_CONNECT_RULES),
                                      op_ctor=R_CtorLift(src, r"\boperation_state\(Receiver_&& receiver, pika::intrusive_ptr<shared_state(?:_type)?> state\)",
                                                         rules=R_OP_CTOR_RULES, obj="self")),
                           funcs=["%s: %s sender connect (%s)" % (src, name, v), "%s: %s sender operation_state constructor" % (src, name)],
                           min_obligations=15,
                           doc="the consumer's operation state gets the connected receiver and the shared state; the reference count changes by "
                               "exactly the change in the number of owners (0 for an rvalue sender, +1 for an lvalue sender)"))
    return us


REST_UNITS += r_connect_units()

LOOP_ST_MAKE = """
__CPROVER_assigns(ST_LOOP_FRAME)
__CPROVER_loop_invariant(Is <= VX_PACK_SIZE && state->p == g_mem && g_mem_live && g_members_live && g_owners == __CPROVER_loop_entry(g_owners) + (long) Is && g_owners >= 1 && g_cell.reference_count == g_owners)
__CPROVER_loop_invariant(g_victim_ctors == (g_st_victim < Is ? 1 : 0) && (g_st_victim < Is ==> g_victim_sender.state.p == g_mem))
"""


def r_pack_expand(m):
    """`return std::tuple(T<.., Is>(x)...);` over index_pack<Is...> = 0 .. N-1: one element per index, each constructed from a COPY
    of the lvalue x (by-value parameter of T's constructor, destroyed after the call)"""
    return ("for (size_t Is = 0; Is < VX_PACK_SIZE; ++Is) { struct iptr vx_a = iptr_copy(%s); %s_ctor(Is, &vx_a); iptr_dtor(&vx_a); } return;"
            % (m.group(2), m.group(1)))


def r_st_units():
    src = R_ALG + "split_tuple.hpp"
    L = r_ss_lifts(dict(src=src))
    lifts = dict(L)
    lifts["ss_ctor"] = R_CtorLift(src, r"\bshared_state\(Sender_&& sender, allocator_type const& alloc\)", pre=R_SS_NSDMI, rules=R_SS_NSDMI_RULES + [
        R_FWD, Call(r"pika::detail::with_result_of", r_unwrap_with_result_of, None), r_connect(src, "split_tuple_receiver"),
        Call(r"(?<![\w.>])os\.emplace", "os_emplace(self, {0})", None)] + R_COUNT + [R_RETHROW, TryCatch(None), R_PROPAGATE])
    lifts["sender_ctor"] = R_CtorLift(src, r"explicit split_tuple_sender\(pika::intrusive_ptr<shared_state_type> state\)", obj="self", rules=R_OP_CTOR_RULES)
    lifts["make_pack"] = Lift(src, r"auto make_split_tuple_senders\(pika::intrusive_ptr<shared_state<Sender, Allocator>> state,\s*pika::util::detail::index_pack<Is\.\.\.>\)", rules=[
        Sub(r"\breturn\s+std::tuple\(\s*(\w+)<[^<>()]*\bIs\s*>\((\w+)\)\s*\.\.\.\s*\);", r_pack_expand, None)], loops={1: LOOP_ST_MAKE, "count": 1})
    lifts["make"] = Lift(src, r"auto make_split_tuple_senders\(Sender&& sender, Allocator const& allocator\)", rules=[
        Sub(r"\breturn\s+make_split_tuple_senders<[^;]*?>\(\s*(?:std::move\((\w+)\)|(\w+))\s*,[^;]*\);",
            lambda m: "{ struct iptr vx_arg = %s; make_senders_pack(&vx_arg); iptr_dtor(&vx_arg); return; }" % (
                ("iptr_move(&%s)" % m.group(1)) if m.group(1) else ("iptr_copy(&%s)" % m.group(2))), None)] + R_FACTORY + [
        Guard(r"pika::intrusive_ptr<shared_state_type>\s+(\w+)\s*=\s*([^;]+);", r"struct iptr \1 = iptr_from_raw(\2);", r"iptr_dtor(&\1);", None)])
    return [Unit("rest.split_tuple.make", R_DIR + "rest_heap.c", defines=["U_ST_MAKE", "SS_EAGER_START=0"], enforce="st_make", lifts=lifts,
                 funcs=[src + ": make_split_tuple_senders (both overloads)", src + ": split_tuple shared_state constructor",
                        src + ": split_tuple_sender constructor", src + ": intrusive_ptr_add_ref / intrusive_ptr_release"],
                 min_obligations=40,
                 doc="one shared state, N senders each owning one reference (reference_count == N), nothing destroyed; connect throws => clean unwinding")]


# ---------------------------------------------------------------------------------------------------------------
# unit group C: constructors / start / connect of the adaptors' operation states (rest_ctor.c)


class R_RangeFor(Rule):
    """`for (auto [const] &[&] x : c) {`  ->  `for (size_t vx_itK = 0; vx_itK != SIZE(&c); ++vx_itK) { ELEM x = AT(&c, vx_itK);`
    (copy of specs/C03/spec.py RangeFor)"""

    def __init__(self, n=None, size="vec_size", at="vec_at", elem="int"):
        self.n, self.size, self.at, self.elem = n, size, at, elem

    def apply(self, text):
        k = [0]

        def rep(m):
            k[0] += 1
            it = "vx_it%d" % k[0]
            return "for (size_t %s = 0; %s != %s(&%s); ++%s) { %s %s = %s(&%s, %s);" % (
                it, it, self.size, m.group(2), it, self.elem, m.group(1), self.at, m.group(2), it)

        text = re.sub(r"\bfor\s*\(\s*auto\s*(?:const\s*)?&{1,2}\s*(\w+)\s*:\s*((?:\w+(?:\.|->))*\w+)\s*\)\s*\{", rep, text)
        self.check(k[0], "R_RangeFor")
        return text


def r_w_connect_tmpl(args, env):
    """connect(SENDER, R(*this)) / R{*this} / R{*this, i}: the receiver temporary is built by the receiver's lifted constructor
    (parentheses) or as an aggregate (braces)"""
    if len(args) != 2:
        raise LiftError("connect: expected (sender, receiver), got %r" % (args,))
    m = re.match(r"^(\w+)(?:<[^(){}]*>)?\s*([({])\s*\*?\s*this\s*(?:,\s*(\w+))?\s*[)}]$", args[1].strip())
    if not m:
        raise LiftError("connect: the receiver argument is not R(*this) / R{*this[, i]} / R{this}: %r" % args[1][:60])
    if m.group(2) == "(":
        if m.group(3):
            raise LiftError("connect: constructor call with an index argument")
        mk = "wrecv_make(self)"
    else:
        mk = "wrecv_agg2(self, %s)" % m.group(3) if m.group(3) else "wrecv_agg1(self)"
    return "({ int vx_v = w_connect(%s, %s, self); if (vx_exc) VX_THROW_NOW; vx_v; })" % (args[0], mk)


R_W_CONNECT = Call(r"pika::execution::experimental::connect", r_w_connect_tmpl, None)
R_NSDMI = [Sub(r"std::atomic<[\w:]+>\s+(\w+)\s*=\s*([^;{}]+);", r"self->\1 = (\2);", None),
           Sub(r"std::atomic<[\w:]+>\s+(\w+)\s*\{([^{}]*)\};", r"self->\1 = (\2);", None),
           Sub(r"\bstatic constexpr std::size_t (\w+) =", r"const size_t \1 =", None),
           Sub(r"\boperation_states_storage_type\s+(\w+)\s*=\s*nullptr;", r"opt_ops_null(&self->\1);", None)]
R_PACK_GET = Sub(r"\b(\w+)\.template get<(\w+)>\(\)", r"pack_get(\1, \2)", None)
R_WA = R_ALG + "when_all.hpp"
R_WAV = R_ALG + "when_all_vector.hpp"
R_WA_RECV_CTOR = R_CtorLift(R_WA, r"\bwhen_all_receiver_type\(std::decay_t<OperationState>& op_state\)", obj="self")
R_WA_I_BASE = (r"static constexpr std::size_t i = (?=\w+;\s*static constexpr std::size_t i_storage_offset = \w+;)", r";")
R_WA_I_DERIVED = (r"static constexpr std::size_t i = (?=\w+;\s*static constexpr std::size_t sender_pack_size)", r";")
R_WA_CTOR_RULES = [R_FWD] + R_NSDMI + [R_W_CONNECT, R_PACK_GET, Sub(r"(?<![\w.>])num_predecessors\b", "WA_NUM_PREDECESSORS", None), R_PROPAGATE]
LOOP_WAV_CTOR = """
__CPROVER_assigns(WAV_LOOP_FRAME)
__CPROVER_loop_invariant(vx_it1 <= g_np && i == vx_it1 && !vx_exc && self == vx_self && self->op_states.allocated && self->op_states.n == g_np)
__CPROVER_loop_invariant(g_victim_connects == (g_victim < vx_it1 ? 1 : 0) && self->op_states.victim_has == (g_victim < vx_it1))
__CPROVER_loop_invariant(g_victim < vx_it1 ==> (g_victim_sender == SENDER_AT(senders, g_victim) && self->op_states.victim_op == g_victim_child))
"""


def r_ctor_units():
    us = []
    T = R_DIR + "rest_ctor.c"
    us.append(Unit("rest.when_all.ctor.base", T, defines=["U_WA_BASE"], enforce="wa_base_ctor", lifts={
        "recv_ctor": R_WA_RECV_CTOR,
        "ctor": R_CtorLift(R_WA, r"\boperation_state\(Receiver_&& receiver, Senders_&& senders\)", obj="self", rules=R_WA_CTOR_RULES, pre=[
            R_WA_I_BASE, (r"std::atomic<std::size_t> predecessors_remaining", r";"), (r"std::atomic<bool> set_stopped_error_called", r";")])},
        funcs=[R_WA + ": when_all operation_state<Receiver, SendersPack, 0> constructor + default member initialisers",
               R_WA + ": when_all_receiver_type constructor"], min_obligations=10,
        doc="join counter == number of predecessors, latch clear, receiver stored, predecessor 0 connected once to a receiver that refers to this operation state"))
    us.append(Unit("rest.when_all.ctor.derived", T, defines=["U_WA_DERIVED"], enforce="wa_derived_ctor", lifts={
        "recv_ctor": R_WA_RECV_CTOR,
        "ctor": R_CtorLift(R_WA, r"\boperation_state\(Receiver_&& receiver, SendersPack_&& senders\)", obj="self", rules=R_WA_CTOR_RULES, pre=[R_WA_I_DERIVED],
                           bases={"base_type": "wa_base_ctor(self, {args}); if (vx_exc) VX_THROW_NOW;"})},
        funcs=[R_WA + ": when_all operation_state<Receiver, SendersPack, I> constructor (I > 0)"], min_obligations=10,
        doc="base sub-object constructed once from the same arguments, then predecessor I connected once"))
    for v, loc in (("rvalue", r"auto connect\(Receiver&& receiver\) &&"), ("lvalue", r"auto connect\(Receiver&& receiver\) const&")):
        us.append(Unit("rest.when_all.connect." + v, T, defines=["U_WA_CONNECT"], enforce="wa_connect", lifts={
            "connect": Lift(R_WA, loc, rules=[R_FWD, Sub(r"\breturn\s+operation_state<Receiver,\s*senders_type\s*&{1,2},\s*([^<>;]+)>\(([^;]*)\);",
                                                         r"{ wa_top_ctor(vx_ret, (\1), \2); return; }", None),
                                              Sub(r"(?<![\w.>])num_predecessors\b", "WA_NUM_PREDECESSORS", None), Members(["senders"], optional=["senders"])])},
            funcs=[R_WA + ": when_all_sender::connect (%s)" % v], min_obligations=3,
            doc="the operation state built covers every predecessor: top index == num_predecessors - 1"))
    for sfx, void in (("", 0), (".void", 1)):
        us.append(Unit("rest.when_all_vector.ctor" + sfx, T, defines=["U_WAV_CTOR", "IS_VOID_VALUE=%d" % void], enforce="wav_ctor", lifts={
            "ctor": R_CtorLift(R_WAV, r"\boperation_state\(Receiver_&& receiver, std::vector<Sender> senders\)", obj="self", pre=[
                (r"std::atomic<bool> set_stopped_error_called", r";"), (r"operation_states_storage_type op_states =", r";")],
                rules=[R_FWD] + R_NSDMI + [
                    Call(r"pika::detail::with_result_of", r_unwrap_with_result_of, None), R_W_CONNECT,
                    Sub(r"\b(\w+)\.size\(\)", r"vec_size(&\1)", None),
                    Sub(r"(?<![\w.>])op_states\s*=\s*std::make_unique<[^;]*?\[\]>\(([^;]*)\);", r"opt_ops_make(&self->op_states, \1);", None),
                    R_RangeFor(None),
                    Call(r"(?<![\w.>])op_states\[(\w+)\]\.emplace", "opt_ops_emplace(&self->op_states, {h1}, {0})", None),
                    Sub(r"\bif constexpr\b", "if", None), Sub(r"types::is_void_value_type", "IS_VOID_VALUE", None),
                    Call(r"(?<![\w.>])ts\.resize", "slots_resize(&self->ts, {0})", None),
                    Members(["num_predecessors"]), R_PROPAGATE],
                loops={1: LOOP_WAV_CTOR, "count": 1})},
            funcs=[R_WAV + ": when_all_vector operation_state constructor"], min_obligations=20,
            doc="every sender k connected once to a receiver with index k referring to this operation state, child stored in slot k; counters == size"))
    OPS = [
        ("schedule_from", "schedule_from.hpp", r"\boperation_state\(Sender_&& predecessor_sender, Scheduler_&& scheduler, Receiver_&& receiver\)", None, "sender_os", 0, 1),
        ("let_value", "let_value.hpp", r"\boperation_state\(PredecessorSender_&& predecessor_sender, Receiver_&& receiver, F_&& f\)",
         r"\blet_value_predecessor_receiver\(operation_state& op_state\)", "predecessor_op_state", 1, 0),
        ("let_error", "let_error.hpp", r"\boperation_state\(PredecessorSender_&& predecessor_sender, Receiver_&& receiver, F_&& f\)",
         r"\blet_error_predecessor_receiver\(operation_state& op_state\)", "predecessor_operation_state", 1, 0),
    ]
    OPS.append(("drop_operation_state", "drop_operation_state.hpp", r"\bdrop_op_state_op_state\(std::decay_t<Sender> sender, Receiver_&& receiver\)", None, "op_state", 0, 0))
    for name, f, ctor, rctor, child, has_f, has_sched in OPS:
        src = R_ALG + f
        D = ["CHILD_MEMBER=" + child, "HAS_F=%d" % has_f, "HAS_SCHEDULER=%d" % has_sched, "RECV_HAS_CTOR=%d" % (1 if rctor else 0)]
        lifts = {"ctor": R_CtorLift(src, ctor, obj="self", rules=[
            R_FWD, Call(r"pika::detail::with_result_of", r_unwrap_with_result_of, None), R_W_CONNECT,
            Sub(r"(?<![\w.>])sender\b", "predecessor_sender", None), R_PROPAGATE])}
        if rctor:
            lifts["recv_ctor"] = R_CtorLift(src, rctor, obj="self")
        us.append(Unit("rest.%s.ctor" % name, T, defines=D + ["U_OP_CTOR"], enforce="op_ctor", lifts=lifts,
                       funcs=["%s: %s operation_state constructor" % (src, name)] + (["%s: %s predecessor receiver constructor" % (src, name)] if rctor else []),
                       min_obligations=8))
        if name == "drop_operation_state":
            continue        # start(): unit drop_operation_state.start of spec.py
        us.append(Unit("rest.%s.start" % name, T, defines=D + ["U_OP_START"], enforce="op_start",
                       lifts={"start": Lift(src, r"void start\(\) & noexcept", rules=[R_START, Members([child], optional=[child])])},
                       funcs=["%s: %s operation_state::start" % (src, name)], min_obligations=3))
    return us


def r_agg_members(src, struct_name):
    """data members of an aggregate receiver in declaration order (up to its first member function)"""
    m = re.search(r"struct\s+(?:\w+<[^{};]*>::)?%s\s*\{(.*?)(?:\bvoid\b|\bauto\b|\btemplate\b)" % struct_name, read_source(src), re.S)
    if not m:
        raise LiftError("aggregate %s not found in %s" % (struct_name, src))
    return re.findall(r"std::decay_t<\w+>\s+(\w+)\s*;", m.group(1))


def r_fwd_connect_rule(src, agg_struct):
    """connect(SENDER, R<..>{a, b})  ->  a_connect(SENDER, (struct arecv){.m1 = a, .m2 = b})   (aggregate: members in declaration order)
       connect(SENDER, R<..>(a, b, c)) ->  a_connect(SENDER, arecv_make(a, b, c))               (the receiver's lifted constructor)"""
    def tmpl(args, env):
        # split_args does not track template angle brackets: take the receiver argument as the trailing `R<..>{..}` / `R<..>(..)`
        mm = re.match(r"^(.*?),\s*(\w+(?:<[^(){}]*>)?\s*[({].*[)}])\s*$", env["args"], re.S)
        if not mm:
            raise LiftError("connect: expected (sender, RECEIVER{..}): %r" % env["args"][:80])
        args = [mm.group(1).strip(), mm.group(2)]
        m = re.match(r"^(\w+)(?:<[^(){}]*>)?\s*([({])(.*)[)}]$", args[1].strip(), re.S)
        if not m:
            raise LiftError("connect: receiver argument %r" % args[1][:60])
        rargs = split_args(m.group(3))
        if m.group(2) == "(":
            return "a_connect(%s, arecv_make(%s))" % (args[0], ", ".join(rargs))
        names = r_agg_members(src, agg_struct)
        if len(rargs) > len(names):
            raise LiftError("connect: more initialisers than members of %s" % agg_struct)
        return "a_connect(%s, (struct arecv){ %s })" % (args[0], ", ".join(".%s = %s" % (n, a) for n, a in zip(names, rargs)))

    class _R(Rule):
        n = None

        def apply(self, text):
            return Call(r"pika::execution::experimental::connect", tmpl, None).apply(text)
    return _R()


R_FWD_CONNECT = [
    ("then", "then.hpp", "then_receiver_type", None, 1, 0),
    ("drop_value", "drop_value.hpp", "drop_value_receiver_type", None, 0, 0),
    ("unpack", "unpack.hpp", "unpack_receiver_type", None, 0, 0),
    ("bulk", "bulk.hpp", None, r"\bbulk_receiver\(Receiver_&& receiver, Shape_&& shape, F_&& f\)", 1, 1),
]


def r_fwd_connect_units():
    us = []
    for name, f, agg, rctor, has_f, has_shape in R_FWD_CONNECT:
        src = R_ALG + f
        for v, loc in (("rvalue", r"auto connect\(Receiver&& receiver\) &&"), ("lvalue", r"auto connect\(Receiver&& receiver\) const&")):
            lifts = {"connect": Lift(src, loc, rules=[R_FWD, r_fwd_connect_rule(src, agg), Members(["sender", "f", "shape"], optional=["f", "shape"])])}
            if rctor:
                lifts["recv_ctor"] = R_CtorLift(src, rctor, obj="self", rules=[R_FWD])
            us.append(Unit("rest.%s.connect.%s" % (name, v), R_DIR + "rest_ctor.c",
                           defines=["U_FWD_CONNECT", "HAS_F=%d" % has_f, "HAS_SHAPE=%d" % has_shape, "RECV_HAS_CTOR=%d" % (1 if rctor else 0)],
                           enforce="fwd_connect", lifts=lifts, funcs=["%s: %s sender connect (%s)" % (src, name, v)], min_obligations=3))
    return us


REST_UNITS += r_st_units()
REST_UNITS += r_fwd_connect_units()
REST_UNITS += r_ctor_units()

# ---------------------------------------------------------------------------------------------------------------
# unit group D: sync_wait (rest_sync.c)

R_SW = R_ALG + "sync_wait.hpp"
R_SW_RECV = [
    Sub(r"auto (\w+) = std::move\(\*this\);", r"struct sw_recv \1 = *self;", None), R_FWD,
    Call(r"\b(\w+)\.state\.value\.template emplace<(\w+)>", lambda args, env: "sw_emplace(%s.state, SW_ALT_%s, %s)" % (env["h1"], env["h2"], args[0] if args and args[0] else "0"), None),
    Call(r"\b(\w+)\.signal_set_called", "sw_signal_set_called(&{h1})", None),
]
R_SW_GET = [
    Sub(r"\bif constexpr\b", "if", None), Sub(r"\bis_void_result\b", "IS_VOID_RESULT", None),
    Call(r"pika::detail::holds_alternative<(\w+)>", "sw_holds(SW_ALT_{h1}, &{0})", None),
    Call(r"pika::detail::get<(\w+)>", "sw_get(SW_ALT_{h1}, &{0})", None),
    Call(r"pika::detail::visit(?=\(\s*sync_wait_error_visitor\{\})", "sw_visit_error({1}); if (vx_exc) return 0", None),
    Sub(r"\breturn\s*;", "{ g_ret_void = true; return 0; }", None),
    Members(["value"]),
]


def r_sw_units():
    us = []
    T = R_DIR + "rest_sync.c"
    sig = Lift(R_SW, r"void signal_set_called\(\) noexcept", rules=[Sub(r"(?<![\w.>])state\.sem\.release\(\)", "sem_release(&self->state->sem)", None)])
    for name, loc, pname, expect in [("set_value", r"void set_value\(Us&&\.\.\. us\) && noexcept", "us", "SW_VALUE"),
                                     ("set_error", r"void set_error\(Error&& error\) && noexcept", "error", "SW_ERROR"),
                                     ("set_stopped", r"void set_stopped\(\) && noexcept", "vx_unused", "SW_MONOSTATE")]:
        us.append(Unit("rest.sync_wait.recv." + name, T, defines=["U_SW_RECV", "PNAME=" + pname, "SW_EXPECT=" + expect], enforce="sw_set",
                       lifts={"signal": sig, "body": Lift(R_SW, loc, rules=R_SW_RECV)},
                       funcs=[R_SW + ": sync_wait_receiver_type::" + name, R_SW + ": sync_wait_receiver_type::signal_set_called"], min_obligations=8,
                       doc="result stored before the waiter is woken; woken exactly once; nothing touched afterwards"))
    us.append(Unit("rest.sync_wait.wait", T, defines=["U_SW_WAIT"], enforce="sw_wait_impl",
                   lifts={"body": Lift(R_SW, r"void wait\(\)", rules=[Sub(r"(?<![\w.>])sem\.acquire\(\)", "sem_acquire(&self->sem)", None)])},
                   funcs=[R_SW + ": sync_wait shared_state::wait"], min_obligations=3))
    for sfx, void in (("", 0), (".void", 1)):
        us.append(Unit("rest.sync_wait.get_value" + sfx, T, defines=["U_SW_GET", "IS_VOID_RESULT=%d" % void], enforce="sw_get_value", lifts={
            "body": Lift(R_SW, r"auto get_value\(\)", rules=R_SW_GET),
            "ev_eptr": Lift(R_SW, r"void PIKA_STATIC_CALL_OPERATOR\(std::exception_ptr ep\)", rules=[Sub(r"std::rethrow_exception\((\w+)\);", r"{ vx_throw(\1); return; }", None)]),
            "ev_other": Lift(R_SW, r"void PIKA_STATIC_CALL_OPERATOR\(Error& error\)", rules=[Sub(r"\bthrow\s+(\w+)\s*;", r"{ vx_throw(\1); return; }", None)])},
            funcs=[R_SW + ": sync_wait shared_state::get_value", R_SW + ": sync_wait_error_visitor::operator() (2 overloads)"], min_obligations=8,
            doc="value completion => the stored value is returned; error completion => the stored error is thrown; PIKA_UNREACHABLE not reached"))
    us.append(Unit("rest.sync_wait.factory", T, defines=["U_SW_FACTORY"], enforce="sync_wait", lifts={
        "body": Lift(R_SW, r"tag_fallback_invoke\(sync_wait_t, Sender&& sender\)", rules=[
            R_USING, R_FWD,
            Sub(r"\bstate_type\s+(\w+)\{\};", r"struct sw_state \1 = sw_state_make();", None),
            Sub(r"\bauto (\w+) = pika::execution::experimental::connect\(\s*(\w+),\s*receiver_type\{(\w+)\}\);",
                r"int \1 = sw_connect(\2, sw_recv_make(&\3)); if (vx_exc) return 0;", None),
            Call(r"pika::execution::experimental::start", "sw_start({0})", None),
            Sub(r"\b(\w+)\.wait\(\);", r"sw_wait(&\1);", None),
            Sub(r"\b(\w+)\.get_value\(\)", r"sw_get_value_stub(&\1)", None)])},
        funcs=[R_SW + ": sync_wait_t tag_fallback_invoke"], min_obligations=8,
        doc="connect, start, wait, get_value: once each, in this order; the receiver refers to the local shared state"))
    return us


REST_UNITS += r_sw_units()

from vx import census as r_census  # noqa: E402

REST_STATIC = [
    r_census.sites("split reference_count accesses", [R_ALG + "split.hpp"], r"\breference_count\b", 6,
                   "declaration {0}, ++ in intrusive_ptr_add_ref, -- in intrusive_ptr_release (both lifted)"),
    r_census.sites("ensure_started reference_count accesses", [R_ALG + "ensure_started.hpp"], r"\breference_count\b", 6, "as for split"),
    r_census.sites("split_tuple reference_count accesses", [R_ALG + "split_tuple.hpp"], r"\breference_count\b", 3, "as for split"),
    r_census.sites("start_detached holder release() call sites", [R_ALG + "start_detached.hpp"], r"op_state\.release\(\)", 3,
                   "one per completion channel of start_detached_receiver (units start_detached.set_*)"),
    r_census.sites("sync_wait semaphore accesses", [R_ALG + "sync_wait.hpp"], r"\bsem\b", 3, "declaration sem{0}, acquire in wait(), release in signal_set_called()"),
    r_census.sites("when_all predecessors_remaining accesses", [R_ALG + "when_all.hpp"], r"\bpredecessors_remaining\b", 2,
                   "default member initialiser (unit rest.when_all.ctor.base) and the decrement in finish()"),
    r_census.sites("when_all_vector predecessors_remaining accesses", [R_ALG + "when_all_vector.hpp"], r"\bpredecessors_remaining\b", 3,
                   "default member initialiser (overridden), mem-initialiser (unit rest.when_all_vector.ctor), decrement in finish()"),
]

REST_META = {
    "explanation":
        "Extension of C03 (rest_spec.py): the parts of the adaptors that run BEFORE and AROUND the completion paths of spec.py.  "
        "Group A/B (rest_heap.c, rest.h): self-owning heap objects -- start_detached's operation_state_holder (factory, constructor, "
        "release(), receivers lifted together; the child completes inline in start(), concurrently, or after the factory returned) and "
        "the reference-counted shared state of split / ensure_started / split_tuple (sender constructor / make_split_tuple_senders, "
        "shared_state constructor + destructor, intrusive_ptr_add_ref / intrusive_ptr_release, sender connect copy-vs-move, consumer "
        "operation-state constructor).  The heap is one cell; every member access of the lifted text goes through HM(p) (use after "
        "free = obligation); a ledger follows allocate -> members constructed -> destroyed -> deallocated (double destruction, double "
        "free, leak, freed-while-alive = obligations); reference_count == number of live intrusive_ptr objects is the representation "
        "invariant asserted in the postconditions.  allocate() may throw bad_alloc, connect() may throw.  "
        "Group C (rest_ctor.c): constructors / start() / connect() of when_all (base, derived, top index in connect, default member "
        "initialisers lifted as fragments), when_all_vector (loop contract: sender k <-> receiver index k <-> slot k via one symbolic "
        "victim), schedule_from, let_value, let_error, drop_operation_state, and sender::connect of then / bulk / drop_value / unpack: they "
        "establish exactly the initial state the completion-path units of spec.py start from, connect every predecessor exactly once to a "
        "receiver that refers to the operation state under construction, start and signal nothing.  "
        "Group D (rest_sync.c): sync_wait -- result stored before the waiter is woken, woken exactly once, nothing touched afterwards; "
        "get_value returns the value / throws the stored error; the function itself: connect, start, wait, get_value once each in this order.  "
        "Expected on the unchanged tree: rest.split.sender_ctor and rest.ensure_started.sender_ctor FAIL (double destruction + double free "
        "of the shared state when connect() of the predecessor throws inside the shared_state constructor: the receiver temporary owns the "
        "only reference); they prove with -DKF_CONNECT_NOTHROW (input class excluded) and with the candidate repair (see report).",
    "trusted_base": [
        "specs/C03/rest.h allocator stubs alloc_allocate / alloc_destroy / alloc_deallocate, std::unique_ptr<T, allocator_deleter> (uptr_*: the "
        "deleter only deallocates), pika::intrusive_ptr (iptr_*: boost semantics; the counting itself is the LIFTED intrusive_ptr_add_ref / "
        "intrusive_ptr_release), pika::detail::atomic_count as a sequentially consistent counter; in units *.intrusive_ptr_release the "
        "environment may drop other owners' references before the step and frees the object after it if owners remain",
        "C++ semantics written out by lowering rules of rest_spec.py: R_CtorLift (mem-initialiser list -> assignments in the order written; "
        "default member initialisers lifted as fragments and prepended), the placement-new rule of R_FACTORY (constructor protocol: a "
        "constructor left by an exception destroys the members constructed so far = ctor_unwind), r_connect_temp / r_w_connect_tmpl (a "
        "receiver temporary is created before connect is called and destroyed at the end of the full expression, also on the exceptional "
        "path), Guard lowering of std::unique_ptr / intrusive_ptr locals, r_return_braced / r_pack_expand (by-value intrusive_ptr "
        "parameters: move from std::move(x), copy from an lvalue, destroyed after the call; pack expansion over index_pack<Is...> = loop "
        "over 0..N-1), r_fwd_connect_rule (aggregate initialisation in member declaration order, read from the source)",
        "specs/C03/rest.h child_connect / rest_ctor.h w_connect: connect() may throw only before it has consumed the receiver; the child "
        "operation state owns the receiver it was connected with; specs/C03/rest_heap.c env_complete: the predecessor completes at most once "
        "through that receiver (contracts of units *.recv.* / *.set_predecessor_done of spec.py)",
        "specs/C03/rest_sync.c: pika::binary_semaphore as a contract (release wakes the waiter, which may then destroy the shared state; "
        "acquire returns after a release) -- its implementation is C08's subject; pika::detail::variant as (index, token)",
        "whether the receiver handed to the predecessor owns a reference (split, ensure_started: pika::intrusive_ptr member; split_tuple, "
        "start_detached: plain reference) is read from the member declaration in the source (r_recv_owns)",
    ],
    "assumptions": [
        "ghost ranges: reference count < 10^6, number of predecessors <= 10^6, split_tuple tuple size 1..1000 (an empty tuple makes "
        "split_tuple destroy its shared state at once: observation, see report)",
        "rest.*.sender_ctor / rest.split_tuple.make / rest.start_detached.factory: single agent until the object is published; the only "
        "concurrent step is the completion of the started child (modelled at every stub call after start)",
        "sync_wait: a predecessor that completes with set_stopped is outside sync_wait's documented domain (docs/usage.rst: 'set_stopped "
        "is not supported'): get_value is proved for value and error completions only; a throwing emplace in the noexcept receiver "
        "functions (std::terminate) is not modelled",
        "exceptions are modelled only where a stub is marked may-throw (allocate, connect); start() is noexcept by the operation-state concept",
    ],
    "not_decided": [
        "require_started: operation-state constructor / destructor (unstarted detection through the PIKA_DETAIL_HANDLE_UNSTARTED_REQUIRE_"
        "STARTED_SENDER macro, mode-dependent throw from a destructor) and the sender's copy/move/assignment bookkeeping (connected flag)",
        "sender::connect of schedule_from / let_value / let_error / drop_operation_state / require_started / just (forwarding of the members "
        "into the operation-state constructor), get_env forwarders, the tag_fallback_invoke factories that only build a sender object "
        "(then, bulk, ..., transfer_just, transfer_when_all, execute: compositions of adaptors that are under contract)",
        "implicit destructors of the operation states (member destruction order), e.g. let_value: successor_op_state before predecessor_ts",
        "when_all: value_types_storage_type / error default construction (implicit: all optionals empty) -- taken as given by the "
        "completion-path units",
        "allocation failure inside connect / operation states of the predecessors; allocator propagation traits",
    ],
}
