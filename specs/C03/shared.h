/* C03 -- shared-state adaptors split / split_tuple / ensure_started: C types, ghost state, callee and environment stubs.
 *
 * One header serves the three adaptors; per-adaptor facts are -D parameters computed by spec.py FROM THE SOURCE TEXT:
 *   CONT_KIND       0 = pika::detail::small_vector<continuation_type, 1> continuations      (split)
 *                   1 = std::array<continuation_type, N> continuations, one slot per Index   (split_tuple)
 *                   2 = std::optional<continuation_type> continuation                        (ensure_started)
 *   CONT_MEMBER     name of that member
 *   RECV_HOLDS_PTR  1 iff the predecessor receiver's `state` member is a pika::intrusive_ptr<shared_state> (it then keeps
 *                   the shared state alive for the duration of set_*), 0 if it is a plain reference
 *   PRED_SENDS_STOPPED  sender_traits<Sender>::sends_done of the predecessor (template parameter, both instantiated)
 *
 * Payloads are opaque int tokens.  pika::detail::variant<monostate, stopped_type, error_type, value_type> is
 * (index, token).  The continuation container keeps its length and the state of ONE symbolic slot, the victim
 * (index g_victim), which stands for "any stored continuation".
 *
 * Life time ghost g_alive: "the shared state (and, in consumer-side units, the consumer's operation state) is still
 * guaranteed to exist".  It is cleared where the C++ ownership structure stops guaranteeing it:
 *   - consumer side: once the consumer's receiver has been signalled (completion may destroy the operation state, which
 *     owns the consumer's reference), and once a stored continuation has been made visible by releasing the lock;
 *   - predecessor side: once predecessor_done is published / a continuation was run, unless the agent itself holds a
 *     reference (g_refs > 0: the moved-from receiver `r` if RECV_HOLDS_PTR, or a local intrusive_ptr).
 * Every stub that touches the shared state asserts g_alive ("nothing is touched after the operation state may be
 * destroyed").
 */
#ifndef C03_SHARED_H
#define C03_SHARED_H
#include "vx.h"

static void mon_at_release(void);
static void mon_at_acquire(void);
#define MON_AT_RELEASE() mon_at_release()
#define MON_AT_ACQUIRE() mon_at_acquire()
#include "monitor.h"

enum { V_MONOSTATE = 0, V_STOPPED = 1, V_ERROR = 2, V_VALUE = 3 };
/* alternatives by the names used in the variant declaration (order = declaration order in the three headers) */
#define VX_ALT_monostate V_MONOSTATE
#define VX_ALT_stopped_type V_STOPPED
#define VX_ALT_error_type V_ERROR
#define VX_ALT_value_type V_VALUE
#define CONTS_MAX 1000000u /* ghost range of the container length */
#define CONTS_LIMIT (CONT_KIND == 2 ? 1u : CONTS_MAX)   /* an optional holds at most one */

struct variant { int index; int tok; };
struct receiver { int unused; };                   /* the consumer's (downstream) receiver */
struct conts { size_t n; bool victim_engaged; };   /* length / extent; is slot g_victim occupied by a non-empty function */
struct shared_state {
  struct vx_mutex mtx;
  bool start_called;            /* std::atomic<bool> */
  bool predecessor_done;        /* std::atomic<bool> */
  bool os_has;                  /* std::optional<operation_state_type>::has_value() */
  struct variant v;
  struct conts CONT_MEMBER;
};
struct pred_receiver { struct shared_state *state; };
struct closure { struct shared_state *state; struct receiver *receiver; };
struct cont { struct conts *of; size_t idx; bool engaged; };
struct consumer_op { struct receiver receiver; struct shared_state *state; };

/* ---- ghost state (all of it is initialised by init_ghost(); dfcc havocs statics) ---- */
static struct shared_state *vx_self;
static struct receiver *vx_receiver;
static bool g_alive;
static int g_refs;                                       /* references to the shared state held by the agent itself */
static long g_set_value, g_set_error, g_set_stopped;     /* signals delivered to the consumer's receiver */
static int g_tok;                                        /* payload token of that signal */
static size_t g_get_index; static bool g_get_used;       /* std::get<Index> applied to the value token */
static long g_spd_calls; static int g_spd_index, g_spd_tok;   /* set_predecessor_done calls and v at the time of the call */
static long g_emplaces;
static int g_phase;                                      /* set_predecessor_done: 0 entry, 1 os reset, 2 done published, 3 lock held, 4 lock released */
static long g_os_resets, g_lock_cycles, g_clears;
static size_t g_index;                                   /* split_tuple: the Index of the consumer under verification */
static size_t g_victim; static long g_victim_calls; static bool g_victim_engaged_at_release;
static bool g_env_stored;                                /* reach ghost: a consumer stored a continuation concurrently */
static bool g_last_read, g_last_read_locked; static long g_reads;
static long g_visits, g_stored; static size_t g_stored_index;
static bool g_env_completed;                             /* reach ghost: the predecessor completed during the call */
static bool g_lin, g_lin_old, g_lin_new; static long g_pred_started;
static long g_ss_starts, g_ss_adds; static bool g_ss_order_ok;

static void init_ghost(void)
{
  g_alive = true; g_refs = 0; g_set_value = g_set_error = g_set_stopped = 0; g_tok = 0; g_get_index = 0; g_get_used = false;
  g_spd_calls = 0; g_spd_index = 0; g_spd_tok = 0; g_emplaces = 0; g_phase = 0; g_os_resets = g_lock_cycles = g_clears = 0;
  g_victim = 0; g_victim_calls = 0; g_victim_engaged_at_release = false; g_env_stored = false;
  g_last_read = false; g_last_read_locked = false; g_reads = 0; g_visits = g_stored = 0; g_stored_index = 0;
  g_env_completed = false; g_lin = g_lin_old = g_lin_new = false; g_pred_started = 0; g_ss_starts = g_ss_adds = 0; g_ss_order_ok = true;
}

#define ALIVE(what) VX_ASSERT(g_alive, "life time: " what " touched after the shared state / operation state may have been destroyed")
#define SIGNALS (g_set_value + g_set_error + g_set_stopped)
/* contract of set_predecessor_done (precondition): a result has been stored */
#define SPD_PRE(s) ((s)->v.index == V_STOPPED || (s)->v.index == V_ERROR || (s)->v.index == V_VALUE)
/* invariant of the shared state that SPD_PRE buys: once done is published a result is there */
#define INV_V(s) (!(s)->predecessor_done || SPD_PRE(s))

/* the agent loses its guarantee that the state still exists unless it holds a reference itself */
static void env_may_release(void) { if (g_refs == 0) g_alive = false; }
/* pika::intrusive_ptr<shared_state> held by the agent: a local `intrusive_ptr p{this}` or the receiver moved into `r` */
static void vx_ref_acquire(struct shared_state *s) { ALIVE("reference count"); if (g_refs < 8) g_refs++; }
static void vx_ref_release(struct shared_state *s) { if (g_refs > 0) g_refs--; env_may_release(); }
/* auto r = std::move(*this): the receiver's `state` member moves into the local r, which lives to the end of set_* */
static struct pred_receiver pred_receiver_move(struct pred_receiver *from) { struct pred_receiver r = *from; if (RECV_HOLDS_PTR && g_refs < 8) g_refs++; return r; }
static void pred_receiver_dtor(struct pred_receiver *r) { if (RECV_HOLDS_PTR) vx_ref_release(r->state); }
/* auto&& r = std::move(*this): only a reference to the receiver, which stays inside the predecessor operation state with its members */
static struct pred_receiver pred_receiver_alias(struct pred_receiver *from) { return *from; }

/* ---- consumer's receiver: T-stubs ------------------------------------------------------------------------- */
static void recv_signal(struct receiver *r)
{
  VX_ASSERT(r == vx_receiver, "the signal goes to the receiver that was connected");
  VX_ASSERT(SIGNALS == 0, "the receiver is signalled at most once");
  VX_ASSERT(!vx_self->mtx.held, "the receiver is signalled with the internal lock released");
  /* completion may destroy the consumer's operation state and with it its reference to the shared state */
  g_alive = false;
}
static void recv_set_value(struct receiver *r, int tok) { recv_signal(r); g_set_value++; g_tok = tok; }
static void recv_set_error(struct receiver *r, int tok) { recv_signal(r); g_set_error++; g_tok = tok; }
static void recv_set_stopped(struct receiver *r) { recv_signal(r); g_set_stopped++; }
/* std::move(error) on the alternative stored in the shared state's variant: split and split_tuple deliver the ONE stored error to
 * every consumer (N continuations read the same object), so it must be passed on by copy; ensure_started has a single consumer */
#ifndef ERROR_SHARED
#define ERROR_SHARED 0
#endif
static int *tok_moved_p(int *t) { VX_ASSERT(!ERROR_SHARED, "the stored predecessor error is shared by all consumers of split / split_tuple: it is delivered by copy, never moved out of the shared state"); return t; }
static int tok_get(size_t i, int t) { g_get_index = i; g_get_used = true; return t; }   /* std::get<i>(t): element i of token t */
#define VX_BIND(f, a) f, a                          /* pika::util::detail::bind_front(f, a) */
#define VX_APPLY_(f, a, t) f(a, t)                  /* std::apply(bind_front(f, a), t)  ==  f(a, t...) */
#define VX_APPLY(...) VX_APPLY_(__VA_ARGS__)

/* ---- variant ---------------------------------------------------------------------------------------------- */
static void variant_emplace(struct variant *v, int alt, int tok)
{
  ALIVE("v");
  v->index = alt; v->tok = tok;
  if (g_emplaces < 3) g_emplaces++;
}

/* ---- set_predecessor_done as a callee of the predecessor receiver (T-stub; its body is unit *.set_predecessor_done) */
#ifdef U_RECV
static void set_predecessor_done(struct shared_state *s)
{
  ALIVE("shared state");
  VX_ASSERT(s == vx_self, "set_predecessor_done on the receiver's shared state");
  VX_ASSERT(SPD_PRE(s), "precondition of set_predecessor_done: a non-monostate alternative is stored in v BEFORE done is published");
  /* set_predecessor_done starts with os.reset(), which destroys the receiver stored in the predecessor operation state together with
   * whatever reference to the shared state that receiver still owns: the caller needs a reference of its own (unit *.set_predecessor_done
   * requires g_refs == RECV_HOLDS_PTR) */
  VX_ASSERT(g_refs >= RECV_HOLDS_PTR, "precondition of set_predecessor_done: the caller holds its own reference to the shared state (the receiver was moved into a local)");
  if (g_spd_calls == 0) { g_spd_index = s->v.index; g_spd_tok = s->v.tok; }
  if (g_spd_calls < 3) g_spd_calls++;
  s->predecessor_done = true;
  env_may_release();
}
#endif

/* ---- std::optional<operation_state_type> os ----------------------------------------------------------------- */
static void os_reset(struct shared_state *s)
{
  ALIVE("os");
#ifdef U_SPD
  VX_ASSERT(g_phase == 0, "order: the predecessor operation state is reset first, before done is published");
  g_phase = 1;
#endif
  s->os_has = false;
  if (g_os_resets < 3) g_os_resets++;
}
static bool os_has_value(struct shared_state *s) { ALIVE("os"); return s->os_has; }
static struct shared_state *os_deref(struct shared_state *s)
{
  ALIVE("os");
  VX_ASSERT(s->os_has, "dereference of an empty std::optional (os)");
  return s;
}
/* pika::execution::experimental::start(*os) */
static void pred_start(struct shared_state *s) { if (g_pred_started < 3) g_pred_started++; }

/* ---- the continuation container ----------------------------------------------------------------------------- */
#define IS_MEMBER(c) ((c) == &vx_self->CONT_MEMBER)
static void conts_touch(struct conts *c, const char *what)
{
  if (IS_MEMBER(c))
  {
    ALIVE("continuation container");
#ifdef U_SPD
    VX_ASSERT(g_phase == 4, "order: the stored continuations are looked at only after done was published and the lock was taken and released");
#endif
  }
}
static bool conts_empty(struct conts *c) { conts_touch(c, "empty"); return c->n == 0; }
static size_t conts_size(struct conts *c) { conts_touch(c, "size"); return c->n; }
static bool opt_has(struct conts *c) { conts_touch(c, "has_value"); return c->n != 0; }
static struct cont conts_at(struct conts *c, size_t i)
{
  struct cont h;
  conts_touch(c, "element");
  VX_ASSERT(i < c->n, "continuation container indexed within bounds / optional engaged");
  h.of = c; h.idx = i;
  h.engaged = (i == g_victim) ? c->victim_engaged : (CONT_KIND == 1 ? nondet_bool() : true);
  return h;
}
static bool cont_engaged(struct cont h) { return h.engaged; }
/* continuation(): run one stored continuation.  It signals a consumer, whose completion may drop a reference. */
static void cont_invoke(struct cont h)
{
  VX_ASSERT(h.engaged, "an empty unique_function is never invoked");
#ifdef U_SPD
  VX_ASSERT(g_phase == 4 && !vx_self->mtx.held, "order: continuations run after the lock was taken and released, with the lock free");
#endif
  if (h.idx == g_victim && g_victim_calls < 3) g_victim_calls++;
  env_may_release();
}
static void conts_clear(struct conts *c)
{
  conts_touch(c, "clear");
  VX_ASSERT(!c->victim_engaged || g_victim_calls >= 1, "a stored continuation is discarded without having been invoked");
  c->n = 0; c->victim_engaged = false;
  if (g_clears < 3) g_clears++;
}
/* auto local = std::move(continuations): std::array move = element-wise move; moved-from unique_functions are empty */
static struct conts conts_move(struct conts *c)
{
  struct conts r;
  conts_touch(c, "move");
  r = *c;
  c->victim_engaged = false;
  if (g_clears < 3) g_clears++;
  return r;
}
static struct closure closure_make(struct shared_state *s, struct receiver *r) { struct closure k; k.state = s; k.receiver = r; return k; }
#define VX_CLOSURE(s, r) closure_make(s, r)
static void conts_store_checks(struct conts *c, struct closure k)
{
  ALIVE("continuation container");
  VX_ASSERT(IS_MEMBER(c), "the continuation is stored in the shared state");
  VX_ASSERT(vx_self->mtx.held, "a continuation is stored only with the lock held");
  VX_ASSERT(g_last_read_locked && !g_last_read, "a continuation is stored only if predecessor_done was re-read as false under the lock");
  VX_ASSERT(k.state == vx_self && k.receiver == vx_receiver, "the stored continuation refers to this shared state and this receiver");
  VX_ASSERT(SIGNALS == 0 && g_visits == 0, "exactly one of {deliver inline, store}");
  if (g_stored < 3) g_stored++;
}
static void conts_emplace_back(struct conts *c, struct closure k)   /* small_vector::emplace_back / optional::emplace */
{
  conts_store_checks(c, k);
  VX_ASSERT(CONT_KIND != 2 || c->n == 0, "optional::emplace over a stored continuation (the earlier one is destroyed uninvoked)");
  g_stored_index = c->n;
  if (c->n < CONTS_MAX) c->n++;
}
static void conts_assign(struct conts *c, size_t i, struct closure k)   /* continuations[i] = ... */
{
  conts_store_checks(c, k);
  VX_ASSERT(i < c->n, "continuation container indexed within bounds");
  VX_ASSERT(!(i == g_victim && c->victim_engaged), "assignment over a stored continuation (the earlier one is destroyed uninvoked)");
  g_stored_index = i;
  if (i == g_victim) c->victim_engaged = true;
}

/* ---- environment ---------------------------------------------------------------------------------------------
 * consumers: an add_continuation call of another consumer stores a continuation only under the lock and only after
 * re-reading predecessor_done == false under it (its contract, unit *.add_continuation).
 * predecessor: completes at most once; by the contract of its receiver (units *.recv.*) it stores a non-monostate
 * alternative in v before it publishes predecessor_done (that is what D3 breaks); it resets os first. */
static void env_consumers_store(void)
{
  struct conts *c = &vx_self->CONT_MEMBER;
#ifdef U_ADD
  /* seen from one consumer: the OTHER consumers store.  ensure_started has a single consumer (move-only sender, rvalue
   * connect only); split_tuple has one consumer per Index, so nobody else writes this consumer's slot */
  if (CONT_KIND == 2) return;
  if (CONT_KIND == 1 && g_victim == g_index) return;
#endif
  if (CONT_KIND == 1)
  {
    if (!c->victim_engaged && g_victim < c->n && nondet_bool()) { c->victim_engaged = true; g_env_stored = true; }
  }
  else
  {
    size_t n2 = nondet_size();
    if (n2 > c->n && n2 <= CONTS_LIMIT) { c->n = n2; c->victim_engaged = g_victim < c->n; g_env_stored = true; }
  }
}
static void env_predecessor_may_complete(void)
{
  if (!vx_self->predecessor_done && nondet_bool())
  {
    vx_self->v.index = (PRED_SENDS_STOPPED && nondet_bool()) ? V_STOPPED : (nondet_bool() ? V_ERROR : V_VALUE);
    vx_self->v.tok = nondet_int();
    vx_self->os_has = false;
    vx_self->predecessor_done = true;
    g_env_completed = true;
  }
}

/* ---- std::atomic<bool> ---------------------------------------------------------------------------------------- */
static bool atomic_load_bool(bool *p)
{
  ALIVE("predecessor_done");
  env_predecessor_may_complete();   /* the flag is written outside the lock: the predecessor may complete at any time */
  g_last_read = *p; g_last_read_locked = vx_self->mtx.held;
  if (g_reads < 3) g_reads++;
  return *p;
}
static void atomic_store_bool(bool *p, bool val)
{
  ALIVE("predecessor_done");
#ifdef U_SPD
  VX_ASSERT(p == &vx_self->predecessor_done, "ghost");
  VX_ASSERT(g_phase == 1, "order: done is published after the operation state was reset and before the lock is taken");
  VX_ASSERT(SPD_PRE(vx_self), "done is published only with a result stored");
  g_phase = 2;
#endif
  *p = val;
  /* from now on consumers deliver inline; once they all have, nobody but the agent itself keeps the state alive */
  if (val) env_may_release();
}
static bool atomic_exchange_bool(bool *p, bool val)
{
  ALIVE("start_called");
  /* environment: another consumer's start() won the race; the predecessor it started may already have completed */
  if (!*p && nondet_bool()) { *p = true; if (nondet_bool()) vx_self->os_has = false; }
  VX_ASSERT(!g_lin, "one exchange per call");
  g_lin = true; g_lin_old = *p; *p = val; g_lin_new = val;
  VX_ASSERT(!g_lin_old || g_lin_new, "guarantee: start_called is only ever set");
  return g_lin_old;
}

/* ---- monitor hooks -------------------------------------------------------------------------------------------- */
static void mon_at_acquire(void)
{
  ALIVE("mtx");
#ifdef U_SPD
  VX_ASSERT(g_phase == 2, "order: the lock is taken after done was published");
  g_phase = 3;
#endif
  /* whoever held the lock before us may have stored a continuation (only while it saw predecessor_done == false) */
  env_consumers_store();
}
static void mon_at_release(void)
{
  ALIVE("mtx");
#ifdef U_SPD
  VX_ASSERT(g_phase == 3, "ghost");
  g_phase = 4;
  g_victim_engaged_at_release = vx_self->CONT_MEMBER.victim_engaged;
#endif
  if (g_lock_cycles < 3) g_lock_cycles++;
#ifdef U_ADD
  /* a continuation we stored is visible now: the predecessor may run it at once, completing (and destroying) our operation */
  if (g_stored > 0) g_alive = false;
#endif
}

/* ---- pika::detail::visit: call the overload for the active alternative (std::visit semantics) ------------------ */
struct sev { struct receiver *receiver; size_t Index; };    /* stopped_error_value_visitor<[Index,] Receiver> */
struct ev { struct receiver *receiver; };                   /* error_visitor<Receiver> */
struct vv { struct receiver *receiver; };                   /* value_visitor<Receiver> */
#if defined(U_ADD) || defined(U_CONT)
void sev_monostate(struct sev *self);
void sev_stopped(struct sev *self);
void sev_error(struct sev *self, int error);
void sev_value(struct sev *self, int VALUE_PARAM);
void ev_call(struct ev *self, int error);
void vv_call(struct vv *self, int ts);
static void visit_sev_(struct receiver *r, size_t Index, struct variant *v)
{
  struct sev s; s.receiver = r; s.Index = Index;
  ALIVE("v");
  if (g_visits < 3) g_visits++;
  if (v->index == V_STOPPED) sev_stopped(&s);
  else if (v->index == V_ERROR) sev_error(&s, v->tok);
  else if (v->index == V_VALUE) sev_value(&s, v->tok);
  else sev_monostate(&s);
}
#if CONT_KIND == 1
#define visit_stopped_error_value_visitor(r, Index, v) visit_sev_(r, Index, v)
#else
#define visit_stopped_error_value_visitor(r, v) visit_sev_(r, 0, v)
#endif
static void visit_error_visitor(struct receiver *r, int *e) { struct ev s; s.receiver = r; ev_call(&s, *e); }
#if CONT_KIND != 1
static void visit_value_visitor(struct receiver *r, int *t) { struct vv s; s.receiver = r; vv_call(&s, *t); }
#endif
#endif

/* ---- shared_state::start / add_continuation as callees of the consumer's operation_state::start (T-stubs) ------ */
static struct shared_state *ops_state(struct consumer_op *o)
{
  ALIVE("operation_state::state");
  return o->state;
}
static void ss_start(struct shared_state *s)
{
  VX_ASSERT(s == vx_self, "ghost");
  if (g_ss_adds > 0) g_ss_order_ok = false;
  if (g_ss_starts < 3) g_ss_starts++;
}
static void ss_add_continuation(struct shared_state *s, struct receiver *r)
{
  VX_ASSERT(s == vx_self && r == vx_receiver, "add_continuation for this operation's own receiver");
  if (g_ss_adds < 3) g_ss_adds++;
  g_alive = false;   /* the receiver may have been signalled: the operation state may be gone */
}
#endif
