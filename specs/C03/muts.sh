#!/bin/bash
# development aid: run a list of mutants "<expect>|<file>|<regex>|<replacement>|<only>" through tools/mut.sh, print exit codes + failed obligations
cd /verif
A=libs/pika/execution/include/pika/execution/algorithms
while IFS='|' read -r exp f pat rep only; do
  [ -z "$exp" ] && continue
  case "$exp" in \#*) continue;; esac
  out=$(VX_JOBS=${VX_JOBS:-4} tools/mut.sh C03 $A/$f "$pat" "$rep" --only "$only" 2>&1)
  rc=$(echo "$out" | grep -o 'exit=[0-9]*' | tail -1)
  echo "== expect=$exp got $rc :: $f :: $pat -> $rep  [$only]"
  echo "$out" | grep -E "FAILED|UNDECIDED|MUTATION" | sed 's/ @ .*//' | cut -c1-220 | head -4
done
