/* C03 -- channel-preserving adaptors (then, bulk, let_value, let_error, schedule_from, start_detached, drop_value,
 * drop_operation_state, require_started, unpack, just): generic C types, ghost state, T-stubs.
 *
 * Payloads, callables, schedulers, senders, exceptions and operation states are opaque int tokens.  pika::detail::variant is
 * (index, token); std::optional<operation_state> is a flag.  Exceptions: a stub that "throws" sets vx_exc and records the
 * token; the rule that bound the call appends `if (vx_exc) VX_THROW_NOW;` (turned into a jump to the handler by the lowered
 * try/catch; outside any try block it is an obligation: nothing may escape a noexcept completion function) or, inside lifted
 * helper functions called from a try block, `if (vx_exc) return;` (propagation to the caller).
 */
#ifndef C03_CHAN_H
#define C03_CHAN_H
static _Bool vx_exc; static int g_thrown_tok, g_current_exception; static _Bool g_caught;
#define VX_TRY_BEGIN(k) ((void) 0)
#define VX_CATCH_BEGIN(k) (vx_exc = 0, g_current_exception = g_thrown_tok, g_caught = 1)
#define VX_THROW_TO(label) do { if (nondet_bool()) goto label; } while (0)
#include "vx.h"
#define VX_THROW_NOW VX_ASSERT(0, "an exception escapes a noexcept completion function (std::terminate)")

#define RECV_ID 7
struct receiver { int id; };
struct variant { int index; int tok; };
struct shape { size_t n; };
struct op {                          /* an adaptor's operation state (union of what the adaptors of this group keep) */
  struct receiver receiver;
  int f, scheduler;
  struct variant predecessor_ts, predecessor_error, successor_op_state, ts;
  bool op_state_has;                 /* std::optional<operation_state_type> op_state */
  bool scheduler_op_state_has;       /* std::optional<scheduler_operation_state_type> scheduler_op_state */
  int scheduler_op_tok;
  bool started;
};
struct rcv { struct receiver receiver; int f; struct shape shape; struct op *op_state; };   /* an adaptor's receiver */

static struct op *vx_op;
static long g_set_value, g_set_error, g_set_stopped; static int g_tok; static bool g_has_payload;
static bool g_receiver_moved;                       /* the downstream receiver was handed to a successor operation state */
static long g_f_calls; static int g_f_arg, g_f_result; static size_t g_f_index;
static size_t g_victim; static long g_f_calls_victim;
static bool g_may_throw;
static long g_os_resets; static bool g_os_reset_before_signal;
static bool g_ref_bound, g_ref_dangling;
static long g_connects; static int g_conn_sender; static int g_conn_op;
static long g_succ_starts; static bool g_succ_emplaced_at_start;
static long g_sched_calls, g_sched_starts; static bool g_parked_at_sched_start, g_sched_emplaced_at_start;
static long g_child_starts;
static long g_releases; static bool g_alive;
static long g_m_calls; static int g_m_id, g_m_tok;     /* schedule_from: receiver -> operation state member call */
static long g_t_calls, g_c_calls; static int g_c_arg; static bool g_t_threw;

#define SIGNALS (g_set_value + g_set_error + g_set_stopped)
#define ALIVE(what) VX_ASSERT(g_alive, "life time: " what " touched after the operation state was released")
static void init_ghost(void)
{
  vx_exc = false; g_thrown_tok = g_current_exception = 0; g_caught = false;
  g_set_value = g_set_error = g_set_stopped = 0; g_tok = 0; g_has_payload = false; g_receiver_moved = false;
  g_f_calls = 0; g_f_arg = g_f_result = 0; g_f_index = 0; g_victim = 0; g_f_calls_victim = 0; g_may_throw = false;
  g_ref_bound = g_ref_dangling = false;
  g_os_resets = 0; g_os_reset_before_signal = false; g_connects = 0; g_conn_sender = g_conn_op = 0; g_succ_starts = 0;
  g_succ_emplaced_at_start = false; g_sched_calls = g_sched_starts = 0; g_parked_at_sched_start = g_sched_emplaced_at_start = false;
  g_child_starts = 0; g_releases = 0; g_alive = true; g_t_calls = g_c_calls = 0; g_c_arg = 0; g_t_threw = false; g_m_calls = 0; g_m_id = g_m_tok = 0;
}

/* ---- downstream receiver ------------------------------------------------------------------------------------ */
static void recv_signal(struct receiver *r)
{
  VX_ASSERT(r->id == RECV_ID, "the signal goes to the connected receiver");
  VX_ASSERT(SIGNALS == 0, "the receiver is signalled at most once");
  VX_ASSERT(!g_receiver_moved, "the receiver is used after it was moved into the successor operation state");
  VX_ASSERT(!vx_exc, "ghost: no signal while an exception is in flight");
  VX_ASSERT(!g_ref_dangling, "the payload forwarded downstream is a reference into the operation state that was reset before the signal (dangling): values/errors must arrive unchanged");
  g_os_reset_before_signal = g_os_resets > 0;
}
static void recv_set_value_0(struct receiver *r) { recv_signal(r); g_set_value++; g_has_payload = false; }
static void recv_set_value_1(struct receiver *r, int tok) { recv_signal(r); g_set_value++; g_tok = tok; g_has_payload = true; }
static void recv_set_error(struct receiver *r, int tok) { recv_signal(r); g_set_error++; g_tok = tok; g_has_payload = true; }
static void recv_set_stopped(struct receiver *r) { recv_signal(r); g_set_stopped++; }
#define VX_PICK3(a, b, f, ...) f
#define recv_set_value(...) VX_PICK3(__VA_ARGS__, recv_set_value_1, recv_set_value_0)(__VA_ARGS__)
#define VX_BIND(f, a) f, a
#define VX_APPLY_(f, a, t) f(a, t)
#define VX_APPLY(...) VX_APPLY_(__VA_ARGS__)

/* ---- user callable: PIKA_INVOKE(f, args...) / std::apply(f, t) -- may throw ------------------------------------------ */
static int invoke_f_1(int f, int arg)
{
  VX_ASSERT(f == vx_op->f, "the adaptor's own callable is invoked");
  if (g_f_calls < 3) g_f_calls++;
  g_f_arg = arg;
  if (g_may_throw && nondet_bool()) { vx_exc = true; g_thrown_tok = nondet_int(); return 0; }
  g_f_result = nondet_int();
  return g_f_result;
}
static int invoke_f_2(int f, size_t s, int arg)    /* bulk: f(s, ts...) */
{
  VX_ASSERT(f == vx_op->f, "the adaptor's own callable is invoked");
  if (s == g_victim && g_f_calls_victim < 3) g_f_calls_victim++;
  g_f_arg = arg; g_f_index = s;
  if (g_may_throw && nondet_bool()) { vx_exc = true; g_thrown_tok = nondet_int(); return 0; }
  return 0;
}
#define VX_PICK4(a, b, c, f, ...) f
#define invoke_f(...) VX_PICK4(__VA_ARGS__, invoke_f_2, invoke_f_1, invoke_f_0)(__VA_ARGS__)
static size_t shape_size(struct shape *s) { return s->n; }
static size_t shape_at(struct shape *s, size_t i) { return i; }

/* ---- variants / optionals of the operation state ------------------------------------------------------------------- */
/* v.emplace<T>(args...): decay-copies the payload, may throw */
static void variant_emplace(struct variant *v, int tok)
{
  if (g_may_throw && nondet_bool()) { vx_exc = true; g_thrown_tok = nondet_int(); return; }
  v->index = 1; v->tok = tok;
}
/* connect(sender, std::move(receiver)): may throw (assumed: only before the receiver has been consumed); afterwards the
 * receiver lives in the returned operation state */
static int sr_connect(int sender, struct receiver *r)
{
  VX_ASSERT(r->id == RECV_ID && !g_receiver_moved, "the successor is connected to the downstream receiver");
  if (g_may_throw && nondet_bool()) { vx_exc = true; g_thrown_tok = nondet_int(); return 0; }
  if (g_connects < 3) g_connects++;
  g_conn_sender = sender; g_conn_op = nondet_int();
  g_receiver_moved = true;
  return g_conn_op;
}
static void succ_emplace(struct variant *v, int optok) { v->index = 1; v->tok = optok; }
static void succ_start(int optok) { g_succ_emplaced_at_start = (vx_op->successor_op_state.index == 1 && vx_op->successor_op_state.tok == optok && g_connects == 1); if (g_succ_starts < 3) g_succ_starts++; }
/* schedule(std::move(scheduler)) / connect(schedule_sender, scheduler_sender_receiver{*this}) */
static int sched_schedule(int scheduler) { VX_ASSERT(scheduler == vx_op->scheduler, "schedule on the adaptor's scheduler"); if (g_sched_calls < 3) g_sched_calls++; return scheduler; }
static int sched_connect(int sender, struct op *o) { VX_ASSERT(o == vx_op, "scheduler receiver refers to this operation state"); return sender; }
static void sched_emplace(struct op *o, int optok) { o->scheduler_op_state_has = true; o->scheduler_op_tok = optok; }
static void sched_reset(struct op *o) { o->scheduler_op_state_has = false; if (g_os_resets < 3) g_os_resets++; }
static int sched_deref(struct op *o) { VX_ASSERT(o->scheduler_op_state_has, "dereference of an empty std::optional (scheduler_op_state)"); return o->scheduler_op_tok; }
static void sched_start(int optok)
{
  g_parked_at_sched_start = vx_op->ts.index == 1; g_sched_emplaced_at_start = vx_op->scheduler_op_state_has;
  if (g_sched_starts < 3) g_sched_starts++;
}
/* std::optional<operation_state_type> op_state of drop_operation_state / require_started */
static bool os_has_value(struct op *o) { ALIVE("op_state (optional)"); return o->op_state_has; }
static void os_reset(struct op *o) { o->op_state_has = false; if (g_os_resets < 3) g_os_resets++; if (g_ref_bound) g_ref_dangling = true; }
static int os_deref(struct op *o) { ALIVE("op_state (optional)"); VX_ASSERT(o->op_state_has, "dereference of an empty std::optional (op_state)"); return 0; }
/* start(child): the child may complete INLINE, and the completion may destroy / release this operation state (start_detached's
 * release(), ensure_started's os.reset(), a consumer that owns the state): from here on the operation state may be gone
 * (added after seeded change C03-8 was missed) */
static void child_start(int optok) { ALIVE("the operation state (start of the child)"); if (g_child_starts < 3) g_child_starts++; if (nondet_bool()) g_alive = false; }
static void vx_alive_touch(void) { ALIVE("a member of the operation state"); }
#define VX_MEMBER(o, m) (*(vx_alive_touch(), &(o)->m))
/* a local decay-copy `T local(std::forward<T>(x))`: may throw */
/* `auto&& local = std::forward<T>(x)`: NO copy, the local is a reference to the caller's object -- which the
 * upstream operation state may own (when_all, split, ... signal references into their own storage) */
static int ref_bind(int tok) { g_ref_bound = true; return tok; }
static int decay_copy(int tok)
{
  VX_ASSERT(g_os_resets == 0, "the payload is copied out before the operation state that may own it is reset");
  if (g_may_throw && nondet_bool()) { vx_exc = true; g_thrown_tok = nondet_int(); return 0; }
  return tok;
}

/* ---- pika::detail::visit: call the overload of the active alternative ------------------------------------------------- */
struct ovis { struct op *op_state; };          /* set_value_visitor<operation_state> / set_error_visitor */
struct svis { int unused; };                   /* start_visitor */
struct ssvv { struct receiver receiver; };     /* scheduler_sender_value_visitor<Receiver> (holds the receiver by value) */
#if defined(C_LET)
void ovis_monostate(struct ovis *self);
void ovis_alt(struct ovis *self, int ALT_PARAM);
void svis_monostate(struct svis *self);
void svis_alt(struct svis *self, int op_state);
static void visit_set_value_visitor(struct op *o, struct variant *v)
{
  struct ovis s; s.op_state = o;
  if (v->index == 0) ovis_monostate(&s); else ovis_alt(&s, v->tok);
}
#define visit_set_error_visitor visit_set_value_visitor
static void visit_start_visitor(struct variant *v)
{
  struct svis s; s.unused = 0;
  if (v->index == 0) svis_monostate(&s); else svis_alt(&s, v->tok);
}
#endif
#if defined(C_SF_DELIVER)
void ssvv_monostate(struct ssvv *self);
void ssvv_alt(struct ssvv *self, int ts);
static void visit_scheduler_sender_value_visitor(struct receiver *r, struct variant *v)
{
  struct ssvv s; s.receiver = *r;
  if (v->index == 0) ssvv_monostate(&s); else ssvv_alt(&s, v->tok);
}
#endif

/* ---- start_detached: the heap operation state ---------------------------------------------------------------------- */
static void holder_release(struct op *o)
{
  ALIVE("operation_state_holder");
  VX_ASSERT(o == vx_op, "release of this holder");
  if (g_releases < 3) g_releases++;
  g_alive = false;
}
static int vx_current_exception(void) { VX_ASSERT(g_caught, "std::current_exception() outside a handler"); return g_current_exception; }
#define VX_PACK(ts) ((ts).tok)   /* std::move(ts).get<Is>()...: all elements of the member_pack */
static void vx_rethrow(int tok) { vx_exc = true; g_thrown_tok = tok; }
static void vx_terminate(void) { }

/* ---- schedule_from: the two internal receivers only call a member of the operation state ---------------------------- */
enum { M_set_value_predecessor_sender = 1, M_set_error_predecessor_sender, M_set_stopped_predecessor_sender,
       M_set_value_scheduler_sender, M_set_error_scheduler_sender, M_set_stopped_scheduler_sender };
static void op_method(struct op *o, int id, int tok)
{
  VX_ASSERT(o == vx_op, "member of this operation state");
  if (g_m_calls < 3) g_m_calls++;
  g_m_id = id; g_m_tok = tok;
}

/* ---- try_catch_exception_ptr's two callables -------------------------------------------------------------------------- */
static void t_call(void) { if (g_t_calls < 3) g_t_calls++; if (nondet_bool()) { vx_exc = true; g_thrown_tok = nondet_int(); g_t_threw = true; } }
static void c_call(int ep) { VX_ASSERT(!vx_exc, "the catch callable runs outside the catch block"); if (g_c_calls < 3) g_c_calls++; g_c_arg = ep; }
#endif
