/* C03 -- shared-state adaptors split / split_tuple / ensure_started (one template, three instantiations)
 * units: predecessor receiver set_value/set_error/set_stopped (i), set_predecessor_done (ii), add_continuation and the
 * stored continuation (iii), shared_state::start (iv), consumer operation_state::start.  T + M + S contracts. */
#include "shared.h"

/* split_tuple: add_continuation<Index>; the other two adaptors ignore the parameter */
#define INDEX_PARAM size_t Index,
#define INDEX_ARG g_index,

/* ================= (i) the predecessor's receiver ========================================================== */
#ifdef U_RECV_VALUE
//@FUNC
void pr_set_value(struct pred_receiver *self, int VALUE_IN)
__CPROVER_requires(self->state == vx_self && g_alive && g_refs == 0 && g_spd_calls == 0 && g_emplaces == 0)
__CPROVER_requires(vx_self->v.index == V_MONOSTATE && !vx_self->predecessor_done)
/* done is published exactly once, and at that time v holds the value alternative with the payload that was sent */
__CPROVER_ensures(g_spd_calls == 1 && g_spd_index == V_VALUE && g_spd_tok == VALUE_IN)
__CPROVER_ensures(vx_self->v.index == V_VALUE && vx_self->v.tok == VALUE_IN && g_refs == 0)
__CPROVER_assigns(vx_self->v, vx_self->predecessor_done, g_alive, g_refs, g_spd_calls, g_spd_index, g_spd_tok, g_emplaces)
//@LIFT body
#endif

#ifdef U_RECV_ERROR
//@FUNC
void pr_set_error(struct pred_receiver *self, int error)
__CPROVER_requires(self->state == vx_self && g_alive && g_refs == 0 && g_spd_calls == 0 && g_emplaces == 0)
__CPROVER_requires(vx_self->v.index == V_MONOSTATE && !vx_self->predecessor_done)
__CPROVER_ensures(g_spd_calls == 1 && g_spd_index == V_ERROR && g_spd_tok == error)
__CPROVER_ensures(vx_self->v.index == V_ERROR && vx_self->v.tok == error && g_refs == 0)
__CPROVER_assigns(vx_self->v, vx_self->predecessor_done, g_alive, g_refs, g_spd_calls, g_spd_index, g_spd_tok, g_emplaces)
//@LIFT body
#endif

#ifdef U_RECV_STOPPED
//@FUNC
void pr_set_stopped(struct pred_receiver *self)
__CPROVER_requires(self->state == vx_self && g_alive && g_refs == 0 && g_spd_calls == 0 && g_emplaces == 0)
__CPROVER_requires(vx_self->v.index == V_MONOSTATE && !vx_self->predecessor_done)
__CPROVER_ensures(g_spd_calls == 1 && g_spd_index == V_STOPPED)
__CPROVER_ensures(vx_self->v.index == V_STOPPED && g_refs == 0)
__CPROVER_assigns(vx_self->v, vx_self->predecessor_done, g_alive, g_refs, g_spd_calls, g_spd_index, g_spd_tok, g_emplaces)
//@LIFT body
#endif

/* ================= (ii) set_predecessor_done =============================================================== */
#ifdef U_SPD
#define SPD_FRAME vx_self->os_has, vx_self->predecessor_done, vx_self->mtx.held, vx_self->CONT_MEMBER, g_alive, g_refs, g_phase, \
  g_os_resets, g_lock_cycles, g_clears, g_victim_calls, g_victim_engaged_at_release, g_env_stored
//@FUNC
void set_predecessor_done(struct shared_state *self)
__CPROVER_requires(self == vx_self && g_alive && g_refs == RECV_HOLDS_PTR && !self->mtx.held && !self->predecessor_done)
__CPROVER_requires(self->v.index == V_STOPPED || self->v.index == V_ERROR || self->v.index == V_VALUE)
__CPROVER_requires(self->CONT_MEMBER.n <= CONTS_LIMIT && (!self->CONT_MEMBER.victim_engaged || g_victim < self->CONT_MEMBER.n) && (CONT_KIND == 1 || self->CONT_MEMBER.victim_engaged == (g_victim < self->CONT_MEMBER.n)))
__CPROVER_requires(g_phase == 0 && g_os_resets == 0 && g_lock_cycles == 0 && g_clears == 0 && g_victim_calls == 0)
/* operation state reset (once), done published, lock taken and released (once) -- their order is asserted by the stubs */
__CPROVER_ensures(g_os_resets == 1 && !self->os_has && self->predecessor_done && g_lock_cycles == 1 && !self->mtx.held && g_phase == 4)
/* every continuation that was stored when the lock was released is invoked exactly once, nothing else is invoked */
__CPROVER_ensures(g_victim_calls == (g_victim_engaged_at_release ? 1 : 0))
/* and the container is left empty (vector cleared / array moved from / optional reset) */
__CPROVER_ensures(!self->CONT_MEMBER.victim_engaged && (CONT_KIND == 1 || self->CONT_MEMBER.n == 0))
__CPROVER_ensures(g_refs == RECV_HOLDS_PTR)
__CPROVER_assigns(SPD_FRAME)
//@LIFT body
#endif

/* ================= (iii) add_continuation, the visitors it uses, the stored continuation ==================== */
#if defined(U_ADD) || defined(U_CONT)
void sev_monostate(struct sev *self)
//@LIFT sev_monostate
void sev_stopped(struct sev *self)
//@LIFT sev_stopped
void sev_error(struct sev *self, int error)
//@LIFT sev_error
void sev_value(struct sev *self, int VALUE_PARAM)
//@LIFT sev_value
void ev_call(struct ev *self, int error)
//@LIFT ev_call
#if CONT_KIND != 1
void vv_call(struct vv *self, int ts)
//@LIFT vv_call
#endif
#define ADD_FRAME vx_self->os_has, vx_self->predecessor_done, vx_self->v, vx_self->mtx.held, vx_self->CONT_MEMBER, g_alive, \
  g_set_value, g_set_error, g_set_stopped, g_tok, g_get_index, g_get_used, g_lock_cycles, g_env_stored, g_env_completed, \
  g_last_read, g_last_read_locked, g_reads, g_visits, g_stored, g_stored_index
/* the channel and payload recorded in v */
#define DELIVERED_AS_RECORDED (vx_self->v.index == V_STOPPED ? (g_set_stopped == 1) : vx_self->v.index == V_ERROR ? (g_set_error == 1 && g_tok == vx_self->v.tok) : \
  (vx_self->v.index == V_VALUE && g_set_value == 1 && g_tok == vx_self->v.tok))
#endif

#ifdef U_ADD
//@FUNC
void add_continuation(struct shared_state *self, INDEX_PARAM struct receiver *receiver)
__CPROVER_requires(self == vx_self && receiver == vx_receiver && g_alive && !self->mtx.held)
__CPROVER_requires(!self->predecessor_done || self->v.index == V_STOPPED || self->v.index == V_ERROR || self->v.index == V_VALUE)
__CPROVER_requires(PRED_SENDS_STOPPED || self->v.index != V_STOPPED)
__CPROVER_requires(self->CONT_MEMBER.n <= CONTS_LIMIT && (!self->CONT_MEMBER.victim_engaged || g_victim < self->CONT_MEMBER.n) && (CONT_KIND == 1 || self->CONT_MEMBER.victim_engaged == (g_victim < self->CONT_MEMBER.n)))
__CPROVER_requires(Index == g_index && (CONT_KIND != 1 || (Index < self->CONT_MEMBER.n && !(g_victim == Index && self->CONT_MEMBER.victim_engaged))))
__CPROVER_requires(CONT_KIND != 2 || self->CONT_MEMBER.n == 0)
__CPROVER_requires(g_set_value + g_set_error + g_set_stopped == 0 && g_visits == 0 && g_stored == 0 && g_lock_cycles == 0 && g_reads == 0 && !g_get_used)
/* exactly one of {deliver inline, store} */
__CPROVER_ensures(g_visits + g_stored == 1 && g_set_value + g_set_error + g_set_stopped == g_visits)
/* inline delivery only after reading predecessor_done == true, and it delivers what v records */
__CPROVER_ensures(g_visits == 1 ==> (g_last_read && self->predecessor_done && DELIVERED_AS_RECORDED))
__CPROVER_ensures((CONT_KIND == 1 && g_set_value == 1) ==> (g_get_used && g_get_index == Index))
/* stored (under the lock, after re-reading false under it: asserted by the container stub) in this consumer's slot */
__CPROVER_ensures((CONT_KIND == 1 && g_stored == 1) ==> g_stored_index == Index)
__CPROVER_ensures(!self->mtx.held)
__CPROVER_assigns(ADD_FRAME)
//@LIFT body
#endif

#ifdef U_CONT
/* the lambda stored by add_continuation: [this, &receiver]() mutable { ... } */
//@FUNC
void continuation_body(struct shared_state *self, INDEX_PARAM struct receiver *receiver)
__CPROVER_requires(self == vx_self && receiver == vx_receiver && g_alive && !self->mtx.held && self->predecessor_done)
__CPROVER_requires(self->v.index == V_STOPPED || self->v.index == V_ERROR || self->v.index == V_VALUE)
__CPROVER_requires(PRED_SENDS_STOPPED || self->v.index != V_STOPPED)
__CPROVER_requires(g_set_value + g_set_error + g_set_stopped == 0 && g_visits == 0 && !g_get_used)
__CPROVER_ensures(g_set_value + g_set_error + g_set_stopped == 1 && DELIVERED_AS_RECORDED)
__CPROVER_ensures((CONT_KIND == 1 && g_set_value == 1) ==> (g_get_used && g_get_index == Index))
__CPROVER_assigns(g_alive, g_set_value, g_set_error, g_set_stopped, g_tok, g_get_index, g_get_used, g_visits)
//@LIFT body
#endif

/* ================= (iv) shared_state::start ================================================================= */
#ifdef U_START
//@FUNC
void ss_start_impl(struct shared_state *self)
__CPROVER_requires(self == vx_self && g_alive && !g_lin && g_pred_started == 0)
/* invariant of the shared state: the predecessor operation state exists until the predecessor (started only after
 * start_called was set) has completed */
__CPROVER_requires(self->start_called || self->os_has)
/* the predecessor is started iff this call's exchange found the flag clear; the flag is only ever set  =>  at most one
 * start() in any history starts the predecessor */
__CPROVER_ensures(g_lin && g_lin_new && self->start_called)
__CPROVER_ensures(g_pred_started == (g_lin_old ? 0 : 1))
__CPROVER_assigns(self->start_called, self->os_has, g_lin, g_lin_old, g_lin_new, g_pred_started)
//@LIFT body
#endif

/* ================= consumer operation_state::start ========================================================== */
#ifdef U_OP_START
//@FUNC
void op_start(struct consumer_op *self)
__CPROVER_requires(self->state == vx_self && &self->receiver == vx_receiver && g_alive && g_ss_starts == 0 && g_ss_adds == 0 && g_ss_order_ok)
/* the consumer registers itself exactly once, for its own receiver; where the adaptor starts its predecessor lazily
 * (split, split_tuple) start() is requested before that -- afterwards the operation state may be gone */
__CPROVER_ensures(g_ss_adds == 1 && (OP_START_STARTS_PRED ? g_ss_starts >= 1 : 1))
__CPROVER_assigns(g_alive, g_ss_starts, g_ss_adds, g_ss_order_ok)
//@LIFT body
#endif

static int pick_alt(void) { return (PRED_SENDS_STOPPED && nondet_bool()) ? V_STOPPED : (nondet_bool() ? V_ERROR : V_VALUE); }

void harness(void)
{
  struct shared_state st;
  struct consumer_op cop;
  struct pred_receiver pr;
  init_ghost();
  vx_self = &st;
  vx_receiver = &cop.receiver;
  cop.state = &st;
  pr.state = &st;
  st.mtx.held = false;
  st.start_called = nondet_bool();
  st.predecessor_done = false;
  st.os_has = true;
  st.v.index = V_MONOSTATE; st.v.tok = 0;
  st.CONT_MEMBER.n = nondet_size();
  g_victim = nondet_size();
  st.CONT_MEMBER.victim_engaged = (CONT_KIND == 1) ? nondet_bool() : (g_victim < st.CONT_MEMBER.n);
  g_index = nondet_size();
#ifdef U_RECV_VALUE
  pr_set_value(&pr, nondet_int());
  VX_REACH("done_published");
#endif
#ifdef U_RECV_ERROR
  pr_set_error(&pr, nondet_int());
  VX_REACH("done_published");
#endif
#ifdef U_RECV_STOPPED
  pr_set_stopped(&pr);
  VX_REACH("done_published");
#endif
#ifdef U_SPD
  st.v.index = pick_alt(); st.v.tok = nondet_int();
  g_refs = RECV_HOLDS_PTR;
  set_predecessor_done(&st);
  if (g_victim_calls == 1) VX_REACH("stored_continuation_invoked");
  if (g_victim_calls == 0) VX_REACH("no_continuation_in_victim_slot");
  if (g_env_stored) VX_REACH("consumer_stored_concurrently");
#endif
#if defined(U_ADD) || defined(U_CONT)
  st.predecessor_done = nondet_bool();
  if (st.predecessor_done) { st.v.index = pick_alt(); st.v.tok = nondet_int(); st.os_has = false; }
#endif
#ifdef U_ADD
  add_continuation(&st, INDEX_ARG &cop.receiver);
  if (g_stored) VX_REACH("stored");
  if (g_visits && g_reads == 1) VX_REACH("inline_first_read");
  if (g_visits && g_reads == 2) VX_REACH("inline_after_lock");
  if (g_set_value) VX_REACH("value"); if (g_set_error) VX_REACH("error");
  if (g_env_completed) VX_REACH("predecessor_completed_during_call");
#if PRED_SENDS_STOPPED
  if (g_set_stopped) VX_REACH("stopped");
#endif
#endif
#ifdef U_CONT
  continuation_body(&st, INDEX_ARG &cop.receiver);
  if (g_set_value) VX_REACH("value"); if (g_set_error) VX_REACH("error");
#if PRED_SENDS_STOPPED
  if (g_set_stopped) VX_REACH("stopped");
#endif
#endif
#ifdef U_START
  st.os_has = nondet_bool();
  ss_start_impl(&st);
  if (g_pred_started) VX_REACH("started_predecessor"); else VX_REACH("already_started");
#endif
#ifdef U_OP_START
  op_start(&cop);
  VX_REACH("registered");
#endif
}
