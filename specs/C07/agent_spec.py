"""C07 extension: execution::detail::default_agent (the plain-OS-thread execution agent behind agent_ref::suspend / resume /
abort) -- libs/pika/execution_base/src/this_thread.cpp.   Merged into spec.py by exec(); relies only on its own imports."""
import re as _re

from vx.lift import Lift as _Lift, Sub as _Sub, Call as _Call, Members as _Members, Guard as _Guard, Rule as _Rule, \
    LiftError as _LiftError, match_close as _match_close, split_args as _split_args, locate as _locate, resolve_pp as _resolve_pp, \
    apply_rules as _apply_rules, GENERIC_RULES as _GENERIC_RULES, splice_loops as _splice_loops
from vx.run import Unit as _Unit
from vx import census as _census

_TT = "libs/pika/execution_base/src/this_thread.cpp"
_T = "../C07/"          # templates live next to this file; the scratch wrapper specs/C07X/spec.py runs from a sibling directory


def _agent_template(master, defines):
    """Specialise a master template for one unit (as specs/C01/spec.py unit_template): the `#ifdef U_x / #if defined(U_x) || .. /
    #else / #endif` blocks of the master are resolved for the unit's U_ defines and the result is written to
    specs/C07/agent_gen/<master>.<defines>.c (regenerated on every run).  Reason: vx.run's native replay wraps every //@FUNC of
    the rendered text, including those of inactive #ifdef blocks, which breaks the replay program of multi-unit templates."""
    import os
    from vx.run import VERIF
    here = os.path.join(VERIF, "specs", "C07")
    defs = set(d.split("=")[0] for d in defines)
    out, stack = [], []      # stack entries: None (foreign conditional) or [parent_active, taken, active]
    for line in open(os.path.join(here, master)).read().split("\n"):
        m = _re.match(r"\s*#\s*(ifdef|ifndef|if|elif|else|endif)\b\s*(.*)$", line)
        active = all(e is None or e[2] for e in stack)
        if m:
            d, rest = m.group(1), _re.sub(r"/\*.*?\*/", "", m.group(2)).strip()
            if d in ("ifdef", "ifndef", "if"):
                names = _re.findall(r"[A-Za-z_]\w*", _re.sub(r"\bdefined\b", "", rest))
                if names and all(n.startswith("U_") for n in names):
                    if d == "if":
                        e = _re.sub(r"defined\s*\(\s*(\w+)\s*\)", lambda mm: "True" if mm.group(1) in defs else "False", rest)
                        e = e.replace("||", " or ").replace("&&", " and ").replace("!", " not ")
                        v = bool(eval(e, {"__builtins__": {}}, {}))
                    else:
                        v = (rest in defs) == (d == "ifdef")
                    stack.append([active, v, v and active])
                    continue
                stack.append(None)
            elif d in ("elif", "else"):
                if stack and stack[-1] is not None:
                    if d == "elif":
                        raise _LiftError("_agent_template: #elif on U_ macros not supported")
                    e = stack[-1]
                    e[2] = (not e[1]) and e[0]
                    e[1] = True
                    continue
            elif d == "endif":
                e = stack.pop()
                if e is not None:
                    continue
        if active:
            out.append(line)
    os.makedirs(os.path.join(here, "agent_gen"), exist_ok=True)
    rel = os.path.join("agent_gen", "%s.%s.c" % (os.path.splitext(master)[0], "+".join(sorted(defs)) or "plain"))
    text = "\n".join(out)
    path = os.path.join(here, rel)
    if not os.path.exists(path) or open(path).read() != text:
        with open(path, "w") as f:
            f.write(text)
    return _T + rel


# ---------------------------------------------------------------------------------------------------------------
# local helper rules (purely structural)


class _DaCtorLift(_Lift):
    """A constructor: the mem-initialiser list `: a_(x), b_(y)` becomes `self->a_ = (x); self->b_ = (y);` in front of the lifted
    body (copy of specs/C07/spec.py CtorLift; a delegating constructor `: T(a, b)` becomes the call `T_ctor2(self, a, b);`)."""

    def run(self):
        body, line, header = _locate(self.src, self.locate, self.which, self.expect, ctor=True)
        raw = header + body
        op = header.index("(")
        cl = _match_close(header, op)
        rest = header[cl + 1:].strip()
        inits = []
        if rest.startswith(":"):
            for item in _split_args(rest[1:]):
                m = _re.match(r"\s*(\w+)\s*[({](.*)[)}]\s*$", item, _re.S)
                if not m:
                    raise _LiftError("DaCtorLift: cannot parse initialiser %r" % item)
                if m.group(1).endswith("_"):
                    inits.append("self->%s = (%s);" % (m.group(1), m.group(2).strip()))
                else:
                    inits.append("%s_delegate(self, %s);" % (m.group(1), m.group(2).strip()))
        elif rest:
            raise _LiftError("DaCtorLift: unexpected text after the parameter list: %r" % rest[:40])
        text = "{ " + " ".join(inits) + " " + body.strip()[1:]
        text = _resolve_pp(text)
        text = _apply_rules(text, self.rules)
        text = _apply_rules(text, _GENERIC_RULES)
        text = _apply_rules(text, self.post)
        text, nloops = _splice_loops(text, self.loops)
        return {"text": text, "line": line, "file": self.src, "raw": raw, "nloops": nloops, "header": header}


class _LiftL(_Lift):
    """Loop contracts are attached to the loops that EXIST in the lifted text: when an edit removes a loop (the predicate wait
    replaced by a plain one) the unit is verified without that contract, so that the edit becomes a failed obligation instead of
    an extraction failure."""

    def run(self):
        loops, self.loops = self.loops, {}
        try:
            r = _Lift.run(self)
        finally:
            self.loops = loops
        keep = {k: v for k, v in loops.items() if isinstance(k, int) and k <= r["nloops"]}
        r["text"], _n = _splice_loops(r["text"], keep)
        return r


class _ForVar(_Rule):
    """alpha-renaming: the counter declared in the header of the n-th `for (T x = ...; ...; ...)` statement is renamed to vx_iN
    inside that statement, so that a loop contract can name it whatever the source calls it."""

    def __init__(self, n=None):
        self.n = n

    def apply(self, text):
        from vx.lift import _stmt_end
        k, pos = 0, 0
        rx = _re.compile(r"\bfor\s*\(\s*(?:const\s+)?(?:std::)?\w+\s+(\w+)\s*=")
        while True:
            m = rx.search(text, pos)
            if not m:
                break
            k += 1
            op = text.index("(", m.start())
            cl = _match_close(text, op)
            j = cl + 1
            while text[j].isspace():
                j += 1
            e = _match_close(text, j, "{", "}") if text[j] == "{" else _stmt_end(text, j)
            seg = _re.sub(r"(?<![\w.>])%s\b" % _re.escape(m.group(1)), "vx_i%d" % k, text[m.start():e + 1])
            text = text[:m.start()] + seg + text[e + 1:]
            pos = m.start() + 4
        self.check(k, "ForVar")
        return text


class _CvWait(_Rule):
    """std::condition_variable::wait / wait_until / wait_for, all overloads, by their definition in [thread.condition.condvar]:
         X.wait(l);                              ->  cv_wait(&X, &l);
         X.wait(l, [caps] { return E; });        ->  while (!(E)) { cv_wait(&X, &l); }
         X.wait(l, [caps] { BODY });             ->  while (1) { bool vx_pwK; { BODY' } vx_pwK_end: ; if (vx_pwK) break; cv_wait(&X, &l); }
         X.wait_until(l, T);                     ->  cv_wait_until(&X, &l, T);                  (result unused)
         X.wait_until(l, T, [caps] { return E; }); -> while (!(E)) { if (cv_wait_until(&X, &l, T)) break; }      (result unused)
       (BODY': every `return E;` becomes `{ vx_pwK = (E); goto vx_pwK_end; }`).  The loop is visible to the loop census."""

    def __init__(self, n=None):
        self.n = n

    def apply(self, text):
        k = 0
        rx = _re.compile(r"\b(\w+)\.(wait|wait_until|wait_for)\s*\(")
        pos = 0
        while True:
            m = rx.search(text, pos)
            if not m:
                break
            op = m.end() - 1
            cl = _match_close(text, op)
            args = _split_args(text[op + 1:cl])
            timed = m.group(2) != "wait"
            nfix = 2 if timed else 1
            ms = _re.match(r"\s*;", text[cl + 1:])
            if not ms or len(args) not in (nfix, nfix + 1):
                raise _LiftError("CvWait: %s.%s(...) is not a statement of a supported form" % (m.group(1), m.group(2)))
            end = cl + 1 + ms.end()
            k += 1
            cv, lk = m.group(1), args[0]
            if timed:
                call = "cv_wait_until(&%s, &%s, %s)" % (cv, lk, args[1])
                block = "if (%s) break;" % call
            else:
                call = "cv_wait(&%s, &%s)" % (cv, lk)
                block = call + ";"
            if len(args) == nfix:
                rep = call + ";"
            else:
                lam = args[nfix]
                ml = _re.match(r"\[[^\]]*\]\s*(?:\(\s*\)\s*)?(?:mutable\s*)?(?:noexcept\s*)?(?:->\s*bool\s*)?\{", lam, _re.S)
                if not ml:
                    raise _LiftError("CvWait: last argument is not a lambda: %r" % lam[:60])
                bop = ml.end() - 1
                bcl = _match_close(lam, bop, "{", "}")
                if lam[bcl + 1:].strip():
                    raise _LiftError("CvWait: text after the lambda body")
                body = lam[bop + 1:bcl].strip()
                one = _re.fullmatch(r"return\b\s*([^;]*);", body, _re.S)
                if one:
                    rep = "while (!(%s)) { %s }" % (one.group(1).strip(), block)
                else:
                    v = "vx_pw%d" % k
                    body2, nret = _re.subn(r"\breturn\b\s*([^;]*);", lambda mm: "{ %s = (%s); goto %s_end; }" % (v, mm.group(1), v), body)
                    if nret == 0:
                        raise _LiftError("CvWait: predicate without return")
                    rep = "while (1) { bool %s; { %s } %s_end: ; if (%s) break; %s }" % (v, body2, v, v, block)
            text = text[:m.start()] + rep + text[end:]
            pos = m.start() + len(rep)
        self.check(k, "CvWait")
        return text


# ---------------------------------------------------------------------------------------------------------------
# spelling of the C++ vocabulary of default_agent (fire counts free: what is called where, and in which order, is the lifted code's)

_DA_MEMBERS = ["running_", "aborted_", "mtx_", "suspend_cv_", "resume_cv_", "id_"]
_DA_RULES = [
    _CvWait(None),
    _Sub(r"\b(\w+)\.notify_(one|all)\(\s*\)", r"cv_notify_\2(&\1)", None),
    _Call(r"\bstd::this_thread::sleep_(?:for|until)", "os_sleep({0})", None),
    _Sub(r"\b(\w+)\.value\(\)", r"steady_value(\1)", None),
    _Sub(r"\bPIKA_SMT_PAUSE\b", "vx_smt_pause()", None),
    _Sub(r"(?<![\w.>:])(sched_yield|nanosleep)\s*\(", r"vx_\1(", None),      # libc calls -> environment stubs
    _ForVar(None),
    # PIKA_THROW_EXCEPTION(code, func, fmt, args...): the exception leaves the function (the Guard rule adds the RAII exits)
    _Call(r"\bPIKA_THROW_EXCEPTION", "{ vx_throw({0}); return; }", None, stmt=True),
    _Sub(r"\bpika::error::(\w+)", r"pika_error_\1", None),
    _Sub(r"\b(\w+)\.(unlock|lock)\(\s*\)", r"ulock_\2(&\1)", None),
    _Guard(r"std::unique_lock\s*(?:<[^<>;]*>)?\s+(\w+)\s*[({]\s*(\w+)\s*[)}]\s*;", r"struct ulock \1 = ulock_make(&\2);", r"ulock_dtor(&\1);", None),
    _Members(_DA_MEMBERS, optional=_DA_MEMBERS),
]

# suspend(): `while (!running_) suspend_cv_.wait(l)`.  The first iteration runs inside the critical section that publishes the
# suspension (the publication is accounted for at the release inside the wait); later ones start after a (possibly spurious) wake-up.
_LOOP_FRAME = "vx_ag->running_, vx_ag->aborted_, vx_ag->mtx_.held, g_pub, g_wake, g_wake_abort, g_run_acq, g_ab_acq, g_cs, g_steps, " \
              "g_step_cs, g_waits_sus, g_waits_res, g_in_wait, g_spurious, g_interfered"
_LOOP_SUSPEND = """
__CPROVER_assigns(%s)
__CPROVER_loop_invariant(vx_ag->mtx_.held && !g_in_wait && g_role == ROLE_SUSPENDER && vx_exc == 0)
__CPROVER_loop_invariant(1 <= g_cs && g_cs <= VX_BIG && 0 <= g_waits_sus && g_waits_sus <= 2 && g_waits_res == 0 && (g_steps == 0 || g_steps == 1))
__CPROVER_loop_invariant(g_steps == 0 ==> (!vx_ag->running_ && g_cs == 1 && g_step_cs == 0 && g_run_acq && !g_ab_acq && vx_ag->aborted_ == g_ab_acq && g_pub == g_k - 1 && g_wake == g_k - 1))
__CPROVER_loop_invariant(g_steps == 1 ==> (g_step_cs == 1 && g_cs >= 2 && g_pub == g_k && vx_ag->running_ == g_run_acq && vx_ag->aborted_ == g_ab_acq))
__CPROVER_loop_invariant(g_steps == 1 ==> ((g_wake == g_k - 1 || g_wake == g_k) && vx_ag->running_ == (g_wake == g_k)))
__CPROVER_loop_invariant(g_steps == 1 ==> (g_wake == g_k ? vx_ag->aborted_ == g_wake_abort : !vx_ag->aborted_))
""" % _LOOP_FRAME
# resume() / abort(): `while (running_) resume_cv_.wait(l)`: nothing is written before the loop ends
_LOOP_WAKE = """
__CPROVER_assigns(%s)
__CPROVER_loop_invariant(vx_ag->mtx_.held && !g_in_wait && (g_role == ROLE_RESUMER || g_role == ROLE_ABORTER) && vx_exc == 0)
__CPROVER_loop_invariant(1 <= g_cs && g_cs <= VX_BIG && 0 <= g_waits_res && g_waits_res <= 2 && g_waits_sus == 0 && g_steps == 0 && g_step_cs == 0)
__CPROVER_loop_invariant(g_wake == g_k - 1 && (g_pub == g_k - 1 || g_pub == g_k) && vx_ag->running_ == (g_pub == g_wake))
__CPROVER_loop_invariant(vx_ag->running_ == g_run_acq && vx_ag->aborted_ == g_ab_acq && vx_ag->aborted_ == g_ab0)
""" % _LOOP_FRAME

_DAF = _TT + ": execution::detail::default_agent::"


def _da_lift(name, loops=None):
    return _LiftL(_TT, r"void default_agent::%s\(char const\*" % name, rules=_DA_RULES, loops=loops)


AGENT_UNITS = [
    _Unit("agent.da.ctor", _agent_template("agent_da.c", ["U_CTOR"]), defines=["U_CTOR"], enforce="default_agent_ctor",
          lifts={"ctor": _DaCtorLift(_TT, r"\bdefault_agent::default_agent\(\)", rules=[_Sub(r"std::this_thread::get_id\(\)", "vx_thread_id()", None)])},
          funcs=[_DAF + "default_agent (constructor)"], min_obligations=3,
          doc="M: a new agent satisfies the monitor invariant with an empty history (running, not aborted)"),
    _Unit("agent.da.suspend", _agent_template("agent_da.c", ["U_SUSPEND"]), defines=["U_SUSPEND"], enforce="suspend",
          lifts={"body": _da_lift("suspend", {1: _LOOP_SUSPEND})}, funcs=[_DAF + "suspend"], min_obligations=40,
          doc="M: publishes running_ = false once, announces it on resume_cv_, returns / throws only after a resume()/abort() granted "
              "the wake-up of THIS suspension (spurious cv wake-ups do not end it); throws iff the wake-up was an abort"),
    _Unit("agent.da.suspend.strict", _agent_template("agent_da.c", ["U_SUSPEND", "U_STRICT_ABORT"]), defines=["U_SUSPEND", "U_STRICT_ABORT"], enforce="suspend",
          lifts={"body": _da_lift("suspend", {1: _LOOP_SUSPEND})}, funcs=[_DAF + "suspend (abort consumed by the suspension it ended)"],
          min_obligations=40,
          doc="as agent.da.suspend, plus: aborted_ is clear again when the aborted suspension is left -- the inductive justification of "
              "the precondition `!aborted_`.  FAILS on the pinned tree (aborted_ is sticky: see report)"),
    _Unit("agent.da.resume", _agent_template("agent_da.c", ["U_RESUME"]), defines=["U_RESUME"], enforce="resume",
          lifts={"body": _da_lift("resume", {1: _LOOP_WAKE})}, funcs=[_DAF + "resume"], min_obligations=40,
          doc="M: returns only after it found the target suspended (waits for that if the resume came first), set it running and "
              "notified suspend_cv_: exactly one wake-up granted, for the suspension it holds the ticket for"),
    _Unit("agent.da.abort", _agent_template("agent_da.c", ["U_ABORT"]), defines=["U_ABORT"], enforce="abort_",
          lifts={"body": _da_lift("abort", {1: _LOOP_WAKE})}, funcs=[_DAF + "abort"], min_obligations=40,
          doc="M: like resume, with aborted_ set in the same critical section as the wake-up"),
]

_LOOP_SLEEP = _LOOP_SUSPEND.replace("g_interfered)", "g_interfered, g_deadline)")
_LOOP_SPIN = """
__CPROVER_assigns(vx_i1, g_pauses)
__CPROVER_loop_invariant(vx_i1 <= k && g_pauses == (long) vx_i1)
"""


def _da_lift2(pat, loops=None):
    return _LiftL(_TT, pat, rules=_DA_RULES, loops=loops)


AGENT_UNITS += [
    _Unit("agent.da.sleep_until", _agent_template("agent_da.c", ["U_SLEEP_UNTIL"]), defines=["U_SLEEP_UNTIL"], enforce="sleep_until",
          lifts={"body": _da_lift2(r"void default_agent::sleep_until\(", {1: _LOOP_SLEEP})}, funcs=[_DAF + "sleep_until"], min_obligations=20,
          doc="M: the timed sleep that detail::condition_variable::wait_until blocks in must be a suspension that resume()/abort() can "
              "end (published, announced); returns when woken or at the deadline.  FAILS on the pinned tree: a plain "
              "std::this_thread::sleep_until never publishes, so a notifier's resume() blocks in resume_cv_.wait (see report)"),
    _Unit("agent.da.sleep_for", _agent_template("agent_da.c", ["U_SLEEP_FOR"]), defines=["U_SLEEP_FOR"], enforce="sleep_for",
          lifts={"body": _da_lift2(r"void default_agent::sleep_for\(")}, funcs=[_DAF + "sleep_for"], min_obligations=10,
          doc="T + frame: sleeps exactly once for the given duration, without the agent's mutex, monitor state untouched"),
    _Unit("agent.da.yield", _agent_template("agent_da.c", ["U_YIELD"]), defines=["U_YIELD"], enforce="yield",
          lifts={"body": _da_lift2(r"void default_agent::yield\(char const\*")}, funcs=[_DAF + "yield"], min_obligations=10,
          doc="T + frame: exactly one sched_yield, no sleep, no lock, monitor state untouched"),
    _Unit("agent.da.yield_k", _agent_template("agent_da.c", ["U_YIELD_K"]), defines=["U_YIELD_K"], enforce="yield_k",
          lifts={"body": _da_lift2(r"void default_agent::yield_k\(")}, funcs=[_DAF + "yield_k"], min_obligations=10,
          doc="T + frame: for every k exactly one back-off action (pause | sched_yield | sub-second nanosleep with a valid timespec)"),
    _Unit("agent.da.spin_k", _agent_template("agent_da.c", ["U_SPIN_K"]), defines=["U_SPIN_K"], enforce="spin_k",
          lifts={"body": _da_lift2(r"void default_agent::spin_k\(", {1: _LOOP_SPIN})}, funcs=[_DAF + "spin_k"], min_obligations=10,
          doc="T + frame: k pause instructions, no OS call"),
]

AGENT_UNITS += [
    _Unit("agent.da.lemma.rely_guarantee", _agent_template("agent_da_lemma.c", ["L_RELY"]), defines=["L_RELY"], kind="lemma", loop_contracts=False, min_obligations=10, no_replay=True,
          doc="side conditions of the rely/guarantee argument on (running_, aborted_, history): relies reflexive and transitive; PUBLISH / "
              "GRANT / LEAVE preserve the monitor invariant; each party's step is admitted by the other's rely; a wake-up can only be "
              "granted to a published suspension"),
    _Unit("agent.da.lemma.suspend_resume", _agent_template("agent_da_lemma.c", ["L_PAIR"]), defines=["L_PAIR"], kind="lemma", loop_contracts=False, min_obligations=10, no_replay=True,
          doc="lemma over the contracts of agent.da.suspend and agent.da.resume/abort: for every interleaving of one suspend() and one "
              "resume()/abort() on the same agent (resume first, suspend first, overlapping; spurious cv wake-ups) the invariant 'a party "
              "blocked although its condition holds is still owed the notification' is inductive, no state other than 'both returned' is "
              "without an enabled step, every non-spurious step decreases a variant, and in the final state exactly one suspension was "
              "published and exactly one wake-up granted"),
]

# ---------------------------------------------------------------------------------------------------------------
# per-thread agent bookkeeping (agent_tls.c)


class _LocalStatic(_Rule):
    """`static thread_local T x;` (function-local) -> `VX_LOCAL_STATIC(T, x);` (construct on first pass, see the template) and every
    later `x` -> `g_tls_T` (the per-thread object).  A function-local `static T x;` WITHOUT thread_local is the same object for all
    threads: -> `VX_SHARED_STATIC(T, x);` (an obligation failure in the template: the bookkeeping is per thread)."""

    def __init__(self, n=None):
        self.n = n

    def apply(self, text):
        k = 0
        rx = _re.compile(r"\b(?:(static\s+thread_local|thread_local\s+static|thread_local)|static)\s+(?!thread_local\b)(\w+)\s+(\w+)\s*;")
        while True:
            m = rx.search(text)
            if not m:
                break
            k += 1
            ty, x = m.group(2), m.group(3)
            tail = _re.sub(r"(?<![\w.>])%s\b" % _re.escape(x), "g_tls_%s" % ty, text[m.end():])
            text = text[:m.start()] + "%s(%s, %s);" % ("VX_LOCAL_STATIC" if m.group(1) else "VX_SHARED_STATIC", ty, x) + tail
        self.check(k, "LocalStatic")
        return text


_TLS_RULES = [
    _LocalStatic(None),
    _Sub(r"\breturn\s+(g_tls_default_agent)\s*;", r"return VX_REF(\1);", None),            # default_agent& -> agent_base&
    _Sub(r"&\s*(?:\w+::)*get_default_agent\(\)", "get_default_agent()", None),            # address of a returned reference
    _Sub(r"(?:\w+::)+(get_agent_storage|get_default_agent)\(", r"\1(", None),
    _Call(r"\bstd::swap", "VX_SWAP({0}, {1})", None),
    _Call(r"\b(\w+)->set", "agent_storage_set({h1}, {0})", None),
    _Sub(r"&\s*impl\b", "impl", None),                                                      # agent_base& impl: address of a reference parameter
    _Sub(r"(?:\w+::)*agent_ref\(", "vx_agent_ref(", None),
    _Call(r"\bagent\(\)\.(suspend|yield)", "agent_ref_{h1}(agent(), {args})", None),
    _Members(["impl_", "storage_", "old_"], optional=["impl_", "storage_", "old_"]),
]
_TLS_LIFTS = {
    "get_default_agent": _Lift(_TT, r"agent_base& get_default_agent\(\)", rules=_TLS_RULES),
    "storage_ctor": _DaCtorLift(_TT, r"\bagent_storage\(\)", rules=_TLS_RULES),
    "storage_set": _Lift(_TT, r"agent_base\* set\(", rules=_TLS_RULES),
    "get_storage": _Lift(_TT, r"agent_storage\* get_agent_storage\(\)", rules=_TLS_RULES),
    "reset_ctor2": _DaCtorLift(_TT, r"reset_agent::reset_agent\(\s*detail::agent_storage\* storage", rules=_TLS_RULES),
    "reset_ctor1": _DaCtorLift(_TT, r"reset_agent::reset_agent\(execution::detail::agent_base& impl\)", rules=_TLS_RULES),
    "reset_dtor": _Lift(_TT, r"reset_agent::~reset_agent\(\)", rules=_TLS_RULES),
    "agent": _Lift(_TT, r"agent_ref agent\(\)", rules=_TLS_RULES),
}
_TLF = _TT + ": execution::"
_TLS_FUNCS = {
    "get_default_agent": "detail::get_default_agent", "storage_ctor": "this_thread::detail::agent_storage::agent_storage",
    "storage_set": "this_thread::detail::agent_storage::set", "get_storage": "this_thread::detail::get_agent_storage",
    "reset_ctor2": "this_thread::detail::reset_agent::reset_agent(agent_storage*, agent_base&)",
    "reset_ctor1": "this_thread::detail::reset_agent::reset_agent(agent_base&)", "reset_dtor": "this_thread::detail::reset_agent::~reset_agent",
    "agent": "this_thread::detail::agent",
}


def _tls_unit(name, define, enforce, key, doc, extra=None, **kw):
    lifts = dict(_TLS_LIFTS)
    if extra:
        lifts.update(extra)
    return _Unit("agent.tls." + name, _agent_template("agent_tls.c", [define]), defines=[define], enforce=enforce, lifts=lifts,
                 funcs=[_TLF + (_TLS_FUNCS[key] if key in _TLS_FUNCS else key)], min_obligations=3, doc=doc, **kw)


AGENT_UNITS += [
    _tls_unit("get_default_agent", "U_GET_DEFAULT_AGENT", "get_default_agent", "get_default_agent",
              "T: the thread's one default agent: same object on every call, constructed exactly once (first use)"),
    _tls_unit("agent_storage.ctor", "U_STORAGE_CTOR", "agent_storage_ctor", "storage_ctor",
              "I: a thread's storage initially designates that thread's default agent"),
    _tls_unit("agent_storage.set", "U_STORAGE_SET", "agent_storage_set", "storage_set", "F: exchange (installs the argument, returns the previous agent)"),
    _tls_unit("get_agent_storage", "U_GET_STORAGE", "get_agent_storage", "get_storage",
              "T: the thread's one storage: constructed once, content untouched by later calls"),
    _tls_unit("reset_agent.ctor", "U_RESET_CTOR2", "reset_agent_ctor2", "reset_ctor2", "I: installs impl in the given storage, remembers the previous agent"),
    _tls_unit("reset_agent.ctor_tls", "U_RESET_CTOR1", "reset_agent_ctor1", "reset_ctor1", "I: the same on the calling thread's storage (delegating constructor)"),
    _tls_unit("reset_agent.dtor", "U_RESET_DTOR", "reset_agent_dtor", "reset_dtor", "I: puts back the agent the constructor found"),
    _tls_unit("agent", "U_AGENT", "agent", "agent", "F: the installed agent; the thread's default agent on a plain OS thread; never null"),
    _tls_unit("suspend", "U_FWD_SUSPEND", "this_thread_suspend", "this_thread::detail::suspend",
              "T: exactly one suspend(desc) on the calling thread's current agent",
              extra={"fwd": _Lift(_TT, r"void suspend\(char const\* desc\)(?=\s*\{)", rules=_TLS_RULES)}),
    _tls_unit("yield", "U_FWD_YIELD", "this_thread_yield", "this_thread::detail::yield",
              "T: exactly one yield(desc) on the calling thread's current agent",
              extra={"fwd": _Lift(_TT, r"void yield\(char const\* desc\)(?=\s*\{)", rules=_TLS_RULES)}),
    _tls_unit("lemma.scope", "U_SCOPE", None, "this_thread::detail::reset_agent scopes (lifted bodies composed)",
              "lemma over the lifted bodies: reset_agent scopes nest and restore LIFO; agent() inside a scope is the installed agent, on a plain "
              "OS thread the default agent; one default agent and one storage per thread", kind="lemma", no_replay=True),
]

AGENT_STATIC = [
    _census.enum("pika::error::yield_aborted", "libs/pika/errors/include/pika/errors/error.hpp", "error", {"success": 0, "yield_aborted": 14}),
]

AGENT_META = {
    "explanation":
        "agent.da.*: execution::detail::default_agent, the agent behind agent_ref::suspend/resume/abort when the waiter of a pika condition "
        "variable is a plain OS thread.  M contract on (mtx_, running_, aborted_, suspend_cv_, resume_cv_) with a ghost history (suspensions "
        "published / wake-ups granted): monitor invariant `running_ == false exactly while one published suspension has not been woken` at every "
        "release point (also the one inside std::condition_variable::wait); guarantee = net effect of each critical section classified as "
        "PUBLISH (suspend only, once) / GRANT (resume|abort only, once) / LEAVE; rely = the other party's guarantee.  std cv waits are lowered "
        "by their definition (`while (!pred()) wait(l)`) and carry loop contracts; the cv stub may return spuriously and has the contract "
        "precondition 'caller may block' (awaited condition false as seen in the same critical section, publication already announced).  "
        "agent.da.lemma.*: rely/guarantee side conditions and the pair lemma (one suspend + one resume/abort, every interleaving: inductive "
        "invariant incl. 'no notification lost', no deadlock state, decreasing variant, exactly one publish and one grant at the end).  "
        "agent.tls.*: get_default_agent / agent_storage / get_agent_storage / reset_agent / agent() / this_thread::detail::suspend|yield "
        "with function-local thread_local statics as per-thread objects constructed on first pass.  "
        "agent.da.suspend.strict and agent.da.sleep_until FAIL on the pinned tree (sticky aborted_; a timed sleep is not a suspension "
        "that resume() can end) -- see the report.",
    "trusted_base": [
        "specs/C07/agent_da.h cv_wait / cv_wait_until / cv_notify_one / cv_notify_all: std::condition_variable as an environment stub -- wait "
        "releases the mutex and blocks atomically, returns with the mutex re-acquired at the environment's discretion (spurious wake-ups "
        "allowed, nothing assumed about why it returned); a notification wakes the threads blocked at that moment (used by the lemma only); "
        "vx/prelude/monitor.h ulock_* (std::unique_lock<std::mutex>; A-LOCK: mutual exclusion trusted)",
        "specs/C07/agent_da.h da_at_acquire (VX_ASSUME): when mtx_ is (re)acquired the protected state satisfies the monitor invariant and "
        "differs from the state at the caller's last release by steps admitted by the caller's rely -- justified by the DA_INV obligation at every "
        "release point of every agent.da.* unit, by agent.da.lemma.rely_guarantee (each party's guarantee step is admitted by the other's rely; "
        "relies reflexive / transitive) and by ticket uniqueness (assumptions)",
        "specs/C07/agent_da.h vx_sched_yield / vx_nanosleep / os_sleep / vx_smt_pause: operating system calls (nanosleep: POSIX validity of the "
        "timespec is an obligation); vx_throw: PIKA_THROW_EXCEPTION leaves the function through the RAII exits; vx_thread_id (opaque)",
        "specs/C07/agent_tls.c VX_LOCAL_STATIC: a function-local `static thread_local T x;` is one object per thread, constructed the first time "
        "control passes its declaration ([stmt.dcl]); agent_ref_suspend / agent_ref_yield (virtual dispatch to the designated agent: call-trace stubs)",
        "agent_spec.py rules _CvWait (predicate waits by their standard definition), _LiftL (loop contracts attached only to loops that exist), "
        "_ForVar (alpha-renaming of a for-loop counter), _LocalStatic, _DaCtorLift (mem-initialiser lists / delegating constructor as statements), "
        "_agent_template (per-unit specialisation of the #ifdef U_x blocks of a master template into specs/C07/agent_gen/)",
    ],
    "assumptions": [
        "ticket uniqueness: resume() / abort() is called on a default agent only by a party that dequeued ONE queue entry of that agent (cv.notify_one "
        "/ cv.notify_all / cv.abort_all: the symbolic entry is resumed / aborted exactly once), and the agent enqueues its next entry only after "
        "the previous suspension returned: at most one wake-up call per suspension, and no two wake-up calls are in their critical sections at "
        "the same time (RELY_RESUMER: nobody else grants)",
        "agent.da.suspend (not *.strict): no abort() was delivered to this thread's agent earlier (aborted_ == false when suspend() is called); "
        "agent.da.suspend.strict replaces the assumption by the obligation that the aborted suspension clears the flag, and fails on the pinned tree",
        "only the agent's own thread calls suspend() / sleep_until() on it (PIKA_ASSERT(*this == agent()) in agent_ref::suspend is not lifted here)",
        "the pair lemma argues termination up to fairness: spurious wake-ups are finitely many between two protocol steps; a thread that can "
        "make a step eventually makes it",
    ],
    "not_decided": [
        "std::condition_variable / std::mutex themselves (environment); memory ordering beyond the mutex",
        "more than one suspension / wake-up pair per lemma instance is covered by the ordinal g_k (history counters), but the induction over "
        "the history is the paper argument of DESIGN 3.4",
        "a repaired design for timed waits of plain OS threads (agent.da.sleep_until): the candidate shown in the report satisfies this unit's "
        "obligations but needs cooperation of detail::condition_variable::wait_until to withdraw a timed-out publication",
        "default_agent::description / context, agent_ref's own PIKA_ASSERTs, this_thread::detail::yield_k / spin_k forwarders and "
        "check_spinlock_deadlock (inactive in this configuration)",
    ],
}
