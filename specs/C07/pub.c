/* units: pika::condition_variable / pika::condition_variable_any  notify_one, notify_all, wait, wait(pred), wait_until,
 * wait_until(pred) and the stop-token forms of condition_variable_any   (T contracts, lock-order obligations in pub.h) */
#include "pub.h"
#define VX_EXC_RET cv_status_error
/* U_REUSED_EC: the caller passes an error_code that still holds the error of an earlier call (nothing in the error_code
 * convention forbids it); otherwise it passes `throws` or a clean error_code */
#ifdef U_REUSED_EC
#define PRE_EC 1
#else
#define PRE_EC (vx_throws.value == pika_error_success && g_ec.value == pika_error_success)
#endif

/* the caller holds its lock and not the internal one; the cv object and its data block are alive */
#define PUB_PRE (!g_il_owns && self == vx_self && self->data_ == g_blk && g_blk->count_ >= 1 && g_blk->count_ < VX_BIG && !g_blk->mtx_.held && !g_self_dead && \
                 g_int_releases == 0 && g_int_acquires == 0 && g_user_unlocks == 0 && g_user_locks == 0 && g_dwaits == 0 && \
                 g_dnotify_one == 0 && g_dnotify_all == 0 && vx_exc == 0 && !g_cb_registered && g_cb_runs_here == 0 && \
                 (ec == &vx_throws || ec == &g_ec) && PRE_EC && g_user_released_since_pred == false)
#define WAIT_PRE (PUB_PRE && lock == g_user && lock->held)
/* returns with the user lock re-acquired and the internal lock released (also on the exceptional exit) */
#define WAIT_POST (g_user->held && !g_blk->mtx_.held && !g_il_owns)

/* ---- notify_one / notify_all: take the internal lock, forward exactly once ---------------------------------------- */
#ifdef U_NOTIFY_ONE
//@FUNC
void notify_one(struct pcv *self, struct error_code *ec)
__CPROVER_requires(PUB_PRE)
__CPROVER_ensures(g_dnotify_one == 1 && g_dnotify_all == 0 && g_int_acquires == 1 && g_int_releases == 1 && !g_blk->mtx_.held)
__CPROVER_assigns(PUB_GHOST)
//@LIFT body
#endif
#ifdef U_NOTIFY_ALL
//@FUNC
void notify_all(struct pcv *self, struct error_code *ec)
__CPROVER_requires(PUB_PRE)
__CPROVER_ensures(g_dnotify_all == 1 && g_dnotify_one == 0 && g_int_acquires == 1 && g_int_releases == 1 && !g_blk->mtx_.held)
__CPROVER_assigns(PUB_GHOST)
//@LIFT body
#endif

/* ---- wait(lock, ec) ------------------------------------------------------------------------------------------------- */
#ifdef U_WAIT
//@FUNC
void wait(struct pcv *self, struct userlock *lock, struct error_code *ec)
__CPROVER_requires(WAIT_PRE)
/* blocks exactly once on the internal cv, with the lock order O1-O3 (asserted in the stubs) */
__CPROVER_ensures(WAIT_POST && g_dwaits == 1 && g_user_unlocks == 1 && g_user_locks == 1)
__CPROVER_ensures(g_may_die || !g_self_dead)
__CPROVER_assigns(PUB_GHOST)
//@LIFT wait_body
#endif
#ifdef U_WAIT_PRED
/* callee of the predicate form: the same lifted body, inlined (no contract) */
void wait(struct pcv *self, struct userlock *lock, struct error_code *ec)
//@LIFT wait_body
#endif

#ifdef U_WAIT_PRED
//@FUNC
void wait_pred(struct pcv *self, struct userlock *lock, struct error_code *ec)
__CPROVER_requires(WAIT_PRE && !g_may_die && g_pred_calls == 0)
/* returns with the predicate true: its last evaluation, made under the user lock which was not released since, said true */
__CPROVER_ensures(vx_exc == 0 ==> (g_pred_calls >= 1 && g_last_pred && !g_user_released_since_pred))
__CPROVER_ensures(WAIT_POST)
__CPROVER_assigns(PUB_GHOST)
//@LIFT body
#endif

/* ---- wait_until(lock, abs_time, ec) --------------------------------------------------------------------------------- */
#ifdef U_WAIT_UNTIL
//@FUNC
int wait_until(struct pcv *self, struct userlock *lock, long abs_time, struct error_code *ec)
__CPROVER_requires(WAIT_PRE)
__CPROVER_ensures(WAIT_POST && g_dwaits == 1 && g_last_timed && g_user_unlocks == 1 && g_user_locks == 1)
/* a timed wait that was signalled does not report a timeout */
__CPROVER_ensures((vx_exc == 0 && g_last_wake == thread_restart_state_signaled) ==> __CPROVER_return_value != cv_status_timeout)
__CPROVER_ensures(vx_exc == 0 ==> (__CPROVER_return_value == cv_status_no_timeout || __CPROVER_return_value == cv_status_timeout || __CPROVER_return_value == cv_status_error))
__CPROVER_ensures(g_may_die || !g_self_dead)
__CPROVER_assigns(PUB_GHOST)
//@LIFT wait_until_body
#endif
#ifdef U_WAIT_UNTIL_PRED
/* callee of the predicate form: the same lifted body, inlined (no contract) */
int wait_until(struct pcv *self, struct userlock *lock, long abs_time, struct error_code *ec)
//@LIFT wait_until_body
#endif

#ifdef U_WAIT_UNTIL_PRED
//@FUNC
bool wait_until_pred(struct pcv *self, struct userlock *lock, long abs_time, struct error_code *ec)
__CPROVER_requires(WAIT_PRE && !g_may_die && g_pred_calls == 0)
/* returns the value of the predicate (evaluated under the user lock, which was not released since) */
__CPROVER_ensures(vx_exc == 0 ==> (g_pred_calls >= 1 && __CPROVER_return_value == g_last_pred && !g_user_released_since_pred))
__CPROVER_ensures(WAIT_POST)
__CPROVER_assigns(PUB_GHOST)
//@LIFT body
#endif

/* ---- stop-token forms (condition_variable_any) ---------------------------------------------------------------------- */
/* the stop callback: the lambda [&data, &ec] of the stop-token waits */
#ifdef U_STOP_CB
//@FUNC
void stop_cb_body(struct vx_closure *clo)
__CPROVER_requires(!g_il_owns && *clo->data == g_blk && g_blk->count_ >= 1 && !g_blk->mtx_.held && g_dnotify_all < 2 && (*clo->ec == &vx_throws || *clo->ec == &g_ec))
/* takes the internal lock and notifies all, exactly once */
__CPROVER_ensures(g_dnotify_all == __CPROVER_old(g_dnotify_all) + 1 && g_dnotify_one == __CPROVER_old(g_dnotify_one) && !g_blk->mtx_.held)
__CPROVER_assigns(PUB_GHOST)
//@LIFT lambda
#endif
#if defined(U_STOP_WAIT) || defined(U_STOP_WAIT_UNTIL)
/* invoked by the stop_callback constructor when stop has already been requested: the same lifted body, inlined */
void stop_cb_body(struct vx_closure *clo)
//@LIFT lambda
#endif

#define STOP_PRE (WAIT_PRE && !g_may_die && g_pred_calls == 0 && !g_stop_seen && !g_stop_checked_false_in_cs)
#ifdef U_STOP_WAIT
//@FUNC
bool stop_wait(struct pcv *self, struct userlock *lock, stop_token stoken, struct error_code *ec)
__CPROVER_requires(STOP_PRE)
/* returns the value of the predicate ... */
__CPROVER_ensures(vx_exc == 0 ==> (g_pred_calls >= 1 && __CPROVER_return_value == g_last_pred && !g_user_released_since_pred))
/* ... and false only because stop was requested (the stub asserts that it never blocks after having observed the request) */
__CPROVER_ensures((vx_exc == 0 && !__CPROVER_return_value) ==> g_stop_seen)
__CPROVER_ensures(WAIT_POST && !g_cb_registered)
__CPROVER_assigns(PUB_GHOST)
//@LIFT body
#endif
#ifdef U_STOP_WAIT_UNTIL
//@FUNC
bool stop_wait_until(struct pcv *self, struct userlock *lock, stop_token stoken, long abs_time, struct error_code *ec)
__CPROVER_requires(STOP_PRE)
__CPROVER_ensures(vx_exc == 0 ==> (g_pred_calls >= 1 && __CPROVER_return_value == g_last_pred && !g_user_released_since_pred))
/* false only after a stop request or a timeout */
__CPROVER_ensures((vx_exc == 0 && !__CPROVER_return_value) ==> (g_stop_seen || (g_dwaits >= 1 && g_last_wake == thread_restart_state_timeout)))
__CPROVER_ensures(WAIT_POST && !g_cb_registered)
__CPROVER_assigns(PUB_GHOST)
//@LIFT body
#endif

void harness(void)
{
  struct pcv cv;
  struct cvdata blk;
  struct userlock ul;
  vx_self = &cv;
  g_blk = &blk;
  g_user = &ul;
  cv.data_ = &blk;
  blk.mtx_.held = false;
  blk.count_ = nondet_long();
  ul.held = true;
  g_il_owns = false;
  g_may_die = nondet_bool();
  g_self_dead = false;
  g_int_releases = 0; g_int_acquires = 0; g_int_held_since_user_unlock = false; g_stop_checked_false_in_cs = false;
  g_user_unlocks = 0; g_user_locks = 0; g_dwaits = 0; g_last_wake = 0; g_last_timed = false;
  g_dnotify_one = 0; g_dnotify_all = 0; g_pred_calls = 0; g_last_pred = false; g_user_released_since_pred = false;
  g_stop = nondet_bool(); g_stop_seen = false; g_cb_registered = false; g_cb_runs_here = 0; vx_exc = 0;
  vx_throws.value = pika_error_success;
  g_ec.value = nondet_int();      /* U_REUSED_EC: the caller may re-use an error_code that still holds an earlier error */
  struct error_code *ec = nondet_bool() ? &vx_throws : &g_ec;
#ifdef U_NOTIFY_ONE
  notify_one(&cv, ec);
  VX_REACH("forwarded");
#endif
#ifdef U_NOTIFY_ALL
  notify_all(&cv, ec);
  VX_REACH("forwarded");
#endif
#ifdef U_WAIT
  wait(&cv, &ul, ec);
  if (!vx_exc) VX_REACH("returned");
  if (vx_exc) VX_REACH("exception");
  if (g_self_dead) VX_REACH("cv_object_destroyed_while_blocked");
#endif
#ifdef U_WAIT_PRED
  wait_pred(&cv, &ul, ec);
  if (!vx_exc && g_dwaits == 0) VX_REACH("predicate_true_at_once");
  if (!vx_exc && g_dwaits >= 2) VX_REACH("blocked_twice");
  if (vx_exc) VX_REACH("exception");
#endif
#ifdef U_WAIT_UNTIL
  int r = wait_until(&cv, &ul, nondet_long(), ec);
  if (!vx_exc && r == cv_status_no_timeout) VX_REACH("no_timeout");
  if (!vx_exc && r == cv_status_timeout) VX_REACH("timeout");
#ifdef U_REUSED_EC
  if (!vx_exc && r == cv_status_error && g_last_wake == thread_restart_state_timeout) VX_REACH("stale_ec_timeout_reported_as_error");
#endif
  if (vx_exc) VX_REACH("exception");
  if (g_self_dead) VX_REACH("cv_object_destroyed_while_blocked");
#endif
#ifdef U_WAIT_UNTIL_PRED
  bool r = wait_until_pred(&cv, &ul, nondet_long(), ec);
  if (!vx_exc && r && g_dwaits == 0) VX_REACH("predicate_true_at_once");
  if (!vx_exc && r && g_dwaits >= 1) VX_REACH("true_after_blocking");
  if (!vx_exc && !r) VX_REACH("timed_out_predicate_false");
  if (!vx_exc && r && g_last_wake == thread_restart_state_timeout && g_dwaits >= 1) VX_REACH("timed_out_predicate_true");
#endif
#ifdef U_STOP_CB
  struct cvdata *data = &blk;
  struct vx_closure clo;
  clo.data = &data;
  clo.ec = &ec;
  stop_cb_body(&clo);
  VX_REACH("notified_all");
#endif
#ifdef U_STOP_WAIT
  bool r = stop_wait(&cv, &ul, 0, ec);
  if (!vx_exc && r && g_dwaits == 0) VX_REACH("predicate_true_at_once");
  if (!vx_exc && r && g_dwaits >= 2) VX_REACH("true_after_blocking_twice");
  if (!vx_exc && !r && g_dwaits == 0 && g_pred_calls == 1 && !g_cb_runs_here) VX_REACH("stop_already_requested_on_entry");
  if (!vx_exc && !r && g_dwaits >= 1) VX_REACH("stop_requested_while_blocked");
  if (!vx_exc && !r && g_cb_runs_here) VX_REACH("stop_requested_before_registration_callback_ran_inline");
  if (vx_exc) VX_REACH("exception");
#endif
#ifdef U_STOP_WAIT_UNTIL
  bool r = stop_wait_until(&cv, &ul, 0, nondet_long(), ec);
  if (!vx_exc && r && g_dwaits == 0) VX_REACH("predicate_true_at_once");
  if (!vx_exc && r && g_dwaits >= 2) VX_REACH("true_after_blocking_twice");
  if (!vx_exc && !r && g_stop_seen && g_dwaits >= 1) VX_REACH("stop_requested_while_blocked");
  if (!vx_exc && !r && !g_stop_seen) VX_REACH("timed_out_predicate_false");
  if (vx_exc) VX_REACH("exception");
#endif
}
