/* units: execution::detail::default_agent::{default_agent, suspend, resume, abort} (M), {sleep_until} (M), {sleep_for, yield, yield_k,
 * spin_k} (T + frame)   (execution_base/src/this_thread.cpp)
 * Every statement of the functions under contract is lifted; see agent_da.h for the protocol, ghost state and stubs. */
#include "agent_da.h"

#ifdef U_CTOR
/* a new agent (one per OS thread, constructed on first use) starts the history: running, not aborted */
//@FUNC
void default_agent_ctor(struct default_agent *self)
__CPROVER_requires(self == vx_ag && g_pub == 0 && g_wake == 0)
__CPROVER_ensures(DA_INV_G)
__CPROVER_ensures(!self->aborted_)
__CPROVER_assigns(self->running_, self->aborted_, self->id_)
//@LIFT ctor
#endif

#ifdef U_SUSPEND
//@FUNC
void suspend(struct default_agent *self, char const *desc)
/* the caller is the agent's own thread; it is not suspended (every earlier suspension was published, woken and left) */
__CPROVER_requires(DA_PRE(self) && g_role == ROLE_SUSPENDER && g_pub == g_k - 1 && g_wake == g_k - 1)
/* no abort() is pending from the past: assumption of the plain unit, invariant (re-established below) of the *.strict unit */
__CPROVER_requires(!self->aborted_)
/* publishes exactly one suspension (running_ = false; asserted at the release point: by nobody else, once) ... */
__CPROVER_ensures(g_pub == g_k && g_steps == 1)
/* ... announces it on resume_cv_ in or after that critical section (a resume() that came first is waiting for it) ... */
__CPROVER_ensures(g_step_cs >= 1 && g_ntf_res_cs >= g_step_cs)
/* ... and returns or throws only after a resume() / abort() woke THIS suspension; spurious cv wake-ups do not end it */
__CPROVER_ensures(g_wake == g_k && self->running_)
/* leaves by exception (yield_aborted) iff the wake-up was an abort() */
__CPROVER_ensures(g_wake_abort ? vx_exc != 0 : vx_exc == 0)
__CPROVER_ensures(vx_exc != 0 ==> g_err == pika_error_yield_aborted)
/* the agent's mutex is released on every exit */
__CPROVER_ensures(!self->mtx_.held)
#ifdef U_STRICT_ABORT
/* the abort is consumed by the suspension it ended: the NEXT suspension of this thread, woken by a plain resume(), must not throw */
__CPROVER_ensures(!self->aborted_)
#endif
__CPROVER_assigns(DA_FRAME)
//@LIFT body
#endif

#if defined(U_RESUME) || defined(U_ABORT)
/* the caller dequeued the waiter (it holds the only ticket for suspension g_k); the waiter may or may not have reached
 * suspend() yet: the condition variable releases its internal lock before the waiter suspends */
#define WAKE_PRE(role) (DA_PRE(self) && g_role == (role) && g_wake == g_k - 1 && (g_pub == g_k - 1 || g_pub == g_k))
/* wakes exactly one suspension, namely number g_k, at a moment where it was published (found suspended: asserted at the
 * release point through DA_INV; waits for that if necessary) -- the wake-up is neither lost nor doubled */
#define WAKE_POST (g_wake == g_k && g_pub == g_k && g_steps == 1 && self->running_)
/* ... and notifies suspend_cv_ in or after the critical section that set running_ */
#define WAKE_NOTIFIED (g_step_cs >= 1 && g_ntf_sus_cs >= g_step_cs)
#endif

#ifdef U_RESUME
//@FUNC
void resume(struct default_agent *self, char const *desc)
__CPROVER_requires(WAKE_PRE(ROLE_RESUMER))
__CPROVER_ensures(WAKE_POST)
__CPROVER_ensures(WAKE_NOTIFIED)
/* a plain resume: the suspension returns normally */
__CPROVER_ensures(!g_wake_abort && self->aborted_ == g_ab0)
__CPROVER_ensures(!self->mtx_.held && vx_exc == 0)
__CPROVER_assigns(DA_FRAME)
//@LIFT body
#endif

#ifdef U_ABORT
//@FUNC
void abort_(struct default_agent *self, char const *desc)
__CPROVER_requires(WAKE_PRE(ROLE_ABORTER))
__CPROVER_ensures(WAKE_POST)
__CPROVER_ensures(WAKE_NOTIFIED)
/* like resume, with the abort flag delivered together with the wake-up */
__CPROVER_ensures(g_wake_abort && self->aborted_)
__CPROVER_ensures(!self->mtx_.held && vx_exc == 0)
__CPROVER_assigns(DA_FRAME)
//@LIFT body
#endif

#ifdef U_SLEEP_UNTIL
/* detail::condition_variable::wait_until (cv.wait_until unit) enqueues the caller, releases the internal lock and calls
 * this_ctx.sleep_until(deadline).  A notifier that dequeues the entry then calls ctx.resume() on this agent -- cv.notify_one /
 * notify_all make that call while they HOLD the condition variable's internal lock -- and resume() returns only after it found
 * the agent suspended (agent.da.resume).  So for a plain OS thread the timed sleep has to be a suspension in that sense: */
//@FUNC
void sleep_until(struct default_agent *self, long sleep_time, char const *desc)
__CPROVER_requires(DA_PRE(self) && g_role == ROLE_SUSPENDER && g_pub == g_k - 1 && g_wake == g_k - 1 && !self->aborted_ && OS_GHOST0)
#ifndef KF_TIMED_SLEEP_IS_NOT_A_SUSPENSION
/* the sleep is published (running_ = false) and announced on resume_cv_, so that a resume() / abort() issued for it completes */
__CPROVER_ensures(g_pub == g_k && g_steps == 1)
__CPROVER_ensures(g_step_cs >= 1 && g_ntf_res_cs >= g_step_cs)
/* it ends when it is woken or when the deadline has passed, not otherwise */
__CPROVER_ensures(g_wake == g_k || g_deadline)
/* woken by abort(): leaves by exception */
__CPROVER_ensures((g_wake == g_k && g_wake_abort) ? vx_exc != 0 : vx_exc == 0)
#else
/* known finding excluded: what the function does guarantee -- it returns only after the deadline and touches nothing of the agent */
__CPROVER_ensures(g_deadline && g_pub == g_k - 1 && g_wake == g_k - 1 && g_steps == 0 && vx_exc == 0)
#endif
__CPROVER_ensures(!self->mtx_.held)
__CPROVER_assigns(DA_FRAME, OS_FRAME)
//@LIFT body
#endif

#ifdef U_SLEEP_FOR
/* no caller makes the agent the target of a resume() around sleep_for (wait_for forwards to wait_until): a plain sleep.
 * T + frame: sleeps exactly once, for the time it was given, without the agent's mutex; the monitor state is not touched */
//@FUNC
void sleep_for(struct default_agent *self, long sleep_duration, char const *desc)
__CPROVER_requires(DA_PRE(self) && OS_GHOST0)
__CPROVER_ensures(g_os_sleeps == 1 && g_slept_arg == sleep_duration && g_os_yields == 0 && g_os_nanosleeps == 0)
__CPROVER_ensures(!self->mtx_.held)
__CPROVER_assigns(OS_FRAME, g_deadline)
//@LIFT body
#endif

#ifdef U_YIELD
/* T + frame: gives up the processor exactly once, does not sleep, takes no lock; the monitor state (running_, aborted_) is not
 * in the frame: a yield is not a suspension and cannot be the target of resume() */
//@FUNC
void yield(struct default_agent *self, char const *desc)
__CPROVER_requires(DA_PRE(self) && OS_GHOST0)
__CPROVER_ensures(g_os_yields == 1 && g_os_nanosleeps == 0 && g_os_sleeps == 0)
__CPROVER_ensures(!self->mtx_.held)
__CPROVER_assigns(OS_FRAME)
//@LIFT body
#endif

#ifdef U_YIELD_K
/* T + frame: one back-off action per call -- a pause instruction, a sched_yield or a sub-second nanosleep with a valid
 * timespec (asserted in the stub) -- for every k; never the agent's mutex, never the monitor state */
//@FUNC
void yield_k(struct default_agent *self, size_t k, char const *desc)
__CPROVER_requires(DA_PRE(self) && OS_GHOST0)
__CPROVER_ensures(g_pauses + g_os_yields + g_os_nanosleeps == 1 && g_os_sleeps == 0)
__CPROVER_ensures(!self->mtx_.held)
__CPROVER_assigns(OS_FRAME)
//@LIFT body
#endif

#ifdef U_SPIN_K
/* T + frame: k pause instructions, no OS call, no lock */
//@FUNC
void spin_k(struct default_agent *self, size_t k, char const *desc)
__CPROVER_requires(DA_PRE(self) && OS_GHOST0 && k <= VX_BIG)
__CPROVER_ensures(g_pauses == (long) k && g_os_yields == 0 && g_os_nanosleeps == 0 && g_os_sleeps == 0)
__CPROVER_ensures(!self->mtx_.held)
__CPROVER_assigns(OS_FRAME)
//@LIFT body
#endif

void harness(void)
{
  struct default_agent ag;
  vx_ag = &ag;
  ag.suspend_cv_.id = CV_SUSPEND;
  ag.resume_cv_.id = CV_RESUME;
  ag.mtx_.held = false;
  ag.id_ = 0;
  ag.running_ = nondet_bool();
  ag.aborted_ = nondet_bool();
  g_k = nondet_long();
  g_pub = nondet_long();
  g_wake = nondet_long();
  g_wake_abort = nondet_bool();
  g_run_acq = false; g_ab_acq = false;
  g_cs = 0; g_steps = 0; g_step_cs = 0; g_ntf_sus_cs = -1; g_ntf_res_cs = -1; g_waits_sus = 0; g_waits_res = 0;
  g_in_wait = false; g_spurious = false; g_interfered = false; vx_exc = 0; g_err = 0; g_deadline = false;
  g_os_yields = 0; g_os_nanosleeps = 0; g_os_sleeps = 0; g_pauses = 0; g_slept_arg = 0;
  g_ab0 = ag.aborted_;
  bool ab0 = ag.aborted_;
  long pub0 = g_pub;
#ifdef U_CTOR
  g_role = ROLE_NONE;
  g_pub = 0; g_wake = 0;
  default_agent_ctor(&ag);
  if (ag.running_) VX_REACH("constructed_running");
#endif
#ifdef U_SUSPEND
  g_role = ROLE_SUSPENDER;
  suspend(&ag, "suspend");
  if (vx_exc == 0) VX_REACH("resumed_returns");
  if (vx_exc != 0) VX_REACH("aborted_throws");
  if (g_spurious && vx_exc == 0) VX_REACH("spurious_wakeup_did_not_end_the_suspension");
  if (g_waits_sus == 1) VX_REACH("woken_at_first_wakeup");
#endif
#ifdef U_RESUME
  g_role = ROLE_RESUMER;
  resume(&ag, "resume");
  if (pub0 == g_k && g_waits_res == 0) VX_REACH("target_was_suspended");
  if (pub0 == g_k - 1 && g_waits_res > 0) VX_REACH("resume_came_first_waited_for_the_target_to_suspend");
  if (g_spurious) VX_REACH("spurious_wakeup");
  if (ab0) VX_REACH("stale_aborted_left_alone");
#endif
#ifdef U_SLEEP_UNTIL
  g_role = ROLE_SUSPENDER;
  sleep_until(&ag, nondet_long(), "sleep_until");
  if (g_deadline && vx_exc == 0) VX_REACH("deadline_passed");
#ifndef KF_TIMED_SLEEP_IS_NOT_A_SUSPENSION
  if (g_wake == g_k && vx_exc == 0) VX_REACH("resumed_before_the_deadline");
  if (vx_exc != 0) VX_REACH("aborted_throws");
#endif
#endif
#ifdef U_SLEEP_FOR
  g_role = ROLE_NONE;
  sleep_for(&ag, nondet_long(), "sleep_for");
  VX_REACH("slept");
#endif
#ifdef U_YIELD
  g_role = ROLE_NONE;
  yield(&ag, "yield");
  VX_REACH("yielded");
#endif
#ifdef U_YIELD_K
  g_role = ROLE_NONE;
  size_t k = nondet_size();
  yield_k(&ag, k, "yield_k");
  if (g_pauses == 1) VX_REACH("pause");
  if (g_os_yields == 1) VX_REACH("sched_yield");
  if (g_os_nanosleeps == 1) VX_REACH("nanosleep");
#endif
#ifdef U_SPIN_K
  g_role = ROLE_NONE;
  size_t k = nondet_size();
  spin_k(&ag, k, "spin_k");
  if (k == 0) VX_REACH("zero");
  if (k > 2) VX_REACH("many");
#endif
#ifdef U_ABORT
  g_role = ROLE_ABORTER;
  abort_(&ag, "abort");
  if (pub0 == g_k && g_waits_res == 0) VX_REACH("target_was_suspended");
  if (pub0 == g_k - 1 && g_waits_res > 0) VX_REACH("abort_came_first_waited_for_the_target_to_suspend");
  if (g_spurious) VX_REACH("spurious_wakeup");
#endif
}
