/* C07 -- detail::condition_variable: model of the intrusive waiter list, ghost state, monitor invariant, stubs.
 *
 * boost::intrusive::slist<queue_entry, cache_last, constant_time_size> is a *sequence stub*: a list object is an id,
 * its length a ghost scalar.  Entries are anonymous except ONE symbolic entry, the victim (ghost pointer g_vent),
 * which stands for "any entry": which list links it (g_vq_id), at which position (g_vpos, 0 = front).  Its fields
 * ctx_ and q_ are real memory written by the lifted code.  The front entry of a list, when it is not the victim, is
 * a scratch object whose ctx_ is chosen afresh whenever the front changes.
 *   wait / wait_until units:   the victim is the caller's own stack entry `f` (bound by push_back)
 *   notify / abort units:      the victim is an arbitrary entry linked at an arbitrary position when the call starts
 *
 * Monitor invariant (asserted at every release point of the internal lock, assumed of the environment):
 *   WF_V:  victim linked   ==>  ctx_ != null  /\  q_ designates the list that links it  /\  0 <= pos < length
 *          victim unlinked ==>  ctx_ == null  (or the entry no longer exists)
 *   i.e. "an entry whose ctx_ is still set can be erased from *q_" -- what reset_queue_entry relies on.
 * execution::detail::agent_ref is a wrapper of one pointer: an integer token here (0 = default constructed).
 */
#ifndef C07_CV_H
#define C07_CV_H
#include "vx.h"

#define VX_BIG 1000000000L
typedef long agent_ref;
enum { AG_NULL = 0, AG_SELF = 1, AG_VICTIM = 2, AG_OTHER = 3 };
enum { Q_NONE = 0, Q_MAIN = 1, Q_LOCAL = 2, Q_FOREIGN = 3 };
struct slist { int id; };                                   /* queue_type */
struct queue_entry { agent_ref ctx_; void *q_; };           /* slist_hook_ is inside the sequence stub */
struct reset_queue_entry { struct queue_entry *e_; struct queue_entry *last_; };   /* const_iterator == node pointer */
struct condition_variable { struct slist queue_; };

static struct condition_variable *vx_cv;
static struct vx_mutex *vx_mtx;
static long g_n_main, g_n_local, g_n_foreign;               /* lengths of queue_, of the function's local list, of a foreign list */
static struct queue_entry g_fo_main, g_fo_local, g_fo_foreign; /* front entry of each list when it is not the victim */
static struct slist g_foreign;                              /* local list of a concurrent abort_all (wait units) */
static struct queue_entry g_scratch;                        /* any non-victim entry reached through an iterator */
static bool g_wf_ctx;                                       /* every linked entry carries a non-null agent (established by wait) */

static struct queue_entry *g_vent;                          /* the victim (NULL: not bound yet) */
static int g_vq_id;                                         /* list that links it, Q_NONE = unlinked */
static long g_vpos;
static bool g_v_gone;                                       /* the environment removed the victim (timed-out waiter erased itself /
                                                               another notifier dequeued it): the entry no longer exists */
static long g_pushes, g_erases, g_suspends;                 /* this call: push_back / erase / suspend|sleep_until (saturating at 2) */
static int g_erased_from;                                   /* list id the entry was erased from */
static bool g_env_signaled;                                 /* wait units: a notifier dequeued the caller's entry while it was suspended */
static long g_releases, g_acquires;                         /* release / acquire points of the internal lock passed by this call */
static long g_resumes, g_aborts;                            /* agent_ref::resume / abort calls (all entries) */
static long g_v_resumed, g_v_aborted;                       /* ... on the victim's agent (saturating at 2) */
static bool g_unl_pending;                                  /* the lock has been released and nothing was done with the freedom yet */
static int vx_exc;                                          /* an exception is in flight (suspend/sleep_until threw) */

#define LEN(id) (*((id) == Q_MAIN ? &g_n_main : (id) == Q_LOCAL ? &g_n_local : &g_n_foreign))
#define FO(id) ((id) == Q_MAIN ? &g_fo_main : (id) == Q_LOCAL ? &g_fo_local : &g_fo_foreign)
#define QID(p) (((struct slist *) (p))->id)
#define LEN_OK (g_n_main >= 0 && g_n_main <= VX_BIG && g_n_local >= 0 && g_n_local <= VX_BIG && g_n_foreign >= 0 && g_n_foreign <= VX_BIG)
#define V_LINKED_OK (g_vent->ctx_ != AG_NULL && QID(g_vent->q_) == g_vq_id && 0 <= g_vpos && g_vpos < LEN(g_vq_id))
#define WF_V (g_vent == NULL || (g_vq_id == Q_NONE ? (g_v_gone || g_vent->ctx_ == AG_NULL) : V_LINKED_OK))
#define OTHER_OK(t) ((t) == AG_OTHER || (!g_wf_ctx && (t) == AG_NULL))
#define FRONTS_OK (OTHER_OK(g_fo_main.ctx_) && OTHER_OK(g_fo_local.ctx_) && OTHER_OK(g_fo_foreign.ctx_))
#define OWNS_P(l) ((l)->owns && (l)->m == vx_mtx && vx_mtx->held)
#define OWNS_V(l) ((l).owns && (l).m == vx_mtx && vx_mtx->held)
#define CV_GHOST g_n_main, g_n_local, g_n_foreign, g_fo_main.ctx_, g_fo_local.ctx_, g_fo_foreign.ctx_, g_scratch, g_vent, g_vq_id, g_vpos, \
                 g_v_gone, g_pushes, g_erases, g_suspends, g_erased_from, g_env_signaled, g_releases, g_acquires, g_resumes, g_aborts, \
                 g_v_resumed, g_v_aborted, g_unl_pending, vx_exc, vx_mtx->held

static agent_ref nondet_other_agent(void) { return (g_wf_ctx || nondet_bool()) ? AG_OTHER : AG_NULL; }
static void vx_refresh_front(int id) { FO(id)->ctx_ = nondet_other_agent(); }
static long nondet_len(long lo, long hi)
{
  long n = nondet_long();
  VX_ASSUME(lo <= n && n <= hi); /* ghost range only: list lengths stay within [0, 10^9] */
  return n;
}

/* ---- the environment: what other agents' critical sections may have done when the lock is re-acquired ------------ */
#ifdef ENV_WAIT
/* The caller was suspended with its entry enqueued.  By the guarantee of every other unit (WF_V at each of their
 * release points) its own entry is in exactly one of three conditions; the rest of queue_ is arbitrary. */
static void cv_env(void)
{
  g_n_main = nondet_len(0, VX_BIG - 1);
  vx_refresh_front(Q_MAIN);
  if (g_vq_id == Q_NONE) return;              /* never enqueued: no notifier can find the entry */
  int k = nondet_int();
  if (k == 0)
  { /* a notifier (notify_one / notify_all / abort_all) dequeued the entry: ctx_ cleared, unlinked, agent resumed */
    g_vent->ctx_ = AG_NULL;
    g_vq_id = Q_NONE;
    g_env_signaled = true;
  }
  else if (k == 1)
  { /* nobody touched it (deadline passed, spurious resumption, interruption): still linked in queue_ */
    g_n_main = nondet_len(1, VX_BIG - 1);
    g_vpos = nondet_len(0, g_n_main - 1);
  }
  else
  { /* a concurrent abort_all swapped the list out, re-targeted q_, and is unlocked around ctx.abort() of another entry */
    g_n_foreign = nondet_len(1, VX_BIG - 1);
    g_vpos = nondet_len(0, g_n_foreign - 1);
    g_vq_id = Q_FOREIGN;
    g_vent->q_ = &g_foreign;
  }
}
#else
/* The caller is a notifier that had released the lock (abort_all around ctx.abort()).  New waiters enqueue on queue_,
 * other notifiers dequeue from it, timed-out waiters erase themselves from the list their q_ names.  The function's local
 * list is reachable only through q_ of its entries: it can only shrink. */
static void cv_env(void)
{
  long local0 = g_n_local;
  g_n_main = nondet_len(0, VX_BIG - 1);
  vx_refresh_front(Q_MAIN);
  g_n_local = nondet_len(0, local0);
  vx_refresh_front(Q_LOCAL);
  if (g_vent == NULL || g_vq_id == Q_NONE) return;
  if (nondet_bool())
  { /* the victim timed out and erased itself (or, in queue_, was dequeued by another notifier): it is gone */
    if (g_vq_id == Q_LOCAL) g_n_local = nondet_len(0, local0 - 1);
    g_vq_id = Q_NONE;
    g_v_gone = true;
  }
  else if (g_vq_id == Q_LOCAL)
  { /* still linked in the local list, possibly further to the front */
    g_n_local = nondet_len(1, local0);
    g_vpos = nondet_len(0, g_vpos < g_n_local ? g_vpos : g_n_local - 1);
  }
  else
  {
    g_n_main = nondet_len(1, VX_BIG - 1);
    g_vpos = nondet_len(0, g_n_main - 1);
  }
}
#endif

static void cv_at_release(void)
{
  VX_ASSERT(LEN_OK, "ghost range");
  VX_ASSERT(WF_V, "monitor invariant at release: a linked entry has ctx_ set and q_ naming the list that links it; an unlinked one has ctx_ cleared");
#ifdef ENV_WAIT
  VX_ASSERT(g_pushes == 1 && g_vq_id == Q_MAIN,
            "the internal lock is released only after the caller has been enqueued (no window for a lost notification)");
#endif
  if (g_releases < VX_BIG) g_releases++;
  g_unl_pending = true;
}
static void cv_at_acquire(void)
{
  if (g_acquires < VX_BIG) g_acquires++;
#ifdef U_ABORT_ALL
  VX_ASSERT(!g_unl_pending, "the internal lock is released only around ctx.abort(): it was released and re-acquired without an abort in between");
#endif
  cv_env();
}
#define MON_AT_RELEASE() cv_at_release()
#define MON_AT_ACQUIRE() cv_at_acquire()
#include "monitor.h"

/* ---- pika::error_code / pika::throws (as specs/C06/mtx.h) --------------------------------------------------------- */
enum pika_error { pika_error_success = 0, pika_error_null_thread_id = 37 };
struct error_code { int value; };
static struct error_code vx_throws;   /* the pika::throws sentinel (compared by address only) */
static struct error_code g_ec;        /* the caller's error_code object when it does not pass `throws` */
static int g_err;
static long g_errs;
static bool g_thrown;
/* pika::detail::throws_if: throw iff &ec == &throws, else ec := code.  Returns true iff thrown. */
static bool vx_throws_if(struct error_code *ec, int errcode)
{
  VX_ASSERT(!vx_mtx->held, "an error is reported only after the internal lock has been released");
  g_err = errcode;
  if (g_errs < 2) g_errs++;
  if (ec == &vx_throws) { g_thrown = true; return true; }
  ec->value = errcode;
  return false;
}
#define EC_GHOST g_err, g_errs, g_thrown, g_ec.value

/* ---- boost::intrusive::slist as a sequence stub ------------------------------------------------------------------- */
static void list_access(void)
{
  VX_ASSERT(vx_mtx->held, "monitor discipline: the waiter list is accessed while the internal lock is released");
}
static void slist_init(struct slist *q) { q->id = Q_LOCAL; g_n_local = 0; }            /* queue_type queue; */
static void slist_dtor(struct slist *q)
{
  VX_ASSERT(LEN(q->id) == 0, "a list object is destroyed while entries are still linked in it (their q_ dangles)");
}
static bool slist_empty(struct slist *q) { list_access(); return LEN(q->id) == 0; }
static size_t slist_size(struct slist *q) { list_access(); return (size_t) LEN(q->id); }
static struct queue_entry *slist_front(struct slist *q)
{
  list_access();
  VX_ASSERT(LEN(q->id) > 0, "slist::front on an empty list");
  return (g_vent != NULL && g_vq_id == q->id && g_vpos == 0) ? g_vent : FO(q->id);
}
/* q.last(): iterator to the last element */
static struct queue_entry *slist_last_it(struct slist *q)
{
  list_access();
  VX_ASSERT(LEN(q->id) > 0, "slist::last on an empty list");
  return (g_vent != NULL && g_vq_id == q->id && g_vpos == LEN(q->id) - 1) ? g_vent : &g_scratch;
}
static void slist_pop_front(struct slist *q)
{
  list_access();
  VX_ASSERT(LEN(q->id) > 0, "slist::pop_front on an empty list");
  LEN(q->id)--;
  if (g_vent != NULL && g_vq_id == q->id) { if (g_vpos == 0) g_vq_id = Q_NONE; else g_vpos--; }
  vx_refresh_front(q->id);
}
static void slist_push_back(struct slist *q, struct queue_entry *e)
{
  list_access();
  VX_ASSERT(LEN(q->id) < VX_BIG, "ghost range");
  VX_ASSERT(e->ctx_ != AG_NULL, "invariant: an enqueued entry carries a non-null agent");
  VX_ASSERT(g_vent == NULL, "ghost: one entry is enqueued per wait");
  g_vent = e;
  g_vq_id = q->id;
  g_vpos = LEN(q->id);
  LEN(q->id)++;
  if (g_pushes < 2) g_pushes++;
}
/* q->erase(it): boost walks *q from its root to find the predecessor of `it` -- undefined if `it` is not linked in *q */
static void slist_erase(struct slist *q, struct queue_entry *it)
{
  list_access();
  VX_ASSERT(it == g_vent, "erase through an iterator that does not designate the caller's own entry");
  VX_ASSERT(g_vq_id != Q_NONE, "erase of an entry that is not linked (a notifier already dequeued it)");
  VX_ASSERT(q->id == g_vq_id, "the entry is erased from a list other than the one that currently links it");
  g_erased_from = q->id;
  LEN(q->id)--;
  if (g_vpos == 0) vx_refresh_front(q->id);
  g_vq_id = Q_NONE;
  if (g_erases < 2) g_erases++;
}
/* a.swap(b): the entries change lists; no entry field is touched */
static void slist_swap(struct slist *a, struct slist *b)
{
  list_access();
  long n = LEN(a->id);
  LEN(a->id) = LEN(b->id);
  LEN(b->id) = n;
  agent_ref t = FO(a->id)->ctx_;
  FO(a->id)->ctx_ = FO(b->id)->ctx_;
  FO(b->id)->ctx_ = t;
  if (g_vent != NULL && g_vq_id == a->id) g_vq_id = b->id;
  else if (g_vent != NULL && g_vq_id == b->id) g_vq_id = a->id;
}
/* a.splice(a.end(), b): all entries of b are appended to a, b becomes empty */
static struct queue_entry g_end_sentinel;
static struct queue_entry *slist_end_it(struct slist *q) { list_access(); return &g_end_sentinel; }
static void slist_splice(struct slist *a, struct queue_entry *pos, struct slist *b)
{
  list_access();
  VX_ASSERT(pos == &g_end_sentinel, "sequence stub: only splice(end(), other) is modelled");
  VX_ASSERT(a->id != b->id, "splice of a list into itself");
  VX_ASSERT(LEN(a->id) <= VX_BIG - LEN(b->id), "ghost range");
  if (g_vent != NULL && g_vq_id == b->id) { g_vpos += LEN(a->id); g_vq_id = a->id; }
  if (LEN(a->id) == 0) FO(a->id)->ctx_ = FO(b->id)->ctx_;
  LEN(a->id) += LEN(b->id);
  LEN(b->id) = 0;
}
/* q.begin() as a node iterator */
static struct queue_entry *slist_begin_it(struct slist *q)
{
  list_access();
  return (g_vent != NULL && g_vq_id == q->id && g_vpos == 0) ? g_vent : &g_scratch;
}
/* range-for over a list, lowered by the RangeForList rule to an index loop */
static long slist_begin(struct slist *q) { list_access(); return 0; }
static long slist_end(struct slist *q) { list_access(); return LEN(q->id); }
static long slist_next(struct slist *q, long it) { list_access(); return it + 1; }
static struct queue_entry *slist_at(struct slist *q, long it)
{
  list_access();
  VX_ASSERT(0 <= it && it < LEN(q->id), "iterator dereferenced past the end");
  return (g_vent != NULL && g_vq_id == q->id && g_vpos == it) ? g_vent : &g_scratch;
}

/* ---- execution agents (opaque; what suspend/resume do underneath is C02) ------------------------------------------- */
static agent_ref vx_this_agent(void) { return AG_SELF; }
static void agent_reset(agent_ref *a) { *a = AG_NULL; }
static void vx_block(agent_ref a)
{
  VX_ASSERT(a == AG_SELF, "PIKA_ASSERT(*this == agent()): suspends a foreign agent");
  VX_ASSERT(!vx_mtx->held, "the caller suspends while holding the internal lock (no notifier could ever dequeue it)");
  if (g_suspends < 2) g_suspends++;
  if (nondet_bool()) vx_exc = 1; /* interruption / abort: the suspension ends with an exception */
}
static void agent_suspend(agent_ref a) { vx_block(a); }
static void agent_sleep_until(agent_ref a, long t) { vx_block(a); }
/* order predicates of a wake-up, stated on the symbolic entry */
static void vx_wake(agent_ref a)
{
  VX_ASSERT(a != AG_NULL, "resume/abort through a null agent_ref");
  VX_ASSERT(a != AG_SELF, "PIKA_ASSERT(*this != agent()): wakes itself");
  VX_ASSERT(g_vent == NULL || g_vq_id == Q_NONE || QID(g_vent->q_) == g_vq_id,
            "q_ of every linked entry names the list that links it before any agent is woken");
  if (a == AG_VICTIM)
  {
    VX_ASSERT(!g_v_gone, "an agent is woken through an entry that no longer exists");
    VX_ASSERT(g_vq_id == Q_NONE, "the entry is unlinked before its agent is woken");
    VX_ASSERT(g_vent->ctx_ == AG_NULL, "ctx_ of the entry is cleared before its agent is woken");
  }
}
static void agent_resume(agent_ref a)
{
  vx_wake(a);
  if (a == AG_VICTIM && g_v_resumed < 2) g_v_resumed++;
  if (g_resumes < VX_BIG) g_resumes++;
}
static void agent_abort(agent_ref a)
{
  vx_wake(a);
  VX_ASSERT(!vx_mtx->held, "ctx.abort() can suspend: it is called with the internal lock released");
  VX_ASSERT(g_unl_pending, "one release of the internal lock per ctx.abort()");
  g_unl_pending = false;
  if (a == AG_VICTIM && g_v_aborted < 2) g_v_aborted++;
  if (g_aborts < VX_BIG) g_aborts++;
}
static long steady_value(long t) { return t; }
/* a clock read: any value (deadlines are opaque, see META) */
static long vx_clock_now(void) { long t = nondet_long(); return t; }
#define VX_EXC_RET thread_restart_state_unknown
#endif
