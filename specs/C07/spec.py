import re

from vx.lift import Lift, Sub, Call, Members, Guard, DropStmt, Auto, Rule, LiftError, match_close, split_args, locate, resolve_pp, \
    apply_rules, GENERIC_RULES, splice_loops, _stmt_end
from vx.run import Unit

CVC = "libs/pika/synchronization/src/detail/condition_variable.cpp"
CVH = "libs/pika/synchronization/include/pika/synchronization/detail/condition_variable.hpp"
PUB = "libs/pika/synchronization/include/pika/synchronization/condition_variable.hpp"


# ---------------------------------------------------------------------------------------------------------------
# local helper rules (purely structural)


class CtorLift(Lift):
    """A constructor: the mem-initialiser list `: a_(x), b_(y.f())` becomes the assignments `self->a_ = (x); self->b_ = (y.f());`
    in front of the (lifted) constructor body; the unit rules are applied to the result."""

    def run(self):
        body, line, header = locate(self.src, self.locate, self.which, self.expect, ctor=True)
        raw = header + body
        # header = "<name>(<params>) : inits"   (text from the locator match up to the body's opening brace)
        op = header.index("(")
        cl = match_close(header, op)
        rest = header[cl + 1:].strip()
        if not rest.startswith(":"):
            raise LiftError("CtorLift: no mem-initialiser list after /%s/" % self.locate)
        inits = []
        for item in split_args(rest[1:]):
            m = re.match(r"\s*(\w+)\s*[({](.*)[)}]\s*$", item, re.S)
            if not m:
                raise LiftError("CtorLift: cannot parse initialiser %r" % item)
            inits.append("self->%s = (%s);" % (m.group(1), m.group(2).strip()))
        text = "{ " + " ".join(inits) + " " + body.strip()[1:]
        text = resolve_pp(text)
        text = apply_rules(text, self.rules)
        text = apply_rules(text, GENERIC_RULES)
        text = apply_rules(text, self.post)
        text, nloops = splice_loops(text, self.loops)
        return {"text": text, "line": line, "file": self.src, "raw": raw, "nloops": nloops, "header": header}


class RangeForList(Rule):
    """`for (T& x : c) BODY`  ->  `for (long vx_itK = slist_begin(&c); vx_itK != slist_end(&c); vx_itK = slist_next(&c, vx_itK))
    { struct T *x = slist_at(&c, vx_itK); BODY' }`  with  x.  ->  x->  inside BODY (BODY = block or single statement)."""

    def __init__(self, n=None):
        self.n = n

    def apply(self, text):
        k = 0
        rx = re.compile(r"\bfor\s*\(\s*(?:const\s+)?([\w:]+)\s*(?:const\s*)?&\s*(\w+)\s*:\s*(\w+)\s*\)\s*")
        while True:
            m = rx.search(text)
            if not m:
                break
            k += 1
            ty, x, c = m.group(1).split("::")[-1], m.group(2), m.group(3)
            b = m.end()
            if text[b] == "{":
                e = match_close(text, b, "{", "}")
                body, end = text[b + 1:e], e + 1
            else:
                e = _stmt_end(text, b)
                body, end = text[b:e + 1], e + 1
            body = re.sub(r"(?<![\w.>])%s\." % re.escape(x), x + "->", body)
            it = "vx_it%d" % k
            rep = ("for (long %s = slist_begin(&%s); %s != slist_end(&%s); %s = slist_next(&%s, %s)) "
                   "{ struct %s *%s = slist_at(&%s, %s); %s }") % (it, c, it, c, it, c, it, ty, x, c, it, body)
            text = text[:m.start()] + rep + text[end:]
        self.check(k, "RangeForList")
        return text


class RefEntry(Rule):
    """`queue_entry& x = E;` -> `struct queue_entry *x = E;` (E is already a pointer-valued stub call) and later `x.` -> `x->`"""

    def __init__(self, n=None):
        self.n = n

    def apply(self, text):
        k = 0
        rx = re.compile(r"\bqueue_entry\s*&\s*(\w+)\s*=\s*")
        while True:
            m = rx.search(text)
            if not m:
                break
            k += 1
            x = m.group(1)
            tail = re.sub(r"(?<![\w.>])%s\." % re.escape(x), x + "->", text[m.end():])
            text = text[:m.start()] + "struct queue_entry *%s = " % x + tail
        self.check(k, "RefEntry")
        return text


class GuardF(Guard):
    """Guard whose ctor replacement may be a function of the match (vx.lift.Guard expands templates only)."""

    def apply(self, text):
        from vx.lift import _lower_one_guard
        ms = list(re.finditer(self.decl, text, re.S))
        self.check(len(ms), "Guard(/%s/)" % self.decl)
        for idx in range(len(ms) - 1, -1, -1):
            m = list(re.finditer(self.decl, text, re.S))[idx]
            ctor = self.ctor(m) if callable(self.ctor) else m.expand(self.ctor)
            text = _lower_one_guard(text, m, ctor, m.expand(self.dtor))
        return text



# ---------------------------------------------------------------------------------------------------------------
# spelling of the C++ vocabulary used by detail::condition_variable  (fire counts free: the same list serves all units;
# what is called where, and in which order, is the lifted code's)

ENUM = Sub(r"(?:(?:pika::)?threads::detail::)?thread_restart_state::(\w+)", r"thread_restart_state_\1", None)
ERRC = Sub(r"\bpika::error::(\w+)", r"pika_error_\1", None)


def throws_if(ret):
    return Call(r"\bPIKA_THROWS_IF", "{ if (vx_throws_if({0}, {1})) return %s; }" % ret, None, stmt=True)


def blocking(ret):
    """suspend / sleep_until may end with an exception (interruption, abort): leave through the RAII exits"""
    return [
        Call(r"\b(\w+)\.suspend", "{ agent_suspend({h1}); if (vx_exc) return %s; }" % ret, None, stmt=True),
        Call(r"\b(\w+)\.sleep_until", "{ agent_sleep_until({h1}, {0}); if (vx_exc) return %s; }" % ret, None, stmt=True),
    ]


LIST = [
    RangeForList(None),
    Sub(r"\b(\w+)\.front\(\)\.", r"slist_front(&\1)->", None),
    Sub(r"\b(\w+)\.front\(\)", r"slist_front(&\1)", None),
    Sub(r"\b(\w+)(\.|->)(empty|size|pop_front)\(\)", lambda m: "slist_%s(%s%s)" % (m.group(3), "&" if m.group(2) == "." else "", m.group(1)), None),
    Call(r"\b(\w+)\.push_back", "slist_push_back(&{h1}, &{0})", None),
    Call(r"\b(\w+)\.swap", "slist_swap(&{h1}, &{0})", None),
    Call(r"\b(\w+)->erase", "slist_erase({h1}, {0})", None),
    Sub(r"\b(\w+)\.end\(\)", r"slist_end_it(&\1)", None),
    Call(r"\b(\w+)\.splice", "slist_splice(&{h1}, {0}, &{1})", None),
    Sub(r"\bqueue_type\s+(\w+)\s*;", r"struct slist \1; slist_init(&\1); VX_LIST_SCOPE(\1);", None),
    Sub(r"\bqueue_type\b", "struct slist", None),
    RefEntry(None),
]
AGENT = [
    Sub(r"(?:pika::)?execution::this_thread::detail::agent\(\)", "vx_this_agent()", None),
    Sub(r"((?:slist_front\(&\w+\)->|\b\w+(?:\.|->))ctx_)\.reset\(\)", r"agent_reset(&(\1))", None),
    Call(r"\b(\w+)\.(resume|abort)", "agent_{h2}({h1})", None),
    Sub(r"\b(\w+)\.value\(\)", r"steady_value(\1)", None),
]
EC = [
    Sub(r"&ec (!=|==) &throws", r"ec \1 &vx_throws", None),
    Sub(r"\bec = make_success_code\(\);", "ec->value = pika_error_success;", None),
]
# RAII (inner guards first, so that destructors come out in reverse order of construction)
UNLOCK_GUARD_P = Guard(r"(?:::)?(?:pika::)?detail::unlock_guard\s*<[^;()]*>\s*\w+\s*\(\s*(\w+)\s*\)\s*;", r"ulock_unlock(\1);", r"ulock_lock(\1);", None)
UNLOCK_GUARD_V = Guard(r"(?:::)?(?:pika::)?detail::unlock_guard\s*<[^;()]*>\s*\w+\s*\(\s*(\w+)\s*\)\s*;", r"ulock_unlock(&\1);", r"ulock_lock(&\1);", None)
LIST_SCOPE = Guard(r"VX_LIST_SCOPE\((\w+)\);", "", r"slist_dtor(&\1);", None)
RQE = GuardF(r"\breset_queue_entry\s+(\w+)\s*\(([^;()]*)\)\s*;",
            lambda m: "struct reset_queue_entry %s; reset_queue_entry_ctor(&%s, %s);" % (
                m.group(1), m.group(1), ", ".join("&" + a.strip() for a in m.group(2).split(","))),
            r"reset_queue_entry_dtor(&\1);", None)
QE = Sub(r"\bqueue_entry\s+(\w+)\s*\(([^;]*)\)\s*;", r"struct queue_entry \1; queue_entry_ctor(&\1, \2);", None)
LOCK_BYVAL = Guard(r"^\{", "{", "ulock_dtor(&lock);", 1)


def cv_rules(lock_by_value, ret="", extra=()):
    owns = Sub(r"\b(\w+)\.owns_lock\(\)", r"vx_owns_v(\1)" if lock_by_value else r"vx_owns_p(\1)", None)
    rules = list(extra) + [ENUM, ERRC, throws_if(ret)] + blocking(ret) + LIST + AGENT + EC + [owns, QE]
    if lock_by_value:
        rules += [Sub(r"\b(\w+)\.unlock\(\)", r"ulock_unlock(&\1)", None), Sub(r"std::move\(lock\)", "ulock_move(&lock)", None),
                  UNLOCK_GUARD_V, LIST_SCOPE, LOCK_BYVAL]
    else:
        rules += [UNLOCK_GUARD_P, RQE, LIST_SCOPE]
    return rules + [Members(["queue_"], optional=["queue_"])]



POST = [Auto(None)]

HELPERS = {
    "queue_entry_ctor": CtorLift(CVH, r"\bqueue_entry\(pika::execution::detail::agent_ref ctx, void\* q\)"),
    "rqe_ctor": CtorLift(CVH, r"\breset_queue_entry\(queue_entry& e, queue_type& q\)", rules=[
        Sub(r"\b(\w+)\.(last|begin)\(\)", r"slist_\2_it(\1)", 1)]),
    "rqe_dtor": Lift(CVH, r"~reset_queue_entry\(\)", rules=[
        Sub(r"\be_\.", "self->e_->", None),
        Call(r"\b(\w+)->erase", "slist_erase({h1}, {0})", None),
        Sub(r"\bqueue_type\b", "struct slist", None),
        Members(["last_"])]),
}
HELPER_FUNCS = [CVH + ": detail::condition_variable::queue_entry::queue_entry, reset_queue_entry::reset_queue_entry, ~reset_queue_entry"]

LOOP_RETARGET = """
__CPROVER_assigns(%(it)s, g_scratch, g_vent->q_)
__CPROVER_loop_invariant(0 <= %(it)s && %(it)s <= g_n_local && queue.id == Q_LOCAL && vx_mtx->held)
__CPROVER_loop_invariant((g_vq_id == Q_LOCAL && g_vpos < %(it)s) ==> g_vent->q_ == (void *) &queue)
__CPROVER_loop_invariant((g_vq_id == Q_LOCAL && g_vpos >= %(it)s) ==> g_vent->q_ == (void *) &self->queue_)
"""
LOOP_NOTIFY_ALL = """
__CPROVER_assigns(g_n_local, g_fo_local.ctx_, g_vq_id, g_vpos, g_resumes, g_v_resumed, g_vent->ctx_)
__CPROVER_loop_invariant(queue.id == Q_LOCAL && vx_mtx->held && lock.owns && lock.m == vx_mtx && g_n_main == 0 && g_n_local >= 0 && g_n_local <= g_n0)
__CPROVER_loop_invariant(g_resumes == g_n0 - g_n_local && OTHER_OK(g_fo_local.ctx_))
__CPROVER_loop_invariant(g_vq_id == Q_LOCAL || g_vq_id == Q_NONE)
__CPROVER_loop_invariant(g_vq_id == Q_LOCAL ==> (g_vq0 == Q_MAIN && 0 <= g_vpos && g_vpos < g_n_local && g_vent->ctx_ == AG_VICTIM && g_vent->q_ == (void *) &queue && g_v_resumed == 0))
__CPROVER_loop_invariant((g_vq_id == Q_NONE && g_vq0 == Q_MAIN) ==> (g_v_resumed == 1 && g_vent->ctx_ == AG_NULL))
__CPROVER_loop_invariant((g_vq_id == Q_NONE && g_vq0 == Q_NONE) ==> (g_v_resumed == 0 && g_vent->ctx_ == AG_NULL))
"""

CVF = CVC + ": detail::condition_variable::"
UNITS = [
    Unit("cv.wait", "cv.c", defines=["U_WAIT", "ENV_WAIT"], enforce="wait",
         lifts=dict(HELPERS, body=Lift(CVC, r"thread_restart_state condition_variable::wait\(", rules=cv_rules(False, "VX_EXC_RET"), post=POST)),
         funcs=[CVF + "wait"] + HELPER_FUNCS, min_obligations=40),
    Unit("cv.wait_until", "cv.c", defines=["U_WAIT_UNTIL", "ENV_WAIT"], enforce="wait_until",
         lifts=dict(HELPERS, body=Lift(CVC, r"thread_restart_state condition_variable::wait_until\(", rules=cv_rules(False, "VX_EXC_RET"), post=POST)),
         funcs=[CVF + "wait_until"] + HELPER_FUNCS, min_obligations=40),
    Unit("cv.notify_one", "cv.c", defines=["U_NOTIFY_ONE"], enforce="notify_one",
         lifts={"body": Lift(CVC, r"bool condition_variable::notify_one\(", rules=cv_rules(True, "false"), post=POST)},
         funcs=[CVF + "notify_one"], min_obligations=40),
    Unit("cv.notify_all", "cv.c", defines=["U_NOTIFY_ALL"], enforce="notify_all",
         lifts={"body": Lift(CVC, r"void condition_variable::notify_all\(", rules=cv_rules(True), post=POST,
                             loops={1: LOOP_RETARGET % {"it": "vx_it1"}, 2: LOOP_NOTIFY_ALL, "count": 2})},
         funcs=[CVF + "notify_all"], min_obligations=40),
]

V_CASES = """
__CPROVER_loop_invariant((g_vq_id == Q_NONE && g_vq0 == Q_MAIN) ==> (g_v_gone ? g_v_aborted == 0 : (g_v_aborted == 1 && g_vent->ctx_ == AG_NULL)))
__CPROVER_loop_invariant(g_vq0 == Q_NONE ==> (g_vq_id == Q_NONE && g_v_aborted == 0 && !g_v_gone && g_vent->ctx_ == AG_NULL))
__CPROVER_loop_invariant(lock.owns && lock.m == vx_mtx && vx_mtx->held && !g_unl_pending && self == vx_cv && self->queue_.id == Q_MAIN)
__CPROVER_loop_invariant(LEN_OK && OTHER_OK(g_fo_main.ctx_) && OTHER_OK(g_fo_local.ctx_))
__CPROVER_loop_invariant(0 <= g_releases && g_releases <= VX_BIG && 0 <= g_acquires && g_acquires <= VX_BIG && 0 <= g_aborts && g_aborts <= VX_BIG && g_resumes == 0)
"""
LOOP_ABORT_OUTER = """
__CPROVER_assigns(g_n_main, g_n_local, g_fo_main.ctx_, g_fo_local.ctx_, g_scratch, g_vq_id, g_vpos, g_v_gone, g_releases, g_acquires, g_aborts, g_v_aborted, g_unl_pending, vx_mtx->held, lock.owns, g_vent->ctx_, g_vent->q_)
__CPROVER_loop_invariant(g_vq_id == Q_MAIN || g_vq_id == Q_NONE)
__CPROVER_loop_invariant(g_vq_id == Q_MAIN ==> (g_vq0 == Q_MAIN && 0 <= g_vpos && g_vpos < g_n_main && g_vent->ctx_ == AG_VICTIM && g_vent->q_ == (void *) &self->queue_ && g_v_aborted == 0 && !g_v_gone))
""" + V_CASES
LOOP_ABORT_INNER = """
__CPROVER_assigns(g_n_main, g_n_local, g_fo_main.ctx_, g_fo_local.ctx_, g_vq_id, g_vpos, g_v_gone, g_releases, g_acquires, g_aborts, g_v_aborted, g_unl_pending, vx_mtx->held, lock.owns, g_vent->ctx_)
__CPROVER_loop_invariant(queue.id == Q_LOCAL && (g_vq_id == Q_LOCAL || g_vq_id == Q_NONE))
__CPROVER_loop_invariant(g_vq_id == Q_LOCAL ==> (g_vq0 == Q_MAIN && 0 <= g_vpos && g_vpos < g_n_local && g_vent->ctx_ == AG_VICTIM && g_vent->q_ == (void *) &queue && g_v_aborted == 0 && !g_v_gone))
""" + V_CASES

UNITS += [
    Unit("cv.abort_all", "cv.c", defines=["U_ABORT_ALL"], enforce="abort_all_impl",
         lifts={"impl": Lift(CVC, r"void condition_variable::abort_all\(std::unique_lock<Mutex> lock\)", rules=cv_rules(True), post=POST,
                             loops={1: LOOP_ABORT_OUTER, 2: LOOP_RETARGET % {"it": "vx_it1"}, 3: LOOP_ABORT_INNER, "count": 3}),
                "body": Lift(CVC, r"void condition_variable::abort_all\(std::unique_lock<mutex_type> lock\)", rules=[
                    Sub(r"\babort_all<mutex_type>\(", "abort_all_impl(self, ", 1)] + cv_rules(True), post=POST)},
         funcs=[CVF + "abort_all<Mutex> (template), abort_all (forwarder)"], min_obligations=60),
    Unit("cv.prepend_entries", "cv.c", defines=["U_PREPEND"], enforce="prepend_entries",
         lifts={"body": Lift(CVC, r"void condition_variable::prepend_entries\(", rules=cv_rules(False), post=POST)},
         funcs=[CVF + "prepend_entries"], min_obligations=20),
    Unit("cv.size", "cv.c", defines=["U_SIZE"], enforce="size",
         lifts={"body": Lift(CVC, r"std::size_t condition_variable::size\(", rules=cv_rules(False), post=POST)},
         funcs=[CVF + "size"], min_obligations=5),
    Unit("cv.empty", "cv.c", defines=["U_EMPTY"], enforce="empty",
         lifts={"empty": Lift(CVC, r"bool condition_variable::empty\(", rules=cv_rules(False), post=POST)},
         funcs=[CVF + "empty"], min_obligations=5),
]

META = {
    "trusted_base": [],
    "assumptions": [],
    "not_decided": [],
}
