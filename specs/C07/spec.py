import re

from vx.lift import Lift, Sub, Call, Members, Guard, DropStmt, Auto, Rule, LiftError, match_close, split_args, locate, resolve_pp, \
    apply_rules, GENERIC_RULES, splice_loops, _stmt_end
from vx.run import Unit

CVC = "libs/pika/synchronization/src/detail/condition_variable.cpp"
CVH = "libs/pika/synchronization/include/pika/synchronization/detail/condition_variable.hpp"
PUB = "libs/pika/synchronization/include/pika/synchronization/condition_variable.hpp"


# ---------------------------------------------------------------------------------------------------------------
# local helper rules (purely structural)


class CtorLift(Lift):
    """A constructor: the mem-initialiser list `: a_(x), b_(y.f())` becomes the assignments `self->a_ = (x); self->b_ = (y.f());`
    in front of the (lifted) constructor body; the unit rules are applied to the result."""

    def run(self):
        body, line, header = locate(self.src, self.locate, self.which, self.expect, ctor=True)
        raw = header + body
        # header = "<name>(<params>) : inits"   (text from the locator match up to the body's opening brace)
        op = header.index("(")
        cl = match_close(header, op)
        rest = header[cl + 1:].strip()
        if not rest.startswith(":"):
            raise LiftError("CtorLift: no mem-initialiser list after /%s/" % self.locate)
        inits = []
        for item in split_args(rest[1:]):
            m = re.match(r"\s*(\w+)\s*[({](.*)[)}]\s*$", item, re.S)
            if not m:
                raise LiftError("CtorLift: cannot parse initialiser %r" % item)
            inits.append("self->%s = (%s);" % (m.group(1), m.group(2).strip()))
        text = "{ " + " ".join(inits) + " " + body.strip()[1:]
        text = resolve_pp(text)
        text = apply_rules(text, self.rules)
        text = apply_rules(text, GENERIC_RULES)
        text = apply_rules(text, self.post)
        text, nloops = splice_loops(text, self.loops)
        return {"text": text, "line": line, "file": self.src, "raw": raw, "nloops": nloops, "header": header}


class IterForList(Rule):
    """`for (auto it = c.begin(); it != c.end(); ++it) BODY` -> the range-for over c it is (`it->` / `(*it).` become the element):
    lowered further by RangeForList"""

    def __init__(self, n=None):
        self.n = n

    def apply(self, text):
        k = 0
        rx = re.compile(r"\bfor\s*\(\s*auto\s+(\w+)\s*=\s*(\w+)\.begin\(\)\s*;\s*\1\s*!=\s*\2\.end\(\)\s*;\s*(?:\+\+\s*\1|\1\s*\+\+)\s*\)\s*")
        while True:
            m = rx.search(text)
            if not m:
                break
            k += 1
            it, c = m.group(1), m.group(2)
            b = m.end()
            if text[b] == "{":
                e = match_close(text, b, "{", "}")
            else:
                e = _stmt_end(text, b)
            body = text[b:e + 1]
            x = "vx_e%d" % k
            body = re.sub(r"(?<![\w.>])%s->" % re.escape(it), x + ".", body)
            body = re.sub(r"\(\*%s\)\." % re.escape(it), x + ".", body)
            text = text[:m.start()] + "for (queue_entry& %s : %s) " % (x, c) + body + text[e + 1:]
        self.check(k, "IterForList")
        return text


class RangeForList(Rule):
    """`for (T& x : c) BODY`  ->  `for (long vx_itK = slist_begin(&c); vx_itK != slist_end(&c); vx_itK = slist_next(&c, vx_itK))
    { struct T *x = slist_at(&c, vx_itK); BODY' }`  with  x.  ->  x->  inside BODY (BODY = block or single statement)."""

    def __init__(self, n=None):
        self.n = n

    def apply(self, text):
        k = 0
        rx = re.compile(r"\bfor\s*\(\s*(?:const\s+)?([\w:]+)\s*(?:const\s*)?&\s*(\w+)\s*:\s*(\w+)\s*\)\s*")
        while True:
            m = rx.search(text)
            if not m:
                break
            k += 1
            ty, x, c = m.group(1).split("::")[-1], m.group(2), m.group(3)
            b = m.end()
            if text[b] == "{":
                e = match_close(text, b, "{", "}")
                body, end = text[b + 1:e], e + 1
            else:
                e = _stmt_end(text, b)
                body, end = text[b:e + 1], e + 1
            body = re.sub(r"(?<![\w.>])%s\." % re.escape(x), x + "->", body)
            it = "vx_it%d" % k
            rep = ("for (long %s = slist_begin(&%s); %s != slist_end(&%s); %s = slist_next(&%s, %s)) "
                   "{ struct %s *%s = slist_at(&%s, %s); %s }") % (it, c, it, c, it, c, it, ty, x, c, it, body)
            text = text[:m.start()] + rep + text[end:]
        self.check(k, "RangeForList")
        return text


class RefEntry(Rule):
    """`queue_entry& x = E;` -> `struct queue_entry *x = E;` (E is already a pointer-valued stub call) and later `x.` -> `x->`"""

    def __init__(self, n=None):
        self.n = n

    def apply(self, text):
        k = 0
        rx = re.compile(r"\bqueue_entry\s*&\s*(\w+)\s*=\s*")
        while True:
            m = rx.search(text)
            if not m:
                break
            k += 1
            x = m.group(1)
            tail = re.sub(r"(?<![\w.>])%s\." % re.escape(x), x + "->", text[m.end():])
            text = text[:m.start()] + "struct queue_entry *%s = " % x + tail
        self.check(k, "RefEntry")
        return text


class Guards(Rule):
    """Several RAII guard kinds lowered together, in reverse TEXTUAL order of their declarations (the object declared last is
    lowered first, so that its destructor text comes out first at every scope exit): the destruction order is that of the lifted
    text, not of the rule list.  specs = [(decl regex, ctor template or function(match), dtor template)]."""

    def __init__(self, specs):
        self.specs, self.n = specs, None

    def apply(self, text):
        from vx.lift import _lower_one_guard
        for _ in range(64):
            best = None
            for (decl, ctor, dtor) in self.specs:
                for m in re.finditer(decl, text, re.S):
                    if best is None or m.start() > best[0].start():
                        best = (m, ctor, dtor)
            if best is None:
                return text
            m, ctor, dtor = best
            text = _lower_one_guard(text, m, ctor(m) if callable(ctor) else m.expand(ctor), m.expand(dtor))
        raise LiftError("Guards: lowering does not terminate (a constructor text matches a declaration pattern)")


class GuardF(Guard):
    """Guard whose ctor replacement may be a function of the match (vx.lift.Guard expands templates only)."""

    def apply(self, text):
        from vx.lift import _lower_one_guard
        ms = list(re.finditer(self.decl, text, re.S))
        self.check(len(ms), "Guard(/%s/)" % self.decl)
        for idx in range(len(ms) - 1, -1, -1):
            m = list(re.finditer(self.decl, text, re.S))[idx]
            ctor = self.ctor(m) if callable(self.ctor) else m.expand(self.ctor)
            text = _lower_one_guard(text, m, ctor, m.expand(self.dtor))
        return text



# ---------------------------------------------------------------------------------------------------------------
# spelling of the C++ vocabulary used by detail::condition_variable  (fire counts free: the same list serves all units;
# what is called where, and in which order, is the lifted code's)

ENUM = Sub(r"(?:(?:pika::)?threads::detail::)?thread_restart_state::(\w+)", r"thread_restart_state_\1", None)
ERRC = Sub(r"\bpika::error::(\w+)", r"pika_error_\1", None)


def throws_if(ret):
    return Call(r"\bPIKA_THROWS_IF", "{ if (vx_throws_if({0}, {1})) return %s; }" % ret, None, stmt=True)


def blocking(ret):
    """suspend / sleep_until may end with an exception (interruption, abort): leave through the RAII exits"""
    return [
        Call(r"\b(\w+)\.suspend", "{ agent_suspend({h1}); if (vx_exc) return %s; }" % ret, None, stmt=True),
        Call(r"\b(\w+)\.sleep_until", "{ agent_sleep_until({h1}, {0}); if (vx_exc) return %s; }" % ret, None, stmt=True),
    ]


LIST = [
    IterForList(None),
    RangeForList(None),
    Sub(r"\b(\w+)\.front\(\)\.", r"slist_front(&\1)->", None),
    Sub(r"\b(\w+)\.front\(\)", r"slist_front(&\1)", None),
    Sub(r"\b(\w+)(\.|->)(empty|size|pop_front)\(\)", lambda m: "slist_%s(%s%s)" % (m.group(3), "&" if m.group(2) == "." else "", m.group(1)), None),
    Call(r"\b(\w+)\.push_back", "slist_push_back(&{h1}, &{0})", None),
    Call(r"\b(\w+)\.swap", "slist_swap(&{h1}, &{0})", None),
    Call(r"static_cast<queue_type\s*\*>\((\w+(?:\.|->)q_)\)->erase", "slist_erase((struct slist *) ({h1}), {0})", None),
    Call(r"\b(\w+)->erase", "slist_erase({h1}, {0})", None),
    Sub(r"\b(\w+)\.(last|begin)\(\)", r"slist_\2_it(&\1)", None),
    Sub(r"\b(\w+)\.end\(\)", r"slist_end_it(&\1)", None),
    Call(r"\b(\w+)\.splice", "slist_splice(&{h1}, {0}, &{1})", None),
    Sub(r"\bqueue_type\s+(\w+)\s*;", r"struct slist \1; slist_init(&\1); VX_LIST_SCOPE(\1);", None),
    Sub(r"\bqueue_type\b", "struct slist", None),
    RefEntry(None),
]
AGENT = [
    Sub(r"(?:pika::)?execution::this_thread::detail::agent\(\)", "vx_this_agent()", None),
    Sub(r"((?:slist_front\(&\w+\)->|\b\w+(?:\.|->))ctx_)\.reset\(\)", r"agent_reset(&(\1))", None),
    Call(r"\b(\w+)\.(resume|abort)", "agent_{h2}({h1})", None),
    Sub(r"\b(\w+)\.value\(\)", r"steady_value(\1)", None),
    Sub(r"(?:pika|std)::chrono::(?:steady|high_resolution|system)_clock::now\(\)", "vx_clock_now()", None),
]
EC = [
    Sub(r"&ec (!=|==) &throws", r"ec \1 &vx_throws", None),
    Sub(r"\bec = make_success_code\(\);", "ec->value = pika_error_success;", None),
]
# RAII (inner guards first, so that destructors come out in reverse order of construction)
UG = r"(?:::)?(?:pika::)?detail::unlock_guard\s*<[^;()]*>\s*\w+\s*\(\s*(\w+)\s*\)\s*;"
UNLOCK_GUARD_P = (UG, r"ulock_unlock(\1);", r"ulock_lock(\1);")
UNLOCK_GUARD_V = (UG, r"ulock_unlock(&\1);", r"ulock_lock(&\1);")
LIST_SCOPE = (r"VX_LIST_SCOPE\((\w+)\);", "", r"slist_dtor(&\1);")
RQE = (r"\breset_queue_entry\s+(\w+)\s*\(([^;()]*)\)\s*;",
       lambda m: "struct reset_queue_entry %s; reset_queue_entry_ctor(&%s, %s);" % (
           m.group(1), m.group(1), ", ".join("&" + a.strip() for a in m.group(2).split(","))),
       r"reset_queue_entry_dtor(&\1);")
QE = Sub(r"\bqueue_entry\s+(\w+)\s*\(([^;]*)\)\s*;", r"struct queue_entry \1; queue_entry_ctor(&\1, \2);", None)
LOCK_BYVAL = Guard(r"^\{", "{", "ulock_dtor(&lock);", 1)


def cv_rules(lock_by_value, ret="", extra=()):
    owns = Sub(r"\b(\w+)\.owns_lock\(\)", r"vx_owns_v(\1)" if lock_by_value else r"vx_owns_p(\1)", None)
    rules = list(extra) + [ENUM, ERRC, throws_if(ret)] + blocking(ret) + LIST + AGENT + EC + [owns, QE]
    if lock_by_value:
        rules += [Sub(r"\b(\w+)\.unlock\(\)", r"ulock_unlock(&\1)", None), Sub(r"std::move\(lock\)", "ulock_move(&lock)", None),
                  Guards([UNLOCK_GUARD_V, LIST_SCOPE]), LOCK_BYVAL]
    else:
        rules += [Guards([UNLOCK_GUARD_P, RQE, LIST_SCOPE])]
    return rules + [Members(["queue_"], optional=["queue_"])]



POST = [Auto(None)]

HELPERS = {
    "queue_entry_ctor": CtorLift(CVH, r"\bqueue_entry\(pika::execution::detail::agent_ref ctx, void\* q\)"),
    "rqe_ctor": CtorLift(CVH, r"\breset_queue_entry\(queue_entry& \w+, queue_type&(?: \w+)?\)", rules=[
        Sub(r"\b(\w+)\.(last|begin)\(\)", r"slist_\2_it(\1)", None)]),
    "rqe_dtor": Lift(CVH, r"~reset_queue_entry\(\)", rules=[
        Sub(r"\be_\.", "self->e_->", None),
        Sub(r"\b(\w+)->(last|begin)\(\)", r"slist_\2_it(\1)", None),
        Call(r"\b(\w+)->erase", "slist_erase({h1}, {0})", None),
        Sub(r"\bqueue_type\b", "struct slist", None),
        Members(["last_"], optional=["last_"])]),
}
HELPER_FUNCS = [CVH + ": detail::condition_variable::queue_entry::queue_entry, reset_queue_entry::reset_queue_entry, ~reset_queue_entry"]

LOOP_RETARGET = """
__CPROVER_assigns(%(it)s, g_scratch, g_vent->q_)
__CPROVER_loop_invariant(0 <= %(it)s && %(it)s <= g_n_local && queue.id == Q_LOCAL && vx_mtx->held)
__CPROVER_loop_invariant((g_vq_id == Q_LOCAL && g_vpos < %(it)s) ==> g_vent->q_ == (void *) &queue)
__CPROVER_loop_invariant((g_vq_id == Q_LOCAL && g_vpos >= %(it)s) ==> g_vent->q_ == (void *) &self->queue_)
"""
LOOP_NOTIFY_ALL = """
__CPROVER_assigns(g_n_local, g_fo_local.ctx_, g_vq_id, g_vpos, g_resumes, g_v_resumed, g_vent->ctx_)
__CPROVER_loop_invariant(queue.id == Q_LOCAL && vx_mtx->held && lock.owns && lock.m == vx_mtx && g_n_main == 0 && g_n_local >= 0 && g_n_local <= g_n0)
__CPROVER_loop_invariant(g_resumes == g_n0 - g_n_local && OTHER_OK(g_fo_local.ctx_))
__CPROVER_loop_invariant(g_vq_id == Q_LOCAL || g_vq_id == Q_NONE)
__CPROVER_loop_invariant(g_vq_id == Q_LOCAL ==> (g_vq0 == Q_MAIN && 0 <= g_vpos && g_vpos < g_n_local && g_vent->ctx_ == AG_VICTIM && g_vent->q_ == (void *) &queue && g_v_resumed == 0))
__CPROVER_loop_invariant((g_vq_id == Q_NONE && g_vq0 == Q_MAIN) ==> (g_v_resumed == 1 && g_vent->ctx_ == AG_NULL))
__CPROVER_loop_invariant((g_vq_id == Q_NONE && g_vq0 == Q_NONE) ==> (g_v_resumed == 0 && g_vent->ctx_ == AG_NULL))
"""

CVF = CVC + ": detail::condition_variable::"
UNITS = [
    Unit("cv.wait", "cv.c", defines=["U_WAIT", "ENV_WAIT"], enforce="wait",
         lifts=dict(HELPERS, body=Lift(CVC, r"thread_restart_state condition_variable::wait\(", rules=cv_rules(False, "VX_EXC_RET"), post=POST)),
         funcs=[CVF + "wait"] + HELPER_FUNCS, min_obligations=40),
    Unit("cv.wait_until", "cv.c", defines=["U_WAIT_UNTIL", "ENV_WAIT"], enforce="wait_until",
         lifts=dict(HELPERS, body=Lift(CVC, r"thread_restart_state condition_variable::wait_until\(", rules=cv_rules(False, "VX_EXC_RET"), post=POST)),
         funcs=[CVF + "wait_until"] + HELPER_FUNCS, min_obligations=40),
    Unit("cv.notify_one", "cv.c", defines=["U_NOTIFY_ONE"], enforce="notify_one",
         lifts={"body": Lift(CVC, r"bool condition_variable::notify_one\(", rules=cv_rules(True, "false"), post=POST)},
         funcs=[CVF + "notify_one"], min_obligations=40),
    Unit("cv.notify_all", "cv.c", defines=["U_NOTIFY_ALL"], enforce="notify_all",
         lifts={"body": Lift(CVC, r"void condition_variable::notify_all\(", rules=cv_rules(True), post=POST,
                             loops={1: LOOP_RETARGET % {"it": "vx_it1"}, 2: LOOP_NOTIFY_ALL, "count": 2})},
         funcs=[CVF + "notify_all"], min_obligations=40),
]

V_CASES = """
__CPROVER_loop_invariant((g_vq_id == Q_NONE && g_vq0 == Q_MAIN) ==> (g_v_gone ? g_v_aborted == 0 : (g_v_aborted == 1 && g_vent->ctx_ == AG_NULL)))
__CPROVER_loop_invariant(g_vq0 == Q_NONE ==> (g_vq_id == Q_NONE && g_v_aborted == 0 && !g_v_gone && g_vent->ctx_ == AG_NULL))
__CPROVER_loop_invariant(lock.owns && lock.m == vx_mtx && vx_mtx->held && !g_unl_pending && self == vx_cv && self->queue_.id == Q_MAIN)
__CPROVER_loop_invariant(LEN_OK && OTHER_OK(g_fo_main.ctx_) && OTHER_OK(g_fo_local.ctx_))
__CPROVER_loop_invariant(0 <= g_releases && g_releases <= VX_BIG && 0 <= g_acquires && g_acquires <= VX_BIG && 0 <= g_aborts && g_aborts <= VX_BIG && g_resumes == 0)
"""
LOOP_ABORT_OUTER = """
__CPROVER_assigns(g_n_main, g_n_local, g_fo_main.ctx_, g_fo_local.ctx_, g_scratch, g_vq_id, g_vpos, g_v_gone, g_releases, g_acquires, g_aborts, g_v_aborted, g_unl_pending, vx_mtx->held, lock.owns, g_vent->ctx_, g_vent->q_)
__CPROVER_loop_invariant(g_vq_id == Q_MAIN || g_vq_id == Q_NONE)
__CPROVER_loop_invariant(g_vq_id == Q_MAIN ==> (g_vq0 == Q_MAIN && 0 <= g_vpos && g_vpos < g_n_main && g_vent->ctx_ == AG_VICTIM && g_vent->q_ == (void *) &self->queue_ && g_v_aborted == 0 && !g_v_gone))
""" + V_CASES
LOOP_ABORT_INNER = """
__CPROVER_assigns(g_n_main, g_n_local, g_fo_main.ctx_, g_fo_local.ctx_, g_vq_id, g_vpos, g_v_gone, g_releases, g_acquires, g_aborts, g_v_aborted, g_unl_pending, vx_mtx->held, lock.owns, g_vent->ctx_)
__CPROVER_loop_invariant(queue.id == Q_LOCAL && (g_vq_id == Q_LOCAL || g_vq_id == Q_NONE))
__CPROVER_loop_invariant(g_vq_id == Q_LOCAL ==> (g_vq0 == Q_MAIN && 0 <= g_vpos && g_vpos < g_n_local && g_vent->ctx_ == AG_VICTIM && g_vent->q_ == (void *) &queue && g_v_aborted == 0 && !g_v_gone))
""" + V_CASES

UNITS += [
    Unit("cv.abort_all", "cv.c", defines=["U_ABORT_ALL"], enforce="abort_all_impl",
         lifts={"impl": Lift(CVC, r"void condition_variable::abort_all\(std::unique_lock<Mutex> lock\)", rules=cv_rules(True), post=POST,
                             loops={1: LOOP_ABORT_OUTER, 2: LOOP_RETARGET % {"it": "vx_it1"}, 3: LOOP_ABORT_INNER, "count": 3}),
                "body": Lift(CVC, r"void condition_variable::abort_all\(std::unique_lock<mutex_type> lock\)", rules=[
                    Sub(r"\babort_all<mutex_type>\(", "abort_all_impl(self, ", 1)] + cv_rules(True), post=POST)},
         funcs=[CVF + "abort_all<Mutex> (template), abort_all (forwarder)"], min_obligations=60),
    Unit("cv.prepend_entries", "cv.c", defines=["U_PREPEND"], enforce="prepend_entries",
         lifts={"body": Lift(CVC, r"void condition_variable::prepend_entries\(", rules=cv_rules(False), post=POST)},
         funcs=[CVF + "prepend_entries"], min_obligations=20),
    Unit("cv.size", "cv.c", defines=["U_SIZE"], enforce="size",
         lifts={"body": Lift(CVC, r"std::size_t condition_variable::size\(", rules=cv_rules(False), post=POST)},
         funcs=[CVF + "size"], min_obligations=5),
    Unit("cv.empty", "cv.c", defines=["U_EMPTY"], enforce="empty",
         lifts={"empty": Lift(CVC, r"bool condition_variable::empty\(", rules=cv_rules(False), post=POST)},
         funcs=[CVF + "empty"], min_obligations=5),
]

# ---------------------------------------------------------------------------------------------------------------
# unit groups 2 and 3: public pika::condition_variable / condition_variable_any (specs/C07/pub.h, pub.c)


class Call0(Call):
    """Call with n=None but WITHOUT the fixed-point re-scan of vx.lift.Call: needed when the replacement text contains the head
    again (callee -> same-named C function).  (copied from specs/C19/spec.py)"""

    def __init__(self, head, template, stmt=False):
        Call.__init__(self, head, template, None, stmt)

    def apply(self, text):
        self._nested = True
        return Call.apply(self, text)


class LambdaOut(Rule):
    """`auto f = [&a, &b] { BODY };` -> `struct vx_closure f; f.a = &a; f.b = &b;` (the body is lifted separately, as a function
    taking the closure)"""

    def __init__(self, n=1):
        self.n = n

    def apply(self, text):
        k = 0
        rx = re.compile(r"\bauto\s+(\w+)\s*=\s*\[([^\]]*)\]\s*(?:\(\s*\)\s*)?\{")
        while True:
            m = rx.search(text)
            if not m:
                break
            k += 1
            cl = match_close(text, m.end() - 1, "{", "}")
            ms = re.match(r"\s*;", text[cl + 1:])
            if not ms:
                raise LiftError("LambdaOut: lambda is not a complete declaration")
            caps = [c.strip() for c in m.group(2).split(",") if c.strip()]
            if any(not c.startswith("&") or not re.match(r"&\w+$", c) for c in caps):
                raise LiftError("LambdaOut: only by-reference captures are supported: %r" % caps)
            f = m.group(1)
            rep = "struct vx_closure %s; " % f + " ".join("%s.%s = &%s;" % (f, c[1:], c[1:]) for c in caps)
            text = text[:m.start()] + rep + text[cl + 1 + ms.end():]
        self.check(k, "LambdaOut")
        return text


BLK = r"vx_blk\((?:vx_data_\(self\)|\w+)\)"
EC_BOOL = Sub(r"(\bif \(|!)ec\b(?!\.|->)", r"\1vx_ec_bool(ec)", None)


def pub_rules(exc_ret, stop=False):
    r = [
        Sub(r"\bPIKA_ASSERT_OWNS_LOCK\((\w+)\);", r"VX_PIKA_ASSERT(user_owns(\1));", None),
        Sub(r"(?:\[\[maybe_unused\]\]\s*)?util::ignore_all_while_checking \w+;", "", None),
        ENUM, Sub(r"\bcv_status::(\w+)", r"cv_status_\1", None),
        Sub(r"(?:pika::)?threads::detail::thread_restart_state const (\w+)", r"int const \1", None),
        Sub(r"\bdata_->", "vx_blk(vx_data_(self))->", None),
        Sub(r"\bdata->", "vx_blk(data)->", None),
        Call(r"(%s)->cond_\.wait" % BLK, "{ dcv_wait(&{h1}->cond_, &{0}, {1}); if (vx_exc) return %s; }" % exc_ret, None, stmt=True),
        Call(r"(%s)->cond_\.wait_until" % BLK, "dcv_wait_until(&{h1}->cond_, &{0}, {1}, {2})", None),
        Sub(r"(=\s*dcv_wait_until\([^;]*\);)", r"\1 if (vx_exc) return %s;" % exc_ret, None),
        Call(r"(%s)->cond_\.(notify_one|notify_all)" % BLK, lambda a, e: "dcv_%s(&%s->cond_, %s, %s)" % (
            e["h2"], e["h1"], re.sub(r"^std::move\((\w+)\)$", r"ilock_move(&\1)", a[0]), a[1]), None),
        # any other look at the internal cv's queue (not in the pinned tree): an obligation "internal lock held" (specs/C07/pub.h dcv_query)
        Call(r"(%s)->cond_\.(?!wait\b|wait_until\b|notify_one\b|notify_all\b)(\w+)" % BLK, "dcv_query(&{h1}->cond_)", None),
        Sub(r"(?<![\w.>:])pred\(\)", "pred_call()", None),
        Call0(r"(?<![\w.>:])wait", "{ wait(self, {0}, &vx_throws); if (vx_exc) return %s; }" % exc_ret, stmt=True),
        Call0(r"(?<![\w.>:_])wait_until", "wait_until(self, {0}, {1}, {2})"),
        Sub(r"\b(\w+)\.stop_requested\(\)", r"stop_requested(\1)", None),
        EC_BOOL,
    ] + EC
    # ghost local: the caller's error_code value when the predicate loop is entered (for the loop invariant only)
    r += [Sub(r"(\bwhile\s*\()", r"int vx_ec_in = g_ec.value; \1", None)]
    if stop:
        r += [LambdaOut(None)]
    # RAII: all guard kinds lowered together, in reverse textual order of declaration
    g = [
        (r"std::lock_guard<std::unique_lock<mutex_type>> (\w+)\((\w+), std::adopt_lock\);", "", r"ilock_unlock(&\2);"),
        (r"(?:::)?pika::detail::unlock_guard<[^;()]*> (\w+)\((\w+)\);", r"user_unlock(\2);", r"user_lock(\2);"),
        (r"std::unique_lock<mutex_type> (\w+)\((%s->mtx_)\);" % BLK, r"struct ilock \1 = ilock_make(&\2);", r"ilock_dtor(&\1);"),
        (r"\bauto (\w+) = data_;", r"struct cvdata *\1 = iptr_copy(vx_data_(self));", r"iptr_release(\1);"),
    ]
    if stop:
        g += [(r"stop_callback<decltype\((\w+)\)> (\w+)\((\w+), std::move\(\1\)\);",
               r"struct stop_callback \2 = stop_callback_make(\3, \1);", r"stop_callback_dtor(&\2);")]
    r += [Guards(g)]
    return r


LK = r"(?:std::unique_lock<Mutex>|Lock)& lock"
TP = r"pika::chrono::steady_time_point const& abs_time"
L_NOTIFY_ONE = r"void notify_one\(error_code& ec = throws\)"
L_NOTIFY_ALL = r"void notify_all\(error_code& ec = throws\)"
L_WAIT = r"void wait\(%s, error_code& ec = throws\)" % LK
L_WAIT_PRED = r"void wait\(%s, Predicate pred, error_code&" % LK
L_WAIT_UNTIL = r"cv_status wait_until\(\s*%s,\s*%s,\s*error_code& ec = throws\)" % (LK, TP)
L_WAIT_UNTIL_PRED = r"wait_until\(%s,\s*%s,\s*Predicate pred,\s*error_code& ec = throws\)" % (LK, TP)

LOOP_PRED = """
__CPROVER_assigns(PUB_GHOST)
__CPROVER_loop_invariant(self == vx_self && self->data_ == g_blk && lock == g_user && g_user->held && !g_blk->mtx_.held && !g_il_owns && !g_self_dead && !g_may_die)
__CPROVER_loop_invariant(g_blk->count_ >= 1 && g_blk->count_ < VX_BIG && vx_exc == 0 && !g_cb_registered && g_pred_calls >= 0 && g_pred_calls <= 2 && (g_ec.value == vx_ec_in || g_ec.value == pika_error_success))
__CPROVER_loop_invariant(g_dwaits >= 0 && g_dwaits <= 2 && (g_dwaits == 0 || !g_last_timed || g_last_wake != thread_restart_state_timeout))
"""


def pub_units(idx, cls):
    P = "pub.%s." % ("cv" if idx == 0 else "cv_any")
    F = PUB + ": pika::" + cls + "::"

    def L(pat, exc_ret="", loops=None):
        return Lift(PUB, pat, which=idx, expect=2, rules=pub_rules(exc_ret), post=POST, loops=loops)

    return [
        Unit(P + "notify_one", "pub.c", defines=["U_NOTIFY_ONE"], enforce="notify_one", lifts={"body": L(L_NOTIFY_ONE)},
             funcs=[F + "notify_one"], min_obligations=10),
        Unit(P + "notify_all", "pub.c", defines=["U_NOTIFY_ALL"], enforce="notify_all", lifts={"body": L(L_NOTIFY_ALL)},
             funcs=[F + "notify_all"], min_obligations=10),
        Unit(P + "wait", "pub.c", defines=["U_WAIT"], enforce="wait", lifts={"wait_body": L(L_WAIT)},
             funcs=[F + "wait(lock, ec)"], min_obligations=30),
        Unit(P + "wait_pred", "pub.c", defines=["U_WAIT_PRED", "PRED_FORMS"], enforce="wait_pred",
             lifts={"wait_body": L(L_WAIT), "body": L(L_WAIT_PRED, loops={1: LOOP_PRED, "count": 1})},
             funcs=[F + "wait(lock, pred, ec)"], min_obligations=40),
        Unit(P + "wait_until", "pub.c", defines=["U_WAIT_UNTIL"], enforce="wait_until", lifts={"wait_until_body": L(L_WAIT_UNTIL, "VX_EXC_RET")},
             funcs=[F + "wait_until(lock, abs_time, ec)"], min_obligations=30),
        Unit(P + "wait_until_pred", "pub.c", defines=["U_WAIT_UNTIL_PRED", "PRED_FORMS", "NO_EXC"], enforce="wait_until_pred",
             lifts={"wait_until_body": L(L_WAIT_UNTIL, "VX_EXC_RET"), "body": L(L_WAIT_UNTIL_PRED, loops={1: LOOP_PRED, "count": 1})},
             funcs=[F + "wait_until(lock, abs_time, pred, ec)"], min_obligations=40),
    ]


UNITS += pub_units(0, "condition_variable") + pub_units(1, "condition_variable_any")

# the same timed predicate form when the caller re-uses an error_code that still holds an earlier error
for (idx, cls) in [(0, "condition_variable"), (1, "condition_variable_any")]:
    u = [x for x in pub_units(idx, cls) if x.name.endswith("wait_until_pred")][0]
    UNITS.append(Unit(u.name + ".reused_ec", "pub.c", defines=u.defines + ["U_REUSED_EC"], enforce=u.enforce, lifts=u.lifts,
                      funcs=[u.funcs[0] + " (error_code re-used by the caller)"], min_obligations=40))

# ---- unit group 3: stop-token forms of condition_variable_any
L_STOP_WAIT = r"bool wait\(Lock& lock, stop_token stoken, Predicate pred, error_code& ec = throws\)"
L_STOP_WAIT_UNTIL = r"wait_until\(Lock& lock, stop_token stoken,\s*%s,\s*Predicate pred,\s*error_code& ec = throws\)" % TP
L_LAMBDA = r"auto f = \[&data, &ec\]"
LOOP_STOP = """
__CPROVER_assigns(PUB_GHOST)
__CPROVER_loop_invariant(self == vx_self && lock == g_user && data == g_blk && g_user->held && !g_blk->mtx_.held && !g_il_owns && !g_self_dead && !g_may_die)
__CPROVER_loop_invariant(g_blk->count_ >= 1 && g_blk->count_ <= VX_BIG && vx_exc == 0 && g_cb_registered && !g_stop_seen && g_pred_calls >= 0 && g_pred_calls <= 2 && (g_ec.value == vx_ec_in || g_ec.value == pika_error_success))
__CPROVER_loop_invariant(g_dwaits >= 0 && g_dwaits <= 2 && (g_dwaits == 0 || !g_last_timed || g_last_wake != thread_restart_state_timeout))
"""
CLOSURE = [Sub(r"\bdata\b", "(*clo->data)", None), Sub(r"\bec\b", "(*clo->ec)", None)]
ANY = PUB + ": pika::condition_variable_any::"


def stop_lifts(which, body_pat):
    return {"lambda": Lift(PUB, L_LAMBDA, which=which, expect=2, rules=pub_rules(""), post=POST + CLOSURE),
            "body": Lift(PUB, body_pat, rules=pub_rules("false", stop=True), post=POST, loops={1: LOOP_STOP, "count": 1})}


UNITS += [
    Unit("pub.cv_any.stop_callback", "pub.c", defines=["U_STOP_CB"], enforce="stop_cb_body",
         lifts={"lambda": Lift(PUB, L_LAMBDA, which=0, expect=2, rules=pub_rules(""), post=POST + CLOSURE)},
         funcs=[ANY + "wait(lock, stoken, pred, ec): the stop callback lambda [&data, &ec]"], min_obligations=10),
    Unit("pub.cv_any.stop_callback.timed", "pub.c", defines=["U_STOP_CB"], enforce="stop_cb_body",
         lifts={"lambda": Lift(PUB, L_LAMBDA, which=1, expect=2, rules=pub_rules(""), post=POST + CLOSURE)},
         funcs=[ANY + "wait_until(lock, stoken, abs_time, pred, ec): the stop callback lambda [&data, &ec]"], min_obligations=10),
    Unit("pub.cv_any.stop_wait", "pub.c", defines=["U_STOP_WAIT", "STOP_FORMS", "PRED_FORMS"], enforce="stop_wait",
         lifts=stop_lifts(0, L_STOP_WAIT), funcs=[ANY + "wait(lock, stoken, pred, ec)"], min_obligations=60),
    Unit("pub.cv_any.stop_wait_until", "pub.c", defines=["U_STOP_WAIT_UNTIL", "STOP_FORMS", "PRED_FORMS"], enforce="stop_wait_until",
         lifts=stop_lifts(1, L_STOP_WAIT_UNTIL), funcs=[ANY + "wait_until(lock, stoken, abs_time, pred, ec)"], min_obligations=60),
    Unit("pub.cv_any.stop_wait_until.reused_ec", "pub.c", defines=["U_STOP_WAIT_UNTIL", "STOP_FORMS", "PRED_FORMS", "U_REUSED_EC"],
         enforce="stop_wait_until", lifts=stop_lifts(1, L_STOP_WAIT_UNTIL),
         funcs=[ANY + "wait_until(lock, stoken, abs_time, pred, ec) (error_code re-used by the caller)"], min_obligations=60),
]

META = {
    "explanation":
        "Group 1 (cv.*): the real bodies of detail::condition_variable::{wait, wait_until, notify_one, notify_all, abort_all<Mutex>, abort_all, "
        "prepend_entries, size, empty} and of queue_entry / reset_queue_entry (constructor initialiser lists lowered to assignments, destructor) "
        "are proved against a sequence stub of the intrusive list: a list is an id, its length a ghost scalar, and ONE symbolic entry (the victim: "
        "list id + position + real ctx_/q_ fields) stands for any entry.  Monitor invariant WF_V (a linked entry has ctx_ set and q_ naming the "
        "list that links it; an unlinked one has ctx_ cleared) is an obligation at every release point of the internal lock and the only thing "
        "assumed of other agents at every re-acquisition.  Loops over the list (q_ re-targeting, drain loops, abort_all's outer loop) carry loop "
        "contracts: all list lengths, all victim positions, all interference.  Suspension may end with an exception (interruption / abort): the "
        "RAII exits are exercised on that path as well.  Group 2/3 (pub.*): pika::condition_variable and condition_variable_any (same text, both "
        "lifted), RAII lowered in reverse textual order of declaration; lock-order obligations O1-O3 live in the lock stubs, the internal cv is the "
        "contract proved by group 1; the cv object may be destroyed while the caller is blocked (plain forms), only the data block is kept alive. "
        "Units *.reused_ec drop the assumption that the caller's error_code is clean and FAIL on the pinned tree (see report).",
    "trusted_base": [
        "specs/C07/cv.h slist_*: boost::intrusive::slist<queue_entry, cache_last, constant_time_size> as a sequence stub (front/last/begin/"
        "pop_front/push_back/erase(iterator)/swap/splice(end(), other)/size/empty/range-for; iterator == node pointer; erase(it) on a list that "
        "does not link `it` is an obligation failure because boost walks the list from its root)",
        "specs/C07/cv.h cv_env (ENV_WAIT): what other agents may have done to the caller's own entry while it was suspended -- dequeued by a "
        "notifier (ctx_ cleared), untouched in queue_, or swapped into the local list of a concurrent abort_all with q_ re-targeted; justified by "
        "the WF_V obligation at every release point of every cv.* unit.  cv_env (notifier units): queue_ arbitrary, the local list only shrinks, "
        "the victim may have erased itself.  VX_ASSUME only in nondet_len: list lengths stay within [0, 10^9] (ghost range)",
        "specs/C07/cv.h agent_*: execution::detail::agent_ref is an integer token (0 = default constructed); suspend / sleep_until return or throw "
        "at the environment's discretion; resume / abort are call-trace stubs (what they do underneath is C02)",
        "specs/C07/cv.h vx_throws_if: model of pika::detail::throws_if (throw iff &ec == &throws, else ec := code), as in specs/C06",
        "vx/prelude/monitor.h: std::unique_lock / spinlock as a ghost 'held' bit (A-LOCK: mutual exclusion trusted)",
        "specs/C07/pub.h dcv_wait/dcv_wait_until/dcv_notify_one/dcv_notify_all: contract of detail::condition_variable as proved by the cv.* units "
        "(wait: lock released only inside, re-acquired, signaled|timeout, ec untouched, may throw; notify_*: by-value lock released once)",
        "specs/C07/pub.h user_lock/user_unlock (the caller's lock: any type with lock()/unlock()), iptr_copy/iptr_release/env_destroy (intrusive_ptr "
        "reference count of the data block; ~condition_variable() may run while the caller is blocked in a plain wait), ilock_* (std::unique_lock on "
        "the internal lock with its owns flag kept in a ghost: CBMC's loop-contract instrumentation rejects writes to loop-local objects on loop "
        "exits), pred_call (opaque predicate), stop_requested / stop_callback_make / stop_callback_dtor (std::stop_token semantics: monotone flag "
        "that any thread may set at any time; a callback registered after the request runs inside the constructor; implementation = C14)",
    ],
    "assumptions": [
        "units without the suffix .reused_ec: the caller passes `throws` or an error_code that holds success",
        "predicate and stop-token forms: *this is not destroyed before the call returns (stated as the user's duty in condition_variable.hpp); "
        "plain wait / wait_until allow it",
        "notify_all's PIKA_ASSERT(queue.front().ctx_) is discharged from the list invariant 'every enqueued entry carries a non-null agent', which "
        "cv.wait / cv.wait_until establish (obligation in push_back) and this_thread::agent() never being null (trusted); cv.notify_one and "
        "cv.abort_all are also proved without it (null agents reported / skipped)",
        "deadlines are opaque: a timed wait ends as the environment decides; 'notified before its deadline' is decided as 'a notifier cleared the entry'",
        "exceptions are modelled only where suspension can throw (agent suspend / sleep_until, and therefore the internal waits); "
        "pub.*.wait_until_pred is proved for the non-throwing case only (the call sits inside a condition expression)",
    ],
    "not_decided": [
        "the suspend/resume machinery underneath (C02): that a resumed agent runs again, that suspend() does not return spuriously",
        "~condition_variable of the detail class (abort_all<no_mutex> without any lock), intrusive_ptr_add_ref / intrusive_ptr_release, the "
        "wait_for forwarders (rel_time.from_now())",
        "arbitrary user lock types beyond the lock()/unlock() contract; the real boost::intrusive::slist",
        "termination of abort_all's outer loop and of the predicate loops (liveness)",
        "prepend_entries is dead code (no caller): its sequence contract is proved, but it leaves q_ of the re-added entries pointing at the "
        "caller's local list (reach marker q_left_stale_by_prepend_entries) -- a latent WF_V violation should it ever be used",
    ],
}


# ---- the default (plain OS thread) execution agent of execution_base/src/this_thread.cpp: suspend / resume / abort monitor contracts,
# ---- the suspend-resume lemma, thread-local agent bookkeeping: second sub-agent (after seeded change C07-4 was missed) -----------
exec(open("/verif/specs/C07/agent_spec.py").read())
UNITS += AGENT_UNITS
for _k in ("trusted_base", "assumptions", "not_decided"):
    META[_k] = list(META.get(_k, [])) + list(AGENT_META.get(_k, []))
STATIC = list(globals().get("STATIC", [])) + list(AGENT_STATIC)


# ---- C14 units reused (added after seeded change C07-5 was missed): the stop-token waits are woken by a stop_callback; that the
# ---- callback registered by the wait is still on the stop state's list when request_stop runs is a C14 contract (intrusive list
# ---- add / remove, add_callback, request_stop); same templates, same contracts, run here as well
_c14 = {"UNITS": [], "VX_NO_REUSE": True, "__name__": "c14_reuse"}
if not globals().get("VX_NO_REUSE"):     # reuse is never transitive: the other spec is loaded without ITS reuse blocks (no cycles)
    exec(compile(open("/verif/specs/C14/spec.py").read(), "/verif/specs/C14/spec.py", "exec"), _c14)
for _u in _c14["UNITS"]:
    if _u.kind != "bounded" and (_u.name.startswith("list.") or _u.name in ("cb.add_callback", "state.request_stop")):
        _u.name = "c14." + _u.name
        _u.template = "../C14/" + _u.template
        UNITS.append(_u)
META["trusted_base"] = list(META.get("trusted_base", [])) + ["units c14.* are the C14 units of the same name (specs/C14) with their trusted base"]


# ---- C02 units reused (added after seeded change C07-6 was missed): a waiter that is a pika task is resumed through
# ---- execution_agent::do_resume -> set_thread_state (retry_on_active) -> set_active_state; "the notification reaches the waiter" for
# ---- a task that was still `active` when notify ran is exactly C02's contract of these three; same templates, run here as well
_c02 = {"UNITS": [], "VX_NO_REUSE": True}
if not globals().get("VX_NO_REUSE"):     # reuse is never transitive: the other spec is loaded without ITS reuse blocks (no cycles)
    exec(compile(open("/verif/specs/C02/spec.py").read(), "/verif/specs/C02/spec.py", "exec"), _c02)
for _u in _c02["UNITS"]:
    if _u.name in ("sts.set_thread_state", "sts.set_active_state", "agent.do_resume", "agent.do_yield"):
        _u.name = "c02." + _u.name
        _u.template = "../C02/" + _u.template
        UNITS.append(_u)
META["trusted_base"] = list(META.get("trusted_base", [])) + ["units c02.* are the C02 units of the same name (specs/C02/sts.c, c02.h) with their trusted base"]
