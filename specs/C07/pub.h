/* C07 -- public pika::condition_variable / condition_variable_any: ghost state and stubs  (T contracts; lock-order obligations).
 *
 * Objects:  the caller's lock (struct userlock: std::unique_lock<Mutex> or any Lock with lock()/unlock()),
 *           the shared data block condition_variable_data {mtx_, cond_, count_} held by intrusive_ptr,
 *           the internal lock data->mtx_ (vx/prelude/monitor.h), the internal cv data->cond_ (contract stub dcv_*, whose
 *           implementation is the subject of the cv.* units of this property).
 * Lock-order obligations, asserted in the lock stubs:
 *   O1  the user lock is released only while the internal lock is held, and the internal lock then stays held until the caller
 *       is enqueued (dcv_wait):  a notifier that gets the user lock after the waiter released it finds the waiter enqueued
 *   O2  the user lock is re-acquired only after the internal lock has been released (no lock-order inversion, issue #3608)
 *   O3  the caller blocks with the user lock released
 * Lifetime: while the caller is blocked the condition_variable object itself may be destroyed (documented in the header);
 *   only the data block is kept alive by the caller's own reference.  g_self_dead models that destruction; every access to
 *   this->data_ asserts !g_self_dead, every access through a block pointer asserts count_ > 0.
 */
#ifndef C07_PUB_H
#define C07_PUB_H
#include "vx.h"

#define VX_BIG 1000000000L
enum cv_status { cv_status_no_timeout = 0, cv_status_timeout = 1, cv_status_error = 2 };
typedef enum cv_status cv_status;
enum pika_error { pika_error_success = 0 };
struct error_code { int value; };
static struct error_code vx_throws, g_ec;
static bool vx_ec_bool(struct error_code *ec) { return ec->value != pika_error_success; }

static long g_int_releases, g_int_acquires;   /* release / acquire points of the internal lock (saturating) */
static bool g_int_held_since_user_unlock;     /* O1: no release of the internal lock since the user lock was released */
static bool g_stop_checked_false_in_cs;       /* stop_requested() returned false in the current critical section of the internal lock */
static long g_blk_count(void);
#define MON_AT_RELEASE() do { VX_ASSERT(g_blk_count() > 0, "the internal mutex is unlocked after the data block was freed (block not kept alive across the wait)"); g_int_held_since_user_unlock = false; if (g_int_releases < VX_BIG) g_int_releases++; } while (0)
#define MON_AT_ACQUIRE() do { VX_ASSERT(g_blk_count() > 0, "the internal mutex is locked after the data block was freed (block not kept alive across the wait)"); g_stop_checked_false_in_cs = false; if (g_int_acquires < VX_BIG) g_int_acquires++; } while (0)
#include "monitor.h"

/* std::unique_lock<mutex_type> on the internal lock.  At most one is alive at a time in these functions; its `owns` flag is the ghost
 * g_il_owns rather than a field (CBMC's loop-contract instrumentation rejects writes to a loop-local object on a loop-exit path,
 * which is where `return` inside the stop-token loops runs the destructor). */
struct ilock { struct vx_mutex *m; };
static bool g_il_owns;
static struct ilock ilock_make(struct vx_mutex *m)
{
  struct ilock l;
  VX_ASSERT(!g_il_owns, "ghost: one unique_lock on the internal lock at a time");
  mon_acquire(m);
  l.m = m;
  g_il_owns = true;
  return l;
}
static void ilock_dtor(struct ilock *l) { if (g_il_owns) { mon_release(l->m); g_il_owns = false; } }
static void ilock_unlock(struct ilock *l)
{
  VX_ASSERT(g_il_owns, "unique_lock::unlock without ownership");
  mon_release(l->m);
  g_il_owns = false;
}
static void ilock_lock(struct ilock *l)
{
  VX_ASSERT(!g_il_owns, "unique_lock::lock while owning");
  mon_acquire(l->m);
  g_il_owns = true;
}
static struct ilock ilock_move(struct ilock *l) { return *l; }   /* std::move(l): ownership (the ghost flag) goes with the value */
#define IL_OWNS(l) (g_il_owns && (l).m == &g_blk->mtx_ && g_blk->mtx_.held)

struct dcv { int unused; };                                        /* detail::condition_variable */
struct cvdata { struct vx_mutex mtx_; struct dcv cond_; long count_; };   /* detail::condition_variable_data */
struct pcv { struct cvdata *data_; };                              /* pika::condition_variable(_any) */
struct userlock { bool held; };

static struct pcv *vx_self;
static struct cvdata *g_blk;
static struct userlock *g_user;
static bool g_may_die;            /* the caller allows *this to be destroyed while it is blocked (plain forms only) */
static bool g_self_dead;          /* ... and that happened */
static long g_user_unlocks, g_user_locks;       /* saturating at 2 */
static long g_dwaits;                           /* calls of the internal cv's wait / wait_until (saturating at 2) */
static int g_last_wake;                         /* result of the last one */
static bool g_last_timed;                       /* the last one was wait_until */
static long g_dnotify_one, g_dnotify_all;       /* calls of the internal cv's notify_one / notify_all (saturating at 2) */
static long g_pred_calls;                       /* predicate evaluations (saturating at 2) */
static bool g_last_pred;                        /* value of the last one */
static bool g_user_released_since_pred;         /* the user lock was released after the last predicate evaluation */

#define PUB_GHOST g_int_releases, g_int_acquires, g_int_held_since_user_unlock, g_stop_checked_false_in_cs, g_il_owns, g_blk->mtx_.held, g_blk->count_, \
                  g_user->held, g_self_dead, g_user_unlocks, g_user_locks, g_dwaits, g_last_wake, g_last_timed, g_dnotify_one, g_dnotify_all, \
                  g_pred_calls, g_last_pred, g_user_released_since_pred, g_ec.value, g_stop, g_stop_seen, g_cb_registered, g_cb_runs_here, vx_exc

static long g_blk_count(void) { return g_blk->count_; }
/* ---- the data block and the intrusive_ptr that keeps it alive --------------------------------------------------- */
static struct cvdata *vx_blk(struct cvdata *d)
{
  VX_ASSERT(d == g_blk && d->count_ > 0, "the data block (mtx_, cond_) is used after its last reference was dropped");
  return d;
}
/* this->data_ */
static struct cvdata *vx_data_(struct pcv *self)
{
  VX_ASSERT(!g_self_dead, "this->data_ is read after the wait, when the condition_variable object may already have been destroyed (only the data block is kept alive)");
  return self->data_;
}
static struct cvdata *iptr_copy(struct cvdata *d)     /* intrusive_ptr copy: intrusive_ptr_add_ref */
{
  VX_ASSERT(d->count_ > 0 && d->count_ < VX_BIG, "intrusive_ptr copied from a dead block / ghost range");
  d->count_++;
  return d;
}
static void iptr_release(struct cvdata *d)            /* ~intrusive_ptr: intrusive_ptr_release */
{
  VX_ASSERT(d->count_ > 0, "intrusive_ptr released twice");
  d->count_--;
}
/* ~condition_variable() running concurrently in another thread while the caller is blocked */
static void env_destroy(void)
{
  if (g_may_die && !g_self_dead && nondet_bool())
  {
    g_self_dead = true;
    g_blk->count_--;      /* the object's own reference */
  }
}

/* ---- the caller's lock ------------------------------------------------------------------------------------------- */
static bool user_owns(struct userlock *l) { return l->held; }
static void user_unlock(struct userlock *l)
{
  VX_ASSERT(l->held, "user lock released twice");
  VX_ASSERT(g_blk->mtx_.held, "O1: the user lock is released before the internal lock has been acquired (a notify issued now would be lost)");
  l->held = false;
  g_int_held_since_user_unlock = true;
  g_user_released_since_pred = true;
  if (g_user_unlocks < 2) g_user_unlocks++;
}
static void user_lock(struct userlock *l)
{
  VX_ASSERT(!l->held, "user lock acquired twice");
  VX_ASSERT(!g_blk->mtx_.held, "O2: the user lock is re-acquired while the internal lock is still held (lock-order inversion with notifiers: deadlock)");
  l->held = true;
  if (g_user_locks < 2) g_user_locks++;
}

/* ---- contract of detail::condition_variable (proved by the cv.* units) ------------------------------------------- */
static int dcv_block(struct dcv *c, struct ilock *l, bool timed);
/* wait(l, ec): enqueues under the lock, releases it only inside the suspension, re-acquires; signaled iff a notifier dequeued
 * the caller, otherwise timeout; never touches ec */
static int dcv_wait(struct dcv *c, struct ilock *l, struct error_code *ec) { return dcv_block(c, l, false); }
static int dcv_wait_until(struct dcv *c, struct ilock *l, long abs_time, struct error_code *ec) { return dcv_block(c, l, true); }
/* notify_one / notify_all(std::move(l), ec): by-value lock released on return */
static bool dcv_notify_one(struct dcv *c, struct ilock l, struct error_code *ec)
{
  VX_ASSERT(IL_OWNS(l), "internal notify_one called without the internal lock");
  if (g_dnotify_one < 2) g_dnotify_one++;
  ilock_dtor(&l);
  return nondet_bool();
}
/* any other member of detail::condition_variable that LOOKS at the waiter queue (size(l), empty(l), an accessor added later): the queue is
 * protected by the internal lock data_->mtx_ -- a notifier that inspects it without that lock can miss a waiter that has released the
 * user lock but not yet enqueued itself (the public notifiers serialise with wait() on data_->mtx_ for exactly this reason) */
static bool dcv_query(struct dcv *c)
{
  VX_ASSERT(g_il_owns && g_blk->mtx_.held, "the waiter queue of the internal condition variable is inspected only with the internal lock held (else a notify can miss a waiter that is between 'user lock released' and 'enqueued')");
  return nondet_bool();
}
static void dcv_notify_all(struct dcv *c, struct ilock l, struct error_code *ec)
{
  VX_ASSERT(IL_OWNS(l), "internal notify_all called without the internal lock");
  if (g_dnotify_all < 2) g_dnotify_all++;
  ilock_dtor(&l);
}

/* ---- predicate, deadlines ---------------------------------------------------------------------------------------- */
static bool pred_call(void)
{
  VX_ASSERT(g_user->held, "the predicate is evaluated without the user lock");
  g_last_pred = nondet_bool();
#ifdef VX_NATIVE
  { static int vx_native_evals; if (++vx_native_evals > 6) g_last_pred = true; }   /* native replay only: let a spinning run end */
#endif
  g_user_released_since_pred = false;
  if (g_pred_calls < 2) g_pred_calls++;
  return g_last_pred;
}

/* ---- stop_token / stop_callback (std::stop_callback semantics; implementation = C14) ------------------------------ */
typedef int stop_token;
struct vx_closure { struct cvdata **data; struct error_code **ec; };   /* [&data, &ec] */
struct stop_callback { struct vx_closure f; };
static bool g_stop;               /* stop has been requested (monotone; any thread may request it at any time) */
static bool g_stop_seen;          /* stop_requested() has returned true to the caller */
static bool g_cb_registered;      /* a stop_callback is currently registered */
static long g_cb_runs_here;       /* the callback was run synchronously by the registration: stop already requested (saturating at 2) */
static int vx_exc;                /* an exception is in flight (the internal wait threw: interruption / abort) */
#ifdef STOP_FORMS
void stop_cb_body(struct vx_closure *clo);
#endif
static bool stop_requested(stop_token t)
{
  if (!g_stop) g_stop = nondet_bool();      /* environment: request_stop() by another thread */
  if (g_stop) g_stop_seen = true;
  else if (g_blk->mtx_.held) g_stop_checked_false_in_cs = true;
  return g_stop;
}
#ifdef STOP_FORMS
/* std::stop_callback(token, f): registers f; if stop has already been requested f is invoked here, before the constructor returns */
static struct stop_callback stop_callback_make(stop_token t, struct vx_closure f)
{
  struct stop_callback cb;
  cb.f = f;
  VX_ASSERT(!g_cb_registered, "ghost: one callback per wait");
  g_cb_registered = true;
  if (!g_stop) g_stop = nondet_bool();
  if (g_stop)
  {
    stop_cb_body(&cb.f);
    if (g_cb_runs_here < 2) g_cb_runs_here++;
  }
  return cb;
}
static void stop_callback_dtor(struct stop_callback *cb)
{
  VX_ASSERT(g_cb_registered, "stop_callback destroyed twice");
  g_cb_registered = false;
}
#endif

static int dcv_block(struct dcv *c, struct ilock *l, bool timed)
{
  VX_ASSERT(IL_OWNS(*l), "internal wait called without the internal lock");
  VX_ASSERT(!g_user->held, "O3: the caller blocks while still holding the user lock");
  VX_ASSERT(g_int_held_since_user_unlock, "O1: the internal lock was not held continuously from the release of the user lock to the enqueue");
#ifdef STOP_FORMS
  VX_ASSERT(g_cb_registered, "the caller blocks without a registered stop callback (a stop request could not wake it)");
  VX_ASSERT(g_stop_checked_false_in_cs, "stop_requested() is re-checked under the internal lock before blocking (else the callback's notify_all may already be over: lost stop)");
  VX_ASSERT(!g_stop_seen, "the caller blocks although it has already observed the stop request");
#endif
#ifdef PRED_FORMS
  VX_ASSERT(!(g_dwaits >= 1 && g_last_timed && g_last_wake == thread_restart_state_timeout),
            "a timed predicate wait blocks again after its timed wait reported a timeout (it must return the predicate's value)");
#endif
  if (g_dwaits < 2) g_dwaits++;
  g_last_timed = timed;
  ilock_unlock(l);
  env_destroy();                              /* ~condition_variable() by another thread */
  if (!g_stop) g_stop = nondet_bool();        /* request_stop() by another thread (its callback notifies all: we wake up) */
  ilock_lock(l);
#ifndef NO_EXC
  if (nondet_bool()) vx_exc = 1;              /* the suspension ended with an exception (proved exception-safe in cv.wait) */
#endif
  g_last_wake = nondet_bool() ? thread_restart_state_signaled : thread_restart_state_timeout;
  return g_last_wake;
}
#endif
