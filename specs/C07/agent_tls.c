/* units: the per-thread agent bookkeeping of execution_base/src/this_thread.cpp   (I + T)
 *   detail::get_default_agent, this_thread::detail::{agent_storage::agent_storage, agent_storage::set, get_agent_storage,
 *   reset_agent::reset_agent (both), reset_agent::~reset_agent, agent, suspend, yield}
 * What C07 needs of it: `agent()` -- the agent_ref a waiter stores in its queue entry and then suspends on -- designates, on a
 * plain OS thread, that thread's ONE default agent (constructed once, on first use, the same object on every call: the
 * (mtx_, running_, aborted_) a notifier reaches through the queue entry is the state the waiter blocks on); inside a
 * reset_agent scope it designates the installed agent, and the scope restores what was there before (LIFO).
 * Agents are opaque objects here (their behaviour: agent_da.c, C02).  Function-local `static thread_local T x;` objects are
 * per-thread globals with a "constructed" flag (C++ [stmt.dcl]: initialised the first time control passes the declaration). */
#include "vx.h"

struct agent_base { int kind; };
typedef struct agent_base *agent_ref;                       /* execution::detail::agent_ref wraps one pointer */
struct default_agent { struct agent_base base; };
struct agent_storage { struct agent_base *impl_; };
struct reset_agent { struct agent_storage *storage_; struct agent_base *old_; };

static struct default_agent g_tls_default_agent;             /* static thread_local default_agent agent; */
static bool g_tls_default_agent_init;
static struct agent_storage g_tls_agent_storage;             /* static thread_local agent_storage storage; */
static bool g_tls_agent_storage_init;
static long g_da_ctors, g_st_ctors;                          /* constructor runs (saturating at 2) */
static long g_suspends, g_yields;                            /* agent_ref::suspend / yield calls (saturating at 2) */
static struct agent_base *g_called_on;                       /* ... on which agent */
static char const *g_called_desc;

#define DEFAULT_AGENT (&g_tls_default_agent.base)
#define VX_LOCAL_STATIC(T, x) do { if (!g_tls_##T##_init) { T##_tls_ctor(&g_tls_##T); g_tls_##T##_init = true; } } while (0)
#define VX_SHARED_STATIC(T, x) do { VX_ASSERT(0, "function-local static without thread_local: ONE object for all threads (each thread needs its own agent / storage)"); VX_LOCAL_STATIC(T, x); } while (0)
#define VX_REF(x) (&(x).base)                               /* T& -> agent_base& conversion of a returned reference */
#define VX_SWAP(a, b) do { __typeof__(a) vx_t = (a); (a) = (b); (b) = vx_t; } while (0)
static agent_ref vx_agent_ref(struct agent_base *p) { return p; }
/* default_agent::default_agent(): unit agent.da.ctor */
static void default_agent_tls_ctor(struct default_agent *a) { if (g_da_ctors < 2) g_da_ctors++; }
/* agent_ref::suspend / yield: virtual call on the designated agent (agent_da.c / C02) */
static void agent_ref_suspend(agent_ref a, char const *desc)
{
  VX_ASSERT(a != NULL, "agent_ref: call through a null agent");
  if (g_suspends < 2) g_suspends++;
  g_called_on = a; g_called_desc = desc;
}
static void agent_ref_yield(agent_ref a, char const *desc)
{
  VX_ASSERT(a != NULL, "agent_ref: call through a null agent");
  if (g_yields < 2) g_yields++;
  g_called_on = a; g_called_desc = desc;
}

#define TLS_FRAME g_tls_default_agent_init, g_tls_agent_storage_init, g_tls_agent_storage.impl_, g_da_ctors, g_st_ctors
/* the bookkeeping invariant of one thread: a constructed storage never designates nothing, and it is constructed after the
 * default agent it initially designates */
#define TLS_INV (g_da_ctors >= 0 && g_da_ctors <= 1 && g_st_ctors >= 0 && g_st_ctors <= 1 && \
                 g_tls_default_agent_init == (g_da_ctors == 1) && g_tls_agent_storage_init == (g_st_ctors == 1) && \
                 (!g_tls_agent_storage_init || (g_tls_agent_storage.impl_ != NULL && g_tls_default_agent_init)))

#ifdef U_GET_DEFAULT_AGENT
//@FUNC
#endif
struct agent_base *get_default_agent(void)
#ifdef U_GET_DEFAULT_AGENT
__CPROVER_requires(TLS_INV)
/* the same object on every call of this thread, constructed exactly once (on first use) */
__CPROVER_ensures(__CPROVER_return_value == DEFAULT_AGENT && g_tls_default_agent_init)
__CPROVER_ensures(g_da_ctors == 1 && TLS_INV)
__CPROVER_assigns(g_tls_default_agent_init, g_da_ctors)
#endif
//@LIFT get_default_agent

#ifdef U_STORAGE_CTOR
//@FUNC
#endif
void agent_storage_ctor(struct agent_storage *self)
#ifdef U_STORAGE_CTOR
__CPROVER_requires(TLS_INV && self == &g_tls_agent_storage && !g_tls_agent_storage_init)
/* a thread's storage initially designates the thread's default agent (constructing it if need be) */
__CPROVER_ensures(self->impl_ == DEFAULT_AGENT && g_tls_default_agent_init && g_da_ctors == 1)
__CPROVER_assigns(TLS_FRAME)
#endif
//@LIFT storage_ctor
static void agent_storage_tls_ctor(struct agent_storage *s) { if (g_st_ctors < 2) g_st_ctors++; agent_storage_ctor(s); }

#ifdef U_STORAGE_SET
//@FUNC
#endif
struct agent_base *agent_storage_set(struct agent_storage *self, struct agent_base *context)
#ifdef U_STORAGE_SET
/* exchange: installs the new agent, hands back the one that was installed */
__CPROVER_ensures(__CPROVER_return_value == __CPROVER_old(self->impl_) && self->impl_ == context)
__CPROVER_assigns(self->impl_)
#endif
//@LIFT storage_set

#ifdef U_GET_STORAGE
//@FUNC
#endif
struct agent_storage *get_agent_storage(void)
#ifdef U_GET_STORAGE
__CPROVER_requires(TLS_INV)
/* the same per-thread object on every call; constructed once; once constructed its content is only read */
__CPROVER_ensures(__CPROVER_return_value == &g_tls_agent_storage && g_tls_agent_storage_init && TLS_INV)
__CPROVER_ensures(__CPROVER_old(g_tls_agent_storage_init) ? (g_tls_agent_storage.impl_ == __CPROVER_old(g_tls_agent_storage.impl_) && g_st_ctors == __CPROVER_old(g_st_ctors)) \
                                                          : (g_tls_agent_storage.impl_ == DEFAULT_AGENT && g_st_ctors == 1))
__CPROVER_assigns(TLS_FRAME)
#endif
//@LIFT get_storage

#ifdef U_RESET_CTOR2
//@FUNC
#endif
void reset_agent_ctor2(struct reset_agent *self, struct agent_storage *storage, struct agent_base *impl)
#ifdef U_RESET_CTOR2
__CPROVER_requires(storage == &g_tls_agent_storage)
/* installs impl, remembers what was installed and where */
__CPROVER_ensures(storage->impl_ == impl && self->storage_ == storage && self->old_ == __CPROVER_old(storage->impl_))
__CPROVER_assigns(self->storage_, self->old_, g_tls_agent_storage.impl_)
#endif
//@LIFT reset_ctor2
#define reset_agent_delegate reset_agent_ctor2

#ifdef U_RESET_CTOR1
//@FUNC
#endif
void reset_agent_ctor1(struct reset_agent *self, struct agent_base *impl)
#ifdef U_RESET_CTOR1
__CPROVER_requires(TLS_INV && impl != NULL)   /* agent_base& impl: a reference */
/* ... in the calling thread's storage */
__CPROVER_ensures(g_tls_agent_storage.impl_ == impl && self->storage_ == &g_tls_agent_storage && TLS_INV)
__CPROVER_ensures(self->old_ == (__CPROVER_old(g_tls_agent_storage_init) ? __CPROVER_old(g_tls_agent_storage.impl_) : DEFAULT_AGENT))
__CPROVER_assigns(self->storage_, self->old_, TLS_FRAME)
#endif
//@LIFT reset_ctor1

#ifdef U_RESET_DTOR
//@FUNC
#endif
void reset_agent_dtor(struct reset_agent *self)
#ifdef U_RESET_DTOR
__CPROVER_requires(self->storage_ == &g_tls_agent_storage)
/* puts back what the constructor found */
__CPROVER_ensures(g_tls_agent_storage.impl_ == self->old_)
__CPROVER_assigns(g_tls_agent_storage.impl_)
#endif
//@LIFT reset_dtor

#ifdef U_AGENT
//@FUNC
#endif
agent_ref agent(void)
#ifdef U_AGENT
__CPROVER_requires(TLS_INV)
/* the installed agent; on a thread where nothing was ever installed: the thread's default agent.  Never null */
__CPROVER_ensures(__CPROVER_return_value == (__CPROVER_old(g_tls_agent_storage_init) ? __CPROVER_old(g_tls_agent_storage.impl_) : DEFAULT_AGENT))
__CPROVER_ensures(__CPROVER_return_value != NULL && __CPROVER_return_value == g_tls_agent_storage.impl_ && TLS_INV)
__CPROVER_assigns(TLS_FRAME)
#endif
//@LIFT agent

#if defined(U_FWD_SUSPEND) || defined(U_FWD_YIELD)
#define FWD_POST(cnt, other) (cnt == 1 && other == 0 && g_called_desc == desc && g_called_on == g_tls_agent_storage.impl_ && \
                              g_called_on == (__CPROVER_old(g_tls_agent_storage_init) ? __CPROVER_old(g_tls_agent_storage.impl_) : DEFAULT_AGENT))
#endif
#ifdef U_FWD_SUSPEND
/* this_thread::detail::suspend: exactly one suspend() on the calling thread's current agent, nothing else */
//@FUNC
void this_thread_suspend(char const *desc)
__CPROVER_requires(TLS_INV && g_suspends == 0 && g_yields == 0)
__CPROVER_ensures(FWD_POST(g_suspends, g_yields))
__CPROVER_assigns(TLS_FRAME, g_suspends, g_yields, g_called_on, g_called_desc)
//@LIFT fwd
#endif
#ifdef U_FWD_YIELD
//@FUNC
void this_thread_yield(char const *desc)
__CPROVER_requires(TLS_INV && g_suspends == 0 && g_yields == 0)
__CPROVER_ensures(FWD_POST(g_yields, g_suspends))
__CPROVER_assigns(TLS_FRAME, g_suspends, g_yields, g_called_on, g_called_desc)
//@LIFT fwd
#endif

void harness(void)
{
  struct agent_base a1, a2, a3;
  struct reset_agent r, r2;
  a1.kind = 1; a2.kind = 2; a3.kind = 3;
  g_tls_default_agent.base.kind = 0;
  g_tls_default_agent_init = nondet_bool();
  g_tls_agent_storage_init = nondet_bool();
  g_da_ctors = g_tls_default_agent_init ? 1 : 0;
  g_st_ctors = g_tls_agent_storage_init ? 1 : 0;
  int w = nondet_int();
  g_tls_agent_storage.impl_ = (w == 0) ? DEFAULT_AGENT : (w == 1) ? &a1 : (w == 2) ? &a2 : NULL;
  g_suspends = 0; g_yields = 0; g_called_on = NULL; g_called_desc = NULL;
  bool st0 = g_tls_agent_storage_init, da0 = g_tls_default_agent_init;
  struct agent_base *impl0 = g_tls_agent_storage.impl_;
  struct agent_base *in = nondet_bool() ? &a3 : (nondet_bool() ? &a1 : NULL);
#ifdef U_GET_DEFAULT_AGENT
  struct agent_base *p = get_default_agent();
  if (!da0) VX_REACH("first_use_constructs"); else VX_REACH("later_use_same_object");
#endif
#ifdef U_STORAGE_CTOR
  agent_storage_ctor(&g_tls_agent_storage);
  if (!da0) VX_REACH("constructs_the_default_agent"); else VX_REACH("default_agent_existed");
#endif
#ifdef U_STORAGE_SET
  struct agent_base *old = agent_storage_set(&g_tls_agent_storage, in);
  if (old == &a1 && in == &a3) VX_REACH("exchanged");
#endif
#ifdef U_GET_STORAGE
  struct agent_storage *s = get_agent_storage();
  if (!st0 && !da0) VX_REACH("first_use_constructs_both");
  if (!st0 && da0) VX_REACH("first_use_default_agent_existed");
  if (st0 && impl0 == &a1) VX_REACH("later_use_content_kept");
#endif
#ifdef U_RESET_CTOR2
  reset_agent_ctor2(&r, &g_tls_agent_storage, in);
  if (r.old_ == &a1 && in == &a3) VX_REACH("installed");
#endif
#ifdef U_RESET_CTOR1
  reset_agent_ctor1(&r, in);
  if (!st0) VX_REACH("first_use_old_is_default_agent");
  if (st0 && r.old_ == &a2) VX_REACH("installed_over_another_agent");
#endif
#ifdef U_RESET_DTOR
  r.storage_ = &g_tls_agent_storage; r.old_ = in;
  reset_agent_dtor(&r);
  if (g_tls_agent_storage.impl_ == &a3 && impl0 == &a1) VX_REACH("restored");
#endif
#ifdef U_AGENT
  agent_ref a = agent();
  if (!st0) VX_REACH("plain_thread_first_use_default_agent");
  if (st0 && a == &a1) VX_REACH("installed_agent");
  if (st0 && a == DEFAULT_AGENT) VX_REACH("default_agent");
#endif
#ifdef U_FWD_SUSPEND
  this_thread_suspend("x");
  if (g_called_on == DEFAULT_AGENT) VX_REACH("default_agent_suspended");
  if (g_called_on == &a1) VX_REACH("installed_agent_suspended");
#endif
#ifdef U_FWD_YIELD
  this_thread_yield("x");
  if (g_called_on == DEFAULT_AGENT) VX_REACH("default_agent_yields");
  if (g_called_on == &a1) VX_REACH("installed_agent_yields");
#endif
#ifdef U_SCOPE
  /* lemma over the lifted bodies: reset_agent scopes nest and restore LIFO; inside a scope agent() is the installed agent */
  if (!(TLS_INV)) return;
  agent_ref before = agent();
  VX_ASSERT(before != NULL, "agent() is never null");
  if (!st0) VX_ASSERT(before == DEFAULT_AGENT, "plain OS thread: agent() is the thread's default agent");
  reset_agent_ctor1(&r, &a3);
  VX_ASSERT(agent() == &a3, "inside the scope agent() is the installed agent");
  reset_agent_ctor2(&r2, get_agent_storage(), &a2);
  VX_ASSERT(agent() == &a2, "nested scope: the innermost installed agent");
  reset_agent_dtor(&r2);
  VX_ASSERT(agent() == &a3, "leaving the inner scope restores the outer one");
  reset_agent_dtor(&r);
  VX_ASSERT(agent() == before, "leaving the scope restores the agent that was current before");
  VX_ASSERT(g_da_ctors == 1 && g_st_ctors == 1 && get_default_agent() == DEFAULT_AGENT, "one default agent and one storage per thread, whatever the number of calls");
  if (!st0) VX_REACH("plain_thread"); else VX_REACH("already_inside_an_agent");
#endif
}
