/* units: detail::condition_variable::{wait, wait_until, notify_one, notify_all, abort_all, prepend_entries, size, empty}
 * and queue_entry / reset_queue_entry (constructor initialiser lists and destructor lifted from the header)   (M + T) */
#include "cv.h"

/* ---- helpers lifted from detail/condition_variable.hpp ------------------------------------------------------------ */
#if defined(U_WAIT) || defined(U_WAIT_UNTIL)
void queue_entry_ctor(struct queue_entry *self, agent_ref ctx, void *q)
//@LIFT queue_entry_ctor
void reset_queue_entry_ctor(struct reset_queue_entry *self, struct queue_entry *e, struct slist *q)
//@LIFT rqe_ctor
void reset_queue_entry_dtor(struct reset_queue_entry *self)
//@LIFT rqe_dtor
#endif

/* wait / wait_until: enqueue under the lock, release only inside the suspension, re-acquire, report who ended the wait */
#define WAIT_PRE (self == vx_cv && self->queue_.id == Q_MAIN && g_foreign.id == Q_FOREIGN && OWNS_P(lock) && LEN_OK && g_n_main < VX_BIG && \
                  FRONTS_OK && g_wf_ctx && g_vent == NULL && g_vq_id == Q_NONE && !g_v_gone && g_pushes == 0 && g_erases == 0 && g_suspends == 0 && \
                  g_releases == 0 && g_acquires == 0 && !g_env_signaled && !g_unl_pending && vx_exc == 0 && g_erased_from == Q_NONE)
#define WAIT_FRAME CV_GHOST, lock->owns

#ifdef U_WAIT
//@FUNC
int wait(struct condition_variable *self, struct ulock *lock, char const *description, struct error_code *ec)
__CPROVER_requires(WAIT_PRE)
/* returns with the internal lock re-acquired (also when the suspension ended with an exception) */
__CPROVER_ensures(OWNS_P(lock))
/* enqueued exactly once; the lock was released exactly once, after the enqueue (asserted at the release point), and the
 * caller blocked while it was released (asserted in the suspend stub) */
__CPROVER_ensures(g_pushes == 1 && g_releases == 1 && g_acquires == 1 && g_suspends == 1)
/* `signaled` iff a notifier cleared the entry, otherwise `timeout` */
__CPROVER_ensures(vx_exc == 0 ==> (__CPROVER_return_value == (g_env_signaled ? thread_restart_state_signaled : thread_restart_state_timeout)))
/* not dequeued by a notifier: the entry is erased exactly once, from the list that links it (asserted in erase); never otherwise */
__CPROVER_ensures(g_erases == (g_env_signaled ? 0 : 1))
/* the stack entry is linked nowhere when the function returns */
__CPROVER_ensures(g_vq_id == Q_NONE)
__CPROVER_assigns(WAIT_FRAME)
//@LIFT body
#endif

#ifdef U_WAIT_UNTIL
//@FUNC
int wait_until(struct condition_variable *self, struct ulock *lock, long abs_time, char const *description, struct error_code *ec)
__CPROVER_requires(WAIT_PRE)
__CPROVER_ensures(OWNS_P(lock))
__CPROVER_ensures(g_pushes == 1 && g_releases == 1 && g_acquires == 1 && g_suspends == 1)
/* signaled | timeout only; `signaled` iff a notifier cleared the entry */
__CPROVER_ensures(vx_exc == 0 ==> (__CPROVER_return_value == (g_env_signaled ? thread_restart_state_signaled : thread_restart_state_timeout)))
__CPROVER_ensures(g_erases == (g_env_signaled ? 0 : 1))
__CPROVER_ensures(g_vq_id == Q_NONE)
__CPROVER_assigns(WAIT_FRAME)
//@LIFT body
#endif

/* ---- notifiers --------------------------------------------------------------------------------------------------------
 * common precondition: called with the internal lock (by value), on a well-formed list of any length with the victim at
 * any position (or absent); g_front0 is a ghost copy of the agent carried by the front entry */
static agent_ref g_front0;
static long g_n0, g_vpos0;
static int g_vq0;
#define FRONT_CTX (g_vq_id == Q_MAIN && g_vpos == 0 ? g_vent->ctx_ : g_fo_main.ctx_)
#define LIST_PRE (!g_unl_pending && self == vx_cv && self->queue_.id == Q_MAIN && OWNS_V(lock) && LEN_OK && g_n_local == 0 && FRONTS_OK && g_vent != NULL && \
                    (g_vq_id == Q_NONE || g_vq_id == Q_MAIN) && !g_v_gone && WF_V && (g_vq_id == Q_NONE || g_wf_ctx || g_vent->ctx_ != AG_NULL) && \
                    (g_vq_id == Q_NONE || g_vent->ctx_ == AG_VICTIM) && \
                    g_n0 == g_n_main && g_vpos0 == g_vpos && g_vq0 == g_vq_id && g_front0 == FRONT_CTX && \
                    g_releases == 0 && g_acquires == 0 && g_resumes == 0 && g_aborts == 0 && g_v_resumed == 0 && g_v_aborted == 0 && \
                    g_errs == 0 && !g_thrown && vx_exc == 0)
#define NOTIFY_PRE (LIST_PRE && (ec == &vx_throws || ec == &g_ec))
#define NOTIFY_FRAME CV_GHOST, EC_GHOST, g_vent->ctx_, g_vent->q_

#ifdef U_NOTIFY_ONE
//@FUNC
bool notify_one(struct condition_variable *self, struct ulock lock, int priority, struct error_code *ec)
__CPROVER_requires(NOTIFY_PRE)
/* removes exactly the front entry (nothing if the list is empty) */
__CPROVER_ensures(g_n_main == (g_n0 > 0 ? g_n0 - 1 : 0))
__CPROVER_ensures(g_vq0 == Q_MAIN && g_vpos0 > 0 ==> (g_vq_id == Q_MAIN && g_vpos == g_vpos0 - 1 && g_vent->ctx_ == AG_VICTIM && g_v_resumed == 0))
__CPROVER_ensures(g_vq0 == Q_MAIN && g_vpos0 == 0 ==> (g_vq_id == Q_NONE && g_vent->ctx_ == AG_NULL))
/* ... and resumes its agent exactly once (after clearing ctx_: asserted in the resume stub); nobody else is resumed */
__CPROVER_ensures(g_resumes == ((g_n0 > 0 && g_front0 != AG_NULL) ? 1 : 0))
__CPROVER_ensures(g_v_resumed == ((g_vq0 == Q_MAIN && g_vpos0 == 0 && g_front0 != AG_NULL) ? 1 : 0))
/* returns "queue still non-empty" */
__CPROVER_ensures((g_n0 > 0 && g_front0 != AG_NULL) ==> (__CPROVER_return_value == (g_n_main > 0)))
__CPROVER_ensures(g_n0 == 0 ==> !__CPROVER_return_value)
/* a null agent is reported as null_thread_id (after the lock was released: asserted in throws_if), thrown iff ec is `throws` */
__CPROVER_ensures((g_n0 > 0 && g_front0 == AG_NULL) ==> (!__CPROVER_return_value && g_errs == 1 && g_err == pika_error_null_thread_id && \
                  (ec == &vx_throws ? g_thrown : (!g_thrown && g_ec.value == pika_error_null_thread_id))))
__CPROVER_ensures(!(g_n0 > 0 && g_front0 == AG_NULL) ==> (g_errs == 0 && !g_thrown))
/* the by-value lock is released exactly once on every path, never re-acquired */
__CPROVER_ensures(g_releases == 1 && g_acquires == 0 && !vx_mtx->held && g_aborts == 0)
__CPROVER_assigns(NOTIFY_FRAME)
//@LIFT body
#endif

#ifdef U_NOTIFY_ALL
//@FUNC
void notify_all(struct condition_variable *self, struct ulock lock, int priority, struct error_code *ec)
__CPROVER_requires(NOTIFY_PRE && g_wf_ctx)
/* every entry that was enqueued is dequeued and its agent resumed exactly once: as many resumes as entries ... */
__CPROVER_ensures(g_n_main == 0 && g_resumes == g_n0)
/* ... and the symbolic entry exactly once (with q_ re-targeted before the first resume and ctx_ cleared before its own:
 * asserted in the resume stub) */
__CPROVER_ensures(g_vq_id == Q_NONE && g_v_resumed == (g_vq0 == Q_MAIN ? 1 : 0))
__CPROVER_ensures(g_vq0 == Q_MAIN ==> g_vent->ctx_ == AG_NULL)
__CPROVER_ensures(g_releases == 1 && g_acquires == 0 && !vx_mtx->held && g_aborts == 0 && g_errs == 0 && !g_thrown)
__CPROVER_assigns(NOTIFY_FRAME)
//@LIFT body
#endif

#if defined(U_ABORT_ALL)
//@FUNC
void abort_all_impl(struct condition_variable *self, struct ulock lock)
__CPROVER_requires(LIST_PRE)
/* drains until empty */
__CPROVER_ensures(g_n_main == 0 && g_vq_id == Q_NONE)
/* the symbolic entry: aborted exactly once, unless it removed itself meanwhile (then never) */
__CPROVER_ensures(g_vq0 == Q_MAIN ==> (g_v_gone ? g_v_aborted == 0 : (g_v_aborted == 1 && g_vent->ctx_ == AG_NULL)))
__CPROVER_ensures(g_vq0 == Q_NONE ==> g_v_aborted == 0)
/* the lock is released only around ctx.abort() (asserted in the lock and abort stubs: every release is followed by exactly one
 * abort before the re-acquisition; the abort runs with the lock released) and finally when the by-value lock dies */
__CPROVER_ensures(!vx_mtx->held && g_resumes == 0)
__CPROVER_assigns(NOTIFY_FRAME)
//@LIFT impl
void abort_all(struct condition_variable *self, struct ulock lock)
//@LIFT body
#endif

#ifdef U_PREPEND
//@FUNC
void prepend_entries(struct condition_variable *self, struct ulock *lock, struct slist *queue_ref)
__CPROVER_requires(self == vx_cv && self->queue_.id == Q_MAIN && queue_ref->id == Q_LOCAL && OWNS_P(lock) && LEN_OK && g_n_main + g_n_local <= VX_BIG && \
                   g_vent != NULL && !g_v_gone && (g_vq_id == Q_NONE || g_vq_id == Q_MAIN || g_vq_id == Q_LOCAL) && WF_V && \
                   g_n0 == g_n_main && g_vpos0 == g_vpos && g_vq0 == g_vq_id && g_releases == 0 && g_acquires == 0)
/* "re-add the remaining items to the original queue": queue_ = queue ++ queue_, queue = empty, order kept */
__CPROVER_ensures(g_n_main == g_n0 + __CPROVER_old(g_n_local) && g_n_local == 0)
__CPROVER_ensures(g_vq0 == Q_LOCAL ==> (g_vq_id == Q_MAIN && g_vpos == g_vpos0))
__CPROVER_ensures(g_vq0 == Q_MAIN ==> (g_vq_id == Q_MAIN && g_vpos == g_vpos0 + __CPROVER_old(g_n_local)))
__CPROVER_ensures(g_vq0 == Q_NONE ==> g_vq_id == Q_NONE)
__CPROVER_ensures(OWNS_P(lock) && g_releases == 0)
__CPROVER_assigns(CV_GHOST)
#define queue (*queue_ref)   /* queue_type& queue */
//@LIFT body
#undef queue
#endif

#ifdef U_SIZE
//@FUNC
size_t size(struct condition_variable *self, struct ulock *lock)
__CPROVER_requires(self == vx_cv && self->queue_.id == Q_MAIN && OWNS_P(lock) && LEN_OK)
__CPROVER_ensures(__CPROVER_return_value == (size_t) g_n_main && OWNS_P(lock))
//@LIFT body
#endif
#ifdef U_EMPTY
//@FUNC
bool empty(struct condition_variable *self, struct ulock *lock)
__CPROVER_requires(self == vx_cv && self->queue_.id == Q_MAIN && OWNS_P(lock) && LEN_OK)
__CPROVER_ensures(__CPROVER_return_value == (g_n_main == 0) && OWNS_P(lock))
//@LIFT empty
#endif

void harness(void)
{
  struct condition_variable cv;
  struct vx_mutex m;
  struct ulock l;
  struct queue_entry ve;
  vx_cv = &cv;
  vx_mtx = &m;
  cv.queue_.id = Q_MAIN;
  g_foreign.id = Q_FOREIGN;
  g_n_main = nondet_long();
  g_n_local = 0;
  g_n_foreign = 0;
  g_wf_ctx = true;
  g_scratch.ctx_ = AG_OTHER;
  g_scratch.q_ = NULL;
  g_vent = NULL;
  g_vq_id = Q_NONE;
  g_vpos = 0;
  g_v_gone = false;
  g_pushes = 0; g_erases = 0; g_suspends = 0; g_erased_from = Q_NONE; g_env_signaled = false;
  g_releases = 0; g_acquires = 0; g_resumes = 0; g_aborts = 0; g_v_resumed = 0; g_v_aborted = 0;
  vx_exc = 0;
  g_unl_pending = false;
  g_err = 0; g_errs = 0; g_thrown = false;
  vx_throws.value = pika_error_success;
  g_ec.value = nondet_int();
  int ec0 = g_ec.value;
  struct error_code *ec = nondet_bool() ? &vx_throws : &g_ec;
  m.held = true;
  l.m = &m;
  l.owns = true;
#if defined(U_WAIT) || defined(U_WAIT_UNTIL)
  g_fo_main.ctx_ = AG_OTHER; g_fo_local.ctx_ = AG_OTHER; g_fo_foreign.ctx_ = AG_OTHER;
#ifdef U_WAIT
  int r = wait(&cv, &l, "condition_variable::wait", ec);
#else
  int r = wait_until(&cv, &l, nondet_long(), "condition_variable::wait_until", ec);
#endif
  if (!vx_exc && r == thread_restart_state_signaled) VX_REACH("signaled");
  if (!vx_exc && r == thread_restart_state_timeout && g_erased_from == Q_MAIN) VX_REACH("timeout_erased_from_queue_");
  if (!vx_exc && r == thread_restart_state_timeout && g_erased_from == Q_FOREIGN) VX_REACH("timeout_erased_from_swapped_out_list");
  if (vx_exc && g_erases == 1) VX_REACH("exception_entry_erased");
  if (vx_exc && g_erases == 0) VX_REACH("exception_after_notifier_dequeued");
#else
  /* notifier units: any list, the victim anywhere in it or absent */
  g_wf_ctx = nondet_bool();
  g_fo_main.ctx_ = nondet_long(); g_fo_local.ctx_ = AG_OTHER; g_fo_foreign.ctx_ = AG_OTHER;
  g_vent = &ve;
  g_vq_id = nondet_int();
  g_vpos = nondet_long();
  ve.ctx_ = nondet_long();
  struct slist lq;
  lq.id = Q_LOCAL;
#ifdef U_PREPEND
  ve.q_ = nondet_bool() ? (void *) &lq : (void *) &cv.queue_;
  g_n_local = nondet_long();
#else
  ve.q_ = &cv.queue_;
#endif
  g_n0 = g_n_main; g_vpos0 = g_vpos; g_vq0 = g_vq_id;
#ifdef U_NOTIFY_ONE
  g_front0 = FRONT_CTX;
  bool r = notify_one(&cv, l, 0, ec);
  if (g_n0 == 0) VX_REACH("empty");
  if (r) VX_REACH("resumed_still_non_empty");
  if (!r && g_resumes == 1) VX_REACH("resumed_last");
  if (g_v_resumed == 1) VX_REACH("victim_resumed");
  if (g_vq0 == Q_MAIN && g_vpos0 > 0) VX_REACH("victim_stays");
  if (g_thrown) VX_REACH("null_thrown");
  if (g_errs == 1 && !g_thrown) VX_REACH("null_ec");
  if (g_resumes == 1 && ec == &g_ec && g_ec.value != pika_error_success) VX_REACH("resumed_with_stale_ec_left_untouched");
  if (g_n0 == 0 && ec == &g_ec && g_ec.value == pika_error_success && ec0 != pika_error_success) VX_REACH("empty_ec_reset");
#endif
#ifdef U_NOTIFY_ALL
  g_front0 = FRONT_CTX;
  notify_all(&cv, l, 0, ec);
  if (g_n0 == 0) VX_REACH("empty");
  if (g_n0 > 2) VX_REACH("many");
  if (g_v_resumed == 1) VX_REACH("victim_resumed");
  if (g_vq0 == Q_NONE) VX_REACH("victim_absent");
#endif
#ifdef U_ABORT_ALL
  g_front0 = FRONT_CTX;
  abort_all(&cv, l);
  if (g_n0 == 0) VX_REACH("empty");
  if (g_aborts > 2) VX_REACH("many");
  if (g_v_aborted == 1) VX_REACH("victim_aborted");
  if (g_vq0 == Q_MAIN && g_v_gone) VX_REACH("victim_erased_itself_meanwhile");
  if (g_aborts > g_n0) VX_REACH("drained_late_arrivals");
  if (g_n0 > 0 && g_aborts == 0) VX_REACH("only_null_agents");
#endif
#ifdef U_PREPEND
  prepend_entries(&cv, &l, &lq);
  if (g_vq0 == Q_LOCAL) VX_REACH("victim_moved_to_front_part");
  if (g_vq0 == Q_MAIN) VX_REACH("victim_shifted");
  if (g_vq0 == Q_LOCAL && g_vq_id == Q_MAIN && ve.q_ == (void *) &lq) VX_REACH("q_left_stale_by_prepend_entries");
#endif
#ifdef U_SIZE
  size_t n = size(&cv, &l);
  if (n == 0) VX_REACH("empty"); else VX_REACH("non_empty");
#endif
#ifdef U_EMPTY
  bool e = empty(&cv, &l);
  if (e) VX_REACH("empty"); else VX_REACH("non_empty");
#endif
#endif
}
