/* units: execution::detail::default_agent::{default_agent, suspend, resume, abort} (M), {sleep_until} (M), {sleep_for, yield, yield_k,
 * spin_k} (T + frame)   (execution_base/src/this_thread.cpp)
 * Every statement of the functions under contract is lifted; see agent_da.h for the protocol, ghost state and stubs. */
#include "agent_da.h"






/* detail::condition_variable::wait_until (cv.wait_until unit) enqueues the caller, releases the internal lock and calls
 * this_ctx.sleep_until(deadline).  A notifier that dequeues the entry then calls ctx.resume() on this agent -- cv.notify_one /
 * notify_all make that call while they HOLD the condition variable's internal lock -- and resume() returns only after it found
 * the agent suspended (agent.da.resume).  So for a plain OS thread the timed sleep has to be a suspension in that sense: */
//@FUNC
void sleep_until(struct default_agent *self, long sleep_time, char const *desc)
__CPROVER_requires(DA_PRE(self) && g_role == ROLE_SUSPENDER && g_pub == g_k - 1 && g_wake == g_k - 1 && !self->aborted_ && OS_GHOST0)
#ifndef KF_TIMED_SLEEP_IS_NOT_A_SUSPENSION
/* the sleep is published (running_ = false) and announced on resume_cv_, so that a resume() / abort() issued for it completes */
__CPROVER_ensures(g_pub == g_k && g_steps == 1)
__CPROVER_ensures(g_step_cs >= 1 && g_ntf_res_cs >= g_step_cs)
/* it ends when it is woken or when the deadline has passed, not otherwise */
__CPROVER_ensures(g_wake == g_k || g_deadline)
/* woken by abort(): leaves by exception */
__CPROVER_ensures((g_wake == g_k && g_wake_abort) ? vx_exc != 0 : vx_exc == 0)
#else
/* known finding excluded: what the function does guarantee -- it returns only after the deadline and touches nothing of the agent */
__CPROVER_ensures(g_deadline && g_pub == g_k - 1 && g_wake == g_k - 1 && g_steps == 0 && vx_exc == 0)
#endif
__CPROVER_ensures(!self->mtx_.held)
__CPROVER_assigns(DA_FRAME, OS_FRAME)
//@LIFT body





void harness(void)
{
  struct default_agent ag;
  vx_ag = &ag;
  ag.suspend_cv_.id = CV_SUSPEND;
  ag.resume_cv_.id = CV_RESUME;
  ag.mtx_.held = false;
  ag.id_ = 0;
  ag.running_ = nondet_bool();
  ag.aborted_ = nondet_bool();
  g_k = nondet_long();
  g_pub = nondet_long();
  g_wake = nondet_long();
  g_wake_abort = nondet_bool();
  g_run_acq = false; g_ab_acq = false;
  g_cs = 0; g_steps = 0; g_step_cs = 0; g_ntf_sus_cs = -1; g_ntf_res_cs = -1; g_waits_sus = 0; g_waits_res = 0;
  g_in_wait = false; g_spurious = false; g_interfered = false; vx_exc = 0; g_err = 0; g_deadline = false;
  g_os_yields = 0; g_os_nanosleeps = 0; g_os_sleeps = 0; g_pauses = 0; g_slept_arg = 0;
  g_ab0 = ag.aborted_;
  bool ab0 = ag.aborted_;
  long pub0 = g_pub;
  g_role = ROLE_SUSPENDER;
  sleep_until(&ag, nondet_long(), "sleep_until");
  if (g_deadline && vx_exc == 0) VX_REACH("deadline_passed");
#ifndef KF_TIMED_SLEEP_IS_NOT_A_SUSPENSION
  if (g_wake == g_k && vx_exc == 0) VX_REACH("resumed_before_the_deadline");
  if (vx_exc != 0) VX_REACH("aborted_throws");
#endif
}
