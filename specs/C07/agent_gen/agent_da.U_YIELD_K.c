/* units: execution::detail::default_agent::{default_agent, suspend, resume, abort} (M), {sleep_until} (M), {sleep_for, yield, yield_k,
 * spin_k} (T + frame)   (execution_base/src/this_thread.cpp)
 * Every statement of the functions under contract is lifted; see agent_da.h for the protocol, ghost state and stubs. */
#include "agent_da.h"









/* T + frame: one back-off action per call -- a pause instruction, a sched_yield or a sub-second nanosleep with a valid
 * timespec (asserted in the stub) -- for every k; never the agent's mutex, never the monitor state */
//@FUNC
void yield_k(struct default_agent *self, size_t k, char const *desc)
__CPROVER_requires(DA_PRE(self) && OS_GHOST0)
__CPROVER_ensures(g_pauses + g_os_yields + g_os_nanosleeps == 1 && g_os_sleeps == 0)
__CPROVER_ensures(!self->mtx_.held)
__CPROVER_assigns(OS_FRAME)
//@LIFT body


void harness(void)
{
  struct default_agent ag;
  vx_ag = &ag;
  ag.suspend_cv_.id = CV_SUSPEND;
  ag.resume_cv_.id = CV_RESUME;
  ag.mtx_.held = false;
  ag.id_ = 0;
  ag.running_ = nondet_bool();
  ag.aborted_ = nondet_bool();
  g_k = nondet_long();
  g_pub = nondet_long();
  g_wake = nondet_long();
  g_wake_abort = nondet_bool();
  g_run_acq = false; g_ab_acq = false;
  g_cs = 0; g_steps = 0; g_step_cs = 0; g_ntf_sus_cs = -1; g_ntf_res_cs = -1; g_waits_sus = 0; g_waits_res = 0;
  g_in_wait = false; g_spurious = false; g_interfered = false; vx_exc = 0; g_err = 0; g_deadline = false;
  g_os_yields = 0; g_os_nanosleeps = 0; g_os_sleeps = 0; g_pauses = 0; g_slept_arg = 0;
  g_ab0 = ag.aborted_;
  bool ab0 = ag.aborted_;
  long pub0 = g_pub;
  g_role = ROLE_NONE;
  size_t k = nondet_size();
  yield_k(&ag, k, "yield_k");
  if (g_pauses == 1) VX_REACH("pause");
  if (g_os_yields == 1) VX_REACH("sched_yield");
  if (g_os_nanosleeps == 1) VX_REACH("nanosleep");
}
