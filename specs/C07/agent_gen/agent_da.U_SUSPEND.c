/* units: execution::detail::default_agent::{default_agent, suspend, resume, abort} (M), {sleep_until} (M), {sleep_for, yield, yield_k,
 * spin_k} (T + frame)   (execution_base/src/this_thread.cpp)
 * Every statement of the functions under contract is lifted; see agent_da.h for the protocol, ghost state and stubs. */
#include "agent_da.h"


//@FUNC
void suspend(struct default_agent *self, char const *desc)
/* the caller is the agent's own thread; it is not suspended (every earlier suspension was published, woken and left) */
__CPROVER_requires(DA_PRE(self) && g_role == ROLE_SUSPENDER && g_pub == g_k - 1 && g_wake == g_k - 1)
/* no abort() is pending from the past: assumption of the plain unit, invariant (re-established below) of the *.strict unit */
__CPROVER_requires(!self->aborted_)
/* publishes exactly one suspension (running_ = false; asserted at the release point: by nobody else, once) ... */
__CPROVER_ensures(g_pub == g_k && g_steps == 1)
/* ... announces it on resume_cv_ in or after that critical section (a resume() that came first is waiting for it) ... */
__CPROVER_ensures(g_step_cs >= 1 && g_ntf_res_cs >= g_step_cs)
/* ... and returns or throws only after a resume() / abort() woke THIS suspension; spurious cv wake-ups do not end it */
__CPROVER_ensures(g_wake == g_k && self->running_)
/* leaves by exception (yield_aborted) iff the wake-up was an abort() */
__CPROVER_ensures(g_wake_abort ? vx_exc != 0 : vx_exc == 0)
__CPROVER_ensures(vx_exc != 0 ==> g_err == pika_error_yield_aborted)
/* the agent's mutex is released on every exit */
__CPROVER_ensures(!self->mtx_.held)
__CPROVER_assigns(DA_FRAME)
//@LIFT body









void harness(void)
{
  struct default_agent ag;
  vx_ag = &ag;
  ag.suspend_cv_.id = CV_SUSPEND;
  ag.resume_cv_.id = CV_RESUME;
  ag.mtx_.held = false;
  ag.id_ = 0;
  ag.running_ = nondet_bool();
  ag.aborted_ = nondet_bool();
  g_k = nondet_long();
  g_pub = nondet_long();
  g_wake = nondet_long();
  g_wake_abort = nondet_bool();
  g_run_acq = false; g_ab_acq = false;
  g_cs = 0; g_steps = 0; g_step_cs = 0; g_ntf_sus_cs = -1; g_ntf_res_cs = -1; g_waits_sus = 0; g_waits_res = 0;
  g_in_wait = false; g_spurious = false; g_interfered = false; vx_exc = 0; g_err = 0; g_deadline = false;
  g_os_yields = 0; g_os_nanosleeps = 0; g_os_sleeps = 0; g_pauses = 0; g_slept_arg = 0;
  g_ab0 = ag.aborted_;
  bool ab0 = ag.aborted_;
  long pub0 = g_pub;
  g_role = ROLE_SUSPENDER;
  suspend(&ag, "suspend");
  if (vx_exc == 0) VX_REACH("resumed_returns");
  if (vx_exc != 0) VX_REACH("aborted_throws");
  if (g_spurious && vx_exc == 0) VX_REACH("spurious_wakeup_did_not_end_the_suspension");
  if (g_waits_sus == 1) VX_REACH("woken_at_first_wakeup");
}
