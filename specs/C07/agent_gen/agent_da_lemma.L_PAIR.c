/* C07 lemma over the CONTRACTS of agent.da.suspend and agent.da.resume / agent.da.abort (no lifted code; DESIGN 3.4):
 *
 *   for every interleaving of ONE suspend() and ONE resume() (or abort()) on the same agent -- resume first, suspend first,
 *   overlapping -- both calls return, and the suspension ended because of that resume: no lost wake-up, no double wake-up.
 *
 * Abstract state: the protected state of the agent (struct da_abs, the very macros of agent_da.h that the units use at their
 * release / acquire points) plus, per party, where it is between its critical sections:
 *   suspender  S_BEFORE -> S_PUBLISHED -> (S_WAITING)* -> S_DONE     s_owes: it has published and still has to notify resume_cv_
 *   resumer    R_BEFORE -> (R_WAITING)* -> R_GRANTED -> R_DONE       r_owes: it has granted and still has to notify suspend_cv_
 *   s_blocked / r_blocked: blocked inside std::condition_variable::wait and not notified (nor spuriously woken) since.
 * Steps = what ONE critical section (or one notify call) of a party may do according to its unit contract:
 *   SP  publish                 agent.da.suspend: exactly one PUBLISH (ensures g_pub == g_k && g_steps == 1; release-point guarantee)
 *   SN  notify resume_cv_       agent.da.suspend: ensures g_ntf_res_cs >= g_step_cs; "may block" obligation: before it blocks
 *   SC  check: leave / block    agent.da.suspend: returns only with g_wake == g_k; blocks on suspend_cv_ only with running_ false as
 *                               seen in the same critical section ("may block" obligation in cv_wait)
 *   RC  check: grant / block    agent.da.resume: exactly one GRANT, blocks on resume_cv_ only with running_ true as seen in the same
 *                               critical section
 *   RN  notify suspend_cv_, return     agent.da.resume: ensures WAKE_NOTIFIED
 *   WS / WR  spurious wake-up of a blocked party (environment)
 * A critical section is one atomic step (A-LOCK); std::condition_variable::wait releases the mutex and blocks atomically, and a
 * notification wakes every (notify_all) / one (notify_one; there is at most one) thread blocked at that moment (trusted).
 * The harness takes ONE arbitrary state satisfying the invariant LINV and ONE arbitrary step and checks LINV again, the rely of
 * the other party, a strictly decreasing variant for the non-spurious steps, and that a state without an enabled step is the
 * final one.  The induction over the interleaved history is the paper argument of DESIGN 3.4.
 */
#define DA_LEMMA_ONLY
#include "agent_da.h"

enum { S_BEFORE = 3, S_PUBLISHED = 2, S_WAITING = 1, S_DONE = 0 };
enum { R_BEFORE = 3, R_WAITING = 2, R_GRANTED = 1, R_DONE = 0 };
struct lem { struct da_abs a; int s_pc, r_pc; bool s_owes, r_owes, s_blocked, r_blocked, is_abort; long k; };

#define PC_OK(x) ((x).s_pc >= S_DONE && (x).s_pc <= S_BEFORE && (x).r_pc >= R_DONE && (x).r_pc <= R_BEFORE && 1 <= (x).k && (x).k <= VX_BIG)
#define HIST_OK(x) (DA_INV((x).a) && ((x).a.pub == (x).k - 1 || (x).a.pub == (x).k) && ((x).a.wake == (x).k - 1 || (x).a.wake == (x).k) && \
                    (((x).s_pc == S_BEFORE) == ((x).a.pub == (x).k - 1)) && \
                    (((x).r_pc == R_GRANTED || (x).r_pc == R_DONE) == ((x).a.wake == (x).k)) && \
                    ((x).s_pc != S_DONE || (x).a.wake == (x).k) && \
                    ((x).a.wake != (x).k || (x).a.wake_abort == (x).is_abort))
#define CTL_OK(x) ((!(x).s_owes || (x).s_pc == S_PUBLISHED) && ((x).r_owes == ((x).r_pc == R_GRANTED)) && \
                   (!(x).s_blocked || (x).s_pc == S_WAITING) && (!(x).r_blocked || (x).r_pc == R_WAITING))
/* no notification is lost: a party that is blocked although its condition already holds is still owed the notification */
#define NOTIFY_OK(x) ((!((x).s_blocked && (x).a.running) || (x).r_owes) && (!((x).r_blocked && !(x).a.running) || (x).s_owes))
#define LINV(x) (PC_OK(x) && HIST_OK(x) && CTL_OK(x) && NOTIFY_OK(x))

#define S_CAN_CHECK(x) ((x).s_pc == S_PUBLISHED || ((x).s_pc == S_WAITING && !(x).s_blocked))
#define R_CAN_CHECK(x) ((x).r_pc == R_BEFORE || ((x).r_pc == R_WAITING && !(x).r_blocked))
#define ENABLED(x) ((x).s_pc == S_BEFORE || (x).s_owes || S_CAN_CHECK(x) || R_CAN_CHECK(x) || (x).r_owes)
#define FINAL(x) ((x).s_pc == S_DONE && (x).r_pc == R_DONE)
/* variant: 10 * (one-shot events still to come) + (checks that can be made without a further wake-up) */
#define B(c) ((c) ? 1 : 0)
#define VARIANT(x) (10 * (B((x).s_pc == S_BEFORE) + B((x).s_pc == S_BEFORE || (x).s_owes) + B((x).a.wake == (x).k - 1) + B((x).r_pc != R_DONE) + B((x).s_pc != S_DONE)) + \
                    B(S_CAN_CHECK(x)) + B(R_CAN_CHECK(x)))

static struct da_abs nd_abs(void)
{
  struct da_abs a;
  a.running = nondet_bool(); a.aborted = nondet_bool(); a.wake_abort = nondet_bool(); a.pub = nondet_long(); a.wake = nondet_long();
  return a;
}

void harness(void)
{
#ifdef L_RELY
  /* ---- side conditions of the rely/guarantee argument (full domain) ---- */
  struct da_abs o = nd_abs(), m = nd_abs(), n = nd_abs();
  bool ab = nondet_bool();
  if (!DA_INV(o)) return;
  VX_ASSERT(RELY_SUSPENDER(o, o) && RELY_RESUMER(o, o), "relies are reflexive");
  VX_ASSERT(VX_IMPLIES(RELY_SUSPENDER(o, m) && RELY_SUSPENDER(m, n), RELY_SUSPENDER(o, n)), "RELY_SUSPENDER is transitive (one outstanding suspension: at most one grant)");
  VX_ASSERT(VX_IMPLIES(RELY_RESUMER(o, m) && RELY_RESUMER(m, n), RELY_RESUMER(o, n)), "RELY_RESUMER is transitive (the target publishes at most once before it is woken)");
  VX_ASSERT(VX_IMPLIES(G_PUBLISH(o, n) && o.pub < VX_BIG, DA_INV(n)), "PUBLISH preserves the monitor invariant (ghost range: fewer than 10^9 suspensions)");
  VX_ASSERT(VX_IMPLIES(G_GRANT(o, n, ab), DA_INV(n)), "GRANT preserves the monitor invariant");
  VX_ASSERT(VX_IMPLIES(G_LEAVE(o, n), DA_INV(n)), "LEAVE preserves the monitor invariant");
  VX_ASSERT(VX_IMPLIES(G_PUBLISH(o, n), RELY_RESUMER(o, n)), "the suspender's step is admissible interference for a resume() / abort() in progress");
  VX_ASSERT(VX_IMPLIES(G_GRANT(o, n, ab) && n.wake_abort == ab, RELY_SUSPENDER(o, n)), "the resumer's step is admissible interference for the suspend() in progress");
  VX_ASSERT(VX_IMPLIES(G_GRANT(o, n, ab), o.pub == o.wake + 1), "a wake-up can only be granted to a published suspension (never ahead of it: it would be lost)");
  VX_ASSERT(VX_IMPLIES(G_PUBLISH(o, n), o.pub == o.wake), "a suspension can only be published when every earlier one has been woken");
  if (G_PUBLISH(o, n)) VX_REACH("publish");
  if (G_GRANT(o, n, ab) && ab) VX_REACH("grant_abort");
  if (G_GRANT(o, n, ab) && !ab && o.aborted) VX_REACH("grant_resume_with_stale_aborted");
#endif
#ifdef L_PAIR
  struct lem s, t;
  s.a = nd_abs();
  s.s_pc = nondet_int(); s.r_pc = nondet_int(); s.s_owes = nondet_bool(); s.r_owes = nondet_bool();
  s.s_blocked = nondet_bool(); s.r_blocked = nondet_bool(); s.is_abort = nondet_bool(); s.k = nondet_long();
  int step = nondet_int();
  if (step == 0)
  { /* INIT: both calls are about to be made: the agent runs, suspension k - 1 has been woken and left, the notifier holds the
     * ticket for suspension k (preconditions of the two units) */
    if (!(PC_OK(s) && DA_INV(s.a) && s.a.pub == s.k - 1 && s.a.wake == s.k - 1 && s.s_pc == S_BEFORE && s.r_pc == R_BEFORE &&
          !s.s_owes && !s.r_owes && !s.s_blocked && !s.r_blocked)) return;
    VX_ASSERT(LINV(s), "the initial state satisfies the lemma invariant");
    VX_ASSERT(s.a.running, "initially the agent runs");
    VX_REACH("init");
    return;
  }
  if (!LINV(s)) return;
  t = s;
  /* ---- conclusions about any reachable state ---- */
  VX_ASSERT(ENABLED(s) || FINAL(s), "no deadlock: in every state some party can make a step without a further wake-up, unless both calls have returned");
  VX_ASSERT(VARIANT(s) >= 0 && VX_IMPLIES(FINAL(s), s.a.pub == s.k && s.a.wake == s.k && s.a.running && s.a.wake_abort == s.is_abort),
            "when both calls have returned exactly one suspension was published and exactly one wake-up granted: the suspension ended because of this resume()/abort()");
  if (FINAL(s)) VX_REACH("both_returned");
  if (step == 1)
  { /* SP */
    if (s.s_pc != S_BEFORE) return;
    t.a = nd_abs();
    if (!G_PUBLISH(s.a, t.a)) return;
    t.s_pc = S_PUBLISHED; t.s_owes = true;
    VX_ASSERT(RELY_RESUMER(s.a, t.a), "SP is admitted by the resumer's rely");
    if (s.r_blocked) VX_REACH("resume_first__resumer_already_waiting_when_the_suspension_is_published");
  }
  else if (step == 2)
  { /* SN */
    if (!s.s_owes) return;
    t.s_owes = false; t.r_blocked = false;
  }
  else if (step == 3)
  { /* SC */
    if (!S_CAN_CHECK(s)) return;
    if (s.a.running)
    { /* woken: leave (an abort may be consumed) */
      t.a = nd_abs();
      if (!G_LEAVE(s.a, t.a)) return;
      t.s_pc = S_DONE; t.s_owes = false;
      VX_ASSERT(s.a.wake == s.k, "the suspension is left only after ITS wake-up was granted");
      VX_ASSERT(s.r_pc == R_GRANTED || s.r_pc == R_DONE, "... by this resume()/abort(), which makes no further critical section (LEAVE needs no rely)");
      if (s.s_pc == S_PUBLISHED) VX_REACH("overlapping__woken_before_the_suspender_ever_blocked");
    }
    else
    { /* block: only after the publication was announced */
      if (s.s_owes) return;
      t.s_pc = S_WAITING; t.s_blocked = true;
    }
  }
  else if (step == 4)
  { /* RC */
    if (!R_CAN_CHECK(s)) return;
    if (!s.a.running)
    {
      t.a = nd_abs();
      if (!(G_GRANT(s.a, t.a, s.is_abort))) return;
      t.r_pc = R_GRANTED; t.r_owes = true;
      VX_ASSERT(RELY_SUSPENDER(s.a, t.a), "RC (grant) is admitted by the suspender's rely");
      VX_ASSERT(s.a.pub == s.k && s.a.wake == s.k - 1, "the wake-up is granted to suspension k, once");
      if (s.s_blocked) VX_REACH("suspend_first__target_blocked_when_resumed");
    }
    else
    {
      t.r_pc = R_WAITING; t.r_blocked = true;
      if (s.s_pc == S_BEFORE) VX_REACH("resume_first__waits_for_the_target_to_suspend");
    }
  }
  else if (step == 5)
  { /* RN */
    if (!s.r_owes) return;
    t.r_owes = false; t.s_blocked = false; t.r_pc = R_DONE;
  }
  else if (step == 6)
  { /* WS */
    if (!s.s_blocked) return;
    t.s_blocked = false;
  }
  else if (step == 7)
  { /* WR */
    if (!s.r_blocked) return;
    t.r_blocked = false;
  }
  else return;
  VX_ASSERT(LINV(t), "the lemma invariant (history, control, no lost notification) is preserved by every step");
  if (step <= 5) VX_ASSERT(VARIANT(t) < VARIANT(s), "every step other than a spurious wake-up decreases the variant: both calls return");
  if (step == 6 && !s.a.running) VX_REACH("spurious_wakeup_of_the_suspender");
#endif
}
