/* units: execution::detail::default_agent::{default_agent, suspend, resume, abort} (M), {sleep_until} (M), {sleep_for, yield, yield_k,
 * spin_k} (T + frame)   (execution_base/src/this_thread.cpp)
 * Every statement of the functions under contract is lifted; see agent_da.h for the protocol, ghost state and stubs. */
#include "agent_da.h"



/* the caller dequeued the waiter (it holds the only ticket for suspension g_k); the waiter may or may not have reached
 * suspend() yet: the condition variable releases its internal lock before the waiter suspends */
#define WAKE_PRE(role) (DA_PRE(self) && g_role == (role) && g_wake == g_k - 1 && (g_pub == g_k - 1 || g_pub == g_k))
/* wakes exactly one suspension, namely number g_k, at a moment where it was published (found suspended: asserted at the
 * release point through DA_INV; waits for that if necessary) -- the wake-up is neither lost nor doubled */
#define WAKE_POST (g_wake == g_k && g_pub == g_k && g_steps == 1 && self->running_)
/* ... and notifies suspend_cv_ in or after the critical section that set running_ */
#define WAKE_NOTIFIED (g_step_cs >= 1 && g_ntf_sus_cs >= g_step_cs)

//@FUNC
void resume(struct default_agent *self, char const *desc)
__CPROVER_requires(WAKE_PRE(ROLE_RESUMER))
__CPROVER_ensures(WAKE_POST)
__CPROVER_ensures(WAKE_NOTIFIED)
/* a plain resume: the suspension returns normally */
__CPROVER_ensures(!g_wake_abort && self->aborted_ == g_ab0)
__CPROVER_ensures(!self->mtx_.held && vx_exc == 0)
__CPROVER_assigns(DA_FRAME)
//@LIFT body







void harness(void)
{
  struct default_agent ag;
  vx_ag = &ag;
  ag.suspend_cv_.id = CV_SUSPEND;
  ag.resume_cv_.id = CV_RESUME;
  ag.mtx_.held = false;
  ag.id_ = 0;
  ag.running_ = nondet_bool();
  ag.aborted_ = nondet_bool();
  g_k = nondet_long();
  g_pub = nondet_long();
  g_wake = nondet_long();
  g_wake_abort = nondet_bool();
  g_run_acq = false; g_ab_acq = false;
  g_cs = 0; g_steps = 0; g_step_cs = 0; g_ntf_sus_cs = -1; g_ntf_res_cs = -1; g_waits_sus = 0; g_waits_res = 0;
  g_in_wait = false; g_spurious = false; g_interfered = false; vx_exc = 0; g_err = 0; g_deadline = false;
  g_os_yields = 0; g_os_nanosleeps = 0; g_os_sleeps = 0; g_pauses = 0; g_slept_arg = 0;
  g_ab0 = ag.aborted_;
  bool ab0 = ag.aborted_;
  long pub0 = g_pub;
  g_role = ROLE_RESUMER;
  resume(&ag, "resume");
  if (pub0 == g_k && g_waits_res == 0) VX_REACH("target_was_suspended");
  if (pub0 == g_k - 1 && g_waits_res > 0) VX_REACH("resume_came_first_waited_for_the_target_to_suspend");
  if (g_spurious) VX_REACH("spurious_wakeup");
  if (ab0) VX_REACH("stale_aborted_left_alone");
}
