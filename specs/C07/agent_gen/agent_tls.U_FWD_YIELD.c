/* units: the per-thread agent bookkeeping of execution_base/src/this_thread.cpp   (I + T)
 *   detail::get_default_agent, this_thread::detail::{agent_storage::agent_storage, agent_storage::set, get_agent_storage,
 *   reset_agent::reset_agent (both), reset_agent::~reset_agent, agent, suspend, yield}
 * What C07 needs of it: `agent()` -- the agent_ref a waiter stores in its queue entry and then suspends on -- designates, on a
 * plain OS thread, that thread's ONE default agent (constructed once, on first use, the same object on every call: the
 * (mtx_, running_, aborted_) a notifier reaches through the queue entry is the state the waiter blocks on); inside a
 * reset_agent scope it designates the installed agent, and the scope restores what was there before (LIFO).
 * Agents are opaque objects here (their behaviour: agent_da.c, C02).  Function-local `static thread_local T x;` objects are
 * per-thread globals with a "constructed" flag (C++ [stmt.dcl]: initialised the first time control passes the declaration). */
#include "vx.h"

struct agent_base { int kind; };
typedef struct agent_base *agent_ref;                       /* execution::detail::agent_ref wraps one pointer */
struct default_agent { struct agent_base base; };
struct agent_storage { struct agent_base *impl_; };
struct reset_agent { struct agent_storage *storage_; struct agent_base *old_; };

static struct default_agent g_tls_default_agent;             /* static thread_local default_agent agent; */
static bool g_tls_default_agent_init;
static struct agent_storage g_tls_agent_storage;             /* static thread_local agent_storage storage; */
static bool g_tls_agent_storage_init;
static long g_da_ctors, g_st_ctors;                          /* constructor runs (saturating at 2) */
static long g_suspends, g_yields;                            /* agent_ref::suspend / yield calls (saturating at 2) */
static struct agent_base *g_called_on;                       /* ... on which agent */
static char const *g_called_desc;

#define DEFAULT_AGENT (&g_tls_default_agent.base)
#define VX_LOCAL_STATIC(T, x) do { if (!g_tls_##T##_init) { T##_tls_ctor(&g_tls_##T); g_tls_##T##_init = true; } } while (0)
#define VX_SHARED_STATIC(T, x) do { VX_ASSERT(0, "function-local static without thread_local: ONE object for all threads (each thread needs its own agent / storage)"); VX_LOCAL_STATIC(T, x); } while (0)
#define VX_REF(x) (&(x).base)                               /* T& -> agent_base& conversion of a returned reference */
#define VX_SWAP(a, b) do { __typeof__(a) vx_t = (a); (a) = (b); (b) = vx_t; } while (0)
static agent_ref vx_agent_ref(struct agent_base *p) { return p; }
/* default_agent::default_agent(): unit agent.da.ctor */
static void default_agent_tls_ctor(struct default_agent *a) { if (g_da_ctors < 2) g_da_ctors++; }
/* agent_ref::suspend / yield: virtual call on the designated agent (agent_da.c / C02) */
static void agent_ref_suspend(agent_ref a, char const *desc)
{
  VX_ASSERT(a != NULL, "agent_ref: call through a null agent");
  if (g_suspends < 2) g_suspends++;
  g_called_on = a; g_called_desc = desc;
}
static void agent_ref_yield(agent_ref a, char const *desc)
{
  VX_ASSERT(a != NULL, "agent_ref: call through a null agent");
  if (g_yields < 2) g_yields++;
  g_called_on = a; g_called_desc = desc;
}

#define TLS_FRAME g_tls_default_agent_init, g_tls_agent_storage_init, g_tls_agent_storage.impl_, g_da_ctors, g_st_ctors
/* the bookkeeping invariant of one thread: a constructed storage never designates nothing, and it is constructed after the
 * default agent it initially designates */
#define TLS_INV (g_da_ctors >= 0 && g_da_ctors <= 1 && g_st_ctors >= 0 && g_st_ctors <= 1 && \
                 g_tls_default_agent_init == (g_da_ctors == 1) && g_tls_agent_storage_init == (g_st_ctors == 1) && \
                 (!g_tls_agent_storage_init || (g_tls_agent_storage.impl_ != NULL && g_tls_default_agent_init)))

struct agent_base *get_default_agent(void)
//@LIFT get_default_agent

void agent_storage_ctor(struct agent_storage *self)
//@LIFT storage_ctor
static void agent_storage_tls_ctor(struct agent_storage *s) { if (g_st_ctors < 2) g_st_ctors++; agent_storage_ctor(s); }

struct agent_base *agent_storage_set(struct agent_storage *self, struct agent_base *context)
//@LIFT storage_set

struct agent_storage *get_agent_storage(void)
//@LIFT get_storage

void reset_agent_ctor2(struct reset_agent *self, struct agent_storage *storage, struct agent_base *impl)
//@LIFT reset_ctor2
#define reset_agent_delegate reset_agent_ctor2

void reset_agent_ctor1(struct reset_agent *self, struct agent_base *impl)
//@LIFT reset_ctor1

void reset_agent_dtor(struct reset_agent *self)
//@LIFT reset_dtor

agent_ref agent(void)
//@LIFT agent

#define FWD_POST(cnt, other) (cnt == 1 && other == 0 && g_called_desc == desc && g_called_on == g_tls_agent_storage.impl_ && \
                              g_called_on == (__CPROVER_old(g_tls_agent_storage_init) ? __CPROVER_old(g_tls_agent_storage.impl_) : DEFAULT_AGENT))
//@FUNC
void this_thread_yield(char const *desc)
__CPROVER_requires(TLS_INV && g_suspends == 0 && g_yields == 0)
__CPROVER_ensures(FWD_POST(g_yields, g_suspends))
__CPROVER_assigns(TLS_FRAME, g_suspends, g_yields, g_called_on, g_called_desc)
//@LIFT fwd

void harness(void)
{
  struct agent_base a1, a2, a3;
  struct reset_agent r, r2;
  a1.kind = 1; a2.kind = 2; a3.kind = 3;
  g_tls_default_agent.base.kind = 0;
  g_tls_default_agent_init = nondet_bool();
  g_tls_agent_storage_init = nondet_bool();
  g_da_ctors = g_tls_default_agent_init ? 1 : 0;
  g_st_ctors = g_tls_agent_storage_init ? 1 : 0;
  int w = nondet_int();
  g_tls_agent_storage.impl_ = (w == 0) ? DEFAULT_AGENT : (w == 1) ? &a1 : (w == 2) ? &a2 : NULL;
  g_suspends = 0; g_yields = 0; g_called_on = NULL; g_called_desc = NULL;
  bool st0 = g_tls_agent_storage_init, da0 = g_tls_default_agent_init;
  struct agent_base *impl0 = g_tls_agent_storage.impl_;
  struct agent_base *in = nondet_bool() ? &a3 : (nondet_bool() ? &a1 : NULL);
  this_thread_yield("x");
  if (g_called_on == DEFAULT_AGENT) VX_REACH("default_agent_yields");
  if (g_called_on == &a1) VX_REACH("installed_agent_yields");
}
