/* C07 (waiters that are plain OS threads) -- execution::detail::default_agent (execution_base/src/this_thread.cpp):
 * the agent behind `agent_ref::suspend / resume / abort` when the waiter of a pika condition variable is NOT a pika task.
 * specs/C07/cv.h assumes of these calls "suspend returns only after a resume; resume / abort wake the agent".  Here that is
 * PROVED for the default agent, as a monitor (M) contract on (mtx_, running_, aborted_, suspend_cv_, resume_cv_).
 *
 * Protocol history of ONE agent, kept in ghost counters that are protected by mtx_ like the fields themselves:
 *   g_pub    suspensions published so far      (running_ : true -> false, by the agent's own thread inside suspend())
 *   g_wake   wake-ups granted so far           (running_ : false -> true, by a resume() / abort() call)
 *   g_wake_abort   the last wake-up granted was an abort()
 * Monitor invariant DA_INV (obligation at every release point of mtx_, including the release inside std cv wait; the only thing
 * assumed of the state when mtx_ is (re)acquired, together with the caller's rely):
 *      0 <= g_wake <= g_pub <= g_wake + 1      /\      running_ == (g_pub == g_wake)
 *   i.e. running_ is false exactly while ONE published suspension has not been woken yet: a wake-up can neither be granted
 *   before the suspension it is meant for is published (it would be lost) nor twice.
 * Guarantee (checked at every release point by comparing the protected fields with their values at the acquisition -- what
 * other threads can observe of a critical section is its net effect):
 *   PUBLISH  only by the suspender, at most once per suspend() call        GRANT  only by resume()/abort(), at most once per call;
 *   aborted_ is set only together with an abort()'s GRANT, cleared only by the suspension that the abort ended.
 * Rely: the suspender relies on nobody else publishing and on at most the GRANT of its own suspension; a resume()/abort() call
 *   holds the only "ticket" for suspension number g_k (the condition variable dequeues an entry once: cv.notify_one /
 *   notify_all / abort_all units) and relies on nobody else granting; the target may PUBLISH at any time.
 * The macros below are shared with the lemma harness (agent_da_lemma.c), which checks that every guarantee step is admitted
 * by the other party's rely, preserves DA_INV, and that one suspend() and one resume() always both complete.
 */
#ifndef C07_AGENT_DA_H
#define C07_AGENT_DA_H
#include "vx.h"

#define VX_BIG 1000000000L

/* abstract view of the protected state */
struct da_abs { bool running, aborted, wake_abort; long pub, wake; };
#define DA_INV(s) (0 <= (s).wake && (s).wake <= (s).pub && (s).pub <= VX_BIG && (s).pub <= (s).wake + 1 && (s).running == ((s).pub == (s).wake))
#define DA_SAME(o, n) ((n).running == (o).running && (n).aborted == (o).aborted && (n).wake_abort == (o).wake_abort && (n).pub == (o).pub && (n).wake == (o).wake)
/* suspend(): running_ true -> false; nothing else */
#define G_PUBLISH(o, n) ((o).running && !(n).running && (n).pub == (o).pub + 1 && (n).wake == (o).wake && (n).aborted == (o).aborted && (n).wake_abort == (o).wake_abort)
/* resume() (ab = false) / abort() (ab = true): running_ false -> true; aborted_ set iff abort */
#define G_GRANT(o, n, ab) (!(o).running && (n).running && (n).wake == (o).wake + 1 && (n).pub == (o).pub && (n).wake_abort == (ab) && (n).aborted == ((o).aborted || (ab)))
/* the woken suspension leaves: an abort is consumed (aborted_ may be cleared), nothing else changes */
#define G_LEAVE(o, n) ((o).running && (n).running && (n).pub == (o).pub && (n).wake == (o).wake && (n).wake_abort == (o).wake_abort && (!(n).aborted || (o).aborted))
#define RELY_SUSPENDER(o, n) (DA_SAME(o, n) || G_GRANT(o, n, (n).wake_abort))
#define RELY_RESUMER(o, n) (DA_SAME(o, n) || G_PUBLISH(o, n))

#ifndef DA_LEMMA_ONLY
/* ---- the agent object ------------------------------------------------------------------------------------------------- */
struct vx_cv { int id; };                                     /* std::condition_variable (environment) */
enum { CV_SUSPEND = 1, CV_RESUME = 2 };
enum { ROLE_SUSPENDER = 1, ROLE_RESUMER = 2, ROLE_ABORTER = 3, ROLE_NONE = 4 };

static int g_role;                   /* which call this unit verifies (who the caller is) */
static long g_k;                     /* ordinal of the suspension this call performs / holds the ticket for */
static long g_pub, g_wake;
static bool g_wake_abort;
static bool g_ab0;                   /* aborted_ when the call was made */
static bool g_run_acq, g_ab_acq;     /* protected fields when mtx_ was last acquired (after the environment's steps) */
static long g_cs;                    /* critical sections entered by this call (saturating at VX_BIG) */
static long g_steps;                 /* PUBLISH / GRANT steps made by this call (saturating at 2) */
static long g_step_cs;               /* critical section in which that step was made (0 = none yet) */
static long g_ntf_sus_cs, g_ntf_res_cs;   /* g_cs at the last notification of suspend_cv_ / resume_cv_ (-1 = never) */
static long g_waits_sus, g_waits_res;     /* blocking waits on suspend_cv_ / resume_cv_ (saturating at 2) */
static bool g_in_wait;               /* the release point is the one inside std::condition_variable::wait */
static bool g_spurious;              /* a wait returned although nothing had changed (spurious wake-up / stolen notification) */
static bool g_interfered;            /* another party made a protocol step while this call had mtx_ released */
static int vx_exc, g_err;            /* an exception is in flight (PIKA_THROW_EXCEPTION), its error code */
static bool g_deadline;              /* a timed wait / sleep ended because its deadline passed */
static long g_os_yields, g_os_nanosleeps, g_os_sleeps, g_pauses;   /* sched_yield / nanosleep / std::this_thread::sleep_* calls, PIKA_SMT_PAUSE */
static long g_slept_arg;             /* argument of the last std::this_thread::sleep_* */

static void da_at_release(void);
static void da_at_acquire(void);
#define MON_AT_RELEASE() da_at_release()
#define MON_AT_ACQUIRE() da_at_acquire()
#include "monitor.h"

struct default_agent
{
  bool running_;
  bool aborted_;
  long id_;                          /* std::thread::id: an opaque token */
  struct vx_mutex mtx_;
  struct vx_cv suspend_cv_;
  struct vx_cv resume_cv_;
};
static struct default_agent *vx_ag;

#define DA_INV_G (0 <= g_wake && g_wake <= g_pub && g_pub <= VX_BIG && g_pub <= g_wake + 1 && vx_ag->running_ == (g_pub == g_wake))
#define DA_GHOST0 (g_cs == 0 && g_steps == 0 && g_step_cs == 0 && g_ntf_sus_cs == -1 && g_ntf_res_cs == -1 && g_waits_sus == 0 && g_waits_res == 0 && \
                   !g_in_wait && !g_spurious && !g_interfered && vx_exc == 0 && g_err == 0 && !g_deadline && OS_GHOST0)
#define OS_GHOST0 (g_os_yields == 0 && g_os_nanosleeps == 0 && g_os_sleeps == 0 && g_pauses == 0)
#define OS_FRAME g_os_yields, g_os_nanosleeps, g_os_sleeps, g_pauses, g_slept_arg
#define DA_PRE(self) ((self) == vx_ag && !vx_ag->mtx_.held && vx_ag->suspend_cv_.id == CV_SUSPEND && vx_ag->resume_cv_.id == CV_RESUME && \
                      1 <= g_k && g_k <= VX_BIG && DA_INV_G && DA_GHOST0 && g_ab0 == vx_ag->aborted_)
#define DA_FRAME vx_ag->running_, vx_ag->aborted_, vx_ag->mtx_.held, g_pub, g_wake, g_wake_abort, g_run_acq, g_ab_acq, g_cs, g_steps, g_step_cs, \
                 g_ntf_sus_cs, g_ntf_res_cs, g_waits_sus, g_waits_res, g_in_wait, g_spurious, g_interfered, vx_exc, g_err, g_deadline

static struct da_abs da_cur(void)
{
  struct da_abs s;
  s.running = vx_ag->running_; s.aborted = vx_ag->aborted_; s.wake_abort = g_wake_abort; s.pub = g_pub; s.wake = g_wake;
  return s;
}

/* ---- release point: the net effect of the critical section is classified and must be a step the caller is entitled to --- */
static void da_at_release(void)
{
  bool r0 = g_run_acq, r1 = vx_ag->running_, a0 = g_ab_acq, a1 = vx_ag->aborted_;
  if (r0 && !r1)
  { /* PUBLISH */
    VX_ASSERT(g_role == ROLE_SUSPENDER, "guarantee: only suspend(), on the agent's own thread, publishes a suspension (running_ true -> false)");
    VX_ASSERT(g_steps == 0, "guarantee: one suspension is published per suspend() call");
    VX_ASSERT(a1 == a0, "guarantee: aborted_ is set only by abort(), together with the wake-up");
    if (g_pub < VX_BIG) g_pub++;
    if (g_steps < 2) g_steps++;
    g_step_cs = g_cs;
  }
  else if (!r0 && r1)
  { /* GRANT */
    VX_ASSERT(g_role == ROLE_RESUMER || g_role == ROLE_ABORTER, "guarantee: a suspension is woken (running_ false -> true) only by resume() / abort(), never by the suspender itself");
    VX_ASSERT(g_steps == 0, "guarantee: every resume() / abort() wakes exactly one suspension (no double wake-up)");
    VX_ASSERT(g_role == ROLE_ABORTER ? a1 : a1 == a0, "guarantee: aborted_ is set by abort() and left alone by resume()");
    if (g_wake < VX_BIG) g_wake++;
    g_wake_abort = (g_role == ROLE_ABORTER);
    if (g_steps < 2) g_steps++;
    g_step_cs = g_cs;
  }
  else if (a1 != a0)
  { /* LEAVE: the suspension that an abort() ended may clear aborted_ */
    VX_ASSERT(g_role == ROLE_SUSPENDER && r1 && a0 && !g_in_wait && g_steps == 1 && g_wake == g_k && g_wake_abort,
              "guarantee: aborted_ changes only together with an abort()'s wake-up, or is cleared by the suspension that this abort ended");
  }
  VX_ASSERT(DA_INV_G, "monitor invariant at release: running_ is false exactly while one published suspension has not been woken");
}

/* ---- acquisition: the other parties' critical sections since the last release (environment) ----------------------------- */
static void da_at_acquire(void)
{
  struct da_abs o = da_cur(), n;
  n.running = nondet_bool(); n.aborted = nondet_bool(); n.wake_abort = nondet_bool(); n.pub = nondet_long(); n.wake = nondet_long();
  /* A-LOCK + rely/guarantee: whatever the other threads did, they did it in critical sections of mtx_ that preserve the
   * monitor invariant (asserted at every release point of every unit) and are steps admitted by this caller's rely (lemma
   * unit agent.da.lemma: every guarantee step of the other party is such a step; ticket uniqueness: META assumptions) */
  VX_ASSUME(DA_INV(n) && (g_role == ROLE_SUSPENDER ? RELY_SUSPENDER(o, n) : g_role == ROLE_NONE ? DA_SAME(o, n) : RELY_RESUMER(o, n)));
  vx_ag->running_ = n.running; vx_ag->aborted_ = n.aborted; g_wake_abort = n.wake_abort; g_pub = n.pub; g_wake = n.wake;
  if (!DA_SAME(o, n)) g_interfered = true;
  else if (g_in_wait) g_spurious = true;
  g_run_acq = vx_ag->running_;
  g_ab_acq = vx_ag->aborted_;
  if (g_cs < VX_BIG) g_cs++;
}

/* ---- std::condition_variable (environment; may wake spuriously, notifications may be consumed by anybody) --------------- */
/* wait(l): atomically releases l and blocks; returns with l re-acquired at the environment's discretion.  Contract
 * precondition "the caller may block" (DESIGN 3.3): blocking is legitimate only while the awaited condition is false AS SEEN IN
 * THIS CRITICAL SECTION -- a caller that blocks although the condition already holds has missed the notification for it. */
static void cv_wait(struct vx_cv *c, struct ulock *l);
/* wait_until(l, t): as wait; additionally it may return cv_status::timeout (true) once the deadline has passed */
static bool cv_wait_until(struct vx_cv *c, struct ulock *l, long abs_time)
{
  cv_wait(c, l);
  bool timeout = nondet_bool();
  if (timeout) g_deadline = true;
  return timeout;
}
static void cv_wait(struct vx_cv *c, struct ulock *l)
{
  VX_ASSERT(l->owns && l->m == &vx_ag->mtx_ && l->m->held, "std::condition_variable::wait: the caller owns the agent's mutex");
  VX_ASSERT(c == &vx_ag->suspend_cv_ || c == &vx_ag->resume_cv_, "one of the agent's two condition variables");
  if (c == &vx_ag->suspend_cv_)
  {
    VX_ASSERT(g_role == ROLE_SUSPENDER, "only the agent's own thread blocks on suspend_cv_ (resume notifies ONE waiter)");
    VX_ASSERT(!vx_ag->running_, "may block: suspend() blocks on suspend_cv_ only while running_ is false (else the wake-up already happened: lost)");
    VX_ASSERT(g_ntf_res_cs >= (g_steps == 0 ? g_cs : g_step_cs),
              "may block: the suspender announces running_ == false on resume_cv_, in or after the critical section that publishes it, before it blocks (else a resume() waiting for the target to suspend is never woken)");
    if (g_waits_sus < 2) g_waits_sus++;
  }
  else
  {
    VX_ASSERT(g_role == ROLE_RESUMER || g_role == ROLE_ABORTER, "only resume() / abort() block on resume_cv_");
    VX_ASSERT(vx_ag->running_, "may block: resume() / abort() block on resume_cv_ only while the target has not suspended yet");
    if (g_waits_res < 2) g_waits_res++;
  }
  g_in_wait = true;
  mon_release(l->m);
  mon_acquire(l->m);
  g_in_wait = false;
}
static void cv_notify(struct vx_cv *c)
{
  VX_ASSERT(c == &vx_ag->suspend_cv_ || c == &vx_ag->resume_cv_, "one of the agent's two condition variables");
  if (c == &vx_ag->suspend_cv_) g_ntf_sus_cs = g_cs; else g_ntf_res_cs = g_cs;
}
/* at most one thread waits on either condition variable (one suspender; one ticket holder): notify_one == notify_all */
static void cv_notify_one(struct vx_cv *c) { cv_notify(c); }
static void cv_notify_all(struct vx_cv *c) { cv_notify(c); }

/* ---- PIKA_THROW_EXCEPTION: an exception leaves the function (RAII exits run: lowered by the Guard rule) ------------------ */
enum pika_error { pika_error_success = 0, pika_error_yield_aborted = 14 };
static void vx_throw(int errcode)
{
  VX_ASSERT(vx_exc == 0, "a second exception is thrown while one is in flight");
  vx_exc = 1;
  g_err = errcode;
}
/* ---- operating system (environment): the calls of yield / yield_k / sleep_for / sleep_until --------------------------------- */
#ifdef VX_CBMC
struct timespec { long tv_sec; long tv_nsec; };
#else
#include <time.h>
#endif
static void os_no_lock(void)
{
  VX_ASSERT(!vx_ag->mtx_.held, "the thread gives up the processor / sleeps while it holds the agent's mutex (every resume() / abort() on it is blocked meanwhile)");
}
static int vx_sched_yield(void) { os_no_lock(); if (g_os_yields < 2) g_os_yields++; return 0; }
static int vx_nanosleep(struct timespec const *req, struct timespec *rem)
{
  os_no_lock();
  VX_ASSERT(req != NULL, "nanosleep: request given");
  VX_ASSERT(req->tv_sec >= 0 && req->tv_nsec >= 0 && req->tv_nsec <= 999999999L, "nanosleep: valid timespec (else EINVAL: no back-off at all)");
  VX_ASSERT(req->tv_sec == 0, "back-off sleeps are sub-second: the caller re-checks its condition");
  if (g_os_nanosleeps < 2) g_os_nanosleeps++;
  return 0;
}
static void vx_smt_pause(void) { if (g_pauses < VX_BIG) g_pauses++; }
/* std::this_thread::sleep_for / sleep_until: blocks the calling thread for the given time; nothing can end it early */
static void os_sleep(long t)
{
  os_no_lock();
  if (g_os_sleeps < 2) g_os_sleeps++;
  g_slept_arg = t;
  g_deadline = true;
}
static long steady_value(long t) { return t; }
static long vx_thread_id(void) { long t = nondet_long(); return t; }   /* std::this_thread::get_id(): opaque */
#endif /* DA_LEMMA_ONLY */
#endif
