/* C10 -- work runs where it was sent: common C types, exception model, receiver / closure tokens.
 * Enumerator VALUES are not written here: spec.py reads them from /repo and passes them as -D (thread_priority_*,
 * hint_mode_*, scheduler_mode_*). */
#ifndef C10_H
#define C10_H

/* lowered try/catch (vx.lift.TryCatch): entering the handler = the in-flight exception is caught */
#define VX_TRY_BEGIN(k) ((void) 0)
#define VX_CATCH_BEGIN(k) (vx_caught = vx_exc, vx_exc = 0)
#define VX_THROW_TO(label) do { if (vx_exc) goto label; } while (0)
#include "vx.h"

/* exception model: vx_exc != 0 <=> an exception (opaque token) is propagating out of the current call */
typedef int vx_eptr;
static int vx_exc;
static int vx_caught;
static vx_eptr vx_current_exception(void) { return vx_caught; }

/* pika::execution::thread_schedule_hint */
struct hint { int16_t hint; int8_t mode; };
/* mirror of the default constructor thread_schedule_hint(): hint(-1), mode(none)  (trusted: mem-initialiser list) */
static struct hint hint_default(void) { struct hint h; h.hint = -1; h.mode = hint_mode_none; return h; }
#define HINT_EQ(a, b) ((a).hint == (b).hint && (a).mode == (b).mode)

/* a callable (lambda / user function object) is an opaque token: which text it is (kind) + what it captured (env) */
struct closure { int kind; void *env; };
#define CLOSURE_EQ(a, b) ((a).kind == (b).kind && (a).env == (b).env)
enum { CL_USER = 1, CL_START_TASK = 2 };
static long g_closure_calls;            /* a closure invoked inside the function under contract */
static void closure_call(struct closure c) { g_closure_calls++; }

/* downstream receiver: T-stubs of the completion signals */
struct receiver { int id; };
static long g_set_value, g_set_error, g_set_stopped;
static struct receiver *g_sig_recv;
static vx_eptr g_error_tok;
#define NO_SIGNAL_YET (g_set_value + g_set_error + g_set_stopped == 0)
static void recv_set_value(struct receiver *r) { VX_ASSERT(NO_SIGNAL_YET, "receiver signalled at most once"); g_set_value++; g_sig_recv = r; }
static void recv_set_error(struct receiver *r, vx_eptr e) { VX_ASSERT(NO_SIGNAL_YET, "receiver signalled at most once"); g_set_error++; g_sig_recv = r; g_error_tok = e; }

#endif
