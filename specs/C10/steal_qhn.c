/* C10 (steal units) -- queue_holder_numa::get_next_thread / get_next_thread_HP / add_new / add_new_HP: the set of queue holders
 * of ONE NUMA domain; qidx is the calling worker's own holder.
 *   core stealing off (last argument false): only queues_[qidx] is polled / is the source of a conversion;
 *   always: every index < num_queues_ (for every queue count), conversions go INTO the receiver the caller named. */
#include "c10.h"
typedef int thread_id_ref;
struct qhn { size_t num_queues_, domain_; };
struct holder { int id; };

static size_t g_q0;                          /* the caller's own holder index */
static struct holder *g_receiver;
static long g_own, g_foreign;                /* polls / conversions whose source is queues_[g_q0] / another holder */
static bool g_bad_receiver;
#define SAT_INC(c) do { if ((c) < 3) (c)++; } while (0)
static size_t qh_at(struct qhn *self, size_t q) { VX_ASSERT(q < self->num_queues_, "queues_[q]: q < num_queues_"); return q; }
static void qh_visit(struct qhn *self, size_t q) { if (qh_at(self, q) == g_q0) SAT_INC(g_own); else SAT_INC(g_foreign); }
/* queue_holder_thread::get_next_thread_HP(thrd, stealing, check_new) / get_next_thread(thrd, stealing) on queues_[q] */
static bool qh_get_next_thread_HP(struct qhn *self, size_t q, thread_id_ref *thrd, bool stealing, bool check_new) { qh_visit(self, q); return nondet_bool(); }
static bool qh_get_next_thread(struct qhn *self, size_t q, thread_id_ref *thrd, bool stealing) { qh_visit(self, q); return nondet_bool(); }
/* receiver->add_new[_HP](count, queues_[q], stealing): staged tasks of queues_[q] become pending tasks of receiver */
static size_t recv_add(struct qhn *self, struct holder *receiver, int64_t count, size_t from, bool stealing)
{ if (receiver != g_receiver) g_bad_receiver = true; qh_visit(self, from); return nondet_bool() ? (size_t) 1 + (size_t) nondet_u8() : 0; }
/* queues_[q]->add_new[_HP](count, from, stealing): the RECEIVER is queues_[q] -- the caller's receiver only if q is its own slot */
static size_t qh_add(struct qhn *self, size_t q, int64_t count, struct holder *from, bool stealing)
{ if (qh_at(self, q) != g_q0 || from == g_receiver) g_bad_receiver = true; SAT_INC(g_foreign); return nondet_bool() ? 1 : 0; }
#define qh_add_new(self, q, c, f, s) qh_add(self, q, c, f, s)
#define qh_add_new_HP(self, q, c, f, s) qh_add(self, q, c, f, s)
#define recv_add_new(self, r, c, f, s) recv_add(self, r, c, f, s)
#define recv_add_new_HP(self, r, c, f, s) recv_add(self, r, c, f, s)
size_t fast_mod(size_t const input, size_t const ceil)
//@LIFT fast_mod

#define QHN_PRE(self) (qidx < (self)->num_queues_ && qidx == g_q0 && g_own == 0 && g_foreign == 0 && !g_bad_receiver)
#define QHN_POST (VX_IMPLIES(!g_allow, g_foreign == 0) && !g_bad_receiver)
static bool g_allow;

#if defined(U_GET_NEXT) || defined(U_GET_NEXT_HP)
//@FUNC
bool qhn_op(struct qhn *self, size_t qidx, thread_id_ref *thrd, bool stealing, bool core_stealing)
__CPROVER_requires(QHN_PRE(self) && g_allow == core_stealing)
__CPROVER_ensures(QHN_POST)
__CPROVER_assigns(g_own, g_foreign, g_bad_receiver)
//@LIFT body
#else
//@FUNC
bool qhn_op(struct qhn *self, struct holder *receiver, size_t qidx, size_t *added, bool stealing, bool allow_stealing)
__CPROVER_requires(QHN_PRE(self) && g_allow == allow_stealing && receiver == g_receiver)
__CPROVER_ensures(QHN_POST)
__CPROVER_assigns(*added, g_own, g_foreign, g_bad_receiver)
//@LIFT body
#endif

void harness(void)
{
  static struct qhn h; static struct holder recv; thread_id_ref t = 0; size_t added = nondet_size();
  vx_exc = 0; vx_caught = 0;
  h.num_queues_ = nondet_size(); h.domain_ = nondet_size();
  g_q0 = nondet_size(); g_receiver = &recv; g_own = g_foreign = 0; g_bad_receiver = false;
  g_allow = nondet_bool();
  bool stealing = nondet_bool();
#if defined(U_GET_NEXT) || defined(U_GET_NEXT_HP)
  bool r = qhn_op(&h, g_q0, &t, stealing, g_allow);
#else
  bool r = qhn_op(&h, &recv, g_q0, &added, stealing, g_allow);
#endif
  if (r && !g_allow) VX_REACH("from_own_holder_no_stealing");
  if (!r && !g_allow) VX_REACH("nothing_no_stealing");
  if (r && g_allow && g_foreign > 0) VX_REACH("from_other_holder_of_the_domain");
  if (!r && g_allow) VX_REACH("nothing_after_stealing");
}
