/* C10 (steal units) -- local_priority_queue_scheduler::on_start_thread, closure `iterate`: the victim list of worker num_thread
 * only ever receives indices of OTHER EXISTING workers (this is the fact the stub victim_at of steal_q.h assumes), and the
 * predicate f is only asked about existing workers (it indexes core_masks / numa_masks, vectors of size num_threads).
 * Precondition: radius == lround(num_threads / 2.0) == (num_threads + 1) / 2 (the statement computing it is floating point and
 * outside the closure: assumption). */
#include "steal_q.h"

static long g_pushes, g_f_calls; static bool g_bad_victim, g_bad_f_arg; static size_t g_nt;
static bool call_f(struct lpqs *self, size_t other)
{ SAT_INC(g_f_calls); if (!(other < self->num_queues_)) g_bad_f_arg = true; return nondet_bool(); }
static void victims_push(struct lpqs *self, size_t w, size_t v)
{
  VX_ASSERT(w == g_nt, "victim_threads_[w]: the starting worker's own list");
  SAT_INC(g_pushes);
  if (!(v < self->num_queues_ && v != w)) g_bad_victim = true;
}

//@FUNC
void iterate(struct lpqs *self, size_t num_thread, size_t num_threads, ptrdiff_t radius, int f)
__CPROVER_requires(WF(self) && num_threads == self->num_queues_ && num_thread < num_threads && num_thread == g_nt && radius == (ptrdiff_t) ((num_threads + 1) / 2))
__CPROVER_requires(g_pushes == 0 && g_f_calls == 0 && !g_bad_victim && !g_bad_f_arg)
__CPROVER_ensures(!g_bad_victim && !g_bad_f_arg)
__CPROVER_assigns(g_pushes, g_f_calls, g_bad_victim, g_bad_f_arg)
//@LIFT body

void harness(void)
{
  static struct lpqs s;
  s.curr_queue_ = nondet_size(); s.num_queues_ = nondet_size(); s.num_high_priority_queues_ = nondet_size(); s.mode_ = nondet_u32();
  steal_ghost_init();
  g_pushes = g_f_calls = 0; g_bad_victim = g_bad_f_arg = false; g_nt = nondet_size();
  size_t n = s.num_queues_;
  iterate(&s, g_nt, n, (ptrdiff_t) ((n + 1) / 2), 1);
  if (g_pushes > 0) VX_REACH("victims_added");
  if (g_pushes == 0 && g_f_calls > 0) VX_REACH("no_victim_accepted");
  if (g_f_calls == 0) VX_REACH("single_worker");
  if (n % 2 == 0 && g_pushes > 0) VX_REACH("even_worker_count");
}
