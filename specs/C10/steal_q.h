/* C10 (steal units) -- who takes work out of whose queue.
 * Common C mirror for local_priority_queue_scheduler / local_queue_scheduler / static_queue_scheduler: every thread_queue the
 * scheduler owns is one of FIVE-SIX symbolic objects classified from the point of view of the calling worker g_me:
 *   this worker's normal / high priority queue, "some other worker's" normal / high priority queue, the shared low priority
 *   queue, and (local_queue_scheduler units) ONE symbolic victim worker g_v chosen by the harness (any index != g_me).
 * The stubs are T-stubs: they record which object was the SOURCE and which the RECEIVER of a poll / a staged->pending
 * conversion; what the queue does with it is C01 (hops.tq.add_new, hops.tq.add_new_always, queue.get_next_thread) and the
 * units steal.tq.* of this file set. */
#ifndef STEAL_Q_H
#define STEAL_Q_H
#include "c10.h"

struct lpqs {                               /* the scheduler: only what the functions under contract read */
  size_t curr_queue_;
  size_t num_queues_;                       /* == queues_.size() == victim_threads_.size() == number of workers */
  size_t num_high_priority_queues_;
  uint32_t mode_;                           /* scheduler_base::mode_ */
#ifdef LPQS_EXTRA_FIELDS
  LPQS_EXTRA_FIELDS
#endif
};
/* class invariant established by the constructors (their PIKA_ASSERTs); the hint type std::int16_t bounds the worker count */
#define WF(s) ((s)->num_queues_ != 0 && (s)->num_high_priority_queues_ != 0 && (s)->num_high_priority_queues_ <= (s)->num_queues_ && (s)->num_queues_ <= 0x7fff)
typedef int thread_id_ref;
typedef uint32_t scheduler_mode;

struct tq { int kind; bool foreign; bool victim; };      /* kind: 0 normal, 1 high, 2 low */
static struct tq g_q_np_mine, g_q_np_other, g_q_np_v, g_q_hp_mine, g_q_hp_other, g_q_lp;
static size_t g_me;                         /* the calling worker (num_thread) */
static size_t g_v;                          /* the symbolic victim worker of the local_queue_scheduler units (!= g_me) */
static bool g_use_v;

/* ---- this worker's victim list (local_priority_queue_scheduler::victim_threads_[g_me].data_) ---- */
static size_t g_nvictims, g_cur_victim;
static bool g_have_victim;
static size_t victims_size(struct lpqs *self, size_t w)
{ VX_ASSERT(w < self->num_queues_ && w == g_me, "victim_threads_[w]: the calling worker's own victim list"); return g_nvictims; }
static size_t victim_at(struct lpqs *self, size_t w, size_t k)
{
  VX_ASSERT(w < self->num_queues_ && w == g_me, "victim_threads_[w]: the calling worker's own victim list");
  size_t v = nondet_size();
  VX_ASSUME(v < self->num_queues_ && v != w);       /* on_start_thread fills the list with OTHER existing workers: proved by unit steal.lpq.victims */
  g_cur_victim = v; g_have_victim = true;
  return v;
}

/* ---- which queue object is addressed ---- */
#ifndef FOREIGN_INDEX_OK
/* local_priority_queue_scheduler: a queue of another worker is reached only through an element of the victim list */
#define FOREIGN_INDEX_OK(i) (g_have_victim && (i) == g_cur_victim)
#endif
static struct tq *np_queue(struct lpqs *self, size_t i)
{
  VX_ASSERT(i < self->num_queues_, "queues_[i]: i < num_queues_");
  VX_ASSERT(i == g_me || FOREIGN_INDEX_OK(i), "another worker's normal-priority queue is addressed only as a stealing victim");
  return i == g_me ? &g_q_np_mine : ((g_use_v && i == g_v) ? &g_q_np_v : &g_q_np_other);
}
static struct tq *hp_queue(struct lpqs *self, size_t i)
{
  VX_ASSERT(i < self->num_high_priority_queues_, "high_priority_queues_[i]: i < num_high_priority_queues_");
  VX_ASSERT(i == g_me || FOREIGN_INDEX_OK(i), "another worker's high-priority queue is addressed only as a stealing victim");
  return i == g_me ? &g_q_hp_mine : &g_q_hp_other;
}

/* ---- ghost trace ---- */
static bool g_steal_allowed;                /* the enable_stealing argument of the call under contract (harness copy) */
static long g_self_np, g_self_hp, g_self_lp;/* polls / conversions of one of this worker's own queues (source == receiver) */
static long g_own_cross;                    /* source and receiver are two different own queues */
static long g_src_foreign;                  /* SOURCE is another worker's queue (saturating) */
static long g_src_v;                        /* ... and it is the symbolic victim g_v */
static long g_dst_foreign;                  /* RECEIVER is another worker's queue */
static bool g_moved, g_moved_foreign;       /* something was taken / it was taken from another worker's queue */
#define SAT_INC(c) do { if ((c) < 3) (c)++; } while (0)
#define STEAL_GHOST_ZERO (g_self_np == 0 && g_self_hp == 0 && g_self_lp == 0 && g_own_cross == 0 && g_src_foreign == 0 && g_src_v == 0 && \
                          g_dst_foreign == 0 && !g_moved && !g_moved_foreign && !g_have_victim)
#define QUEUES_CLASSIFIED (g_q_np_mine.kind == 0 && !g_q_np_mine.foreign && !g_q_np_mine.victim && g_q_np_other.kind == 0 && g_q_np_other.foreign && !g_q_np_other.victim && \
                           g_q_np_v.kind == 0 && g_q_np_v.foreign && g_q_np_v.victim && \
                           g_q_hp_mine.kind == 1 && !g_q_hp_mine.foreign && !g_q_hp_mine.victim && g_q_hp_other.kind == 1 && g_q_hp_other.foreign && !g_q_hp_other.victim && \
                           g_q_lp.kind == 2 && !g_q_lp.foreign && !g_q_lp.victim)
#define STEAL_GHOSTS g_self_np, g_self_hp, g_self_lp, g_own_cross, g_src_foreign, g_src_v, g_dst_foreign, g_moved, g_moved_foreign, g_have_victim, g_cur_victim

static void steal_ghost_init(void)
{
  g_q_np_mine = (struct tq){0, false, false}; g_q_np_other = (struct tq){0, true, false}; g_q_np_v = (struct tq){0, true, true};
  g_q_hp_mine = (struct tq){1, false, false}; g_q_hp_other = (struct tq){1, true, false}; g_q_lp = (struct tq){2, false, false};
  g_self_np = g_self_hp = g_self_lp = g_own_cross = g_src_foreign = g_src_v = g_dst_foreign = 0;
  g_moved = g_moved_foreign = false; g_have_victim = false; g_cur_victim = 0; g_use_v = false; g_v = 0;
  vx_exc = 0; vx_caught = 0;
}

static void steal_record(struct tq *dst, struct tq *src)
{
  VX_ASSERT(!dst->foreign, "work is only ever moved INTO one of the calling worker's own queues");
  VX_ASSERT(!src->foreign || g_steal_allowed, "stealing disabled: the source of the work is one of the calling worker's own queues");
  if (dst->foreign) SAT_INC(g_dst_foreign);
  if (src->foreign) { SAT_INC(g_src_foreign); if (src->victim) SAT_INC(g_src_v); }
  else if (src != dst) SAT_INC(g_own_cross);
  else if (src->kind == 0) SAT_INC(g_self_np);
  else if (src->kind == 1) SAT_INC(g_self_hp);
  else SAT_INC(g_self_lp);
}

/* thread_queue::wait_or_add_new(running, added [, steal])            : staged tasks of q become pending tasks of q
 * thread_queue::wait_or_add_new(running, added, addfrom [, steal])   : staged tasks of addfrom become pending tasks of q
 * (units steal.tq.wait_or_add_new.*).  May convert any number >= 1 of tasks or nothing; the result is unconstrained. */
static bool tq_convert_from(struct tq *q, bool running, size_t *added, struct tq *addfrom)
{
  steal_record(q, addfrom);
  if (nondet_bool()) { *added += (size_t) 1 + (size_t) nondet_u16(); g_moved = true; if (addfrom->foreign) g_moved_foreign = true; }
  return nondet_bool();
}
static bool tq_convert_steal(struct tq *q, bool running, size_t *added, bool steal) { return tq_convert_from(q, running, added, q); }
#define tq_wait_or_add_new2(q, running, added) tq_convert_from(q, running, added, q)
/* C++ overload resolution on the static type of the third argument: thread_queue* -> the addfrom overload, bool -> steal */
#define tq_wait_or_add_new3(q, running, added, x) _Generic((x), struct tq *: tq_convert_from, default: tq_convert_steal)(q, running, added, x)

/* thread_queue::get_next_thread(thrd [, allow_stealing [, steal]]): takes from q's own pending queue (C01 queue.get_next_thread) */
static bool g_got;
static bool tq_poll(struct tq *q)
{
  VX_ASSERT(!g_got, "no further poll after a task was obtained");
  steal_record(q->foreign ? &g_q_np_mine : q, q);      /* a polled task is run by the polling worker: receiver = this worker */
  bool r = nondet_bool();
  if (r) { g_got = true; g_moved = true; if (q->foreign) g_moved_foreign = true; }
  return r;
}
#define tq_get_next_thread(q, ...) tq_poll(q)
static void tq_count(struct tq *q) { (void) q->kind; }
#define tq_increment_num_pending_accesses(q) tq_count(q)
#define tq_increment_num_pending_misses(q) tq_count(q)
#define tq_increment_num_stolen_from_pending(q) tq_count(q)
#define tq_increment_num_stolen_to_pending(q) tq_count(q)
#define tq_increment_num_stolen_from_staged(q, n) tq_count(q)
#define tq_increment_num_stolen_to_staged(q, n) tq_count(q)
static bool g_own_np_staged;
static long tq_get_staged_queue_length(struct tq *q) { return (q == &g_q_np_mine && g_own_np_staged) ? 1 : 0; }

#define PIKA_UNUSED(x) ((void) (x))
#endif
