"""C10 extension -- who takes work out of whose queue (wait_or_add_new / stealing paths of the schedulers).

Merged into specs/C10/spec.py by  exec(open(".../steal_spec.py").read()); UNITS += STEAL_UNITS.
Relies only on names it imports / defines itself.  Templates: steal_*.c / steal_*.h next to this file."""
import re as _re

from vx.lift import (Lift as _Lift, Sub as _Sub, Call as _Call, Members as _Members, Guard as _Guard, DropStmt as _DropStmt,
                     Rule as _Rule, LiftError as _LiftError, match_close as _match_close, split_args as _split_args,
                     read_source as _read_source)
from vx.run import Unit as _Unit

_T = "../C10/"                  # template paths are relative to the spec dir that exec()s this file (C10 or the scratch C10X)
S_LPQ = "libs/pika/schedulers/include/pika/schedulers/local_priority_queue_scheduler.hpp"
S_LQS = "libs/pika/schedulers/include/pika/schedulers/local_queue_scheduler.hpp"
S_SQS = "libs/pika/schedulers/include/pika/schedulers/static_queue_scheduler.hpp"
S_SPQS = "libs/pika/schedulers/include/pika/schedulers/static_priority_queue_scheduler.hpp"
S_TQ = "libs/pika/schedulers/include/pika/schedulers/thread_queue.hpp"
S_SHARED = "libs/pika/schedulers/include/pika/schedulers/shared_priority_queue_scheduler.hpp"
S_QHN = "libs/pika/schedulers/include/pika/schedulers/queue_holder_numa.hpp"
S_QHT = "libs/pika/schedulers/include/pika/schedulers/queue_holder_thread.hpp"
S_ENUMS = "libs/pika/coroutines/include/pika/coroutines/thread_enums.hpp"
S_MODE_HPP = "libs/pika/threading_base/include/pika/threading_base/scheduler_mode.hpp"
S_SB_HPP = "libs/pika/threading_base/include/pika/threading_base/scheduler_base.hpp"


# ---------------------------------------------------------------------------------------------------------------
# helpers (copies of the helpers of specs/C10/spec.py, so that this file stands alone)


def _s_enum_defines(relpath, enum_name, prefix):
    """`enum class <enum_name> [: T] { a = v, b, c = a | b, ... }` of /repo -> ["<prefix>a=<v>", ...]"""
    try:
        src = _read_source(relpath)
    except _LiftError:
        return []
    m = _re.search(r"enum\s+class\s+%s\b[^{;]*\{" % _re.escape(enum_name), src)
    if not m:
        return []
    op = m.end() - 1
    cl = _match_close(src, op, "{", "}")
    env, out, nxt = {}, [], 0
    for item in _split_args(src[op + 1: cl]):
        item = item.strip()
        mm = _re.match(r"(\w+)\s*(?:=\s*(.*))?$", item, _re.S) if item else None
        if not mm:
            continue
        if mm.group(2) is not None:
            try:
                val = int(eval(mm.group(2), {"__builtins__": {}}, dict(env)))
            except Exception:
                continue
        else:
            val = nxt
        env[mm.group(1)] = val
        nxt = val + 1
        out.append("%s%s=%d" % (prefix, mm.group(1), val))
    return out


class _SMethod(_Rule):
    """member call `RECV.name(args)` / `RECV->name(args)` -> template(name, recv_pointer_expr, args)   (specs/C19 Method)"""

    def __init__(self, name, template, n=None):
        self.name, self.template, self.n = name, template, n

    @staticmethod
    def _recv_start(text, dot):
        i = dot
        while True:
            if i >= 1 and text[i - 1] in ")]":
                close = text[i - 1]
                open_ = "(" if close == ")" else "["
                depth, q = 0, i - 1
                while q >= 0:
                    if text[q] == close:
                        depth += 1
                    elif text[q] == open_:
                        depth -= 1
                        if depth == 0:
                            break
                    q -= 1
                if q < 0:
                    raise _LiftError("Method: unbalanced receiver")
                i = q
                continue
            mm = _re.search(r"\w+$", text[:i])
            if mm:
                i = mm.start()
                if text[i - 2: i] in ("::", "->"):
                    i -= 2
                    continue
                if text[i - 1: i] == ".":
                    i -= 1
                    continue
            break
        return i

    def apply(self, text):
        k, scan = 0, 0
        rx = _re.compile(r"(\.|->)(%s)\s*\(" % self.name)
        while True:
            m = rx.search(text, scan)
            if not m:
                break
            rs = self._recv_start(text, m.start())
            recv = text[rs: m.start()].strip()
            if not recv:
                raise _LiftError("Method(%s): empty receiver" % self.name)
            recv = "(%s)" % recv if m.group(1) == "->" else "&(%s)" % recv
            op = m.end() - 1
            cl = _match_close(text, op)
            rep = self.template(m.group(2), recv, _split_args(text[op + 1: cl]))
            text = text[:rs] + rep + text[cl + 1:]
            scan = rs + len(rep)
            k += 1
        self.check(k, "Method(%s)" % self.name)
        return text


S_PRIO_ENUM = _Sub(r"(?:(?:pika::)?execution::)?thread_priority::(\w+)", r"thread_priority_\1", None)
S_HINT_MODE_ENUM = _Sub(r"(?:(?:pika::)?execution::)?thread_schedule_hint_mode::(\w+)", r"hint_mode_\1", None)
S_MODE_ENUM = _Sub(r"(?:::)?(?:pika::)?(?:threads::)?scheduler_mode::(\w+)", r"scheduler_mode_\1", None)
S_ENUM_DEFS = (_s_enum_defines(S_ENUMS, "thread_priority", "thread_priority_") +
               _s_enum_defines(S_ENUMS, "thread_schedule_hint_mode", "hint_mode_") +
               _s_enum_defines(S_ENUMS, "thread_stacksize", "thread_stacksize_") +
               _s_enum_defines(S_MODE_HPP, "scheduler_mode", "scheduler_mode_"))
S_SIZE_T_CAST = _Sub(r"std::size_t\(\s*(-?\w+)\s*\)", r"((size_t) \1)", None)

# ---------------------------------------------------------------------------------------------------------------
# group 1: wait_or_add_new of the per-worker-queue schedulers

S_TQ_METHODS = ["get_next_thread", "wait_or_add_new", "increment_num_pending_accesses", "increment_num_pending_misses",
                "increment_num_stolen_from_pending", "increment_num_stolen_to_pending", "increment_num_stolen_from_staged",
                "increment_num_stolen_to_staged", "get_staged_queue_length"]


def _s_tq_call(name, recv, args):
    args = [a for a in args if a]
    if name == "wait_or_add_new":
        # the stub takes the by-reference `added` as a pointer; the arity selects the C macro, the TYPE of a third argument
        # selects the overload inside it (_Generic), as C++ overload resolution does
        if len(args) not in (2, 3):
            raise _LiftError("wait_or_add_new with %d arguments" % len(args))
        return "tq_wait_or_add_new%d(%s)" % (len(args), ", ".join([recv, args[0], "&(%s)" % args[1]] + args[2:]))
    return "tq_%s(%s)" % (name, ", ".join([recv] + args))


S_TQ_CALL = _SMethod("|".join(S_TQ_METHODS), _s_tq_call, None)
S_ADDED_REF = _Sub(r"(?<![\w.>])added\b", "(*added)", None)            # std::size_t& added
S_LPQ_MEMBERS = _Members(["num_queues_", "num_high_priority_queues_"], optional=["num_queues_", "num_high_priority_queues_"])
S_VICTIM_FOR = _Sub(r"for\s*\(\s*std::size_t\s+(\w+)\s*:\s*victim_threads_\[(\w+)\]\.data_\s*\)\s*\{",
                    r"for (size_t vx_it = 0; vx_it != victims_size(self, \2); ++vx_it) { size_t \1 = victim_at(self, \2, vx_it);", None)
S_LPQ_POLL_RULES = [
    _Sub(r"\bthread_queue_type\s*\*", "struct tq *", None),
    _Sub(r"\bhigh_priority_queues_\[([^\]]+)\]\.data_", r"hp_queue(self, \1)", None),
    _Sub(r"\bqueues_\[([^\]]+)\]\.data_", r"np_queue(self, \1)", None),
    _Sub(r"\blow_priority_queue_(?=\.)", "g_q_lp", None),
    S_ADDED_REF,
    S_TQ_CALL,
    S_VICTIM_FOR,
    S_LPQ_MEMBERS,
]
S_LPQ_WOAN_LOOP = """
__CPROVER_assigns(vx_it, result, *added, g_src_foreign, g_src_v, g_dst_foreign, g_own_cross, g_self_np, g_self_hp, g_self_lp, g_moved, g_moved_foreign, g_cur_victim, g_have_victim)
__CPROVER_loop_invariant(g_dst_foreign == 0)
__CPROVER_loop_invariant(g_self_hp >= 1 || g_self_np >= 1 || g_self_lp >= 1 || g_own_cross >= 1)
"""
S_SQ_RULES = [
    _Sub(r"using\s+\w+\s*=[^;]*;", "", None),
    _Sub(r"\bthread_queue_type\s*\*", "struct tq *", None),
    _Sub(r"(?:this->)?\bqueues_\.size\(\)", "self->num_queues_", None),
    _Sub(r"(?:this->)?\bqueues_\[([^\]]+)\]", r"np_queue(self, \1)", None),
    S_ADDED_REF,
    S_TQ_CALL,
]
S_LPQ_F = S_LPQ + ": local_priority_queue_scheduler::"

STEAL_UNITS = [
    _Unit("steal.lpq.wait_or_add_new", _T + "steal_lpq.c", defines=S_ENUM_DEFS + ["U_LPQ_WOAN"], enforce="wait_or_add_new",
          lifts={"body": _Lift(S_LPQ, r"bool wait_or_add_new\(std::size_t num_thread, bool running, std::int64_t& idle_loop_count,",
                               rules=S_LPQ_POLL_RULES, loops={1: S_LPQ_WOAN_LOOP, "count": 1})},
          funcs=[S_LPQ_F + "wait_or_add_new (also static_priority_queue_scheduler, which inherits it)"], min_obligations=40,
          doc="T: staged tasks are only ever converted INTO one of the calling worker's own queues (own normal / own high / shared "
              "low); with enable_stealing == false no other worker's staged queue is the source of a conversion; other workers' "
              "queues are addressed only through this worker's victim list; indices in bounds for every worker count"),
    _Unit("steal.sq.wait_or_add_new", _T + "steal_lpq.c", defines=S_ENUM_DEFS + ["U_SQ_WOAN"], enforce="wait_or_add_new",
          lifts={"body": _Lift(S_SQS, r"bool wait_or_add_new\(std::size_t num_thread, bool running, std::int64_t& idle_loop_count,",
                               rules=S_SQ_RULES)},
          funcs=[S_SQS + ": static_queue_scheduler::wait_or_add_new"], min_obligations=15,
          doc="T: exactly queues_[num_thread] is converted (source == receiver == this worker's queue), once, whatever "
              "enable_stealing says"),
]


# ---------------------------------------------------------------------------------------------------------------
# group 2: thread_queue::wait_or_add_new (both overloads)

S_TQ_LOCK = _Guard(r"std::unique_lock<mutex_type>\s+(\w+)\(\s*mtx_\s*,\s*std::try_to_lock\s*\)\s*;",
                   r"struct ulock \1 = ulock_try(&self->mtx_);", r"ulock_dtor(&\1);", 1)
S_TQ_RULES = [
    _Sub(r"(?:\b(\w+)\s*->\s*)?\b(\w+_count_)\.data_\.load\(\s*(?:std::memory_order\w*)?\s*\)",
         lambda m: "count_load(&%s->%s)" % (m.group(1) or "self", m.group(2)), "+"),
    S_TQ_LOCK,
    _Sub(r"\b(\w+)\.owns_lock\(\)", r"ulock_owns(&\1)", None),
    _Sub(r"\b(\w+)\.unlock\(\)", r"ulock_unlock(&\1)", None),
    S_ADDED_REF,
    _Sub(r"\bthis\b", "self", None),
    # which object receives the call and which is passed as source is the code's: the rules only bind receiver -> first argument
    _Call(r"\b(\w+)\s*->\s*add_new_always", "tq_add_new_always({h1}, &({0}), {1}, &({2}), {3})", None),
    _Call(r"(?<![\w.>])add_new_always", "tq_add_new_always(self, &({0}), {1}, &({2}), {3})", None),
    _Call(r"(?<![\w.>])cleanup_terminated_locked", lambda a, env: "tq_cleanup_terminated_locked(self, %s)" % (a[0] if a and a[0] else "false"), None),
    _Call(r"(?<![\w.>])cleanup_terminated", lambda a, env: "tq_cleanup_terminated(self, %s)" % (a[0] if a and a[0] else "false"), None),
    _Members(["parameters_"], optional=["parameters_"]),
]
S_TQ_F = S_TQ + ": thread_queue::"
STEAL_UNITS += [
    _Unit("steal.tq.wait_or_add_new.self", _T + "steal_tq.c", defines=S_ENUM_DEFS + ["U_WOAN_SELF"], enforce="wait_or_add_new",
          lifts={"body": _Lift(S_TQ, r"inline bool wait_or_add_new\(bool, std::size_t& added, bool steal = false\)", rules=S_TQ_RULES)},
          funcs=[S_TQ_F + "wait_or_add_new(bool, added, steal)"], min_obligations=8,
          doc="T: every add_new_always is made under this queue's lock with source == receiver == this queue"),
    _Unit("steal.tq.wait_or_add_new.from", _T + "steal_tq.c", defines=S_ENUM_DEFS + ["U_WOAN_FROM"], enforce="wait_or_add_new",
          lifts={"body": _Lift(S_TQ, r"inline bool wait_or_add_new\(\s*bool running, std::size_t& added, thread_queue\* addfrom, bool steal = false\)",
                               rules=S_TQ_RULES)},
          funcs=[S_TQ_F + "wait_or_add_new(running, added, addfrom, steal)"], min_obligations=10,
          doc="T: every add_new_always is made under THIS queue's lock, receiver == this queue, source == the queue named by the "
              "caller (staged tasks are stolen INTO the calling queue, never pushed into the other one)"),
]


# ---------------------------------------------------------------------------------------------------------------
# group 3: local_queue_scheduler (victims computed from the NUMA masks)

S_HAS_MODE = lambda: _Lift(S_SB_HPP, r"bool has_scheduler_mode\(scheduler_mode mode\) const", rules=[
    S_MODE_ENUM,
    _Sub(r"(?<![\w:])scheduler_mode\s*\{\s*\}", "((scheduler_mode) 0)", None),
    _Sub(r"\bmode_\.data_\.load\(", "atomic_load_mode(&self->mode_, ", 1)])
S_LQS_RULES = [
    S_MODE_ENUM,
    _Sub(r"\bthread_queue_type\s*\*", "struct tq *", None),
    _Sub(r"(?:this->)?\bqueues_\.size\(\)", "self->num_queues_", None),
    _Sub(r"(?:this->)?\bqueues_\[([^\]]+)\]", r"np_queue(self, \1)", None),
    _Sub(r"(?<![\w.>:])has_scheduler_mode\(", "has_scheduler_mode(self, ", None),
    _Call(r"\baffinity_data_\.get_pu_num", "vx_get_pu_num(self, {0})", None),
    _Call(r"(?:::)?pika::threads::detail::test", "vx_mask_test({0}, {1})", None),
    _Sub(r"(?:::)?pika::threads::detail::mask_cref_type\b", "mask_ref", None),
    _Sub(r"\boutside_numa_domain_masks_\[([^\]]+)\]", r"vx_outside_numa_domain_mask(self, \1)", None),
    _Sub(r"\bnuma_domain_masks_\[([^\]]+)\]", r"vx_numa_domain_mask(self, \1)", None),
    S_ADDED_REF,
    S_TQ_CALL,
    _Members(["steals_in_numa_domain_", "steals_outside_numa_domain_"], optional=["steals_in_numa_domain_", "steals_outside_numa_domain_"]),
]
S_LQS_INV = "i >= 1 && i <= queues_size && g_dst_foreign == 0 && (g_src_v == 0 || VICTIM_OK(self))"
S_LQS_GN_LOOP = """
__CPROVER_assigns(i, g_src_foreign, g_src_v, g_dst_foreign, g_own_cross, g_self_np, g_self_hp, g_self_lp, g_moved, g_moved_foreign, g_got)
__CPROVER_loop_invariant(%s && !g_got)
""" % S_LQS_INV
S_LQS_WOAN_LOOP = """
__CPROVER_assigns(i, result, *added, g_src_foreign, g_src_v, g_dst_foreign, g_own_cross, g_self_np, g_self_hp, g_self_lp, g_moved, g_moved_foreign)
__CPROVER_loop_invariant(%s)
""" % S_LQS_INV
S_LQS_F = S_LQS + ": local_queue_scheduler::"
STEAL_UNITS += [
    _Unit("steal.lqs.get_next_thread", _T + "steal_lqs.c", defines=S_ENUM_DEFS + ["U_LQS_GET_NEXT"], enforce="get_next_thread",
          lifts={"has_mode": S_HAS_MODE(),
                 "body": _Lift(S_LQS, r"virtual bool get_next_thread\(std::size_t num_thread, bool running,", rules=S_LQS_RULES,
                               loops={1: S_LQS_GN_LOOP, 2: S_LQS_GN_LOOP, 3: S_LQS_GN_LOOP, "count": 3})},
          funcs=[S_LQS_F + "get_next_thread", S_SB_HPP + ": scheduler_base::has_scheduler_mode"], min_obligations=60,
          solver=["--sat-solver", "cadical"],      # (i + num_thread) % queues_size: MiniSat needs 45 s, CaDiCaL 8 s
          doc="T: indices in bounds for every worker count, a victim is never the caller itself, a stolen task is run by the caller; "
              "an arbitrary other worker's queue is polled only if enable_stealing_numa is set or the NUMA masks of on_start_thread "
              "make it a victim (inside the caller's domain / outside it for boundary workers)"),
    _Unit("steal.lqs.wait_or_add_new", _T + "steal_lqs.c", defines=S_ENUM_DEFS + ["U_LQS_WOAN"], enforce="wait_or_add_new",
          lifts={"has_mode": S_HAS_MODE(),
                 "body": _Lift(S_LQS, r"virtual bool wait_or_add_new\(std::size_t num_thread, bool running,", rules=S_LQS_RULES,
                               loops={1: S_LQS_WOAN_LOOP, 2: S_LQS_WOAN_LOOP, 3: S_LQS_WOAN_LOOP, "count": 3})},
          funcs=[S_LQS_F + "wait_or_add_new", S_SB_HPP + ": scheduler_base::has_scheduler_mode"], min_obligations=60,
          solver=["--sat-solver", "cadical"],
          doc="T: same for staged tasks: they are converted only INTO the caller's queue, and taken from an arbitrary other worker's "
              "staged queue only if the NUMA masks make that worker a victim"),
]


# ---------------------------------------------------------------------------------------------------------------
# group 4: shared_priority_queue_scheduler -- placement per hint mode; polling without stealing

from vx.lift import build_defines as _build_defines
S_MAXDOM = ["MAX_NUMA_DOMAINS=%s" % (_build_defines().get("PIKA_HAVE_MAX_NUMA_DOMAIN_COUNT") or "8")]
S_HOLDER_CALL = _Sub(r"numa_holder_\[([^\]]+)\]\s*\.thread_queue\(((?:[^()]|\([^()]*\))*)\)\s*->\s*(\w+)\(", r"holder_\3(self, \1, \2, ", None)
S_SH_COMMON = [
    _DropStmt(r"\bPIKA_DETAIL_DP", None),
    _Sub(r"(?:pika::threads::detail::)?(increment|decrement)_global_activity_count\(\)", r"\1_global_activity_count()", None),
    _Sub(r"\bthis\b(?!->)", "self", None), S_SIZE_T_CAST, S_HINT_MODE_ENUM, S_PRIO_ENUM,
    _Sub(r"(?:pika::)?error::(\w+)", r"1 /* error::\1 */", None),
    _Sub(r"\busing\s+[^;]*;", "", None),
    _Sub(r"\bspq_deb<\d+>\.is_enabled\(\)", "0", None),
    _Sub(r"\bdata\.", "data->", None),
    _Sub(r"std::unique_lock<pu_mutex_type>\s+(\w+)\s*;", r"int \1 = 0;", None),
    _Sub(r"\blocal_thread_number\(\)", "local_thread_number(self)", None),
    _Sub(r"get_thread_id_data\((\w+)\)->get_scheduler_base\(\)", r"thrd_scheduler_base(\1)", None),
    S_HOLDER_CALL,
    _Call(r"\bselect_active_pu", lambda a, env: "select_active_pu(self, %s, %s)" % (a[1], a[2] if len(a) > 2 else "false"), None),
    _Sub(r"\bd_lookup_\[([^\]]+)\]", r"d_lookup(self, \1)", None),
    _Sub(r"\bq_lookup_\[([^\]]+)\]", r"q_lookup(self, \1)", None),
    _Sub(r"\bq_offset_\[([^\]]+)\]", r"q_offset(self, \1)", None),
    _Sub(r"\bq_counts_\[([^\]]+)\]", r"q_counts(self, \1)", None),
    _Call(r"\bPIKA_THROW_EXCEPTION", "{ vx_throw_pika({0}); return; }", None, stmt=True),
    _Call(r"\bthrow\s+std::runtime_error", "{ vx_throw_pika(2); return; }", None, stmt=True),
    _Members(["num_workers_", "num_domains_", "round_robin_", "steal_hp_first_", "core_stealing_", "numa_stealing_"],
             optional=["num_workers_", "num_domains_", "round_robin_", "steal_hp_first_", "core_stealing_", "numa_stealing_"]),
]
S_FAST_MOD = lambda: _Lift(S_QHT, r"PIKA_FORCEINLINE std::size_t fast_mod\(std::size_t const input, std::size_t const ceil\)")
S_SH_F = S_SHARED + ": shared_priority_queue_scheduler::"
S_PLACE_DOC = ("F/T: exactly one existing queue holder receives the task (table and holder indices in bounds for every worker / domain "
               "count, any hint value, callers inside and outside the pool); hint mode thread with 0 <= hint < num_workers_ and "
               "elasticity off: the holder is (d_lookup_[hint], q_lookup_[hint]), the one the hinted worker polls; hint mode numa with "
               "0 <= hint < num_domains_: a holder of that domain")
STEAL_UNITS += [
    _Unit("steal.shared.create_thread", _T + "steal_spq.c", defines=S_ENUM_DEFS + S_MAXDOM + ["U_CREATE_THREAD"], enforce="create_thread",
          lifts={"fast_mod": S_FAST_MOD(),
                 "body": _Lift(S_SHARED, r"void create_thread\(threads::detail::thread_init_data& data,", rules=S_SH_COMMON)},
          funcs=[S_SH_F + "create_thread", S_QHT + ": fast_mod"], min_obligations=30, doc=S_PLACE_DOC),
    _Unit("steal.shared.schedule_work", _T + "steal_spq.c", defines=S_ENUM_DEFS + S_MAXDOM + ["U_SCHEDULE_WORK"], enforce="schedule_work",
          lifts={"fast_mod": S_FAST_MOD(),
                 "body": _Lift(S_SHARED, r"void schedule_work\(threads::detail::thread_id_ref_type thrd,", rules=S_SH_COMMON)},
          funcs=[S_SH_F + "schedule_work (body of schedule_thread / schedule_thread_last)", S_QHT + ": fast_mod"], min_obligations=30,
          doc=S_PLACE_DOC),
]


S_SBF_LOOP0 = """
__CPROVER_assigns(d, q_index, result, g_ops, g_ops_other_domain, g_ops_core_steal, g_bad_passthrough)
__CPROVER_loop_invariant(!g_bad_passthrough && (steal_core || (g_ops_core_steal == 0 && g_ops_other_domain == 0)) && (steal_numa || (d == 0 && g_ops_other_domain == 0)))
"""
S_SBF_LOOP1 = """
__CPROVER_assigns(d, q_index, result, g_ops, g_ops_other_domain, g_ops_core_steal, g_bad_passthrough)
__CPROVER_loop_invariant(!g_bad_passthrough && (steal_core || (g_ops_core_steal == 0 && g_ops_other_domain == 0)) && (steal_numa || g_ops_other_domain == 0))
"""
S_SBF_RULES = S_SH_COMMON + [
    _Call(r"(?<![\w.>])operation_HP", "op_call(self, operation_HP, {args})", None),
    _Call(r"(?<![\w.>])operation", "op_call(self, operation, {args})", None),
]
STEAL_UNITS += [
    _Unit("steal.shared.steal_by_function", _T + "steal_sbf.c", defines=S_ENUM_DEFS + S_MAXDOM, enforce="steal_by_function",
          lifts={"fast_mod": S_FAST_MOD(),
                 "body": _Lift(S_SHARED, r"bool steal_by_function\(std::size_t domain, std::size_t q_index, bool steal_numa,", rules=S_SBF_RULES,
                               loops={1: S_SBF_LOOP0, 2: S_SBF_LOOP0, 3: S_SBF_LOOP1, 4: S_SBF_LOOP1, "count": 4})},
          funcs=[S_SH_F + "steal_by_function", S_QHT + ": fast_mod"], min_obligations=40,
          solver=["--sat-solver", "cadical"],      # fast_mod's `%`: MiniSat times out on some failing variants
          doc="T: with core stealing off only the calling worker's own holder (domain, q_index) is visited and the holder set is told "
              "not to steal; with NUMA stealing off no other domain is visited; domain/queue indices in bounds; receiver passed through"),
]

# queue_holder_numa: the four loops over the holders of one domain
S_QHN_RULES = [
    _DropStmt(r"\bpika::detail::nq_deb\.debug", None),
    S_ADDED_REF,
    _Sub(r"\bqueues_\[([^\]]+)\]\s*->\s*(\w+)\(", r"qh_\2(self, \1, ", None),
    _Sub(r"\bqueues_\[([^\]]+)\]", r"qh_at(self, \1)", None),
    _Sub(r"\breceiver\s*->\s*(\w+)\(", r"recv_\1(self, receiver, ", None),
    _Members(["num_queues_", "domain_"], optional=["num_queues_", "domain_"]),
]
S_QHN_LOOP = """
__CPROVER_assigns(i, q, g_own, g_foreign, g_bad_receiver%s)
__CPROVER_loop_invariant(i <= self->num_queues_ && q < self->num_queues_ && !g_bad_receiver && (g_allow || (i == 0 && q == qidx && g_foreign == 0)))
"""
for (_nm, _loc, _def, _extra) in [
        ("get_next_thread", r"inline bool get_next_thread\(std::size_t qidx, threads::detail::thread_id_ref_type& thrd,", "U_GET_NEXT", ""),
        ("get_next_thread_HP", r"inline bool get_next_thread_HP\(std::size_t qidx, threads::detail::thread_id_ref_type& thrd,", "U_GET_NEXT_HP", ""),
        ("add_new", r"bool add_new\(ThreadQueue\* receiver, std::size_t qidx, std::size_t& added, bool stealing,", "U_ADD_NEW", ", *added"),
        ("add_new_HP", r"bool add_new_HP\(ThreadQueue\* receiver, std::size_t qidx, std::size_t& added, bool stealing,", "U_ADD_NEW_HP", ", *added")]:
    STEAL_UNITS.append(
        _Unit("steal.qhn." + _nm, _T + "steal_qhn.c", defines=S_ENUM_DEFS + [_def], enforce="qhn_op",
              lifts={"fast_mod": S_FAST_MOD(), "body": _Lift(S_QHN, _loc, rules=S_QHN_RULES, loops={1: S_QHN_LOOP % _extra, "count": 1})},
              funcs=[S_QHN + ": queue_holder_numa::" + _nm, S_QHT + ": fast_mod"], min_obligations=20,
              doc="T: with the stealing permission off only queues_[qidx] (the caller's own holder) is visited; every index < num_queues_; "
                  "conversions go into the receiver the caller named"))


# shared_priority_queue_scheduler: the polling entry points, the closures, the cached stealing bits
_S_LAMBDA_RX = _re.compile(r"\[[^\[\]]*\]\s*\(")


def _s_lambdas(text):
    """all lambda expressions `[..](params) [mutable] { body }` in textual order: (start, end_exclusive, params, body); the
    parameter list may contain parentheses (function<bool(std::size_t)> f)"""
    res = []
    for m in _S_LAMBDA_RX.finditer(text):
        if m.start() > 0 and (text[m.start() - 1].isalnum() or text[m.start() - 1] in "_])"):
            continue                                    # subscript, not a lambda introducer
        pcl = _match_close(text, m.end() - 1)
        mb = _re.match(r"\s*(?:mutable\s*)?\{", text[pcl + 1:])
        if not mb:
            continue
        bop = pcl + 1 + mb.end() - 1
        bcl = _match_close(text, bop, "{", "}")
        res.append((m.start(), bcl + 1, text[m.end(): pcl].strip(), text[bop + 1: bcl]))
    return res


class _SLambda(_Rule):
    """every outermost lambda expression -> template ({k} = 1-based ordinal); its body is lifted separately (_SLambdaOf)"""

    def __init__(self, template, n=None):
        self.template, self.n = template, n

    def apply(self, text):
        out, pos, k = [], 0, 0
        for (s0, e0, params, _) in _s_lambdas(text):
            if s0 < pos:
                continue
            k += 1
            out.append(text[pos:s0])
            out.append(self.template.replace("{k}", str(k)))
            pos = e0
        out.append(text[pos:])
        self.check(k, "Lambda")
        return "".join(out)


class _SLambdaOf(_Rule):
    """reduce the lifted text to the body `{ ... }` of the lambda assigned by `auto <name> = [..](..) { ... };`"""

    def __init__(self, name):
        self.name, self.n = name, 1

    def apply(self, text):
        ms = list(_re.finditer(r"\bauto\s+%s\s*=\s*" % _re.escape(self.name), text))
        self.check(len(ms), "LambdaOf(%s)" % self.name)
        ls = [l for l in _s_lambdas(text) if l[0] == ms[0].end()]
        if not ls:
            raise _LiftError("LambdaOf(%s): initialiser is not a lambda" % self.name)
        return "{" + ls[0][3] + "}"


S_POLL_RULES_F = lambda added_is_reference: [
    _Sub(r"static\s+auto\s+\w+\s*=\s*spq_deb<\d+>\.make_timer\((?:[^()]|\([^()]*\))*\)\s*;", "", None),
    _SLambda("VX_CLOSURE({k})", None),
    _Sub(r"\bauto\s+(\w+)\s*=\s*VX_CLOSURE\(", r"int \1 = VX_CLOSURE(", None),
    _Sub(r"\bauto\s+(\w+)\s*=\s*get_thread_count\(", r"int64_t \1 = get_thread_count(self, ", None),
    _Sub(r"\bsteal_by_function<[^<>()]*>\(", "sbf(self, ", None),
    _Sub(r"\bthread_holder_type\s*\*", "struct holder *", None),
    _Sub(r"numa_holder_\[([^\]]+)\]\s*\.queues_\[([^\]]+)\]", r"holder_at(self, \1, \2)", None),
] + ([S_ADDED_REF] if added_is_reference else []) + [       # `added` is a by-reference parameter in just_add_new / wait_or_add_new, a local in get_next_thread
    _Call(r"(?<![\w.>])just_add_new(?!\s*\(\s*self\b)", "just_add_new(self, &({0}))", None),
    _Call(r"(?<![\w.>])get_next_thread", "rec_get_next_thread(self, {args})", None),
] + S_SH_COMMON
S_POLL_RULES = S_POLL_RULES_F(True)
S_POLL_LIFTS = lambda: {
    "fast_mod": S_FAST_MOD(),
    "jan": _Lift(S_SHARED, r"bool just_add_new\(std::size_t& added\)", rules=S_POLL_RULES),
}
S_CLOSURE_RULES = lambda name: [
    _SLambdaOf(name),
    _Sub(r"numa_holder_\[([^\]]+)\]\s*\.\s*(\w+)\(", r"qhn_\2(self, \1, ", None),
]
STEAL_UNITS += [
    _Unit("steal.shared.get_next_thread", _T + "steal_spq_poll.c", defines=S_ENUM_DEFS + S_MAXDOM + ["U_GET_NEXT"], enforce="get_next_thread",
          lifts=dict(S_POLL_LIFTS(), gnt=_Lift(S_SHARED, r"virtual bool get_next_thread\(std::size_t\s*,\s*bool\s*,", rules=S_POLL_RULES_F(False))),
          funcs=[S_SH_F + "get_next_thread", S_SH_F + "just_add_new"], min_obligations=30,
          doc="T: every search (steal_by_function) starts at the calling worker's own holder (d_lookup_[me], q_lookup_[me]) with "
              "a stealing permission only if the mode grants it (cached numa_stealing_ / core_stealing_); staged tasks are converted into the "
              "caller's own holder"),
    _Unit("steal.shared.wait_or_add_new", _T + "steal_spq_poll.c", defines=S_ENUM_DEFS + S_MAXDOM + ["U_WOAN"], enforce="wait_or_add_new",
          lifts=dict(S_POLL_LIFTS(), woan=_Lift(S_SHARED, r"virtual bool wait_or_add_new\(std::size_t\s*,\s*bool\s*,", rules=S_POLL_RULES)),
          funcs=[S_SH_F + "wait_or_add_new", S_SH_F + "just_add_new"], min_obligations=30,
          doc="T: same for wait_or_add_new -> just_add_new: own holder as start and as receiver, cached permissions"),
    _Unit("steal.shared.set_scheduler_mode", _T + "steal_spq_poll.c", defines=S_ENUM_DEFS + S_MAXDOM + ["U_SET_MODE"], enforce="set_scheduler_mode",
          lifts={"fast_mod": S_FAST_MOD(),
                 "base_set": _Lift("libs/pika/threading_base/src/scheduler_base.cpp", r"void scheduler_base::set_scheduler_mode\(scheduler_mode mode\)", rules=[
                     S_SIZE_T_CAST, _Sub(r"\bmode_\.data_\.store\(", "atomic_store_mode(&self->mode_, ", 1),
                     _Sub(r"(?<![\w:])do_some_work\(", "do_some_work(self, ", None)]),
                 "has_mode": S_HAS_MODE(),
                 "set_mode": _Lift(S_SHARED, r"void set_scheduler_mode\(scheduler_mode mode\) override", rules=[
                     _DropStmt(r"\bPIKA_DETAIL_DP", None), _Sub(r"\busing\s+[^;]*;", "", None), S_MODE_ENUM,
                     _Sub(r"\bscheduler_base::set_scheduler_mode\(", "base_set_scheduler_mode(self, ", 1),
                     _Sub(r"(?<![\w.>:])has_scheduler_mode\(", "has_scheduler_mode(self, ", None),
                     _Members(["round_robin_", "steal_hp_first_", "core_stealing_", "numa_stealing_"],
                              optional=["round_robin_", "steal_hp_first_", "core_stealing_", "numa_stealing_"])])},
          funcs=[S_SH_F + "set_scheduler_mode", "libs/pika/threading_base/src/scheduler_base.cpp: scheduler_base::set_scheduler_mode",
                 S_SB_HPP + ": scheduler_base::has_scheduler_mode"], min_obligations=6,
          doc="F: after set_scheduler_mode(m): core_stealing_ == (m has enable_stealing), numa_stealing_ == (m has enable_stealing_numa)"),
]
for (_fn, _loc, _name, _conv) in [
        ("get_next_thread", r"virtual bool get_next_thread\(std::size_t\s*,\s*bool\s*,", "get_next_thread_function_HP", "0"),
        ("get_next_thread", r"virtual bool get_next_thread\(std::size_t\s*,\s*bool\s*,", "get_next_thread_function", "0"),
        ("just_add_new", r"bool just_add_new\(std::size_t& added\)", "add_new_function_HP", "1"),
        ("just_add_new", r"bool just_add_new\(std::size_t& added\)", "add_new_function", "1")]:
    STEAL_UNITS.append(
        _Unit("steal.shared.closure." + _name, _T + "steal_spq_poll.c",
              defines=S_ENUM_DEFS + S_MAXDOM + ["U_CLOSURE", "CLOSURE_CONVERTS=" + _conv, "CLOSURE_VAR=" + ("added" if _conv == "1" else "thrd")],
              enforce="closure", lifts={"fast_mod": S_FAST_MOD(), "closure": _Lift(S_SHARED, _loc, rules=S_CLOSURE_RULES(_name))},
              funcs=[S_SH_F + _fn + " (closure " + _name + ")"], min_obligations=4,
              doc="T: the closure forwards exactly once to numa_holder_[domain] with q_index, receiver and both permissions unchanged"))


# local_priority_queue_scheduler::on_start_thread, closure `iterate`: what the victim list can contain
S_VICTIMS_LOOP = """
__CPROVER_assigns(i, g_pushes, g_f_calls, g_bad_victim, g_bad_f_arg)
__CPROVER_loop_invariant(i >= 1 && i <= (radius < 1 ? 1 : radius) && !g_bad_victim && !g_bad_f_arg)
"""
STEAL_UNITS += [
    _Unit("steal.lpq.victims", _T + "steal_victims.c", defines=S_ENUM_DEFS, enforce="iterate",
          lifts={"body": _Lift(S_LPQ, r"void on_start_thread\(std::size_t num_thread\) override", rules=[
              _SLambdaOf("iterate"), S_SIZE_T_CAST,
              _Call(r"(?<![\w.>])f", "call_f(self, {0})", None),
              _Sub(r"\bvictim_threads_\[(\w+)\]\.data_\.push_back\(", r"victims_push(self, \1, ", None)],
              loops={1: S_VICTIMS_LOOP, "count": 1})},
          funcs=[S_LPQ_F + "on_start_thread (closure iterate)"], min_obligations=20, solver=["--sat-solver", "cadical"],
          doc="T: every index appended to victim_threads_[num_thread] is < num_threads and != num_thread, for every worker count "
              "(justifies the assumption of stub victim_at); the selection predicate is only asked about existing workers"),
]

from vx import census as _census
STEAL_STATIC = [
    _census.sites("C10.steal.victim_list_writers", ["libs/pika/schedulers/include/pika/schedulers/*.hpp"],
                  r"victim_threads_\[[^\]]*\]\.data_\.(?:push_back|emplace_back|insert|assign|resize|clear|erase|pop_back)\b", 3,
                  note="the only writers of a victim list are the three push_back of closure `iterate` (unit steal.lpq.victims)"),
    _census.sites("C10.steal.cached_stealing_bits_writers", ["libs/pika/schedulers/include/pika/schedulers/shared_priority_queue_scheduler.hpp"],
                  r"(?<![\w.>])(?:core_stealing_|numa_stealing_)\s*=(?!=)", 2,
                  note="core_stealing_ / numa_stealing_ are written only by set_scheduler_mode (unit steal.shared.set_scheduler_mode)"),
    _census.sites("C10.steal.static_priority_inherits_polling", [S_SPQS], r"\b(?:get_next_thread|wait_or_add_new)\s*\(", 0,
                  note="static_priority_queue_scheduler overrides neither get_next_thread nor wait_or_add_new: the units on "
                       "local_priority_queue_scheduler (lpq.get_next_thread, steal.lpq.wait_or_add_new) are its polling paths"),
]

STEAL_META = {
    "explanation": (
        "steal.*: WHO takes work out of WHOSE queue. (1) local_priority_queue_scheduler::wait_or_add_new (inherited by "
        "static_priority_queue_scheduler) and static_queue_scheduler::wait_or_add_new: staged tasks are only converted INTO the "
        "calling worker's own queues, and with enable_stealing == false (static_queue_scheduler: always) never taken from another "
        "worker's staged queue; other workers' queues are addressed only through the caller's victim list, which on_start_thread "
        "fills with OTHER EXISTING workers only (steal.lpq.victims). (2) thread_queue::wait_or_add_new, both overloads: source and "
        "receiver of the conversion are the queues the caller named, under the receiver's lock. (3) local_queue_scheduler (a stealing "
        "policy that ignores the enable_stealing argument): victims are in bounds, never the caller, and chosen by the NUMA masks. "
        "(4) shared_priority_queue_scheduler: create_thread / schedule_work put a task with a worker hint into the holder the hinted "
        "worker polls, a NUMA hint into a holder of that domain; get_next_thread / wait_or_add_new start at the caller's own holder "
        "with stealing permissions only if the mode grants them; steal_by_function and the queue_holder_numa loops visit nothing "
        "but the own holder when the permission is off."),
    "trusted_base": [
        "specs/C10/steal_q.h tq_convert_from / tq_convert_steal / tq_poll: T-stubs of thread_queue::wait_or_add_new (both overloads) and "
        "get_next_thread; they record source and receiver object and convert / return nondeterministically (the queue's own behaviour: "
        "C01 hops.tq.add_new / add_new_always / queue.get_next_thread and units steal.tq.*)",
        "specs/C10/steal_q.h tq_wait_or_add_new3: the overload of a 3-argument call is chosen by the C static type of the third "
        "argument (_Generic: struct tq* -> addfrom overload, otherwise -> steal flag), mirroring C++ overload resolution",
        "specs/C10/steal_q.h victim_at: VX_ASSUME(v < num_queues_ && v != w): victim_threads_[w] holds indices of OTHER existing "
        "workers -- proved for the only writer of the list by unit steal.lpq.victims (census fact C10.steal.victim_list_writers)",
        "specs/C10/steal_q.h np_queue / hp_queue: the per-worker queue vectors are abstracted to 'mine' / 'some other worker's' / "
        "(local_queue_scheduler) 'the symbolic victim's' objects by comparing the index with the calling worker's number",
        "specs/C10/steal_tq.c tq_add_new_always: contract of thread_queue::add_new_always as proved in C01 (hops.tq.add_new_always): "
        "requires the receiver's lock, converts staged tasks of `addfrom` into the receiver; ulock_try: try_to_lock may fail; "
        "count_load: the atomic counters may hold any value",
        "specs/C10/steal_lqs.c vx_mask_test / vx_get_pu_num / vx_numa_domain_mask: the NUMA masks are opaque; membership of the "
        "calling worker's PU and of ONE symbolic other worker's PU is a ghost boolean fixed by the harness (any value), of every other "
        "PU nondeterministic; affinity_data::get_pu_num asserts its own bound (obligation)",
        "specs/C10/steal_spq.h d_lookup / q_lookup / q_offset / q_counts: table model of shared_priority_queue_scheduler for one "
        "symbolic domain and one symbolic worker, with the layout invariant L1-L3 written at the top of that file ASSUMED "
        "(VX_ASSUME(d < num_domains_ && d != g_d) for workers outside the symbolic domain's range; one consistent (offset, count) pair "
        "for the other domains); on_start_thread, which fills the tables, is NOT verified (see suspected defects)",
        "specs/C10/steal_spq.h holder_worker_next: VX_ASSUME(r < workers) -- queue_holder_thread::worker_next returns "
        "fast_mod(counter + 1, workers); select_active_pu: identity without elasticity, VX_ASSUME(r < num_workers_) with (C19 "
        "state.select_active_pu postcondition)",
        "specs/C10/steal_spq_poll.c rec_get_next_thread: the recursive call of get_next_thread is replaced by 'same contract' "
        "(partial-correctness induction); sbf_rec / op_call / qhn_fw / qh_*: T-stubs recording their arguments",
        "specs/C10/steal_spec.py rules _SLambda / _SLambdaOf: a lambda expression becomes an opaque token, its body is lifted as its own "
        "unit (steal.shared.closure.*, steal.lpq.victims); capture-by-reference variables are the enclosing function's parameters "
        "of the same name",
        "specs/C10/steal_victims.c: radius == (num_threads + 1) / 2 stands for std::lround(double(num_threads) / 2.0) (floating point "
        "statement outside the lifted closure)",
    ],
    "assumptions": [
        "callers pass their own worker number: num_thread < num_queues_ (scheduling_loop passes the num_thread it was started with); "
        "shared_priority_queue_scheduler::get_next_thread / wait_or_add_new are called by a worker of the pool (their own PIKA_ASSERT)",
        "queues_.size() == num_queues_ == victim_threads_.size() == pu_nums_.size() == numa_domain_masks_.size() (constructors)",
        "shared_priority_queue_scheduler layout invariant L1-L3 (specs/C10/steal_spq.h): workers of a NUMA domain are a contiguous "
        "range of local worker numbers and q_lookup_[w] is w's offset in that range",
        "num_queues_ <= 32767 / hardware_concurrency() <= 32767 (a worker index fits the std::int16_t hint)",
    ],
    "not_decided": [
        "which of several eligible victims is tried first, how many tasks one conversion moves, the return value / `added` "
        "bookkeeping of wait_or_add_new (termination detection is C05/C19)",
        "local_queue_scheduler ignores the enable_stealing argument and steals whenever it is running; only its static_queue_scheduler "
        "override is non-stealing (observation, not a violation: local_queue_scheduler is not a static policy)",
        "local_priority_queue_scheduler polls the shared low-priority queue from every worker in get_next_thread, but converts its "
        "staged tasks only on the last worker (wait_or_add_new); low-priority tasks are not pinned and not part of the property",
        "shared_priority_queue_scheduler::on_start_thread (establishes the lookup tables and the holder objects), "
        "queue_holder_thread::get_next_thread[_HP] / add_new[_HP] (which of the bound/high/normal/low queues of a holder), "
        "thread_queue_mc; the scheduling loop's computation of enable_stealing / enable_stealing_staged from the mode word",
        "hints outside [0, num_workers_) / [0, num_domains_): only in-bounds and exactly-one-holder are decided (they wrap)",
    ],
}
