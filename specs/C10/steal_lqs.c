/* C10 (steal units) -- local_queue_scheduler::get_next_thread / wait_or_add_new: the stealing policy with one queue per worker.
 * This policy ignores the enable_stealing argument (it is not a static policy; static_queue_scheduler overrides both functions:
 * units sq.get_next_thread, steal.sq.wait_or_add_new).  Decided here: WHOSE queue may be a victim.
 *   - every index is in bounds for every worker count, a victim is never the calling worker itself (PIKA_ASSERT(idx != num_thread));
 *   - work is only moved INTO the calling worker's queue;
 *   - for ONE symbolic other worker g_v (any index != g_me, chosen by the harness): its queue is a source only if the NUMA
 *     masks computed by on_start_thread make it a victim of this worker --
 *       enable_stealing_numa set, or
 *       this worker's PU is in steals_in_numa_domain_  and g_v's PU is in numa_domain_masks_[me], or
 *       this worker's PU is in steals_outside_numa_domain_ and g_v's PU is in outside_numa_domain_masks_[me].
 * The masks are opaque: membership of the two PUs that matter is a ghost boolean fixed by the harness, of any other PU nondet. */
typedef int mask_ref;                         /* a reference to one of the scheduler's masks: a token */
enum { MASK_STEALS_IN = 1, MASK_STEALS_OUT = 2, MASK_MY_DOMAIN = 3, MASK_MY_OUTSIDE = 4, MASK_OTHER = 5 };
#define LPQS_EXTRA_FIELDS mask_ref steals_in_numa_domain_, steals_outside_numa_domain_;
#define FOREIGN_INDEX_OK(i) 1                 /* victims are computed, not listed: decided through g_v below */
#include "steal_q.h"

static size_t g_pu_me, g_pu_v;                /* affinity_data_.get_pu_num(g_me) / (g_v) */
static bool g_steals_in, g_steals_out;        /* test(steals_in_numa_domain_, pu(me)), test(steals_outside_numa_domain_, pu(me)) */
static bool g_v_in_domain, g_v_outside;       /* test(numa_domain_masks_[me], pu(v)), test(outside_numa_domain_masks_[me], pu(v)) */
#define NUMA_STEALING(s) (((s)->mode_ & (uint32_t) scheduler_mode_enable_stealing_numa) != 0)
#define VICTIM_OK(s) (NUMA_STEALING(s) || (g_steals_in && g_v_in_domain) || (g_steals_out && g_v_outside))

/* scheduler_base::has_scheduler_mode (lifted) */
static uint32_t atomic_load_mode(uint32_t *p) { return *p; }
bool has_scheduler_mode(struct lpqs *self, scheduler_mode mode)
//@LIFT has_mode

/* affinity_data::get_pu_num(num_thread): PIKA_ASSERT(num_thread < pu_nums_.size()); pu_nums_ has one entry per worker */
static size_t vx_get_pu_num(struct lpqs *self, size_t w)
{
  VX_ASSERT(w < self->num_queues_, "affinity_data::get_pu_num(i): PIKA_ASSERT(i < pu_nums_.size())");
  return w == g_me ? g_pu_me : (w == g_v ? g_pu_v : nondet_size());
}
static mask_ref vx_numa_domain_mask(struct lpqs *self, size_t w)
{ VX_ASSERT(w < self->num_queues_, "numa_domain_masks_[i]: i < num_queues_"); return w == g_me ? MASK_MY_DOMAIN : MASK_OTHER; }
static mask_ref vx_outside_numa_domain_mask(struct lpqs *self, size_t w)
{ VX_ASSERT(w < self->num_queues_, "outside_numa_domain_masks_[i]: i < num_queues_"); return w == g_me ? MASK_MY_OUTSIDE : MASK_OTHER; }
/* pika::threads::detail::test(mask, pu): a function of (mask, pu) -- fixed for the pairs the contract speaks about */
static bool vx_mask_test(mask_ref m, size_t pu)
{
  if (m == MASK_STEALS_IN && pu == g_pu_me) return g_steals_in;
  if (m == MASK_STEALS_OUT && pu == g_pu_me) return g_steals_out;
  if (m == MASK_MY_DOMAIN && pu == g_pu_v) return g_v_in_domain;
  if (m == MASK_MY_OUTSIDE && pu == g_pu_v) return g_v_outside;
  return nondet_bool();
}

#define LQS_PRE(self) (WF(self) && QUEUES_CLASSIFIED && STEAL_GHOST_ZERO && !g_got && g_use_v && g_steal_allowed && num_thread < (self)->num_queues_ && num_thread == g_me && \
                       g_v < (self)->num_queues_ && g_v != g_me && (self)->steals_in_numa_domain_ == MASK_STEALS_IN && (self)->steals_outside_numa_domain_ == MASK_STEALS_OUT)

#ifdef U_LQS_GET_NEXT
//@FUNC
bool get_next_thread(struct lpqs *self, size_t num_thread, bool running, thread_id_ref *thrd, bool enable_stealing)
__CPROVER_requires(LQS_PRE(self))
/* a task obtained from another worker's queue is run by the calling worker; the symbolic victim's queue is polled only if the
 * NUMA masks allow it */
__CPROVER_ensures(g_dst_foreign == 0 && (g_src_v > 0 ==> VICTIM_OK(self)))
__CPROVER_ensures(__CPROVER_return_value == g_got)
__CPROVER_assigns(STEAL_GHOSTS, g_got)
//@LIFT body
#endif

#ifdef U_LQS_WOAN
//@FUNC
bool wait_or_add_new(struct lpqs *self, size_t num_thread, bool running, int64_t *idle_loop_count, bool enable_stealing, size_t *added)
__CPROVER_requires(LQS_PRE(self))
/* staged tasks are converted only INTO the calling worker's queue; the symbolic victim's staged queue is a source only if the
 * NUMA masks allow it */
__CPROVER_ensures(g_dst_foreign == 0 && (g_src_v > 0 ==> VICTIM_OK(self)))
__CPROVER_assigns(*added, STEAL_GHOSTS)
//@LIFT body
#endif

void harness(void)
{
  static struct lpqs s;
  s.curr_queue_ = nondet_size(); s.num_queues_ = nondet_size(); s.num_high_priority_queues_ = nondet_size(); s.mode_ = nondet_u32();
  s.steals_in_numa_domain_ = MASK_STEALS_IN; s.steals_outside_numa_domain_ = MASK_STEALS_OUT;
  steal_ghost_init();
  g_me = nondet_size(); g_v = nondet_size(); g_use_v = true; g_nvictims = 0; g_got = false; g_own_np_staged = nondet_bool();
  g_pu_me = nondet_size(); g_pu_v = nondet_size();
  g_steals_in = nondet_bool(); g_steals_out = nondet_bool(); g_v_in_domain = nondet_bool(); g_v_outside = nondet_bool();
  g_steal_allowed = true;
  bool steal = nondet_bool(), running = nondet_bool();
#ifdef U_LQS_GET_NEXT
  thread_id_ref t = 0;
  bool r = get_next_thread(&s, g_me, running, &t, steal);
  if (r && !g_moved_foreign) VX_REACH("from_own");
  if (r && g_moved_foreign && g_src_v > 0 && !NUMA_STEALING(&s) && g_v_in_domain) VX_REACH("stolen_inside_numa_domain");
  if (r && g_moved_foreign && g_src_v > 0 && !NUMA_STEALING(&s) && !g_v_in_domain) VX_REACH("stolen_outside_numa_domain");
  if (r && g_moved_foreign && NUMA_STEALING(&s)) VX_REACH("stolen_numa_unrestricted");
  if (!r && g_src_foreign == 0) VX_REACH("nothing_no_victims");
  if (!r && g_src_foreign > 0) VX_REACH("nothing_after_stealing_attempts");
#else
  size_t added = nondet_size(); int64_t idle = nondet_i64();
  bool r = wait_or_add_new(&s, g_me, running, &idle, steal, &added);
  if (g_moved && !g_moved_foreign) VX_REACH("own_staged_converted");
  if (g_moved_foreign && g_src_v > 0 && !NUMA_STEALING(&s) && g_v_in_domain) VX_REACH("stolen_inside_numa_domain");
  if (g_moved_foreign && g_src_v > 0 && !NUMA_STEALING(&s) && !g_v_in_domain) VX_REACH("stolen_outside_numa_domain");
  if (g_moved_foreign && NUMA_STEALING(&s)) VX_REACH("stolen_numa_unrestricted");
  if (!g_moved && g_src_foreign == 0) VX_REACH("nothing_no_victims");
  if (!running && r) VX_REACH("not_running");
#endif
}
