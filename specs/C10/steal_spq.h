/* C10 (steal units) -- shared_priority_queue_scheduler: C mirror of the lookup tables and the per-domain queue holders.
 *
 * The tables d_lookup_ / q_lookup_ (per worker) and q_offset_ / q_counts_ (per NUMA domain) are filled by on_start_thread.
 * They are modelled for ONE symbolic domain g_d and ONE symbolic worker g_w chosen by the harness (any values), exactly, and
 * arbitrarily elsewhere.  Trusted layout invariant (what on_start_thread is meant to establish; NOT verified here):
 *   L1  every worker w < num_workers_ has d_lookup_[w] < num_domains_ <= PIKA_HAVE_MAX_NUMA_DOMAIN_COUNT,
 *   L2  q_counts_[d] >= 1 for d < num_domains_, and the workers of domain d are the contiguous range
 *       [q_offset_[d], q_offset_[d] + q_counts_[d])  (subset of [0, num_workers_)),
 *   L3  q_lookup_[w] == w - q_offset_[d_lookup_[w]]   (so q_lookup_[w] < q_counts_[d_lookup_[w]]).
 * Worker w's queue holder is numa_holder_[d_lookup_[w]].queues_[q_lookup_[w]]: that is the holder w polls (get_next_thread). */
#ifndef STEAL_SPQ_H
#define STEAL_SPQ_H
#include "c10.h"

struct sched {
  size_t num_workers_, num_domains_;
  bool round_robin_, steal_hp_first_, core_stealing_, numa_stealing_;
  size_t lookup_size;                       /* d_lookup_.size() == q_lookup_.size() == hardware_concurrency() */
  uint32_t mode_;
};
#define ELASTIC(s) (((s)->mode_ & (uint32_t) scheduler_mode_enable_elasticity) != 0)
struct init_data { int8_t priority; struct hint schedulehint; bool run_now; void *scheduler_base; };
typedef int thread_id_ref;

static size_t g_local_num;                  /* local_thread_number(): this pool's worker index, or size_t(-1) */
static size_t g_d, g_d_off, g_d_cnt;        /* symbolic domain, q_offset_[g_d], q_counts_[g_d] */
static size_t g_w, g_w_d, g_w_q;            /* symbolic worker, d_lookup_[g_w], q_lookup_[g_w] */
static size_t g_o_off, g_o_cnt;             /* q_offset_ / q_counts_ of "a domain other than g_d" (one consistent pair) */
#define IN_GD(i) ((i) >= g_d_off && (i) - g_d_off < g_d_cnt)
#define LAYOUT_OK(s) \
  ((s)->num_workers_ >= 1 && (s)->num_workers_ <= (s)->lookup_size && (s)->lookup_size <= 0x7fff && \
   (s)->num_domains_ >= 1 && (s)->num_domains_ <= MAX_NUMA_DOMAINS && g_d < (s)->num_domains_ && \
   g_d_cnt >= 1 && g_d_off <= (s)->num_workers_ && g_d_cnt <= (s)->num_workers_ - g_d_off && \
   ((s)->num_domains_ != 1 || (g_d_off == 0 && g_d_cnt == (s)->num_workers_)) && \
   g_o_cnt >= 1 && g_o_off <= (s)->num_workers_ && g_o_cnt <= (s)->num_workers_ - g_o_off && \
   g_w < (s)->num_workers_ && (IN_GD(g_w) ? (g_w_d == g_d && g_w_q == g_w - g_d_off) : (g_w_d < (s)->num_domains_ && g_w_d != g_d)))

/* d_lookup_[i] / q_lookup_[i]: std::vector<std::size_t>::operator[] -- out of range is undefined behaviour */
static size_t d_lookup(struct sched *self, size_t i)
{
  VX_ASSERT(i < self->lookup_size, "d_lookup_[i]: index inside the vector (size hardware_concurrency())");
  if (i == g_w) return g_w_d;
  if (i >= self->num_workers_) return nondet_size();           /* not a worker: whatever the vector holds */
  if (IN_GD(i)) return g_d;
  size_t d = nondet_size();
  VX_ASSUME(d < self->num_domains_ && d != g_d);                /* layout L1/L2: a worker outside g_d's range is on another domain */
  return d;
}
static size_t q_lookup(struct sched *self, size_t i)
{
  VX_ASSERT(i < self->lookup_size, "q_lookup_[i]: index inside the vector (size hardware_concurrency())");
  if (i == g_w) return g_w_q;
  if (i < self->num_workers_ && IN_GD(i)) return i - g_d_off;  /* layout L3 */
  return nondet_size();
}
/* q_offset_[d] / q_counts_[d]: std::array<std::size_t, PIKA_HAVE_MAX_NUMA_DOMAIN_COUNT> */
static size_t q_offset(struct sched *self, size_t d)
{
  VX_ASSERT(d < MAX_NUMA_DOMAINS, "q_offset_[d]: d < PIKA_HAVE_MAX_NUMA_DOMAIN_COUNT");
  if (d == g_d) return g_d_off;
  return d < self->num_domains_ ? g_o_off : nondet_size();      /* layout L2 for the other initialised domains; beyond: garbage */
}
static size_t q_counts(struct sched *self, size_t d)
{
  VX_ASSERT(d < MAX_NUMA_DOMAINS, "q_counts_[d]: d < PIKA_HAVE_MAX_NUMA_DOMAIN_COUNT");
  if (d == g_d) return g_d_cnt;
  return d < self->num_domains_ ? g_o_cnt : nondet_size();      /* layout L2 (>= 1 queue, range inside the workers); beyond: garbage */
}

/* numa_holder_[d].thread_queue(q): the holder object must exist */
#define HOLDER_INDEX_OK(self, d, q) do { \
    VX_ASSERT((d) < (self)->num_domains_, "numa_holder_[d]: an initialised domain (d < num_domains_)"); \
    VX_ASSERT((d) != g_d || (q) < g_d_cnt, "numa_holder_[d].queues_[q]: q < q_counts_[d]"); } while (0)

static long g_puts, g_incr; static size_t g_put_d, g_put_q;
static void increment_global_activity_count(void) { if (g_incr < 3) g_incr++; }
static size_t local_thread_number(struct sched *self) { return g_local_num; }
static void holder_put(struct sched *self, size_t d, size_t q)
{ HOLDER_INDEX_OK(self, d, q); VX_ASSERT(g_puts == 0, "the task is handed to at most one queue holder"); g_puts++; g_put_d = d; g_put_q = q; }
#define holder_create_thread(self, d, q, ...) holder_put(self, d, q)
#define holder_schedule_thread(self, d, q, ...) holder_put(self, d, q)
/* queue_holder_thread::worker_next(workers): round-robin counter, result = fast_mod(counter + 1, workers) < workers */
static size_t holder_worker_next(struct sched *self, size_t d, size_t q, size_t workers)
{
  HOLDER_INDEX_OK(self, d, q);
  VX_ASSERT(workers != 0, "worker_next(workers): fast_mod(x, 0) divides by zero");
  size_t r = nondet_size(); VX_ASSUME(r < workers);             /* queue_holder_thread.hpp: fast_mod(..., workers) */
  return r;
}
/* pika::threads::detail::fast_mod: lifted in the template (//@LIFT fast_mod) */
size_t fast_mod(size_t const input, size_t const ceil);
/* scheduler_base::select_active_pu as it behaves (C19 unit state.select_active_pu): without elasticity the argument comes back
 * unchanged; with elasticity some existing worker */
static size_t select_active_pu(struct sched *self, size_t n, bool fb)
{ if (!ELASTIC(self)) return n; size_t r = nondet_size(); VX_ASSUME(r < self->num_workers_); /* C19 postcondition */ return r; }
static void vx_throw_pika(int code) { vx_exc = code; }
static void *g_thrd_sched;
static void *thrd_scheduler_base(thread_id_ref t) { return g_thrd_sched; }
#endif
