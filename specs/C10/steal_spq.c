/* C10 (steal units) -- shared_priority_queue_scheduler::create_thread / schedule_work (schedule_thread, schedule_thread_last):
 * into WHICH queue holder a task goes for each thread_schedule_hint_mode.  F/T contracts over the table model of steal_spq.h.
 *   thread: a hint naming worker w (0 <= hint < num_workers_), elasticity off  ->  the holder of w:
 *           (d_lookup_[w], q_lookup_[w])
 *   numa  : a hint naming domain d (0 <= hint < num_domains_)                  ->  a holder of domain d
 *   none  : no placement request; (every mode) exactly one existing holder receives the task, all table indices in bounds */
#include "steal_spq.h"
size_t fast_mod(size_t const input, size_t const ceil)
//@LIFT fast_mod

static int16_t vx_hint0; static int8_t vx_mode0;
#define SPQ_PRE(self) (LAYOUT_OK(self) && (g_local_num == (size_t) -1 || g_local_num < (self)->num_workers_) && g_puts == 0 && g_incr == 0 && vx_exc == 0)
#define VALID_MODE(m) ((m) == hint_mode_none || (m) == hint_mode_thread || (m) == hint_mode_numa)
#define PLACED(self) \
  (VX_IMPLIES(vx_exc == 0, g_puts == 1) && VX_IMPLIES(vx_exc != 0, g_puts == 0) && \
   VX_IMPLIES(vx_exc == 0 && vx_mode0 == hint_mode_thread && vx_hint0 >= 0 && (size_t) vx_hint0 == g_w && !ELASTIC(self), g_put_d == g_w_d && g_put_q == g_w_q) && \
   VX_IMPLIES(vx_exc == 0 && vx_mode0 == hint_mode_numa && vx_hint0 >= 0 && (size_t) vx_hint0 == g_d, g_put_d == g_d))

#ifdef U_CREATE_THREAD
//@FUNC
void create_thread(struct sched *self, struct init_data *data, thread_id_ref *thrd, int *ec)
__CPROVER_requires(SPQ_PRE(self) && data->scheduler_base == (void *) self && data->schedulehint.hint == vx_hint0 && data->schedulehint.mode == vx_mode0)
__CPROVER_ensures(PLACED(self))
/* only an invalid hint mode is refused */
__CPROVER_ensures(vx_exc != 0 ==> !VALID_MODE(vx_mode0))
__CPROVER_assigns(g_puts, g_put_d, g_put_q, g_incr, vx_exc, data->run_now)
//@LIFT body
#endif

#ifdef U_SCHEDULE_WORK
//@FUNC
void schedule_work(struct sched *self, thread_id_ref thrd, struct hint schedulehint, bool allow_fallback, bool other_end, int8_t priority)
__CPROVER_requires(SPQ_PRE(self) && g_thrd_sched == (void *) self && schedulehint.hint == vx_hint0 && schedulehint.mode == vx_mode0)
__CPROVER_ensures(PLACED(self))
__CPROVER_assigns(g_puts, g_put_d, g_put_q, g_incr, vx_exc)
//@LIFT body
#endif

void harness(void)
{
  static struct sched s; struct init_data d; thread_id_ref id = 0; int ec = 0;
  vx_exc = 0; vx_caught = 0; g_puts = 0; g_incr = 0; g_put_d = g_put_q = 0;
  s.num_workers_ = nondet_size(); s.num_domains_ = nondet_size(); s.round_robin_ = nondet_bool(); s.lookup_size = nondet_size(); s.mode_ = nondet_u32();
  s.steal_hp_first_ = nondet_bool(); s.core_stealing_ = nondet_bool(); s.numa_stealing_ = nondet_bool();
  g_local_num = nondet_size();
  g_d = nondet_size(); g_d_off = nondet_size(); g_d_cnt = nondet_size(); g_w = nondet_size(); g_w_d = nondet_size(); g_w_q = nondet_size();
  g_o_off = nondet_size(); g_o_cnt = nondet_size();
  vx_hint0 = nondet_i16(); vx_mode0 = nondet_i8();
  g_thrd_sched = &s;
#ifdef KF_NUMA_HINT_FROM_WORKER
  if (vx_mode0 == hint_mode_numa && g_local_num == (size_t) -1) return;       /* known-finding input class excluded */
#endif
#ifdef U_CREATE_THREAD
  d.priority = nondet_i8(); d.schedulehint.hint = vx_hint0; d.schedulehint.mode = vx_mode0; d.run_now = nondet_bool(); d.scheduler_base = &s;
  create_thread(&s, &d, &id, &ec);
#else
  struct hint h; h.hint = vx_hint0; h.mode = vx_mode0;
  schedule_work(&s, 7, h, nondet_bool(), nondet_bool(), nondet_i8());
#endif
  if (vx_exc == 0 && vx_mode0 == hint_mode_thread && vx_hint0 >= 0 && (size_t) vx_hint0 == g_w && !ELASTIC(&s)) VX_REACH("worker_hint_honoured");
  if (vx_exc == 0 && vx_mode0 == hint_mode_thread && ELASTIC(&s)) VX_REACH("worker_hint_elastic");
  if (vx_exc == 0 && vx_mode0 == hint_mode_thread && vx_hint0 >= 0 && (size_t) vx_hint0 >= s.num_workers_) VX_REACH("worker_hint_wrapped");
  if (vx_exc == 0 && vx_mode0 == hint_mode_numa && vx_hint0 >= 0 && (size_t) vx_hint0 == g_d && g_local_num != (size_t) -1) VX_REACH("numa_hint_from_worker_of_that_domain");
#ifdef U_CREATE_THREAD
  if (vx_exc == 0 && vx_mode0 == hint_mode_numa && vx_hint0 >= 0 && (size_t) vx_hint0 == g_d && g_local_num == (size_t) -1) VX_REACH("numa_hint_from_outside");
#endif
  if (vx_exc == 0 && vx_mode0 == hint_mode_none && g_local_num == (size_t) -1) VX_REACH("no_hint_from_outside");
  if (vx_exc == 0 && vx_mode0 == hint_mode_none && g_local_num != (size_t) -1) VX_REACH("no_hint_from_worker");
  if (vx_exc != 0) VX_REACH("refused");
}
