/* C10 -- from the pool to its scheduler: scheduled_thread_pool::create_work and threads::detail::create_work
 * (T contracts: the task description reaches create_thread of the pool's OWN scheduler exactly once, or nothing is created) */
#include "c10.h"

struct scheduler { int id; };
typedef int thread_id_ref;
#define invalid_thread_id 0
struct init_data { int8_t priority; struct hint schedulehint; int8_t initial_state; bool run_now; struct scheduler *scheduler_base; };
struct error_code { bool is_throws; int value; };          /* pika::error_code; `throws` = the throwing singleton */
struct thread_self { int8_t priority; };

static long g_refusals; static int g_refuse_tok;
/* pika::detail::throws_if (decided in C19, unit refuse.throws_if): throws if ec is `throws`, otherwise records the code */
static void vx_throws_if(struct error_code *ec, int code)
{ if (g_refusals < 3) g_refusals++; if (ec->is_throws) vx_exc = g_refuse_tok; else ec->value = code; }

#ifdef U_POOL_CREATE_WORK
struct pool { struct scheduler *sched_; long thread_count_; };
static long g_cw; static struct scheduler *g_cw_sched; static struct init_data *g_cw_data; static bool g_cw_threw;
static bool g_sched_running;
#define sched_is_state(s, st) (g_sched_running)
static thread_id_ref detail_create_work(struct scheduler *s, struct init_data *d, struct error_code *ec)
{
  VX_ASSERT(vx_exc == 0, "no call while an exception is propagating");
  g_cw++; g_cw_sched = s; g_cw_data = d;
  if (nondet_bool()) { g_cw_threw = true; vx_exc = g_refuse_tok; return invalid_thread_id; }
  return nondet_int();
}
//@FUNC
thread_id_ref pool_create_work(struct pool *self, struct init_data *data, struct error_code *ec)
__CPROVER_requires(g_cw == 0 && g_refusals == 0 && vx_exc == 0 && !g_cw_threw && g_refuse_tok != 0)
/* either refused (pool not running: exception or error code, nothing created) ... */
__CPROVER_ensures(g_refusals + g_cw == 1)
__CPROVER_ensures(g_refusals == 1 ==> (__CPROVER_return_value == invalid_thread_id && (ec->is_throws ? vx_exc == g_refuse_tok : vx_exc == 0)))
/* ... or handed, exactly once, to create_work on THIS pool's scheduler with the caller's data */
__CPROVER_ensures(g_cw == 1 ==> (g_cw_sched == self->sched_ && g_cw_data == data))
/* a pool that has worker threads accepts work whatever their run states are: "not every worker is in state running" (some are
 * suspended / sleeping, C19) is no reason to turn a task away -- it runs on the other workers or after resume */
__CPROVER_ensures(g_refusals == 1 ==> self->thread_count_ == 0)
__CPROVER_assigns(g_cw, g_cw_sched, g_cw_data, g_cw_threw, g_refusals, vx_exc, ec->value)
//@LIFT body
#endif

#ifdef U_POOL_CREATE_THREAD
struct pool { struct scheduler *sched_; long thread_count_; };
static long g_cw; static struct scheduler *g_cw_sched; static struct init_data *g_cw_data; static bool g_cw_threw; static thread_id_ref *g_cw_id;
static bool g_sched_running;
#define sched_is_state(s, st) (g_sched_running)
static void detail_create_thread(struct scheduler *s, struct init_data *d, thread_id_ref *id, struct error_code *ec)
{
  VX_ASSERT(vx_exc == 0, "no call while an exception is propagating");
  g_cw++; g_cw_sched = s; g_cw_data = d; g_cw_id = id;
  if (nondet_bool()) { g_cw_threw = true; vx_exc = g_refuse_tok; return; }
  *id = nondet_int();
}
//@FUNC
void pool_create_thread(struct pool *self, struct init_data *data, thread_id_ref *id, struct error_code *ec)
__CPROVER_requires(g_cw == 0 && g_refusals == 0 && vx_exc == 0 && !g_cw_threw && g_refuse_tok != 0)
__CPROVER_ensures(g_refusals + g_cw == 1)
__CPROVER_ensures(g_refusals == 1 ==> (ec->is_throws ? vx_exc == g_refuse_tok : vx_exc == 0))
__CPROVER_ensures(g_cw == 1 ==> (g_cw_sched == self->sched_ && g_cw_data == data && g_cw_id == id))
/* see pool_create_work: a pool with worker threads never turns work away because some of them are suspended */
__CPROVER_ensures(g_refusals == 1 ==> self->thread_count_ == 0)
__CPROVER_assigns(g_cw, g_cw_sched, g_cw_data, g_cw_id, g_cw_threw, g_refusals, vx_exc, ec->value, *id)
//@LIFT body
#endif

#ifdef U_DETAIL_CREATE_WORK
static long g_ct; static struct scheduler *g_ct_sched; static struct init_data *g_ct_data; static struct hint g_ct_hint; static int8_t g_ct_prio;
static struct scheduler *g_ct_sb; static bool g_ct_threw; static long g_wake;
static struct thread_self *g_self_ptr; static int8_t g_parent_prio;
static struct thread_self *get_self_ptr(void) { return g_self_ptr; }
#define parent_priority(self) (g_parent_prio)
static void sched_create_thread(struct scheduler *s, struct init_data *d, thread_id_ref *id, struct error_code *ec)
{
  VX_ASSERT(vx_exc == 0, "no call while an exception is propagating");
  g_ct++; g_ct_sched = s; g_ct_data = d; g_ct_hint = d->schedulehint; g_ct_prio = d->priority; g_ct_sb = d->scheduler_base;
  if (id && !nondet_bool()) *id = nondet_int();
  if (nondet_bool()) { g_ct_threw = true; vx_exc = g_refuse_tok; }
}
static void sched_do_some_work(struct scheduler *s, size_t n) { if (g_wake < 3) g_wake++; }
static struct hint vx_hint0; static int8_t vx_prio0; static struct scheduler *vx_sb0;
//@FUNC
thread_id_ref create_work(struct scheduler *scheduler, struct init_data *data, struct error_code *ec)
__CPROVER_requires(g_ct == 0 && g_refusals == 0 && vx_exc == 0 && !g_ct_threw && g_refuse_tok != 0 && scheduler != NULL)
__CPROVER_requires(HINT_EQ(data->schedulehint, vx_hint0) && data->priority == vx_prio0 && data->scheduler_base == vx_sb0)
/* create_thread is called at most once, and only on the scheduler that was given */
__CPROVER_ensures(g_ct <= 1 && (g_ct == 1 ==> (g_ct_sched == scheduler && g_ct_data == data)))
/* nothing is created on a refusal; otherwise exactly one create_thread */
__CPROVER_ensures(g_ct == (g_refusals == 0 ? 1 : 0))
/* the placement request reaches the scheduler as given; the task is bound to this scheduler unless the caller chose one */
__CPROVER_ensures(g_ct == 1 ==> (HINT_EQ(g_ct_hint, vx_hint0) && g_ct_sb == (vx_sb0 == NULL ? scheduler : vx_sb0)))
/* the priority is only ever refined from `default_` */
__CPROVER_ensures(g_ct == 1 ==> (vx_prio0 != thread_priority_default_ ==> g_ct_prio == vx_prio0))
__CPROVER_assigns(g_ct, g_ct_sched, g_ct_data, g_ct_hint, g_ct_prio, g_ct_sb, g_ct_threw, g_wake, g_refusals, vx_exc, ec->value, data->priority, data->run_now, data->scheduler_base)
//@LIFT body
#endif

void harness(void)
{
  static struct scheduler s1, s2;
  static struct error_code ec;
  struct init_data d;
  vx_exc = 0; vx_caught = 0; g_refusals = 0;
  g_refuse_tok = nondet_int(); if (g_refuse_tok == 0) g_refuse_tok = 1;
  ec.is_throws = nondet_bool(); ec.value = 0;
  d.priority = nondet_i8(); d.schedulehint.hint = nondet_i16(); d.schedulehint.mode = nondet_i8();
  d.initial_state = nondet_i8(); d.run_now = nondet_bool();
  d.scheduler_base = nondet_bool() ? NULL : &s2;
#ifdef U_POOL_CREATE_WORK
  static struct pool p;
  p.sched_ = nondet_bool() ? &s1 : &s2; p.thread_count_ = nondet_long(); g_sched_running = nondet_bool();
  g_cw = 0; g_cw_sched = NULL; g_cw_data = NULL; g_cw_threw = false;
  thread_id_ref id = pool_create_work(&p, &d, &ec);
  if (g_cw) VX_REACH("forwarded_to_own_scheduler");
  if (g_refusals && vx_exc) VX_REACH("refused_by_exception");
  if (g_refusals && !vx_exc) VX_REACH("refused_by_error_code");
  if (g_cw && p.thread_count_ > 0 && !g_sched_running) VX_REACH("accepted_while_some_worker_is_not_running");
#endif
#ifdef U_POOL_CREATE_THREAD
  static struct pool p; thread_id_ref the_id = nondet_int();
  p.sched_ = nondet_bool() ? &s1 : &s2; p.thread_count_ = nondet_long(); g_sched_running = nondet_bool();
  g_cw = 0; g_cw_sched = NULL; g_cw_data = NULL; g_cw_threw = false; g_cw_id = NULL;
  pool_create_thread(&p, &d, &the_id, &ec);
  if (g_cw) VX_REACH("forwarded_to_own_scheduler");
  if (g_refusals && vx_exc) VX_REACH("refused_by_exception");
  if (g_refusals && !vx_exc) VX_REACH("refused_by_error_code");
  if (g_cw && p.thread_count_ > 0 && !g_sched_running) VX_REACH("accepted_while_some_worker_is_not_running");
#endif
#ifdef U_DETAIL_CREATE_WORK
  static struct thread_self me;
  g_ct = 0; g_ct_sched = NULL; g_ct_data = NULL; g_ct_threw = false; g_wake = 0; g_ct_sb = NULL; g_ct_prio = 0;
  g_ct_hint.hint = 0; g_ct_hint.mode = 0;
  g_self_ptr = nondet_bool() ? &me : NULL; g_parent_prio = nondet_i8();
  vx_hint0 = d.schedulehint; vx_prio0 = d.priority; vx_sb0 = d.scheduler_base;
  thread_id_ref id = create_work(&s1, &d, &ec);
  if (g_ct && !g_ct_threw) VX_REACH("created");
  if (g_ct_threw) VX_REACH("create_thread_threw");
  if (!g_ct && vx_exc) VX_REACH("bad_state_exception");
  if (!g_ct && !vx_exc) VX_REACH("bad_state_error_code");
  if (g_ct && vx_prio0 == thread_priority_default_ && g_ct_prio == thread_priority_high_recursive) VX_REACH("inherits_high_recursive");
#endif
}
