/* C10 -- static schedulers never steal: scheduler_mode operators, scheduler_base mode setters, the overrides of
 * static_queue_scheduler / static_priority_queue_scheduler and the latter's constructor  (F contracts on the bit mask) */
#include "c10.h"
typedef uint32_t scheduler_mode;            /* enum class scheduler_mode : std::uint32_t */
struct sched { scheduler_mode mode_; };     /* scheduler_base::mode_ (cache_line_data<std::atomic<scheduler_mode>>) */
#define STEAL_BITS ((scheduler_mode) scheduler_mode_enable_stealing | (scheduler_mode) scheduler_mode_enable_stealing_numa)

static long g_stores, g_wakeups;
static void atomic_store_mode(scheduler_mode *p, scheduler_mode v) { *p = v; if (g_stores < 3) g_stores++; }
static scheduler_mode atomic_load_mode(scheduler_mode *p) { return *p; }
static void do_some_work(struct sched *self, size_t n) { if (g_wakeups < 3) g_wakeups++; }

#if defined(U_OP_AND) || defined(U_OP_OR) || defined(U_OP_NOT)
/* the overloaded operators of the enum class are the builtin operators on the underlying type: this is what allows the
 * other units of this file to read `a & ~b` on scheduler_mode values with C's operators */
#ifdef U_OP_AND
//@FUNC
scheduler_mode op(scheduler_mode sched1, scheduler_mode sched2)
__CPROVER_ensures(__CPROVER_return_value == (sched1 & sched2))
__CPROVER_assigns()
//@LIFT op
#endif
#ifdef U_OP_OR
//@FUNC
scheduler_mode op(scheduler_mode sched1, scheduler_mode sched2)
__CPROVER_ensures(__CPROVER_return_value == (sched1 | sched2))
__CPROVER_assigns()
//@LIFT op
#endif
#ifdef U_OP_NOT
//@FUNC
scheduler_mode op1(scheduler_mode sched)
__CPROVER_ensures(__CPROVER_return_value == (scheduler_mode) ~sched)
__CPROVER_assigns()
//@LIFT op
#endif
#else

/* ---- scheduler_base (lifted) ---- */
void base_set_scheduler_mode(struct sched *self, scheduler_mode mode)
//@LIFT base_set
scheduler_mode get_scheduler_mode(struct sched *self)
//@LIFT get
/* ---- the override of the static scheduler under test (lifted).  A virtual call `set_scheduler_mode(m)` made on a static
 * scheduler object dispatches here (C++ dynamic dispatch: trusted binding) ---- */
//@FUNC
void vset_scheduler_mode(struct sched *self, scheduler_mode mode)
#ifdef U_SET
/* whatever mode is requested, the stored mode has neither stealing bit */
__CPROVER_ensures((self->mode_ & STEAL_BITS) == 0 && g_stores >= 1)
__CPROVER_assigns(self->mode_, g_stores, g_wakeups)
#endif
//@LIFT override

#ifdef U_ADD
//@FUNC
void add_scheduler_mode(struct sched *self, scheduler_mode mode)
__CPROVER_ensures((self->mode_ & STEAL_BITS) == 0 && g_stores >= 1)
__CPROVER_assigns(self->mode_, g_stores, g_wakeups)
//@LIFT add
#endif
#ifdef U_REMOVE
//@FUNC
void remove_scheduler_mode(struct sched *self, scheduler_mode mode)
__CPROVER_ensures((self->mode_ & STEAL_BITS) == 0 && g_stores >= 1)
__CPROVER_assigns(self->mode_, g_stores, g_wakeups)
//@LIFT remove
#endif
#ifdef U_UPDATE
void add_scheduler_mode(struct sched *self, scheduler_mode mode)
//@LIFT add
void remove_scheduler_mode(struct sched *self, scheduler_mode mode)
//@LIFT remove
//@FUNC
void update_scheduler_mode(struct sched *self, scheduler_mode mode, bool set)
__CPROVER_ensures((self->mode_ & STEAL_BITS) == 0 && g_stores >= 1)
__CPROVER_assigns(self->mode_, g_stores, g_wakeups)
//@LIFT update
#endif
#ifdef U_CTOR
void remove_scheduler_mode(struct sched *self, scheduler_mode mode)
//@LIFT remove
/* body of static_priority_queue_scheduler's constructor; runs after the base class constructors stored ANY initial mode */
//@FUNC
void spq_ctor_body(struct sched *self)
__CPROVER_ensures((self->mode_ & STEAL_BITS) == 0 && g_stores >= 1)
__CPROVER_assigns(self->mode_, g_stores, g_wakeups)
//@LIFT ctor
#endif
#endif

void harness(void)
{
  static struct sched s;
  s.mode_ = nondet_u32(); g_stores = 0; g_wakeups = 0;
  vx_exc = 0; vx_caught = 0;
  scheduler_mode m = nondet_u32();
#if defined(U_OP_AND) || defined(U_OP_OR)
  scheduler_mode r = op(m, s.mode_);
  VX_REACH("returned");
#elif defined(U_OP_NOT)
  scheduler_mode r = op1(m);
  VX_REACH("returned");
#else
#ifdef U_SET
  vset_scheduler_mode(&s, m);
#endif
#ifdef U_ADD
  add_scheduler_mode(&s, m);
#endif
#ifdef U_REMOVE
  remove_scheduler_mode(&s, m);
#endif
#ifdef U_UPDATE
  update_scheduler_mode(&s, m, nondet_bool());
#endif
#ifdef U_CTOR
  spq_ctor_body(&s);
#endif
  if ((m & STEAL_BITS) != 0) VX_REACH("stealing_requested_and_refused"); else VX_REACH("no_stealing_requested");
  if (s.mode_ != 0) VX_REACH("other_bits_kept");
#endif
}
