/* C10 -- shared_priority_queue_scheduler::create_thread with a WORKER hint (thread_schedule_hint_mode::thread):
 * the per-worker lookup tables are only ever indexed inside their bounds.  (The function's own comment at this spot:
 * "@TODO. We should check that the thread num is valid".) */
#include "c10.h"

struct sched {
  size_t num_workers_, num_domains_; bool round_robin_;
  size_t lookup_size;                       /* d_lookup_.size() == q_lookup_.size() == hardware_concurrency() */
  uint32_t mode_;
};
#define ELASTIC(s) (((s)->mode_ & (uint32_t) scheduler_mode_enable_elasticity) != 0)
struct init_data { int8_t priority; struct hint schedulehint; bool run_now; void *scheduler_base; };
typedef int thread_id_ref;
static size_t g_local_num;
static long g_qcreates, g_incr;
static void increment_global_activity_count(void) { if (g_incr < 3) g_incr++; }
static size_t local_thread_number(struct sched *self) { return g_local_num; }
/* d_lookup_[i] / q_lookup_[i]: std::vector<std::size_t>::operator[] -- out of range is undefined behaviour */
static size_t w_lookup(struct sched *self, size_t i)
{ VX_ASSERT(i < self->lookup_size, "d_lookup_/q_lookup_[i]: index inside the vector (size hardware_concurrency())"); return nondet_size(); }
static size_t dom_lookup(struct sched *self, size_t d) { return nondet_size(); }   /* q_offset_/q_counts_: not looked at here */
static size_t worker_next(struct sched *self, size_t n) { return nondet_size(); }
static size_t fast_mod(size_t a, size_t b) { return nondet_size(); }
/* scheduler_base::select_active_pu as it behaves (C19 unit state.select_active_pu): without elasticity the argument comes
 * back unchanged -- whatever it is; with elasticity some existing worker */
static size_t select_active_pu(struct sched *self, size_t n, bool fb)
{ if (!ELASTIC(self)) return n; size_t r = nondet_size(); VX_ASSUME(r < self->num_workers_); /* C19 postcondition */ return r; }
static void q_create(void) { if (g_qcreates < 3) g_qcreates++; }
#define np_create_thread(self, i, ...) q_create()
static void vx_throw_pika(int code) { vx_exc = code; }

//@FUNC
void create_thread(struct sched *self, struct init_data *data, thread_id_ref *thrd, int *ec)
/* ANY hint value a user may pass (the hint type is std::int16_t; thread_enums.hpp: "It is up to the scheduler to decide how to
 * interpret thread numbers that are larger than the number of threads available ... Typically thread numbers will wrap around") */
__CPROVER_requires(data->schedulehint.mode == hint_mode_thread && data->scheduler_base == (void *) self)
__CPROVER_requires(self->num_workers_ >= 1 && self->num_workers_ <= self->lookup_size && self->lookup_size <= 0x7fff)
__CPROVER_requires((g_local_num == (size_t) -1 || g_local_num < self->num_workers_) && g_qcreates == 0 && g_incr == 0 && vx_exc == 0)
/* the task is handed to exactly one queue (and every table lookup on the way was in bounds: obligation in w_lookup) */
__CPROVER_ensures(g_qcreates == 1 && vx_exc == 0)
__CPROVER_assigns(g_qcreates, g_incr, vx_exc, data->run_now)
//@LIFT body

void harness(void)
{
  static struct sched s; struct init_data d; thread_id_ref id = 0; int ec = 0;
  vx_exc = 0; vx_caught = 0; g_qcreates = 0; g_incr = 0;
  s.num_workers_ = nondet_size(); s.num_domains_ = nondet_size(); s.round_robin_ = nondet_bool(); s.lookup_size = nondet_size(); s.mode_ = nondet_u32();
  g_local_num = nondet_size();
  d.priority = nondet_i8(); d.schedulehint.hint = nondet_i16(); d.schedulehint.mode = nondet_i8(); d.run_now = nondet_bool(); d.scheduler_base = &s;
#ifdef KF_HINT_IN_RANGE
  if (!(d.schedulehint.hint >= 0 && (size_t) d.schedulehint.hint < s.num_workers_)) return;   /* known-finding input class excluded */
#endif
  create_thread(&s, &d, &id, &ec);
  if (d.schedulehint.hint >= 0 && (size_t) d.schedulehint.hint < s.num_workers_) VX_REACH("hint_names_a_worker");
#ifndef KF_HINT_IN_RANGE
  if (d.schedulehint.hint >= 0 && (size_t) d.schedulehint.hint >= s.num_workers_) VX_REACH("hint_beyond_workers");
  if (d.schedulehint.hint < 0) VX_REACH("negative_hint");
#endif
}
