/* C10 (steal units) -- thread_queue::wait_or_add_new, both overloads: from WHICH queue's staged list are tasks converted and INTO
 * which queue.  T contracts over the contract of add_new_always (proved in C01: hops.tq.add_new_always / hops.tq.add_new: "every
 * staged task popped from addfrom->new_tasks_ ... is queued once in the RECEIVER"). */
#include "c10.h"

struct mutex { int id; };
struct tq_params { int64_t min_tasks_to_steal_staged_; };
struct tqq {                                 /* thread_queue: only what the two functions read */
  int64_t new_tasks_count_, work_items_count_;
  struct mutex mtx_;
  struct tq_params parameters_;
};
struct ulock { struct mutex *m; bool owns; };

static bool g_lock_held;                     /* this thread holds self->mtx_ */
static long g_ana_calls;                     /* add_new_always calls */
static struct tqq *g_exp_recv, *g_exp_from;  /* the queue the function under contract was called on / the source it was given */
static bool g_bad_recv, g_bad_from, g_bad_added; /* some call had another receiver / another source / another counter */
static size_t *g_added_ptr;

/* the atomic counters: other threads change them at any time */
static bool g_staged_seen_empty;             /* a read of the receiver's own new_tasks_count_ returned 0 */
static bool g_lock_busy;                     /* a try_to_lock on the queue's mutex failed */
static int64_t count_load(int64_t *p)
{
  int64_t v = nondet_i64();
  if (g_exp_recv != NULL && p == &g_exp_recv->new_tasks_count_ && v == 0) g_staged_seen_empty = true;
  return v;
}
/* std::unique_lock<mutex_type> lk(mtx_, std::try_to_lock): may fail (held elsewhere, or spuriously) */
static struct ulock ulock_try(struct mutex *m) { struct ulock l; l.m = m; l.owns = nondet_bool(); if (l.owns) g_lock_held = true; else g_lock_busy = true; return l; }
static bool ulock_owns(struct ulock *l) { return l->owns; }
static void ulock_unlock(struct ulock *l) { VX_ASSERT(l->owns, "unlock of a unique_lock that does not own the mutex throws"); l->owns = false; g_lock_held = false; }
static void ulock_dtor(struct ulock *l) { if (l->owns) { l->owns = false; g_lock_held = false; } }

/* thread_queue::add_new_always(added, addfrom, lk, steal) called on `recv` -- contract of C01 hops.tq.add_new_always:
 * requires the receiver's lock; converts staged tasks OF addfrom INTO recv; `added` grows by the number converted */
static bool tq_add_new_always(struct tqq *recv, size_t *added, struct tqq *addfrom, struct ulock *lk, bool steal)
{
  VX_ASSERT(lk->owns && lk->m == &recv->mtx_ && g_lock_held, "add_new_always precondition: the RECEIVER's mutex is held (PIKA_ASSERT(lk.owns_lock()))");
  if (g_ana_calls < 3) g_ana_calls++;
  if (recv != g_exp_recv) g_bad_recv = true;
  if (addfrom != g_exp_from) g_bad_from = true;
  if (added != g_added_ptr) g_bad_added = true;
  bool r = nondet_bool();
  if (r) *added += (size_t) 1 + (size_t) nondet_u16();
  return r;
}
static bool tq_cleanup_terminated_locked(struct tqq *self, bool delete_all)
{ VX_ASSERT(g_lock_held, "cleanup_terminated_locked: mtx_ is held"); return nondet_bool(); }
static bool tq_cleanup_terminated(struct tqq *self, bool delete_all) { return nondet_bool(); }

#define TQ_PRE(self) (g_ana_calls == 0 && !g_lock_held && added == g_added_ptr && self == g_exp_recv && !g_bad_recv && !g_bad_from && !g_bad_added)
#define TQ_GHOSTS g_lock_held, g_ana_calls, g_bad_recv, g_bad_from, g_bad_added, g_staged_seen_empty, g_lock_busy

#ifdef U_WOAN_SELF
//@FUNC
bool wait_or_add_new(struct tqq *self, bool running, size_t *added, bool steal)
__CPROVER_requires(TQ_PRE(self) && g_exp_from == self)
/* every conversion takes staged tasks of THIS queue and makes them pending tasks of THIS queue */
__CPROVER_ensures(!g_bad_recv && !g_bad_from && !g_bad_added)
/* the queue's OWN staged tasks are converted unless none were seen or the maintenance lock is busy -- in particular however many
 * pending tasks the queue holds (C02: the staged retry helper of a deferred wake-up must become runnable although other tasks keep
 * re-queueing themselves; only the STEALING overload may look at the pending count) */
__CPROVER_ensures(g_ana_calls == 0 ==> (g_staged_seen_empty || g_lock_busy))
__CPROVER_assigns(*added, TQ_GHOSTS)
//@LIFT body
#endif

#ifdef U_WOAN_FROM
//@FUNC
bool wait_or_add_new(struct tqq *self, bool running, size_t *added, struct tqq *addfrom, bool steal)
__CPROVER_requires(TQ_PRE(self) && g_exp_from == addfrom)
/* every conversion takes staged tasks of the queue the CALLER named (addfrom) and makes them pending tasks of THIS queue --
 * never the other way round, never of a third queue */
__CPROVER_ensures(!g_bad_recv && !g_bad_from && !g_bad_added)
__CPROVER_assigns(*added, TQ_GHOSTS)
//@LIFT body
#endif

void harness(void)
{
  static struct tqq q0, q1;
  q0.new_tasks_count_ = nondet_i64(); q0.work_items_count_ = nondet_i64(); q0.mtx_.id = 0; q0.parameters_.min_tasks_to_steal_staged_ = nondet_i64();
  q1.new_tasks_count_ = nondet_i64(); q1.work_items_count_ = nondet_i64(); q1.mtx_.id = 1; q1.parameters_.min_tasks_to_steal_staged_ = nondet_i64();
  vx_exc = 0; vx_caught = 0;
  g_staged_seen_empty = false; g_lock_busy = false;
  g_lock_held = false; g_ana_calls = 0; g_bad_recv = g_bad_from = g_bad_added = false; g_exp_recv = &q0;
  size_t added = nondet_size(); g_added_ptr = &added;
  bool running = nondet_bool(), steal = nondet_bool();
#ifdef U_WOAN_SELF
  g_exp_from = &q0;
  bool r = wait_or_add_new(&q0, running, &added, steal);
  if (g_ana_calls >= 1 && !r) VX_REACH("converted_own_staged");
  if (g_ana_calls >= 1 && r) VX_REACH("nothing_to_convert");
  if (g_ana_calls == 0 && r) VX_REACH("no_staged_tasks");
  if (g_ana_calls == 0 && !r) VX_REACH("lock_busy");
#else
  struct tqq *from = nondet_bool() ? &q0 : &q1;
  g_exp_from = from;
  bool r = wait_or_add_new(&q0, running, &added, from, steal);
  if (g_ana_calls >= 1 && from == &q1) VX_REACH("stolen_from_other_queue");
  if (g_ana_calls >= 1 && from == &q0) VX_REACH("own_staged");
  if (g_ana_calls == 0 && !r) VX_REACH("nothing_done");
  if (g_ana_calls == 0 && r) VX_REACH("may_terminate");
#endif
}
