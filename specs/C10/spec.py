import re

from vx.lift import (Lift, Sub, Call, Members, Guard, DropStmt, TryCatch, Auto, Rule, LiftError, match_close, split_args,
                     read_source)
from vx.run import Unit

TPS = "libs/pika/executors/include/pika/executors/thread_pool_scheduler.hpp"
STS = "libs/pika/executors/include/pika/executors/std_thread_scheduler.hpp"
REG = "libs/pika/threading_base/include/pika/threading_base/register_thread.hpp"
TCEP = "libs/pika/errors/include/pika/errors/try_catch_exception_ptr.hpp"
LPQ = "libs/pika/schedulers/include/pika/schedulers/local_priority_queue_scheduler.hpp"
SQS = "libs/pika/schedulers/include/pika/schedulers/static_queue_scheduler.hpp"
SPQS = "libs/pika/schedulers/include/pika/schedulers/static_priority_queue_scheduler.hpp"
MODE_HPP = "libs/pika/threading_base/include/pika/threading_base/scheduler_mode.hpp"
MODE_CPP = "libs/pika/threading_base/src/scheduler_mode.cpp"
SB_CPP = "libs/pika/threading_base/src/scheduler_base.cpp"
SB_HPP = "libs/pika/threading_base/include/pika/threading_base/scheduler_base.hpp"
ENUMS = "libs/pika/coroutines/include/pika/coroutines/thread_enums.hpp"
CW_CPP = "libs/pika/threading_base/src/create_work.cpp"
POOL_IMPL = "libs/pika/thread_pools/include/pika/thread_pools/scheduled_thread_pool_impl.hpp"


# ---------------------------------------------------------------------------------------------------------------
# helpers local to this spec (reported to the framework owner)


def enum_defines(relpath, enum_name, prefix):
    """Read `enum class <enum_name> [: T] { a = v, b, c = a | b, ... }` from /repo and return ["<prefix>a=<v>", ...]:
    the templates never spell an enumerator value."""
    try:
        src = read_source(relpath)
    except LiftError:
        return []
    m = re.search(r"enum\s+class\s+%s\b[^{;]*\{" % re.escape(enum_name), src)
    if not m:
        return []
    op = m.end() - 1
    cl = match_close(src, op, "{", "}")
    env, out, nxt = {}, [], 0
    for item in split_args(src[op + 1 : cl]):
        item = item.strip()
        if not item:
            continue
        mm = re.match(r"(\w+)\s*(?:=\s*(.*))?$", item, re.S)
        if not mm:
            continue
        if mm.group(2) is not None:
            try:
                val = int(eval(mm.group(2), {"__builtins__": {}}, dict(env)))
            except Exception:
                continue
        else:
            val = nxt
        env[mm.group(1)] = val
        nxt = val + 1
        out.append("%s%s=%d" % (prefix, mm.group(1), val))
    return out


LAMBDA_RX = re.compile(r"\[[^\[\]]*\]\s*\(([^()]*)\)\s*(?:mutable\s*)?\{")


def _lambdas(text):
    """all lambda expressions in textual order: (start, end_exclusive, params, body_text_without_braces)"""
    res = []
    for m in LAMBDA_RX.finditer(text):
        bop = m.end() - 1
        bcl = match_close(text, bop, "{", "}")
        res.append((m.start(), bcl + 1, m.group(1).strip(), text[bop + 1 : bcl]))
    return res


class TryCatchPtr(Rule):
    """`pika::detail::try_catch_exception_ptr([..]() { A }, [..](std::exception_ptr ep) { B });`
         ->  `try { A } catch (...) { vx_eptr ep = vx_current_exception(); B }`
    i.e. the definition of try_catch_exception_ptr (errors/try_catch_exception_ptr.hpp, proved as unit tps.tcep) unfolded at a
    statement-level call site.  Only for lambdas without `return`."""

    def __init__(self, n=1):
        self.n = n

    def apply(self, text):
        k = 0
        rx = re.compile(r"(?:pika::)?detail::try_catch_exception_ptr\s*\(")
        while True:
            m = rx.search(text)
            if not m:
                break
            op = m.end() - 1
            cl = match_close(text, op)
            args = split_args(text[op + 1 : cl])
            if len(args) != 2:
                raise LiftError("TryCatchPtr: expected 2 arguments")
            parts = []
            for a in args:
                ls = _lambdas(a)
                if not ls or ls[0][0] != 0 or a[ls[0][1]:].strip():
                    raise LiftError("TryCatchPtr: argument is not a lambda: %r" % a[:50])
                parts.append(ls[0])
            (_, _, tparams, tbody), (_, _, cparams, cbody) = parts
            if tparams:
                raise LiftError("TryCatchPtr: try-callable takes parameters")
            mp = re.match(r"std::exception_ptr\s*(?:const\s*)?&{0,2}\s*(\w+)$", cparams)
            if not mp:
                raise LiftError("TryCatchPtr: catch-callable parameter %r" % cparams)
            # a `return` at the nesting level of these two lambdas would need a different lowering
            flat = tbody + cbody
            for (s, e, _, _) in sorted(_lambdas(flat), reverse=True):
                flat = flat[:s] + flat[e:]
            if re.search(r"\breturn\b", flat):
                raise LiftError("TryCatchPtr: lambda with return")
            ms = re.match(r"\s*;", text[cl + 1 :])
            if not ms:
                raise LiftError("TryCatchPtr: not a statement")
            rep = "try { %s } catch (...) { vx_eptr %s = vx_current_exception(); %s }" % (tbody, mp.group(1), cbody)
            text = text[: m.start()] + rep + text[cl + 1 + ms.end():]
            k += 1
        self.check(k, "TryCatchPtr")
        return text


class Lambda(Rule):
    """every (outermost) lambda expression still present -> template; {k} = 1-based ordinal, {params}.  The lambda's BODY is
    lifted separately with LambdaBody, the expression itself becomes an opaque closure token."""

    def __init__(self, template, n=1):
        self.template, self.n = template, n

    def apply(self, text):
        ls, out, pos, k = _lambdas(text), [], 0, 0
        for (s, e, params, _) in ls:
            if s < pos:
                continue
            k += 1
            out.append(text[pos:s])
            out.append(self.template.replace("{k}", str(k)).replace("{params}", params))
            pos = e
        out.append(text[pos:])
        self.check(k, "Lambda")
        return "".join(out)


class LambdaBody(Rule):
    """reduce the lifted text to the body `{ ... }` of the lambda that is argument `arg` of the call `head(`"""

    def __init__(self, head, arg=0):
        self.head, self.arg, self.n = head, arg, 1

    def apply(self, text):
        ms = list(re.finditer(self.head + r"\s*[({]", text, re.S))
        self.check(len(ms), "LambdaBody(/%s/)" % self.head)
        op = ms[0].end() - 1
        cl = match_close(text, op, text[op], ")" if text[op] == "(" else "}")
        a = split_args(text[op + 1 : cl])[self.arg]
        ls = _lambdas(a)
        if not ls or ls[0][0] != 0 or a[ls[0][1]:].strip():
            raise LiftError("LambdaBody: argument %d of %s is not a lambda" % (self.arg, self.head))
        return "{" + ls[0][3] + "}"


class Method(Rule):
    """member call `RECV.name(args)` / `RECV->name(args)` -> template(recv_expr, args) (copied from specs/C19, template is a
    function here); RECV is found by scanning backwards over identifiers, `::`, `.`, `->` and balanced (...) / [...]"""

    def __init__(self, name, template, n=None):
        self.name, self.template, self.n = name, template, n

    @staticmethod
    def _recv_start(text, dot):
        i = dot
        while True:
            if i >= 1 and text[i - 1] in ")]":
                close = text[i - 1]
                open_ = "(" if close == ")" else "["
                depth, q = 0, i - 1
                while q >= 0:
                    if text[q] == close:
                        depth += 1
                    elif text[q] == open_:
                        depth -= 1
                        if depth == 0:
                            break
                    q -= 1
                if q < 0:
                    raise LiftError("Method: unbalanced receiver")
                i = q
                continue
            mm = re.search(r"\w+$", text[:i])
            if mm:
                i = mm.start()
                if text[i - 2 : i] in ("::", "->"):
                    i -= 2
                    continue
                if text[i - 1 : i] == ".":
                    i -= 1
                    continue
            break
        return i

    def apply(self, text):
        k, scan = 0, 0
        rx = re.compile(r"(\.|->)(%s)\s*\(" % self.name)
        while True:
            m = rx.search(text, scan)
            if not m:
                break
            rs = self._recv_start(text, m.start())
            recv = text[rs : m.start()].strip()
            if not recv:
                raise LiftError("Method(%s): empty receiver" % self.name)
            recv = "(%s)" % recv if m.group(1) == "->" else "&(%s)" % recv      # always a pointer expression
            op = m.end() - 1
            cl = match_close(text, op)
            rep = self.template(m.group(2), recv, split_args(text[op + 1 : cl]))
            text = text[:rs] + rep + text[cl + 1 :]
            scan = rs + len(rep)
            k += 1
        self.check(k, "Method(%s)" % self.name)
        return text


MOVE = Call(r"\bstd::move", "({args})", None)
FWD = Sub(r"\bstd::forward<[^<>]*>\s*\(\s*(\w+)\s*\)", r"(\1)", None)
RECV = [
    Call(r"pika::execution::experimental::set_value", "recv_set_value(&{0})", None),
    Call(r"pika::execution::experimental::set_error", "recv_set_error(&{0}, {1})", None),
    Call(r"pika::execution::experimental::set_stopped", "recv_set_stopped(&{0})", None),
]

PRIO_ENUM = Sub(r"(?:(?:pika::)?execution::)?thread_priority::(\w+)", r"thread_priority_\1", None)
HINT_MODE_ENUM = Sub(r"(?:(?:pika::)?execution::)?thread_schedule_hint_mode::(\w+)", r"hint_mode_\1", None)
STACK_ENUM = Sub(r"(?:(?:pika::)?execution::)?thread_stacksize::(\w+)", r"thread_stacksize_\1", None)
HINT_CTOR = Sub(r"(?:(?:pika::)?execution::)?thread_schedule_hint\s*(?:\{\s*\}|\(\s*\))", "hint_default()", None)
TPS_MEMBERS = ["pool_", "priority_", "schedulehint_", "stacksize_", "annotation_"]
ENUM_DEFS = (enum_defines(ENUMS, "thread_priority", "thread_priority_") + enum_defines(ENUMS, "thread_schedule_hint_mode", "hint_mode_") +
             enum_defines(ENUMS, "thread_stacksize", "thread_stacksize_"))

# ---------------------------------------------------------------------------------------------------------------
# unit group 1: thread_pool_scheduler::execute / operation_state::start / the task closure / register_work

EXECUTE_RULES = [
    FWD,
    DropStmt(r"pika::detail::thread_description desc", 1),
    Call(r"threads::detail::make_thread_function_nullary", "{0}", 1),
    # thread_init_data(F&& f, desc, priority, os_thread, stacksize, ...): positional hand-over to the C mirror
    Call(r"threads::detail::thread_init_data (\w+)", "struct init_data {h1} = init_data_make({0}, {2}, {3}, {4})", 1),
    Call(r"threads::detail::register_work", "{ register_work(&{0}, {1}); if (vx_exc) return; }", None, stmt=True),
    PRIO_ENUM, HINT_MODE_ENUM, STACK_ENUM,
    Sub(r"(?<![\w.>])f\(\)", "closure_call(f)", None),      # a direct invocation of the callable, should one appear
    HINT_CTOR,
    Members(TPS_MEMBERS, optional=TPS_MEMBERS),
]
EXECUTE = lambda: Lift(TPS, r"void execute\(F&& f, char const\* fallback_annotation\) const", rules=EXECUTE_RULES)

OP_MEMBERS = Members(["receiver", "fallback_annotation"], optional=["receiver", "fallback_annotation"])
IIFE = Sub(r"\(\s*(VX_CLOSURE\([^()]*\))\s*\)\s*\(\s*\)", r"closure_call(\1)", None)   # a lambda invoked on the spot
START_RULES = [
    TryCatchPtr(1), MOVE,
    Lambda("VX_CLOSURE({k}, self)", 1), IIFE,
    Call(r"\bscheduler\.execute", "{ execute(&self->scheduler, {0}, {1}); VX_THROW_POINT; }", None, stmt=True),
] + RECV + [OP_MEMBERS, TryCatch(1)]
START_LOC = r"void start\(\) & noexcept"

UNITS = [
    Unit("tps.execute", "tps.c", defines=ENUM_DEFS + ["U_EXECUTE"], enforce="execute", lifts={"execute": EXECUTE()},
         funcs=[TPS + ": thread_pool_scheduler::execute"], min_obligations=8,
         doc="T: exactly one register_work, with pool_/priority_/schedulehint_/stacksize_ of this scheduler and the given "
             "callable; the callable is not run inline; a throwing registration propagates"),
    Unit("tps.start", "tps.c", defines=ENUM_DEFS + ["U_START"], enforce="start", replace=["execute"],
         lifts={"execute": EXECUTE(), "start": Lift(TPS, START_LOC, rules=START_RULES)},
         funcs=[TPS + ": thread_pool_scheduler::operation_state::start"], min_obligations=8,
         doc="T: start never signals set_value itself; one registration on the scheduler's pool of the closure bound to this "
             "operation state; a throwing registration becomes exactly one set_error(receiver, that exception)"),
    Unit("tps.start.task_body", "tps.c", defines=ENUM_DEFS + ["U_TASK_BODY"], enforce="task_body",
         lifts={"task": Lift(TPS, START_LOC, rules=[LambdaBody(r"\bscheduler\.execute", 0), MOVE] + RECV + [OP_MEMBERS])},
         funcs=[TPS + ": thread_pool_scheduler::operation_state::start (closure passed to scheduler.execute)"], min_obligations=2,
         doc="T: the body of the registered closure is exactly one set_value on this operation state's receiver"),
    Unit("tps.register_work", "tps.c", defines=ENUM_DEFS + ["U_REGISTER_WORK"], enforce="register_work_impl",
         lifts={"register_work": Lift(REG, r"inline thread_id_ref_type register_work\(\s*thread_init_data& data, thread_pool_base\* pool,", rules=[
             Sub(r"\bdata\.", "data->", "+"),
             Method("create_work", lambda name, recv, args: "pool_create_work(%s, %s)" % (recv, args[0]), None)])},
         funcs=[REG + ": threads::detail::register_work(data, pool, ec)"], min_obligations=4,
         doc="T: forwards exactly once to pool->create_work of the pool it was given, placement request unchanged"),
    Unit("tps.tcep", "tps.c", defines=ENUM_DEFS + ["U_TCEP"], enforce="try_catch_exception_ptr",
         lifts={"tcep": Lift(TCEP, r"decltype\(auto\) try_catch_exception_ptr\(TryCallable&& t, CatchCallable&& c\)", rules=[
             Sub(r"std::exception_ptr\s+(\w+)\s*;", r"vx_eptr \1 = 0;", 1),
             Sub(r"(\breturn\s+)?(?<![\w.>])t\(\)\s*;", lambda m: "{ call_t(); VX_THROW_POINT; %s }" % ("return;" if m.group(1) else ""), None),
             Sub(r"std::current_exception\(\)", "vx_current_exception()", None),
             Call(r"\breturn\s+c", "{ call_c({args}); return; }", None, stmt=True),
             Call(r"(?<![\w.>])c", "call_c({args})", None, stmt=True),
             TryCatch(1)])},
         funcs=[TCEP + ": pika::detail::try_catch_exception_ptr"], min_obligations=4,
         doc="T: t() exactly once; c(current exception) exactly once iff t threw, outside the handler (justifies rule TryCatchPtr)"),
]

WITH_RULES = [Sub(r"\bauto\s+(\w+)\s*=\s*scheduler\s*;", r"struct tps \1 = *scheduler;", None), Sub(r"\bscheduler\.", "scheduler->", None),
              Sub(r"\breturn\s+scheduler\s*;", "return *scheduler;", None)]
for (nm, tag, dfn) in [("priority", r"with_priority_t", "U_WITH_PRIORITY"), ("stacksize", r"with_stacksize_t", "U_WITH_STACKSIZE"),
                       ("hint", r"with_hint_t", "U_WITH_HINT")]:
    UNITS.append(Unit("tps.with_" + nm, "tps.c", defines=ENUM_DEFS + [dfn], enforce="with_hint" if nm == "hint" else "with_prop",
                      lifts={"with": Lift(TPS, r"friend thread_pool_scheduler tag_invoke\(pika::execution::experimental::%s," % tag, rules=WITH_RULES)},
                      funcs=[TPS + ": tag_invoke(%s, thread_pool_scheduler const&, ...)" % tag], min_obligations=2,
                      doc="F: the derived scheduler keeps pool_ (and every property except the one being set)"))

# ---------------------------------------------------------------------------------------------------------------
# unit group 1b: std_thread_scheduler

THREAD_ARG = r"((?:[^{};()]|\([^()]*\))*)"
def thread_decl(on_throw):
    return Guard(r"std::thread\s+(\w+)\s*[{(]" + THREAD_ARG + r"[})]\s*;",
                 r"struct vx_thread \1 = thread_make(\2); " + on_throw, r"thread_dtor(&\1);", None)
THREAD_OPS = [Sub(r"\b(\w+)\.detach\(\)", r"thread_detach(&\1)", None), Sub(r"\b(\w+)\.join\(\)", r"thread_join(&\1)", None)]
STD_START_LOC = r"void start\(\) & noexcept"

UNITS += [
    Unit("std.execute", "stdthread.c", defines=ENUM_DEFS + ["U_EXECUTE"], enforce="std_execute",
         lifts={"execute": Lift(STS, r"friend void tag_invoke\(execute_t, std_thread_scheduler const&, F&& f\)", rules=[
             FWD, thread_decl("if (vx_exc) return;")] + THREAD_OPS + [Sub(r"(?<![\w.>])f\(\)", "closure_call(f)", None)])},
         funcs=[STS + ": tag_invoke(execute_t, std_thread_scheduler const&, F&&)"], min_obligations=6,
         doc="T: a new std::thread with body = the callable, detached; the callable is not run inline; std::thread never "
             "destroyed joinable"),
    Unit("std.start", "stdthread.c", defines=ENUM_DEFS + ["U_START"], enforce="start",
         lifts={"start": Lift(STS, STD_START_LOC, rules=[
             TryCatchPtr(1), MOVE, Lambda("VX_CLOSURE({k}, self)", None), IIFE, thread_decl("VX_THROW_POINT;")] + THREAD_OPS + RECV + [
             OP_MEMBERS, TryCatch(1)])},
         funcs=[STS + ": std_thread_scheduler::operation_state::start"], min_obligations=8,
         doc="T: no inline set_value; one fresh detached std::thread running the closure bound to this operation state; thread "
             "creation failure becomes exactly one set_error"),
    Unit("std.start.task_body", "stdthread.c", defines=ENUM_DEFS + ["U_TASK_BODY"], enforce="task_body",
         lifts={"task": Lift(STS, STD_START_LOC, rules=[LambdaBody(r"std::thread\s+\w+", 0), MOVE] + RECV + [OP_MEMBERS])},
         funcs=[STS + ": std_thread_scheduler::operation_state::start (closure run by the new std::thread)"], min_obligations=2,
         doc="T: the body of the new thread is exactly one set_value on this operation state's receiver"),
]

# ---------------------------------------------------------------------------------------------------------------
# unit group 2: hint -> queue arithmetic of local_priority_queue_scheduler; polling without stealing


MODE_DEFS = ENUM_DEFS + enum_defines(MODE_HPP, "scheduler_mode", "scheduler_mode_")
QDEFS = MODE_DEFS
SIZE_T_CAST = Sub(r"std::size_t\(\s*(-?\w+)\s*\)", r"((size_t) \1)", None)
ACTIVITY = Sub(r"(?:pika::threads::detail::)?(increment|decrement)_global_activity_count\(\)", r"\1_global_activity_count()", None)
LPQ_MEMBERS = Members(["num_queues_", "num_high_priority_queues_"], optional=["num_queues_", "num_high_priority_queues_"])
PLACE_RULES = [
    ACTIVITY, SIZE_T_CAST, PRIO_ENUM, HINT_MODE_ENUM,
    Sub(r"\bdata\.", "data->", None),
    Sub(r"\bcurr_queue_\s*\+\+", "atomic_fetch_inc(&self->curr_queue_)", None),
    Guard(r"std::unique_lock<pu_mutex_type>\s+(\w+)\s*;", r"struct ulock \1 = ulock_none();", r"ulock_dtor(&\1);", None),
    Call(r"\bselect_active_pu(?!\s*\(\s*self\b)", lambda a, env: "select_active_pu(self, &%s, %s, %s)" % (a[0], a[1], a[2] if len(a) > 2 else "false"), None),
    Sub(r"\b(\w+)\.unlock\(\)", r"ulock_unlock(&\1)", None),
    # which container receives which call with which index is the code's; the rule only binds container -> stub
    Sub(r"\bhigh_priority_queues_\[([^\]]+)\]\.data_->(create_thread|schedule_thread)\(", r"hp_\2(self, \1, ", None),
    Sub(r"\bqueues_\[([^\]]+)\]\.data_->(create_thread|schedule_thread)\(", r"np_\2(self, \1, ", None),
    Sub(r"\blow_priority_queue_\.(create_thread|schedule_thread)\(", r"lp_\1(self, ", None),
    Sub(r"\bauto\s*\*", "void *", None),
    LPQ_MEMBERS,
]
LPQ_F = LPQ + ": local_priority_queue_scheduler::"
PLACE_DOC = ("T/F: exactly one queue (high / low / normal by priority) receives the task; every index in bounds; with hint mode "
             "`thread`, 0 <= hint < num_queues_ and elasticity off the normal queue index IS the hint")
UNITS += [
    Unit("lpq.create_thread", "queues.c", defines=QDEFS + ["U_CREATE_THREAD"], enforce="create_thread",
         lifts={"body": Lift(LPQ, r"void create_thread\(threads::detail::thread_init_data& data,", rules=PLACE_RULES)},
         funcs=[LPQ_F + "create_thread"], min_obligations=20, doc=PLACE_DOC + "; the task's stored hint names the queue it was put into"),
    Unit("lpq.schedule_thread", "queues.c", defines=QDEFS + ["U_SCHEDULE_THREAD"], enforce="schedule_thread",
         lifts={"body": Lift(LPQ, r"void schedule_thread\(threads::detail::thread_id_ref_type thrd,", rules=PLACE_RULES)},
         funcs=[LPQ_F + "schedule_thread"], min_obligations=20, doc=PLACE_DOC),
    Unit("lpq.schedule_thread_last", "queues.c", defines=QDEFS + ["U_SCHEDULE_THREAD_LAST"], enforce="schedule_thread",
         lifts={"body": Lift(LPQ, r"void schedule_thread_last\(threads::detail::thread_id_ref_type thrd,", rules=PLACE_RULES)},
         funcs=[LPQ_F + "schedule_thread_last"], min_obligations=20, doc=PLACE_DOC),
]

TQ_METHODS = ["get_next_thread", "increment_num_pending_accesses", "increment_num_pending_misses",
              "increment_num_stolen_from_pending", "increment_num_stolen_to_pending", "get_staged_queue_length"]
TQ_CALL = Method("|".join(TQ_METHODS), lambda name, recv, args: "tq_%s(%s)" % (name, ", ".join([recv] + [a for a in args if a])), None)
POLL_RULES = [
    Sub(r"\bthread_queue_type\s*\*", "struct tq *", None),
    Sub(r"\bhigh_priority_queues_\[([^\]]+)\]\.data_", r"hp_queue(self, \1)", None),
    Sub(r"\bqueues_\[([^\]]+)\]\.data_", r"np_queue(self, \1)", None),
    Sub(r"\blow_priority_queue_(?=\.)", "g_q_lp", None),
    TQ_CALL,
    Sub(r"for\s*\(\s*std::size_t\s+(\w+)\s*:\s*victim_threads_\[(\w+)\]\.data_\s*\)\s*\{",
        r"for (size_t vx_it = 0; vx_it != victims_size(self, \2); ++vx_it) { size_t \1 = victim_at(self, \2, vx_it);", None),
    LPQ_MEMBERS,
]
LOOP_STEAL = """
__CPROVER_assigns(vx_it, g_polls_foreign, g_got, g_got_foreign)
__CPROVER_loop_invariant(!g_got && !g_got_foreign && g_polls_foreign >= 0 && g_polls_foreign <= 3 && (enable_stealing || g_polls_foreign == 0))
"""
UNITS += [
    Unit("lpq.get_next_thread", "queues.c", defines=QDEFS + ["U_GET_NEXT"], enforce="get_next_thread",
         lifts={"body": Lift(LPQ, r"bool get_next_thread\(std::size_t num_thread, bool running,", rules=POLL_RULES,
                             loops={1: LOOP_STEAL, "count": 1})},
         funcs=[LPQ_F + "get_next_thread"], min_obligations=20,
         doc="T: with enable_stealing == false no queue of another worker is polled (own high / own normal / shared low only)"),
    Unit("sq.get_next_thread", "queues.c", defines=QDEFS + ["U_STATIC_GET_NEXT"], enforce="static_get_next_thread",
         lifts={"body": Lift(SQS, r"bool get_next_thread\(std::size_t num_thread, bool(?: \w+)?,", rules=[
             Sub(r"bool /\*\s*\w+\s*\*/", "bool", None),
             Call(r"\bbase_type::get_next_thread", "base_get_next_thread(self, {0}, {1}, &({2}), {3})", None),
             Sub(r"using\s+\w+\s*=[^;]*;", "", None),
             Sub(r"\bthread_queue_type\s*\*", "struct tq *", None),
             Sub(r"this->queues_\.size\(\)", "self->num_queues_", None),
             Sub(r"this->queues_\[([^\]]+)\]", r"np_queue(self, \1)", None),
             TQ_CALL])},
         funcs=[SQS + ": static_queue_scheduler::get_next_thread"], min_obligations=10,
         doc="T: polls exactly queues_[num_thread], once, and nothing else, whatever enable_stealing says"),
]

# ---------------------------------------------------------------------------------------------------------------
# unit group 3: static schedulers clear both stealing bits

MODE_ENUM = Sub(r"(?:::)?(?:pika::)?(?:threads::)?scheduler_mode::(\w+)", r"scheduler_mode_\1", None)
MODE_RULES = [
    MODE_ENUM,
    Sub(r"(?<![\w:])scheduler_mode\s*\{\s*\}", "((scheduler_mode) 0)", None),
    Sub(r"(?<![\w:])scheduler_mode\s*\(", "(scheduler_mode)(", None),
    SIZE_T_CAST,
    Sub(r"\bmode_\.data_\.store\(", "atomic_store_mode(&self->mode_, ", None),
    Sub(r"\bmode_\.data_\.load\(", "atomic_load_mode(&self->mode_, ", None),
    Sub(r"\bscheduler_base::set_scheduler_mode\(", "base_set_scheduler_mode(self, ", None),
    Sub(r"(?<![\w:])(?:this->)?set_scheduler_mode\(", "vset_scheduler_mode(self, ", None),      # virtual call
    Sub(r"(?<![\w:])(?:this->)?(get_scheduler_mode)\(\)", r"\1(self)", None),
    Sub(r"(?<![\w:])(?:this->)?(add_scheduler_mode|remove_scheduler_mode|do_some_work)\(", r"\1(self, ", None),
]
def mode_lifts(override_src, override_cls):
    return {
        "base_set": Lift(SB_CPP, r"void scheduler_base::set_scheduler_mode\(scheduler_mode mode\)", rules=MODE_RULES),
        "get": Lift(SB_HPP, r"scheduler_mode get_scheduler_mode\(\) const", rules=MODE_RULES),
        "override": Lift(override_src, r"void set_scheduler_mode\(scheduler_mode mode\) override", rules=MODE_RULES),
    }
ML = {"add": lambda: Lift(SB_CPP, r"void scheduler_base::add_scheduler_mode\(scheduler_mode mode\)", rules=MODE_RULES),
      "remove": lambda: Lift(SB_CPP, r"void scheduler_base::remove_scheduler_mode\(scheduler_mode mode\)", rules=MODE_RULES),
      "update": lambda: Lift(SB_CPP, r"void scheduler_base::update_scheduler_mode\(scheduler_mode mode, bool set\)", rules=MODE_RULES)}
SB_F = SB_CPP + ": scheduler_base::"
for (opn, sym, cname) in [("and", r"&", "U_OP_AND"), ("or", r"\|", "U_OP_OR"), ("not", r"~", "U_OP_NOT")]:
    UNITS.append(Unit("mode.op_" + opn, "mode.c", defines=MODE_DEFS + [cname], enforce="op1" if opn == "not" else "op",
                      lifts={"op": Lift(MODE_CPP, r"scheduler_mode operator%s\(scheduler_mode sched1?(?:, scheduler_mode sched2)?\)" % sym, rules=MODE_RULES)},
                      funcs=[MODE_CPP + ": operator%s(scheduler_mode...)" % sym.replace("\\", "")], min_obligations=1,
                      doc="F: the overloaded operator is the builtin operator on the underlying std::uint32_t"))
for (tag, src, cls) in [("sq", SQS, "static_queue_scheduler"), ("spq", SPQS, "static_priority_queue_scheduler")]:
    F = [src + ": %s::set_scheduler_mode" % cls, SB_F + "set_scheduler_mode", SB_HPP + ": scheduler_base::get_scheduler_mode"]
    UNITS += [
        Unit("mode.%s.set" % tag, "mode.c", defines=MODE_DEFS + ["U_SET"], enforce="vset_scheduler_mode", lifts=mode_lifts(src, cls),
             funcs=F, min_obligations=3, doc="F: whatever mode is requested, neither stealing bit is stored"),
        Unit("mode.%s.add" % tag, "mode.c", defines=MODE_DEFS + ["U_ADD"], enforce="add_scheduler_mode",
             lifts=dict(mode_lifts(src, cls), add=ML["add"]()), funcs=F + [SB_F + "add_scheduler_mode"], min_obligations=3,
             doc="F: add_scheduler_mode on a static scheduler (virtual set) cannot switch stealing on"),
        Unit("mode.%s.remove" % tag, "mode.c", defines=MODE_DEFS + ["U_REMOVE"], enforce="remove_scheduler_mode",
             lifts=dict(mode_lifts(src, cls), remove=ML["remove"]()), funcs=F + [SB_F + "remove_scheduler_mode"], min_obligations=3),
        Unit("mode.%s.update" % tag, "mode.c", defines=MODE_DEFS + ["U_UPDATE"], enforce="update_scheduler_mode",
             lifts=dict(mode_lifts(src, cls), add=ML["add"](), remove=ML["remove"](), update=ML["update"]()),
             funcs=F + [SB_F + "update_scheduler_mode"], min_obligations=3),
    ]
UNITS.append(
    Unit("mode.spq.ctor", "mode.c", defines=MODE_DEFS + ["U_CTOR"], enforce="spq_ctor_body",
         lifts=dict(mode_lifts(SPQS, "static_priority_queue_scheduler"), remove=ML["remove"](),
                    ctor=Lift(SPQS, r"static_priority_queue_scheduler\(\s*init_parameter_type const& init, bool deferred_initialization = true\)",
                              rules=MODE_RULES, ctor=True)),
         funcs=[SPQS + ": static_priority_queue_scheduler::static_priority_queue_scheduler (body)", SB_F + "remove_scheduler_mode"],
         min_obligations=3, doc="F: after the constructor body both stealing bits are clear whatever mode the base class stored"))

# ---------------------------------------------------------------------------------------------------------------
# unit group 1c: pool -> scheduler

STATE_DEFS = enum_defines(ENUMS, "thread_schedule_state", "thread_schedule_state_")
STATE_ENUM = Sub(r"(?:(?:pika::)?threads::detail::)?thread_schedule_state::(\w+)", r"thread_schedule_state_\1", None)
THROWS_IF = lambda ret: Call(r"\bPIKA_THROWS_IF", "{ vx_throws_if({0}, {1}); if (vx_exc) return %s; }" % ret, None, stmt=True)
ERR_ENUM = Sub(r"(?:pika::)?error::(\w+)", r"1 /* error::\1 */", None)
TID = Sub(r"\bthread_id_ref_type\b", "thread_id_ref", None)
UNITS += [
    Unit("pool.create_work", "chain.c", defines=ENUM_DEFS + ["U_POOL_CREATE_WORK"], enforce="pool_create_work",
         lifts={"body": Lift(POOL_IMPL, r"scheduled_thread_pool<Scheduler>::create_work\(thread_init_data& data, error_code& ec\)", rules=[
             THROWS_IF("invalid_thread_id"), ERR_ENUM, TID,
             Sub(r"\bsched_->(?:Scheduler::)?is_state\(([^()]*)\)", r"sched_is_state(self->sched_, \1)", None),
             Sub(r"\bsched_\.get\(\)", "self->sched_", None),
             Call(r"threads::detail::create_work", "detail_create_work({0}, {1}, {2}); if (vx_exc) return invalid_thread_id", None),
             Members(["thread_count_"], optional=["thread_count_"])])},
         funcs=[POOL_IMPL + ": scheduled_thread_pool<Scheduler>::create_work"], min_obligations=6,
         doc="T: refused (nothing created) or forwarded exactly once to detail::create_work on this pool's own scheduler"),
    Unit("pool.create_thread", "chain.c", defines=ENUM_DEFS + ["U_POOL_CREATE_THREAD"], enforce="pool_create_thread",
         lifts={"body": Lift(POOL_IMPL, r"scheduled_thread_pool<Scheduler>::create_thread\(\s*thread_init_data& data, thread_id_ref_type& id, error_code& ec\)", rules=[
             THROWS_IF(""), ERR_ENUM, TID,
             Sub(r"\bsched_->(?:Scheduler::)?is_state\(([^()]*)\)", r"sched_is_state(self->sched_, \1)", None),
             Sub(r"\bsched_\.get\(\)", "self->sched_", None),
             Call(r"threads::detail::create_thread", "detail_create_thread({0}, {1}, &(*{2}), {3}); if (vx_exc) return", None),
             Members(["thread_count_"], optional=["thread_count_"])])},
         funcs=[POOL_IMPL + ": scheduled_thread_pool<Scheduler>::create_thread"], min_obligations=6,
         doc="T: refused (nothing created; only a pool without worker threads refuses) or forwarded exactly once to detail::create_thread on this pool's own scheduler"),
    Unit("detail.create_work", "chain.c", defines=ENUM_DEFS + STATE_DEFS + ["U_DETAIL_CREATE_WORK"], enforce="create_work",
         lifts={"body": Lift(CW_CPP, r"thread_id_ref_type create_work\(\s*scheduler_base\* scheduler, thread_init_data& data, error_code& ec\)", rules=[
             THROWS_IF("invalid_thread_id"), ERR_ENUM, TID, STATE_ENUM, PRIO_ENUM,
             Sub(r"\bthread_self\s*\*", "struct thread_self *", None),
             Sub(r"get_thread_id_data\((\w+)->get_thread_id\(\)\)->get_priority\(\)", r"parent_priority(\1)", None),
             Sub(r"\bdata\.", "data->", None),
             Call(r"\bscheduler->create_thread", "{ sched_create_thread(scheduler, {0}, {1}, {2}); if (vx_exc) return invalid_thread_id; }", None, stmt=True),
             Call(r"\bscheduler->do_some_work", "sched_do_some_work(scheduler, {0})", None)])},
         funcs=[CW_CPP + ": threads::detail::create_work"], min_obligations=10,
         doc="T: at most one create_thread, on the given scheduler, with the hint as given; none on a refused initial state"),
]

# ---------------------------------------------------------------------------------------------------------------
# unit group 5 (found while reading for C05): shared_priority_queue_scheduler::create_thread with a worker hint

SPQ = "libs/pika/schedulers/include/pika/schedulers/shared_priority_queue_scheduler.hpp"
SPQ_RULES = [
    ACTIVITY, Sub(r"\bthis\b(?!->)", "self", None), SIZE_T_CAST, HINT_MODE_ENUM, Sub(r"(?:pika::)?error::(\w+)", r"1 /* error::\1 */", None),
    DropStmt(r"\bPIKA_DETAIL_DP", None),
    Sub(r"\busing\s+[^;]*;", "", None),
    Sub(r"\bspq_deb<\d+>\.is_enabled\(\)", "0", None),
    Sub(r"\bdata\.", "data->", None),
    Sub(r"std::unique_lock<pu_mutex_type>\s+(\w+)\s*;", r"int \1 = 0;", None),
    Sub(r"\blocal_thread_number\(\)", "local_thread_number(self)", None),
    Sub(r"numa_holder_\[[^\]]+\]\s*\.thread_queue\((?:[^()]|\([^()]*\))*\)\s*->worker_next\(", "worker_next(self, ", None),
    Call(r"\bselect_active_pu", lambda a, env: "select_active_pu(self, %s, %s)" % (a[1], a[2] if len(a) > 2 else "false"), None),
    Sub(r"\b(?:d_lookup_|q_lookup_)\[([^\]]+)\]", r"w_lookup(self, \1)", None),
    Sub(r"\b(?:q_offset_|q_counts_)\[([^\]]+)\]", r"dom_lookup(self, \1)", None),
    Call(r"\bPIKA_THROW_EXCEPTION", "{ vx_throw_pika({0}); return; }", None, stmt=True),
    Sub(r"numa_holder_\[[^\]]+\]\s*\.thread_queue\((?:[^()]|\([^()]*\))*\)\s*->create_thread\(", "np_create_thread(self, 0, ", None),
    Members(["num_workers_", "num_domains_", "round_robin_"], optional=["num_workers_", "num_domains_", "round_robin_"]),
]
UNITS += [
    Unit("spq.create_thread.hint", "spq.c", defines=MODE_DEFS, enforce="create_thread",
         lifts={"body": Lift(SPQ, r"void create_thread\(threads::detail::thread_init_data& data,", rules=SPQ_RULES)},
         funcs=[SPQ + ": shared_priority_queue_scheduler::create_thread"], min_obligations=10,
         doc="F/T: with hint mode `thread` and ANY std::int16_t hint the per-worker tables d_lookup_/q_lookup_ are indexed in "
             "bounds and exactly one queue receives the task.  FAILS on the pinned tree: the hint is used unreduced"),
]

META = {
    "explanation": (
        "C10 is decided as a SLICE: the per-call placement steps. (1) thread_pool_scheduler: execute / operation_state::start "
        "register exactly one task description on pool_ of THIS scheduler with its priority/hint/stacksize and never run the "
        "callable or signal set_value inside the submitting call; a failing registration becomes exactly one set_error; the "
        "registered closure's body is set_value(receiver); with_priority/with_stacksize/with_hint keep pool_. register_work -> "
        "scheduled_thread_pool::create_work -> detail::create_work -> scheduler->create_thread hand the description on, each "
        "exactly once, to the pool's own scheduler, hint unchanged. std_thread_scheduler: a fresh detached std::thread runs the "
        "callable. (2) local_priority_queue_scheduler create_thread / schedule_thread / schedule_thread_last: exactly one queue "
        "receives the task, indices in bounds, a worker hint < num_queues_ is honoured exactly when elasticity is off. "
        "(3) static_queue_scheduler / static_priority_queue_scheduler: every setter path and the constructor leave both stealing "
        "bits clear. (4) get_next_thread without stealing polls no other worker's queue."),
    "trusted_base": [
        "specs/C10/tps.c register_work / pool_create_work, chain.c detail_create_work / sched_create_thread: T-stubs that record "
        "their arguments, may throw, and never run the closure (running a registered task is the scheduling loop's job: C01)",
        "specs/C10/tps.c init_data_make, c10.h hint_default: C mirrors of the mem-initialiser lists of thread_init_data(F&&, desc, "
        "priority, os_thread, stacksize, ...) and thread_schedule_hint() (constructors are not statements the lifter can take)",
        "specs/C10/spec.py rule TryCatchPtr: try_catch_exception_ptr(t, c) at a statement-level call site is unfolded to "
        "try { t-body } catch (...) { ep = current exception; c-body }; justified by unit tps.tcep on the real function",
        "specs/C10/spec.py rules Lambda / LambdaBody: a lambda expression becomes an opaque closure token {kind, captured object}; "
        "its body is lifted as its own unit (tps.start.task_body, std.start.task_body)",
        "specs/C10/stdthread.c thread_make / thread_detach / thread_join / thread_dtor: std::thread modelled as {joinable, body}; "
        "construction starts a NEW thread of execution that runs the callable (C++ standard), may throw; ~thread() of a joinable "
        "thread is std::terminate (obligation)",
        "specs/C10/queues.c select_active_pu: replaced by the contract proved in C19 unit state.select_active_pu (requires "
        "num_thread < #workers, re-proved at each call site as an obligation; ensures result < #workers, and result == num_thread "
        "without enable_elasticity); VX_ASSUME(r < num_queues_) encodes that postcondition",
        "specs/C10/queues.c atomic_fetch_inc: curr_queue_++ is one atomic step; before it the environment may have set the "
        "round-robin counter to any value",
        "specs/C10/queues.c victim_at: VX_ASSUME(v < num_queues_ && v != w): victim_threads_[w] is filled by on_start_thread "
        "with indices of OTHER existing workers (not verified here; the code's own PIKA_ASSERT(idx != num_thread) relies on it)",
        "specs/C10/queues.c hp_put / np_put / lp_put / tq_poll: T-stubs for thread_queue::create_thread / schedule_thread / "
        "get_next_thread (the queue's own behaviour is C01/C17)",
        "specs/C10/spq.c: select_active_pu returns its argument unchanged without elasticity (what the real function does for any "
        "argument; with elasticity VX_ASSUME(r < num_workers_) = C19 postcondition); d_lookup_/q_lookup_ are std::vectors of size "
        "hardware_concurrency() >= num_workers_ (constructor), modelled by the bound lookup_size; only hint mode `thread` is "
        "covered by this unit (precondition)",
        "specs/C10/mode.c: a virtual call set_scheduler_mode(m) on a static scheduler object is bound to the static override "
        "(C++ dynamic dispatch, including inside the most-derived constructor body); mode_ store/load are single atomic steps; "
        "concurrent setters are not modelled (each setter's final store already has the bits clear)",
        "specs/C10/chain.c vx_throws_if: PIKA_THROWS_IF either throws (ec is pika::throws) or records the code and continues "
        "(pika::detail::throws_if is decided in C19)",
        "enumerator values (thread_priority, thread_schedule_hint_mode, thread_stacksize, thread_schedule_state, scheduler_mode) "
        "are read from /repo by spec.py (enum_defines) on every run and passed as -D",
    ],
    "assumptions": [
        "class invariant of local_priority_queue_scheduler as asserted by its constructor: num_queues_ != 0, "
        "0 < num_high_priority_queues_ <= num_queues_; additionally num_queues_ <= 32767 (a worker index must fit the "
        "std::int16_t hint it is stored into)",
        "states_.size() == num_queues_ (both come from init.num_queues_), so that C19's select_active_pu contract applies",
        "PIKA_HAVE_STDEXEC and PIKA_HAVE_THREAD_SANITIZER are off (shipped configuration): the lifted branches are pika's own "
        "execute_t customisation and the non-TSAN get_next_thread",
    ],
    "not_decided": [
        "that a registered task is later RUN by a worker of that pool and by nobody else (composition over the scheduling loop, "
        "the thread queues and the resource partitioner's worker-to-pool assignment): whole-history statement, not a contract of "
        "any function here",
        "that with a static policy a hinted normal-priority task runs EVERY phase on the hinted worker: needs the composition "
        "create_thread placement + no stealing in get_next_thread/wait_or_add_new + every re-queue using hint = current worker "
        "(C01 units) over all phases; only the three per-call facts are proved",
        "local_priority_queue_scheduler::get_next_thread polls the SHARED low-priority queue from every worker in this "
        "configuration (only the TSAN branch restricts it to the last worker): low-priority tasks are not pinned; the property "
        "speaks about normal-priority tasks only",
        "static_queue_scheduler has no constructor-time clearing of the stealing bits (only its set_scheduler_mode override and "
        "a get_next_thread that ignores the flag); what is proved is that its get_next_thread never polls another queue",
        "wait_or_add_new / staged-queue stealing paths of the schedulers, shared_priority_queue_scheduler placement, "
        "NUMA hints (ignored by this scheduler), bulk (C11) and schedule_from / continues_on (C03)",
        "with enable_elasticity the selected worker may differ from the hint (select_active_pu); only in-bounds is proved then",
        "resource partitioner / pool membership of OS threads, multi-pool pipelines end to end, that std::thread really is a "
        "non-pika thread (C++ library semantics, trusted)",
        "memory-order adequacy of curr_queue_ / mode_ accesses (A-SC)",
    ],
}


# ---- stealing paths (wait_or_add_new, victim lists) and shared_priority_queue_scheduler placement/polling: third sub-agent ----------
exec(open("/verif/specs/C10/steal_spec.py").read())
UNITS += STEAL_UNITS
for _k in ("trusted_base", "assumptions", "not_decided"):
    META[_k] = list(META.get(_k, [])) + list(STEAL_META.get(_k, []))
STATIC = list(globals().get("STATIC", [])) + list(STEAL_STATIC)


# ---- C02 units reused (added after seeded change C10-3 was missed): "a hinted task runs every phase on the hinted worker" needs every
# ---- re-queue of a woken task to carry the worker it ran on: set_thread_state passes the caller's hint to schedule_thread, and the
# ---- retry helper set_active_state re-issues the request with hint = thread(last worker).  Same templates, same contracts as C02.
_c02 = {"UNITS": [], "VX_NO_REUSE": True}
if not globals().get("VX_NO_REUSE"):     # reuse is never transitive: the other spec is loaded without ITS reuse blocks (no cycles)
    exec(compile(open("/verif/specs/C02/spec.py").read(), "/verif/specs/C02/spec.py", "exec"), _c02)
for _u in _c02["UNITS"]:
    # timed.suspend_until (added after seeded change C10-7 was missed): this_thread::suspend / yield_to hand a "next thread" of ANOTHER
    # scheduler to that thread's own scheduler (never to the caller's: it would run on a worker of the wrong pool)
    if _u.name in ("sts.set_thread_state", "sts.set_active_state", "agent.do_yield", "agent.do_resume", "timed.suspend_until"):
        _u.name = "c02." + _u.name
        _u.template = "../C02/" + _u.template
        UNITS.append(_u)
_c13 = {"UNITS": [], "VX_NO_REUSE": True}
if not globals().get("VX_NO_REUSE"):     # reuse is never transitive: the other spec is loaded without ITS reuse blocks (no cycles)
    exec(compile(open("/verif/specs/C13/spec.py").read(), "/verif/specs/C13/spec.py", "exec"), _c13)
for _u in _c13["UNITS"]:
    if _u.name == "hlp.suspend":     # the untimed overload of the same function (same obligation: g_sch_ok)
        _u.name = "c13." + _u.name
        _u.template = "../C13/" + _u.template
        UNITS.append(_u)
META["trusted_base"] = list(META.get("trusted_base", [])) + ["units c02.* are the C02 units of the same name (specs/C02/sts.c, c02.h, timed_suspend.c) with their trusted base",
    "unit c13.hlp.suspend is the C13 unit of the same name (specs/C13/suspend.c) with its trusted base"]


# ---- the scheduler travels with the sender (added by main after seeded change C10-6 was missed) ----
def _brace_init(fn, dflt):
    return Sub(r"\breturn\s*\{\s*((?:[^{};]|\([^()]*\))*?)\s*\};", lambda m: "return %s(%s);" % ((fn, m.group(1)) if m.group(1).strip() else (dflt, "")), 1)
_ENV_COMMON = [Sub(r"std::move\(\*this\)|\*this", "*self", None), Sub(r"std::move\((\w+)\)", r"\1", None), Sub(r"std::forward<\w+>\((\w+)\)", r"\1", None)]
UNITS += [
    Unit("tps.sender.get_env", "tps_env.c", defines=ENUM_DEFS + ["U_GET_ENV"], enforce="get_env",
         lifts={"body": Lift(TPS, r"env get_env\(\) const& noexcept", rules=_ENV_COMMON + [_brace_init("env_make", "env_make_default"), Members(["scheduler"], optional=["scheduler"])])},
         funcs=[TPS + ": thread_pool_scheduler::sender::get_env"], min_obligations=2,
         doc="F: the environment of schedule(s) carries s itself (all five members)"),
    Unit("tps.env.get_completion_scheduler", "tps_env.c", defines=ENUM_DEFS + ["U_COMPLETION_SCHEDULER"], enforce="get_completion_scheduler",
         lifts={"body": Lift(TPS, r"friend std::decay_t<Scheduler> tag_invoke\(\s*get_completion_scheduler_t<set_value_t>, env const& e\) noexcept",
                             rules=[Sub(r"\be\.", "e->", None)])},
         funcs=[TPS + ": tag_invoke(get_completion_scheduler_t<set_value_t>, sender::env const&)"], min_obligations=2,
         doc="F: get_completion_scheduler<set_value_t> answers with the environment's scheduler"),
    Unit("tps.schedule", "tps_env.c", defines=ENUM_DEFS + ["U_SCHEDULE"], enforce="schedule",
         lifts={"body": Lift(TPS, r"sender<thread_pool_scheduler> schedule\(\) const&", rules=_ENV_COMMON + [_brace_init("sender_make", "sender_make_default")])},
         funcs=[TPS + ": thread_pool_scheduler::schedule() const&"], min_obligations=2,
         doc="F: schedule(s) makes a sender that carries s"),
    Unit("tps.sender.connect", "tps_env.c", defines=ENUM_DEFS + ["U_CONNECT"], enforce="connect",
         lifts={"body": Lift(TPS, r"operation_state<Scheduler, Receiver> connect\(Receiver&& receiver\) const&", rules=_ENV_COMMON + [
             _brace_init("op_state_make", "op_state_make"), Members(["scheduler", "fallback_annotation"], optional=["scheduler", "fallback_annotation"])])},
         funcs=[TPS + ": thread_pool_scheduler::sender::connect(Receiver&&) const&"], min_obligations=2,
         doc="F: connect hands the sender's scheduler, the receiver and the fallback annotation to the operation state"),
]


# ---- C11 units reused: the per-OS-thread worker identity (thread_num_tss.cpp) -- which worker / pool a thread IS (C10: placement and
# ---- "runs on a worker of that pool" are stated in these numbers; C15: the global number indexes the affinity masks)
_c11 = {"UNITS": [], "VX_NO_REUSE": True}
if not globals().get("VX_NO_REUSE"):
    exec(compile(open("/verif/specs/C11/spec.py").read(), "/verif/specs/C11/spec.py", "exec"), _c11)
for _u in _c11["UNITS"]:
    # bulk.do_work_task (added after seeded change C10-9 was missed): the tasks bulk spawns carry the SCHEDULER's hint when it has one
    # (with_hint(sched, {thread, h}) | bulk: every chunk task is sent to worker h), the queue's worker only when it has none
    if _u.name.startswith("tss.") or _u.name == "bulk.do_work_task":
        _u.name = "c11." + _u.name
        _u.template = "../C11/" + _u.template
        UNITS.append(_u)
META["trusted_base"] = list(META.get("trusted_base", [])) + ["units c11.tss.* are the C11 units of the same name (specs/C11/tss.c)"]


# ---- C19 units reused (added after seeded change C10-8 was missed): the scheduling loop decides whether the policy may steal (pending and,
# ---- after idling for a while, STAGED tasks of other workers); with a static policy (enable_stealing cleared) it never may -- obligation
# ---- "steal flags passed to get_next_thread / wait_or_add_new imply the scheduler mode bit" of loop.iteration
_c19 = {"UNITS": [], "VX_NO_REUSE": True}
if not globals().get("VX_NO_REUSE"):
    exec(compile(open("/verif/specs/C19/spec.py").read(), "/verif/specs/C19/spec.py", "exec"), _c19)
for _u in _c19["UNITS"]:
    if _u.name in ("loop.prologue", "loop.iteration"):
        _u.name = "c19." + _u.name
        _u.template = "../C19/" + _u.template
        UNITS.append(_u)
META["trusted_base"] = list(META.get("trusted_base", [])) + ["units c19.loop.* are the C19 units of the same name (specs/C19/loop_iter.c) with their trusted base"]


# ---- C12 units reused: the placement request (schedule hint, priority, scheduler) of a STAGED task travels by value inside
# ---- thread_init_data (move constructor / move assignment out of the staged queues): it must arrive unchanged
_c12 = {"UNITS": [], "VX_NO_REUSE": True}
if not globals().get("VX_NO_REUSE"):
    exec(compile(open("/verif/specs/C12/spec.py").read(), "/verif/specs/C12/spec.py", "exec"), _c12)
for _u in _c12["UNITS"]:
    if _u.name.startswith("initdata."):
        _u.name = "c12." + _u.name
        _u.template = "../C12/" + _u.template
        UNITS.append(_u)
META["trusted_base"] = list(META.get("trusted_base", [])) + ["units c12.initdata.* are the C12 units of the same name (specs/C12/initdata.c)"]
