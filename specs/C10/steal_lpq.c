/* C10 (steal units) -- wait_or_add_new of local_priority_queue_scheduler (inherited unchanged by static_priority_queue_scheduler)
 * and of static_queue_scheduler: which queue's STAGED tasks become PENDING tasks of which queue.
 * T contracts over the queue stubs of steal_q.h.  Property sentence: "With a static (non-stealing) scheduling policy a
 * normal-priority task given a worker hint runs every one of its phases on exactly the hinted worker" -- a staged task sits in
 * the queue of the worker it was hinted to (lpq.create_thread); it may only become a pending task of that same worker. */
#include "steal_q.h"

#ifdef U_LPQ_WOAN
//@FUNC
bool wait_or_add_new(struct lpqs *self, size_t num_thread, bool running, int64_t *idle_loop_count, bool enable_stealing, size_t *added)
__CPROVER_requires(WF(self) && QUEUES_CLASSIFIED && STEAL_GHOST_ZERO && !g_use_v && num_thread < self->num_queues_ && num_thread == g_me && g_steal_allowed == enable_stealing)
/* the receiver of every conversion is one of the calling worker's own queues (own normal, own high, shared low) */
__CPROVER_ensures(g_dst_foreign == 0)
/* stealing disabled: no staged task of another worker's queue is touched */
__CPROVER_ensures(!enable_stealing ==> (g_src_foreign == 0 && !g_moved_foreign))
/* the worker's OWN staged tasks are converted whatever `running` says (C19: a worker that was told to suspend -- running == false --
 * still turns the tasks staged on its own queues into runnable ones; otherwise get_queue_length never reaches 0, the worker spins in
 * pre_sleep for ever and the staged tasks never run): one of its own queues is polled in every call */
__CPROVER_ensures(g_self_hp >= 1 || g_self_np >= 1 || g_self_lp >= 1 || g_own_cross >= 1)
__CPROVER_assigns(*added, STEAL_GHOSTS)
//@LIFT body
#endif

#ifdef U_SQ_WOAN
//@FUNC
bool wait_or_add_new(struct lpqs *self, size_t num_thread, bool running, int64_t *idle_loop_count, bool enable_stealing, size_t *added)
/* static_queue_scheduler: whatever the caller passes for enable_stealing, stealing is NOT allowed (g_steal_allowed == false) */
__CPROVER_requires(WF(self) && QUEUES_CLASSIFIED && STEAL_GHOST_ZERO && !g_use_v && num_thread < self->num_queues_ && num_thread == g_me && !g_steal_allowed)
__CPROVER_ensures(g_dst_foreign == 0 && g_src_foreign == 0 && !g_moved_foreign)
/* only this worker's own queue is converted */
__CPROVER_ensures(g_self_np == 1 && g_self_hp == 0 && g_self_lp == 0 && g_own_cross == 0)
__CPROVER_assigns(*added, STEAL_GHOSTS)
//@LIFT body
#endif

void harness(void)
{
  static struct lpqs s;
  s.curr_queue_ = nondet_size(); s.num_queues_ = nondet_size(); s.num_high_priority_queues_ = nondet_size(); s.mode_ = nondet_u32();
  steal_ghost_init();
  g_me = nondet_size(); g_nvictims = nondet_size(); g_got = false; g_own_np_staged = nondet_bool();
  size_t added = nondet_size(); int64_t idle = nondet_i64();
  bool steal = nondet_bool(), running = nondet_bool();
#ifdef U_SQ_WOAN
  g_steal_allowed = false;
#else
  g_steal_allowed = steal;
#endif
  bool r = wait_or_add_new(&s, g_me, running, &idle, steal, &added);
#ifdef U_LPQ_WOAN
  if (g_moved && !g_moved_foreign && added != 0) VX_REACH("own_staged_converted");
  if (g_moved_foreign && added != 0) VX_REACH("staged_stolen");
  if (!steal && !g_moved && running) VX_REACH("nothing_no_stealing");
  if (steal && !g_moved && g_src_foreign > 0) VX_REACH("nothing_after_stealing_attempts");
  if (!running && !g_moved && r) VX_REACH("not_running");
  if (g_self_lp > 0) VX_REACH("low_priority_queue_converted");
  if (g_self_hp > 0) VX_REACH("own_high_priority_converted");
#else
  if (g_moved) VX_REACH("own_staged_converted"); else VX_REACH("nothing");
  if (steal) VX_REACH("stealing_flag_ignored");
#endif
}
