/* C10 (steal units) -- shared_priority_queue_scheduler::get_next_thread / wait_or_add_new / just_add_new / set_scheduler_mode and
 * the four forwarding closures: a worker starts every search at ITS OWN queue holder (d_lookup_[me], q_lookup_[me]), converted
 * tasks go INTO that holder, and a stealing permission is handed to steal_by_function only if the scheduler mode grants it
 * (cached bits core_stealing_ / numa_stealing_, which set_scheduler_mode derives from enable_stealing / enable_stealing_numa).
 * (What steal_by_function and the holder sets do with them: units steal.shared.steal_by_function, steal.qhn.*.) */
#include "steal_spq.h"
size_t fast_mod(size_t const input, size_t const ceil)
//@LIFT fast_mod
typedef uint32_t scheduler_mode;
struct holder { int id; };
static struct holder g_own_holder, g_other_holder;
#define SAT_INC(c) do { if ((c) < 3) (c)++; } while (0)

/* the worker under contract is the symbolic worker g_w of the table model: its holder is (g_w_d, g_w_q) */
static struct holder *holder_at(struct sched *self, size_t d, size_t q)
{ HOLDER_INDEX_OK(self, d, q); return (d == g_w_d && q == g_w_q) ? &g_own_holder : &g_other_holder; }

static long g_sbf_calls; static bool g_bad_start, g_bad_flags, g_bad_receiver;
static long g_rec_calls;
static bool g_caller_steal;                  /* the enable_stealing argument of the function under contract */
static bool sbf_rec(struct sched *self, size_t domain, size_t q_index, bool steal_numa, bool steal_core, void *origin, void *varp, int opHP, int op, bool converting)
{
  SAT_INC(g_sbf_calls);
  if (domain != g_w_d || q_index != g_w_q) g_bad_start = true;
  /* a stealing permission is granted only if the scheduler mode grants it (cached bit, or the caller's enable_stealing, which
   * scheduling_loop reads from the same mode word) */
  if ((steal_core && !self->core_stealing_ && !g_caller_steal) || (steal_numa && !self->numa_stealing_)) g_bad_flags = true;
  if (converting ? origin != (void *) &g_own_holder : origin != NULL) g_bad_receiver = true;
  bool r = nondet_bool();
  if (converting && r) *(size_t *) varp += (size_t) 1 + (size_t) nondet_u8();     /* add_new[_HP] report the number converted in `added` */
  return r;
}
#define sbf(self, d, q, numa, core, origin, var, prefix, opHP, op) sbf_rec(self, d, q, numa, core, (void *) (origin), (void *) &(var), opHP, op, SBF_CONVERTING)
#define get_thread_count(self, ...) nondet_i64()
#define VX_CLOSURE(k) (k)

#ifndef U_CLOSURE
#ifndef U_SET_MODE
/* ---- just_add_new (lifted; also the callee of the two functions below) ---- */
#define SBF_CONVERTING true
//@FUNC
bool just_add_new(struct sched *self, size_t *added)
#ifdef U_WOAN
#endif
//@LIFT jan
#undef SBF_CONVERTING
#define SBF_CONVERTING false
static bool rec_get_next_thread(struct sched *self, size_t n, bool running, thread_id_ref *thrd, bool enable_stealing)
{ SAT_INC(g_rec_calls); return nondet_bool(); }   /* the recursive call: same function, same contract (partial-correctness induction) */

#define POLL_PRE(self) (LAYOUT_OK(self) && g_local_num < (self)->num_workers_ && g_local_num == g_w && g_sbf_calls == 0 && !g_bad_start && !g_bad_flags && !g_bad_receiver)
#define POLL_POST (!g_bad_start && !g_bad_flags && !g_bad_receiver)

#ifdef U_GET_NEXT
//@FUNC
bool get_next_thread(struct sched *self, size_t thread_num, bool running, thread_id_ref *thrd, bool enable_stealing)
__CPROVER_requires(POLL_PRE(self) && enable_stealing == g_caller_steal)
__CPROVER_ensures(POLL_POST)
__CPROVER_assigns(g_sbf_calls, g_bad_start, g_bad_flags, g_bad_receiver, g_rec_calls)
//@LIFT gnt
#endif
#ifdef U_WOAN
//@FUNC
bool wait_or_add_new(struct sched *self, size_t thread_num, bool running, int64_t *idle_loop_count, bool enable_stealing, size_t *added)
__CPROVER_requires(POLL_PRE(self) && enable_stealing == g_caller_steal)
__CPROVER_ensures(POLL_POST)
__CPROVER_assigns(*added, g_sbf_calls, g_bad_start, g_bad_flags, g_bad_receiver)
//@LIFT woan
#endif
#endif
#endif

#ifdef U_SET_MODE
static long g_stores, g_wakeups;
static void atomic_store_mode(uint32_t *p, uint32_t v) { *p = v; if (g_stores < 3) g_stores++; }
static uint32_t atomic_load_mode(uint32_t *p) { return *p; }
static void do_some_work(struct sched *self, size_t n) { if (g_wakeups < 3) g_wakeups++; }
void base_set_scheduler_mode(struct sched *self, scheduler_mode mode)
//@LIFT base_set
bool has_scheduler_mode(struct sched *self, scheduler_mode mode)
//@LIFT has_mode
//@FUNC
void set_scheduler_mode(struct sched *self, scheduler_mode mode)
/* the cached permissions are exactly the two stealing bits of the requested mode */
__CPROVER_ensures(self->core_stealing_ == ((mode & (scheduler_mode) scheduler_mode_enable_stealing) != 0))
__CPROVER_ensures(self->numa_stealing_ == ((mode & (scheduler_mode) scheduler_mode_enable_stealing_numa) != 0))
__CPROVER_ensures(self->mode_ == mode)
__CPROVER_assigns(self->mode_, self->round_robin_, self->steal_hp_first_, self->core_stealing_, self->numa_stealing_, g_stores, g_wakeups)
//@LIFT set_mode
#endif

#ifdef U_CLOSURE
/* ---- one of the four closures handed to steal_by_function:
 * [&](domain, q_index, receiver, var, stealing, allow_stealing) { return numa_holder_[domain].OP(...); } ---- */
static long g_fw; static size_t g_fw_d, g_fw_q; static void *g_fw_recv; static bool g_fw_stealing, g_fw_allow;
static bool qhn_fw(struct sched *self, size_t d, void *receiver, size_t q, bool stealing, bool allow)
{ VX_ASSERT(d < self->num_domains_, "numa_holder_[d]: an initialised domain"); SAT_INC(g_fw); g_fw_d = d; g_fw_q = q; g_fw_recv = receiver; g_fw_stealing = stealing; g_fw_allow = allow; return nondet_bool(); }
#define qhn_get_next_thread_HP(self, d, q, thrd, st, al) qhn_fw(self, d, NULL, q, st, al)
#define qhn_get_next_thread(self, d, q, thrd, st, al) qhn_fw(self, d, NULL, q, st, al)
#define qhn_add_new_HP(self, d, recv, q, added, st, al) qhn_fw(self, d, recv, q, st, al)
#define qhn_add_new(self, d, recv, q, added, st, al) qhn_fw(self, d, recv, q, st, al)
//@FUNC
bool closure(struct sched *self, size_t domain, size_t q_index, struct holder *receiver, void *CLOSURE_VAR, bool stealing, bool allow_stealing)
__CPROVER_requires(domain < self->num_domains_ && g_fw == 0)
/* forwards once to the holder set of the SAME domain with the same queue index, receiver and permissions */
__CPROVER_ensures(g_fw == 1 && g_fw_d == domain && g_fw_q == q_index && g_fw_stealing == stealing && g_fw_allow == allow_stealing)
__CPROVER_ensures(CLOSURE_CONVERTS ==> g_fw_recv == (void *) receiver)
__CPROVER_assigns(g_fw, g_fw_d, g_fw_q, g_fw_recv, g_fw_stealing, g_fw_allow)
//@LIFT closure
#endif

void harness(void)
{
  static struct sched s; thread_id_ref t = 0;
  vx_exc = 0; vx_caught = 0; g_puts = 0; g_incr = 0; g_put_d = g_put_q = 0;
  s.num_workers_ = nondet_size(); s.num_domains_ = nondet_size(); s.round_robin_ = nondet_bool(); s.lookup_size = nondet_size(); s.mode_ = nondet_u32();
  s.steal_hp_first_ = nondet_bool(); s.core_stealing_ = nondet_bool(); s.numa_stealing_ = nondet_bool();
  g_local_num = nondet_size();
  g_d = nondet_size(); g_d_off = nondet_size(); g_d_cnt = nondet_size(); g_w = nondet_size(); g_w_d = nondet_size(); g_w_q = nondet_size();
  g_o_off = nondet_size(); g_o_cnt = nondet_size();
  g_own_holder.id = 1; g_other_holder.id = 2;
  g_sbf_calls = 0; g_bad_start = g_bad_flags = g_bad_receiver = false; g_rec_calls = 0;
#ifdef U_GET_NEXT
  g_caller_steal = nondet_bool();
  bool r = get_next_thread(&s, nondet_size(), nondet_bool(), &t, g_caller_steal);
  if (r && g_sbf_calls == 1) VX_REACH("task_found");
  if (!r) VX_REACH("nothing");
  if (g_rec_calls == 1) VX_REACH("converted_staged_then_retried");
  if (!s.core_stealing_) VX_REACH("stealing_off");
#endif
#ifdef U_WOAN
  size_t added = nondet_size(); int64_t idle = nondet_i64();
  g_caller_steal = nondet_bool();
  bool r = wait_or_add_new(&s, nondet_size(), nondet_bool(), &idle, g_caller_steal, &added);
  if (r) VX_REACH("nothing_converted"); else VX_REACH("converted");
  if (!s.core_stealing_) VX_REACH("stealing_off");
#endif
#ifdef U_SET_MODE
  g_stores = g_wakeups = 0;
  scheduler_mode m = nondet_u32();
  set_scheduler_mode(&s, m);
  if (s.core_stealing_) VX_REACH("core_stealing_on"); else VX_REACH("core_stealing_off");
  if (s.numa_stealing_ && !s.core_stealing_) VX_REACH("numa_bit_without_core_bit");
#endif
#ifdef U_CLOSURE
  static struct holder recv; int var_obj = 0;
  g_fw = 0; g_fw_d = g_fw_q = 0; g_fw_recv = NULL; g_fw_stealing = g_fw_allow = false;
  bool r = closure(&s, nondet_size(), nondet_size(), &recv, &var_obj, nondet_bool(), nondet_bool());
  if (r) VX_REACH("true"); else VX_REACH("false");
#endif
}
