/* C10 -- thread_pool_scheduler: execute / operation_state::start / the task closure / register_work
 * (T contracts: ghost call counters + argument records; lowered try_catch_exception_ptr) */
#include "c10.h"

struct pool { int id; };
struct tps {                              /* thread_pool_scheduler */
  struct pool *pool_;
  int8_t priority_;                       /* execution::thread_priority */
  int8_t stacksize_;                      /* execution::thread_stacksize */
  struct hint schedulehint_;
  const char *annotation_;
};
/* threads::detail::thread_init_data as far as this property looks at it.  init_data_make mirrors the parameter order of
 * the constructor thread_init_data(F&& f, desc, priority, os_thread, stacksize, ...) (trusted: mem-initialiser list) */
struct init_data { struct closure func; int8_t priority; struct hint schedulehint; int8_t stacksize; bool run_now; };
static struct init_data init_data_make(struct closure f, int8_t priority, struct hint h, int8_t stacksize)
{ struct init_data d; d.func = f; d.priority = priority; d.schedulehint = h; d.stacksize = stacksize; d.run_now = false; return d; }

struct op_state { struct tps scheduler; struct receiver receiver; const char *fallback_annotation; };

/* ---- ghost trace of the registration ---- */
static long g_register;                   /* calls of register_work / pool->create_work */
static struct init_data g_reg_data;       /* the thread_init_data it was given */
static struct pool *g_reg_pool;           /* the pool it was given */
static bool g_reg_threw;                  /* registration threw (pool not running, allocation failure, ...) */
static int g_reg_exc_tok;                 /* token of that exception (!= 0) */

#if defined(U_EXECUTE) || defined(U_START)
/* T-stub for threads::detail::register_work(data, pool): records its arguments; NEVER runs the closure (the real function
 * only enqueues a task description; running it is the scheduling loop's business, C01); may throw. */
static void register_work(struct init_data *data, struct pool *pool)
{
  VX_ASSERT(vx_exc == 0, "no call while an exception is propagating");
  g_register++; g_reg_data = *data; g_reg_pool = pool;
  if (nondet_bool()) { g_reg_threw = true; vx_exc = g_reg_exc_tok; }
}

//@FUNC
void execute(struct tps *self, struct closure f, const char *fallback_annotation)
__CPROVER_requires(g_register == 0 && vx_exc == 0 && g_closure_calls == 0 && !g_reg_threw && g_reg_exc_tok != 0)
/* exactly one registration, on THIS scheduler's pool, with this scheduler's priority / hint / stack size, of this callable */
__CPROVER_ensures(g_register == 1 && g_reg_pool == self->pool_)
__CPROVER_ensures(g_reg_data.priority == self->priority_ && HINT_EQ(g_reg_data.schedulehint, self->schedulehint_) && g_reg_data.stacksize == self->stacksize_)
__CPROVER_ensures(CLOSURE_EQ(g_reg_data.func, f))
/* the callable is never run inside the submitting call */
__CPROVER_ensures(g_closure_calls == 0)
/* a failing registration is reported to the caller (and only that) */
__CPROVER_ensures(g_reg_threw ? vx_exc == g_reg_exc_tok : vx_exc == 0)
__CPROVER_assigns(g_register, g_reg_data, g_reg_pool, g_reg_threw, vx_exc, g_closure_calls)
//@LIFT execute
#endif

#ifdef U_START
#define VX_CLOSURE(k, self) closure_of(k, self)
static struct closure closure_of(int k, void *env) { struct closure c; c.kind = CL_START_TASK; c.env = env; return c; }
//@FUNC
void start(struct op_state *self)
__CPROVER_requires(g_register == 0 && vx_exc == 0 && g_closure_calls == 0 && !g_reg_threw && g_reg_exc_tok != 0 && NO_SIGNAL_YET)
/* never inside the call that submitted it */
__CPROVER_ensures(g_set_value == 0 && g_set_stopped == 0 && g_closure_calls == 0)
/* one registration on the pool of THIS operation state's scheduler, with its priority / hint / stack size ... */
__CPROVER_ensures(g_register == 1 && g_reg_pool == self->scheduler.pool_)
__CPROVER_ensures(g_reg_data.priority == self->scheduler.priority_ && HINT_EQ(g_reg_data.schedulehint, self->scheduler.schedulehint_) && g_reg_data.stacksize == self->scheduler.stacksize_)
/* ... of the closure whose body is set_value(receiver of this operation state) (see unit tps.start.task_body) */
__CPROVER_ensures(g_reg_data.func.kind == CL_START_TASK && g_reg_data.func.env == (void *) self)
/* an exception from registration becomes exactly one set_error on this receiver, carrying that exception; nothing escapes (noexcept) */
__CPROVER_ensures(g_set_error == (g_reg_threw ? 1 : 0) && vx_exc == 0)
__CPROVER_ensures(g_reg_threw ==> (g_sig_recv == &self->receiver && g_error_tok == g_reg_exc_tok))
__CPROVER_assigns(g_register, g_reg_data, g_reg_pool, g_reg_threw, vx_exc, vx_caught, g_closure_calls, g_set_error, g_sig_recv, g_error_tok)
//@LIFT start
#endif

#ifdef U_TASK_BODY
/* the closure handed to scheduler.execute by start(): `[&]() mutable { set_value(std::move(receiver)); }` */
//@FUNC
void task_body(struct op_state *self)
__CPROVER_requires(NO_SIGNAL_YET)
__CPROVER_ensures(g_set_value == 1 && g_sig_recv == &self->receiver && g_set_error == 0 && g_set_stopped == 0)
__CPROVER_assigns(g_set_value, g_sig_recv)
//@LIFT task
#endif

#ifdef U_REGISTER_WORK
/* threads::detail::register_work(thread_init_data&, thread_pool_base*, error_code&) */
static long g_create_work; static struct pool *g_cw_pool; static struct init_data *g_cw_data; static bool g_cw_run_now;
static struct pool g_default_pool;
static struct pool *get_self_or_default_pool(void) { return &g_default_pool; }
static int pool_create_work(struct pool *p, struct init_data *d)
{
  g_create_work++; g_cw_pool = p; g_cw_data = d; g_cw_run_now = d->run_now;
  if (nondet_bool()) { g_reg_threw = true; vx_exc = g_reg_exc_tok; return 0; }
  return nondet_int();
}
//@FUNC
int register_work_impl(struct init_data *data, struct pool *pool)
__CPROVER_requires(g_create_work == 0 && vx_exc == 0 && !g_reg_threw && g_reg_exc_tok != 0 && pool != NULL)
/* forwards exactly once to create_work of the pool it was given, with the caller's init data (as work: run_now == false) */
__CPROVER_ensures(g_create_work == 1 && g_cw_pool == pool && g_cw_data == data && !g_cw_run_now)
/* the placement request is handed on unchanged */
__CPROVER_ensures(HINT_EQ(data->schedulehint, __CPROVER_old(data->schedulehint)) && data->priority == __CPROVER_old(data->priority) && CLOSURE_EQ(data->func, __CPROVER_old(data->func)))
__CPROVER_assigns(g_create_work, g_cw_pool, g_cw_data, g_cw_run_now, g_reg_threw, vx_exc, data->run_now)
//@LIFT register_work
#endif

#ifdef U_TCEP
/* pika::detail::try_catch_exception_ptr(t, c) -- justifies the lowering used for start():  t() once; c(ep) iff t threw */
static long g_t_calls, g_c_calls; static bool g_t_threw; static int g_t_exc; static vx_eptr g_c_arg;
static void call_t(void) { VX_ASSERT(g_c_calls == 0, "t before c"); g_t_calls++; if (nondet_bool()) { g_t_threw = true; vx_exc = g_t_exc; } }
static void call_c(vx_eptr e) { VX_ASSERT(vx_exc == 0, "c runs outside the catch block, nothing in flight"); g_c_calls++; g_c_arg = e; }
//@FUNC
void try_catch_exception_ptr(void)
__CPROVER_requires(g_t_calls == 0 && g_c_calls == 0 && !g_t_threw && vx_exc == 0 && g_t_exc != 0)
__CPROVER_ensures(g_t_calls == 1 && g_c_calls == (g_t_threw ? 1 : 0) && vx_exc == 0)
__CPROVER_ensures(g_t_threw ==> g_c_arg == g_t_exc)
__CPROVER_assigns(g_t_calls, g_c_calls, g_t_threw, vx_exc, vx_caught, g_c_arg)
//@LIFT tcep
#endif

#if defined(U_WITH_PRIORITY) || defined(U_WITH_STACKSIZE) || defined(U_WITH_HINT)
/* with_priority / with_stacksize / with_hint: the returned scheduler still targets the SAME pool; only the named property changes */
#define SAME_EXCEPT(r, s, keep_prio, keep_stack, keep_hint) ((r).pool_ == (s)->pool_ && \
  VX_IMPLIES(keep_prio, (r).priority_ == (s)->priority_) && VX_IMPLIES(keep_stack, (r).stacksize_ == (s)->stacksize_) && \
  VX_IMPLIES(keep_hint, HINT_EQ((r).schedulehint_, (s)->schedulehint_)))
#ifdef U_WITH_PRIORITY
//@FUNC
struct tps with_prop(struct tps *scheduler, int8_t priority)
__CPROVER_ensures(SAME_EXCEPT(__CPROVER_return_value, scheduler, 0, 1, 1) && __CPROVER_return_value.priority_ == priority)
__CPROVER_assigns()
//@LIFT with
#endif
#ifdef U_WITH_STACKSIZE
//@FUNC
struct tps with_prop(struct tps *scheduler, int8_t stacksize)
__CPROVER_ensures(SAME_EXCEPT(__CPROVER_return_value, scheduler, 1, 0, 1) && __CPROVER_return_value.stacksize_ == stacksize)
__CPROVER_assigns()
//@LIFT with
#endif
#ifdef U_WITH_HINT
//@FUNC
struct tps with_hint(struct tps *scheduler, struct hint hint)
__CPROVER_ensures(SAME_EXCEPT(__CPROVER_return_value, scheduler, 1, 1, 0) && HINT_EQ(__CPROVER_return_value.schedulehint_, hint))
__CPROVER_assigns()
//@LIFT with
#endif
#endif

void harness(void)
{
  static struct pool pool_a, pool_b;
  static struct op_state op;
  vx_exc = 0; vx_caught = 0; g_closure_calls = 0;
  g_set_value = g_set_error = g_set_stopped = 0; g_sig_recv = NULL; g_error_tok = 0;
  g_register = 0; g_reg_pool = NULL; g_reg_threw = false; g_reg_exc_tok = nondet_int();
  g_reg_data.func.kind = 0; g_reg_data.func.env = NULL; g_reg_data.priority = 0; g_reg_data.stacksize = 0;
  g_reg_data.schedulehint.hint = 0; g_reg_data.schedulehint.mode = 0; g_reg_data.run_now = false;
  if (g_reg_exc_tok == 0) g_reg_exc_tok = 1;   /* an exception token is never the 'no exception' value */
  op.scheduler.pool_ = nondet_bool() ? &pool_a : &pool_b;
  op.scheduler.priority_ = nondet_i8();
  op.scheduler.stacksize_ = nondet_i8();
  op.scheduler.schedulehint_.hint = nondet_i16();
  op.scheduler.schedulehint_.mode = nondet_i8();
  op.scheduler.annotation_ = NULL;
  op.receiver.id = nondet_int();
  op.fallback_annotation = "x";
#ifdef U_EXECUTE
  struct closure f; f.kind = CL_USER; f.env = &pool_b;
  execute(&op.scheduler, f, "x");
  if (g_reg_threw) VX_REACH("registration_threw"); else VX_REACH("registered");
  if (g_reg_pool == &pool_a) VX_REACH("pool_a"); else VX_REACH("pool_b");
#endif
#ifdef U_START
  start(&op);
  if (g_set_error) VX_REACH("registration_failed_set_error"); else VX_REACH("registered_no_signal");
#endif
#ifdef U_TASK_BODY
  task_body(&op);
  VX_REACH("value_signalled");
#endif
#ifdef U_REGISTER_WORK
  struct init_data d;
  d.func.kind = CL_USER; d.func.env = &pool_b; d.priority = nondet_i8(); d.stacksize = nondet_i8();
  d.schedulehint.hint = nondet_i16(); d.schedulehint.mode = nondet_i8(); d.run_now = nondet_bool();
  g_create_work = 0; g_cw_pool = NULL; g_cw_data = NULL; g_cw_run_now = true;
  int id = register_work_impl(&d, op.scheduler.pool_);
  if (g_reg_threw) VX_REACH("create_work_threw"); else VX_REACH("created");
#endif
#if defined(U_WITH_PRIORITY) || defined(U_WITH_STACKSIZE)
  struct tps r = with_prop(&op.scheduler, nondet_i8());
  if (r.pool_ == &pool_a) VX_REACH("pool_a_kept"); else VX_REACH("pool_b_kept");
#endif
#ifdef U_WITH_HINT
  struct hint h; h.hint = nondet_i16(); h.mode = nondet_i8();
  struct tps r = with_hint(&op.scheduler, h);
  if (r.pool_ == &pool_a) VX_REACH("pool_a_kept"); else VX_REACH("pool_b_kept");
#endif
#ifdef U_TCEP
  g_t_calls = g_c_calls = 0; g_t_threw = false; g_t_exc = g_reg_exc_tok; g_c_arg = 0;
  try_catch_exception_ptr();
  if (g_t_threw) VX_REACH("t_threw_c_called"); else VX_REACH("t_returned");
#endif
}
